import ArgoVerif.Core.LTS
/-
Model.SyncLifo — `ABTI_sync_lifo` (src/include/abti_sync_lifo.h), the lock-free LIFO under the
global memory pool (`bucket_lifo`, `mem_page_lifo` in src/mem/mem_pool.c).

This build takes the `#if ABTD_ATOMIC_SUPPORT_TAGGED_PTR` branch (x86-64 with 128-bit CAS): the
top of the stack is a pair `(p_top, tag)` that is read by one 128-bit load and replaced by one
128-bit *weak* compare-and-swap.

    push(e):  loop { (cur_top, cur_tag) = load(top);            -- pushLoad
                     e->p_next = cur_top;                        -- pushStoreNext
                     if CAS(top, (cur_top,cur_tag) -> (e, cur_tag+1)) return; }   -- pushCasOk / pushCasFail
    pop():    loop { (cur_top, cur_tag) = load(top);            -- popLoad / popLoadNull
                     if (cur_top == NULL) return NULL;
                     p_next = cur_top->p_next;                   -- popReadNext
                     if CAS(top, (cur_top,cur_tag) -> (p_next, cur_tag+1)) return cur_top; } -- popCasOk / popCasFail

The model is an interleaving labelled transition system whose steps are exactly these atomic
primitives, for any number of threads (`Tid = Nat`) and any elements (`Elem = Nat`).  A weak CAS
may fail spuriously, so `…CasFail` is enabled whenever the thread is at its CAS.

*Assumption (tag does not wrap).*  `tag : Nat` is unbounded.  The real tag is a 64-bit `size_t`
that wraps after 2^64 successful updates of one lifo; the no-ABA argument needs that a thread does
not sleep between its load and its CAS for exactly a multiple of 2^64 updates.

*Ownership.*  `owner e = some t` says that thread `t` holds element `e` privately: it obtained it
from the allocator (`acquire`), or popped it (from the instant its pop CAS succeeded), and keeps it
until it gives it back (`release`) or its push CAS succeeds.  An owner may overwrite the `p_next`
word of its element with anything (`scribble`): the memory pool does that — `lifo_elem` shares a
union with the header's `p_next`/`num_headers`, which are written as soon as a bucket is popped.
Another thread that loaded the same top earlier then reads garbage in `popReadNext`; this, and the
re-push of a popped element, are the ABA hazard the tag protects against, and both ARE behaviours
of this model.

Ghost state (not in the C code): `stk`, `owner`, `log`.  No step of `push`/`pop` itself reads
it; it is only consulted by the caller obligations of the environment events (`pushCall`,
`pushUnsafe`, `scribble`, `release` require `owner e = some t`: you may only push or write an
element you hold; `acquire` hands out an element that is neither linked nor held).
-/
namespace ArgoVerif.Model.SyncLifo
open ArgoVerif

abbrev Tid := Nat
abbrev Elem := Nat

/-- program counter of one thread inside `ABTI_sync_lifo_push` / `_pop`, with its locals -/
inductive Pc where
  | idle
  /-- in `push(e)`, at the top of the loop (before the load) -/
  | pushStart (e : Elem)
  /-- in `push(e)`, after the load of `(cur_top, cur_tag)` -/
  | pushLoaded (e : Elem) (curTop : Option Elem) (curTag : Nat)
  /-- in `push(e)`, after `e->p_next = cur_top`, at the CAS -/
  | pushStored (e : Elem) (curTop : Option Elem) (curTag : Nat)
  /-- in `pop()`, at the top of the loop -/
  | popStart
  /-- in `pop()`, after the load of a non-NULL `(cur_top, cur_tag)` -/
  | popLoaded (curTop : Elem) (curTag : Nat)
  /-- in `pop()`, after `p_next = cur_top->p_next`, at the CAS -/
  | popRead (curTop : Elem) (curTag : Nat) (nxt : Option Elem)
  deriving DecidableEq, Repr

/-- the element a thread is in the middle of pushing -/
def Pc.pushing : Pc → Option Elem
  | .pushStart e | .pushLoaded e _ _ | .pushStored e _ _ => some e
  | _ => none

/-- the tag a thread loaded and will present to its CAS -/
def Pc.loadedTag : Pc → Option Nat
  | .pushLoaded _ _ g | .pushStored _ _ g | .popLoaded _ g | .popRead _ g _ => some g
  | _ => none

/-- a completed operation with its response, as the sequential specification sees it -/
inductive LinOp where
  | push (e : Elem)
  | pop (r : Option Elem)
  deriving DecidableEq, Repr

structure St where
  /-- `p_lifo->p_top` pointer half (`none` = NULL) -/
  top : Option Elem
  /-- `p_lifo->p_top` tag half -/
  tag : Nat
  /-- `e->p_next` of every element -/
  next : Elem → Option Elem
  pc : Tid → Pc
  /-- ghost: the abstract stack, top first -/
  stk : List Elem
  /-- ghost: private owner of an element -/
  owner : Elem → Option Tid
  /-- ghost: linearization log, oldest first -/
  log : List LinOp

/-- `ABTI_sync_lifo_init`: `(NULL, 0)`; nobody is inside an operation; nothing allocated -/
def init : St :=
  { top := none, tag := 0, next := fun _ => none, pc := fun _ => .idle,
    stk := [], owner := fun _ => none, log := [] }

inductive Ev where
  /-- environment: `t` obtains element `e` from the allocator -/
  | acquire (t : Tid) (e : Elem)
  /-- environment: `t` gives `e` back to the allocator -/
  | release (t : Tid) (e : Elem)
  /-- environment: owner `t` overwrites `e->p_next` with `v` -/
  | scribble (t : Tid) (e : Elem) (v : Option Elem)
  | pushCall (t : Tid) (e : Elem)
  | pushLoad (t : Tid)
  | pushStoreNext (t : Tid)
  /-- successful CAS of `push(e)`; push returns -/
  | pushCasOk (t : Tid) (e : Elem)
  | pushCasFail (t : Tid)
  | popCall (t : Tid)
  /-- load of a non-NULL top -/
  | popLoad (t : Tid)
  /-- load of a NULL top; pop returns NULL -/
  | popLoadNull (t : Tid)
  | popReadNext (t : Tid)
  /-- successful CAS of `pop()`; pop returns `c` -/
  | popCasOk (t : Tid) (c : Elem)
  | popCasFail (t : Tid)
  /-- `ABTI_sync_lifo_push_unsafe(e)` as one step -/
  | pushUnsafe (t : Tid) (e : Elem)
  /-- `ABTI_sync_lifo_pop_unsafe()` as one step, returning `r` -/
  | popUnsafe (t : Tid) (r : Option Elem)
  deriving DecidableEq, Repr

/-- the transition relation.  One constructor per atomic primitive (and per outcome).

`pushUnsafe`/`popUnsafe`: the C functions are three plain accesses (load, `p_next` store or load,
store of `(ptr, tag+1)`); they are only correct when the caller guarantees that no other thread is
inside an operation on the same lifo (`ABTI_mem_pool_destroy_global_pool` is the only user).  Under
that obligation the three accesses are indistinguishable from this single step.  The step itself
does not demand quiescence, so the theorems cover a superset of the legal behaviours. -/
inductive Step : St → Ev → St → Prop where
  | acquire (s : St) (t : Tid) (e : Elem) : s.owner e = none → e ∉ s.stk →
      Step s (.acquire t e) { s with owner := upd s.owner e (some t) }
  | release (s : St) (t : Tid) (e : Elem) : s.pc t = .idle → s.owner e = some t →
      Step s (.release t e) { s with owner := upd s.owner e none }
  | scribble (s : St) (t : Tid) (e : Elem) (v : Option Elem) : s.pc t = .idle → s.owner e = some t →
      Step s (.scribble t e v) { s with next := upd s.next e v }
  | pushCall (s : St) (t : Tid) (e : Elem) : s.pc t = .idle → s.owner e = some t →
      Step s (.pushCall t e) { s with pc := upd s.pc t (.pushStart e) }
  | pushLoad (s : St) (t : Tid) (e : Elem) : s.pc t = .pushStart e →
      Step s (.pushLoad t) { s with pc := upd s.pc t (.pushLoaded e s.top s.tag) }
  | pushStoreNext (s : St) (t : Tid) (e : Elem) (ct : Option Elem) (cg : Nat) :
      s.pc t = .pushLoaded e ct cg →
      Step s (.pushStoreNext t) { s with next := upd s.next e ct, pc := upd s.pc t (.pushStored e ct cg) }
  | pushCasOk (s : St) (t : Tid) (e : Elem) (ct : Option Elem) (cg : Nat) :
      s.pc t = .pushStored e ct cg → s.top = ct → s.tag = cg →
      Step s (.pushCasOk t e)
        { s with top := some e, tag := cg + 1, pc := upd s.pc t .idle,
                 stk := e :: s.stk, owner := upd s.owner e none, log := s.log ++ [.push e] }
  | pushCasFail (s : St) (t : Tid) (e : Elem) (ct : Option Elem) (cg : Nat) :
      s.pc t = .pushStored e ct cg →
      Step s (.pushCasFail t) { s with pc := upd s.pc t (.pushStart e) }
  | popCall (s : St) (t : Tid) : s.pc t = .idle →
      Step s (.popCall t) { s with pc := upd s.pc t .popStart }
  | popLoad (s : St) (t : Tid) (c : Elem) : s.pc t = .popStart → s.top = some c →
      Step s (.popLoad t) { s with pc := upd s.pc t (.popLoaded c s.tag) }
  | popLoadNull (s : St) (t : Tid) : s.pc t = .popStart → s.top = none →
      Step s (.popLoadNull t) { s with pc := upd s.pc t .idle, log := s.log ++ [.pop none] }
  | popReadNext (s : St) (t : Tid) (c : Elem) (cg : Nat) : s.pc t = .popLoaded c cg →
      Step s (.popReadNext t) { s with pc := upd s.pc t (.popRead c cg (s.next c)) }
  | popCasOk (s : St) (t : Tid) (c : Elem) (cg : Nat) (n : Option Elem) :
      s.pc t = .popRead c cg n → s.top = some c → s.tag = cg →
      Step s (.popCasOk t c)
        { s with top := n, tag := cg + 1, pc := upd s.pc t .idle,
                 stk := s.stk.tail, owner := upd s.owner c (some t), log := s.log ++ [.pop (some c)] }
  | popCasFail (s : St) (t : Tid) (c : Elem) (cg : Nat) (n : Option Elem) :
      s.pc t = .popRead c cg n →
      Step s (.popCasFail t) { s with pc := upd s.pc t .popStart }
  | pushUnsafe (s : St) (t : Tid) (e : Elem) : s.pc t = .idle → s.owner e = some t →
      Step s (.pushUnsafe t e)
        { s with next := upd s.next e s.top, top := some e, tag := s.tag + 1,
                 stk := e :: s.stk, owner := upd s.owner e none, log := s.log ++ [.push e] }
  | popUnsafeNull (s : St) (t : Tid) : s.pc t = .idle → s.top = none →
      Step s (.popUnsafe t none) { s with log := s.log ++ [.pop none] }
  | popUnsafeOk (s : St) (t : Tid) (c : Elem) : s.pc t = .idle → s.top = some c →
      Step s (.popUnsafe t (some c))
        { s with top := s.next c, tag := s.tag + 1,
                 stk := s.stk.tail, owner := upd s.owner c (some t), log := s.log ++ [.pop (some c)] }

/-! ### executable step -/

/-- executable version of `Step` (a driver replays recorded traces through it) -/
def step (s : St) : Ev → Option St
  | .acquire t e =>
    if s.owner e = none ∧ e ∉ s.stk then some { s with owner := upd s.owner e (some t) } else none
  | .release t e =>
    if s.pc t = .idle ∧ s.owner e = some t then some { s with owner := upd s.owner e none } else none
  | .scribble t e v =>
    if s.pc t = .idle ∧ s.owner e = some t then some { s with next := upd s.next e v } else none
  | .pushCall t e =>
    if s.pc t = .idle ∧ s.owner e = some t then some { s with pc := upd s.pc t (.pushStart e) } else none
  | .pushLoad t =>
    match s.pc t with
    | .pushStart e => some { s with pc := upd s.pc t (.pushLoaded e s.top s.tag) }
    | _ => none
  | .pushStoreNext t =>
    match s.pc t with
    | .pushLoaded e ct cg => some { s with next := upd s.next e ct, pc := upd s.pc t (.pushStored e ct cg) }
    | _ => none
  | .pushCasOk t e =>
    match s.pc t with
    | .pushStored e' ct cg =>
      if e' = e ∧ s.top = ct ∧ s.tag = cg then
        some { s with top := some e, tag := cg + 1, pc := upd s.pc t .idle,
                      stk := e :: s.stk, owner := upd s.owner e none, log := s.log ++ [.push e] }
      else none
    | _ => none
  | .pushCasFail t =>
    match s.pc t with
    | .pushStored e _ _ => some { s with pc := upd s.pc t (.pushStart e) }
    | _ => none
  | .popCall t =>
    if s.pc t = .idle then some { s with pc := upd s.pc t .popStart } else none
  | .popLoad t =>
    match s.pc t, s.top with
    | .popStart, some c => some { s with pc := upd s.pc t (.popLoaded c s.tag) }
    | _, _ => none
  | .popLoadNull t =>
    match s.pc t, s.top with
    | .popStart, none => some { s with pc := upd s.pc t .idle, log := s.log ++ [.pop none] }
    | _, _ => none
  | .popReadNext t =>
    match s.pc t with
    | .popLoaded c cg => some { s with pc := upd s.pc t (.popRead c cg (s.next c)) }
    | _ => none
  | .popCasOk t c =>
    match s.pc t with
    | .popRead c' cg n =>
      if c' = c ∧ s.top = some c ∧ s.tag = cg then
        some { s with top := n, tag := cg + 1, pc := upd s.pc t .idle,
                      stk := s.stk.tail, owner := upd s.owner c (some t),
                      log := s.log ++ [.pop (some c)] }
      else none
    | _ => none
  | .popCasFail t =>
    match s.pc t with
    | .popRead _ _ _ => some { s with pc := upd s.pc t .popStart }
    | _ => none
  | .pushUnsafe t e =>
    if s.pc t = .idle ∧ s.owner e = some t then
      some { s with next := upd s.next e s.top, top := some e, tag := s.tag + 1,
                    stk := e :: s.stk, owner := upd s.owner e none, log := s.log ++ [.push e] }
    else none
  | .popUnsafe t r =>
    if s.pc t = .idle ∧ s.top = r then
      match r with
      | none => some { s with log := s.log ++ [.pop none] }
      | some c =>
        some { s with top := s.next c, tag := s.tag + 1,
                      stk := s.stk.tail, owner := upd s.owner c (some t),
                      log := s.log ++ [.pop (some c)] }
    else none

/-- the model as a `Machine` (for `Machine.run` and the trace-replay driver) -/
def machine : Machine St Ev := { init := init, step := step }

/-- the executable step only takes transitions of the relation: every trace the driver accepts
is a behaviour covered by the theorems -/
theorem step_sound {s : St} {e : Ev} {s' : St} (h : step s e = some s') : Step s e s' := by
  cases e with
  | acquire t e =>
    simp only [step] at h
    split at h
    · rename_i hc; cases h; exact .acquire s t e hc.1 hc.2
    · cases h
  | release t e =>
    simp only [step] at h
    split at h
    · rename_i hc; cases h; exact .release s t e hc.1 hc.2
    · cases h
  | scribble t e v =>
    simp only [step] at h
    split at h
    · rename_i hc; cases h; exact .scribble s t e v hc.1 hc.2
    · cases h
  | pushCall t e =>
    simp only [step] at h
    split at h
    · rename_i hc; cases h; exact .pushCall s t e hc.1 hc.2
    · cases h
  | pushLoad t =>
    simp only [step] at h
    split at h
    · rename_i e hc; cases h; exact .pushLoad s t e hc
    · cases h
  | pushStoreNext t =>
    simp only [step] at h
    split at h
    · rename_i e ct cg hc; cases h; exact .pushStoreNext s t e ct cg hc
    · cases h
  | pushCasOk t e =>
    simp only [step] at h
    split at h
    · rename_i e' ct cg hc
      split at h
      · rename_i hd
        obtain ⟨rfl, h1, h2⟩ := hd
        cases h; exact .pushCasOk s t _ ct cg hc h1 h2
      · cases h
    · cases h
  | pushCasFail t =>
    simp only [step] at h
    split at h
    · rename_i e ct cg hc; cases h; exact .pushCasFail s t e ct cg hc
    · cases h
  | popCall t =>
    simp only [step] at h
    split at h
    · rename_i hc; cases h; exact .popCall s t hc
    · cases h
  | popLoad t =>
    simp only [step] at h
    split at h
    · rename_i c hc ht; cases h; exact .popLoad s t c hc ht
    · cases h
  | popLoadNull t =>
    simp only [step] at h
    split at h
    · rename_i hc ht; cases h; exact .popLoadNull s t hc ht
    · cases h
  | popReadNext t =>
    simp only [step] at h
    split at h
    · rename_i c cg hc; cases h; exact .popReadNext s t c cg hc
    · cases h
  | popCasOk t c =>
    simp only [step] at h
    split at h
    · rename_i c' cg n hc
      split at h
      · rename_i hd
        obtain ⟨rfl, h1, h2⟩ := hd
        cases h; exact .popCasOk s t _ cg n hc h1 h2
      · cases h
    · cases h
  | popCasFail t =>
    simp only [step] at h
    split at h
    · rename_i c cg n hc; cases h; exact .popCasFail s t c cg n hc
    · cases h
  | pushUnsafe t e =>
    simp only [step] at h
    split at h
    · rename_i hc; cases h; exact .pushUnsafe s t e hc.1 hc.2
    · cases h
  | popUnsafe t r =>
    simp only [step] at h
    split at h
    · rename_i hc
      cases r with
      | none => simp only at h; cases h; exact .popUnsafeNull s t hc.1 hc.2
      | some c => simp only at h; cases h; exact .popUnsafeOk s t c hc.1 hc.2
    · cases h

/-- … and it takes all of them: an event is rejected (`none`) exactly when no `Step` is enabled -/
theorem step_complete {s : St} {e : Ev} {s' : St} (h : Step s e s') : step s e = some s' := by
  cases h <;> simp_all [step]

/-- the executable step function and the transition relation are the same thing -/
theorem step_iff {s : St} {e : Ev} {s' : St} : step s e = some s' ↔ Step s e s' :=
  ⟨step_sound, step_complete⟩

/-- every trace accepted by the executable machine is a trace of the relation -/
theorem run_star {tr : List Ev} {s s' : St} (h : machine.run s tr = some s') : Star Step s tr s' :=
  Machine.run_star machine Step (fun _ _ _ h => step_sound h) tr s s' h

/-! ### `ABTI_sync_lifo_push_unsafe` / `_pop_unsafe` as functions -/

/-- `ABTI_sync_lifo_push_unsafe(p_lifo, e)` by thread `t` (defined iff `t` is idle and owns `e`) -/
def pushUnsafe (s : St) (t : Tid) (e : Elem) : Option St := step s (.pushUnsafe t e)

/-- `ABTI_sync_lifo_pop_unsafe(p_lifo)` by thread `t`: the returned pointer and the new state -/
def popUnsafe (s : St) (t : Tid) : Option (Option Elem × St) :=
  (step s (.popUnsafe t s.top)).map (fun s' => (s.top, s'))

/-! ### linked chains -/

/-- following `next` from `a` visits exactly `xs` and arrives at `b` -/
def Seg (next : Elem → Option Elem) : Option Elem → List Elem → Option Elem → Prop
  | a, [], b => a = b
  | a, x :: xs, b => a = some x ∧ Seg next (next x) xs b

instance Seg.dec (next : Elem → Option Elem) :
    (a : Option Elem) → (xs : List Elem) → (b : Option Elem) → Decidable (Seg next a xs b)
  | a, [], b => inferInstanceAs (Decidable (a = b))
  | a, x :: xs, b =>
    have := Seg.dec next (next x) xs b
    inferInstanceAs (Decidable (a = some x ∧ Seg next (next x) xs b))

/-- executable traversal with fuel: the elements reached from `a` in at most `n` hops -/
def chain (next : Elem → Option Elem) : Option Elem → Nat → List Elem
  | none, _ => []
  | some _, 0 => []
  | some x, n + 1 => x :: chain next (next x) n

/-! ### the sequential specification and the linearization map -/

namespace Spec
/-- abstract LIFO: push -/
def push (stk : List Elem) (e : Elem) : List Elem := e :: stk
/-- abstract LIFO: pop returns the top (or NULL) and the rest -/
def pop : List Elem → Option Elem × List Elem
  | [] => (none, [])
  | x :: xs => (some x, xs)
/-- one completed operation: defined iff the recorded response is the specification's response -/
def apply (stk : List Elem) : LinOp → Option (List Elem)
  | .push e => some (push stk e)
  | .pop r => if (pop stk).1 = r then some (pop stk).2 else none
/-- run a sequence of completed operations; `none` = some response differs from the specification -/
def run : List Elem → List LinOp → Option (List Elem)
  | stk, [] => some stk
  | stk, op :: ops => (apply stk op).bind (fun stk' => run stk' ops)
end Spec

/-- the linearization point events, with the operation and response they stand for:
successful push CAS, successful pop CAS, pop's load of NULL, and the two `_unsafe` steps -/
def Ev.lin : Ev → Option LinOp
  | .pushCasOk _ e => some (.push e)
  | .pushUnsafe _ e => some (.push e)
  | .popCasOk _ c => some (.pop (some c))
  | .popLoadNull _ => some (.pop none)
  | .popUnsafe _ r => some (.pop r)
  | _ => none

/-- the sequential history of a trace: its linearization points in trace order -/
def lin (tr : List Ev) : List LinOp := tr.filterMap Ev.lin

/-- events that replace `(p_top, tag)`: successful CASes and the `_unsafe` stores -/
def Ev.isUpdate : Ev → Bool
  | .pushCasOk _ _ | .popCasOk _ _ | .pushUnsafe _ _ | .popUnsafe _ (some _) => true
  | _ => false

/-- `ev` is thread `t`'s load of `(p_top, tag)` that is followed by a CAS attempt -/
def Ev.isLoadOf (t : Tid) : Ev → Bool
  | .pushLoad u | .popLoad u => u = t
  | _ => false

/-- `ev` is a successful CAS by thread `t` -/
def Ev.isCasOkOf (t : Tid) : Ev → Bool
  | .pushCasOk u _ | .popCasOk u _ => u = t
  | _ => false

/-! ### the broken variant: pointer-only CAS (no tag comparison)

What the code would be with a 64-bit CAS on `p_top` alone.  Only the two `…CasOk` guards differ. -/

def stepNoTag (s : St) : Ev → Option St
  | .pushCasOk t e =>
    match s.pc t with
    | .pushStored e' ct cg =>
      if e' = e ∧ s.top = ct then
        some { s with top := some e, tag := cg + 1, pc := upd s.pc t .idle,
                      stk := e :: s.stk, owner := upd s.owner e none, log := s.log ++ [.push e] }
      else none
    | _ => none
  | .popCasOk t c =>
    match s.pc t with
    | .popRead c' cg n =>
      if c' = c ∧ s.top = some c then
        some { s with top := n, tag := cg + 1, pc := upd s.pc t .idle,
                      stk := s.stk.tail, owner := upd s.owner c (some t),
                      log := s.log ++ [.pop (some c)] }
      else none
    | _ => none
  | e => step s e

def machineNoTag : Machine St Ev := { init := init, step := stepNoTag }

/-- observable summary of a state, for examples and the driver:
`(top, tag, real chain from top (≤ 16 hops), ghost stack)` -/
def St.view (s : St) : Option Elem × Nat × List Elem × List Elem :=
  (s.top, s.tag, chain s.next s.top 16, s.stk)

end ArgoVerif.Model.SyncLifo
