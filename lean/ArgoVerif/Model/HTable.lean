/-
Model.HTable — `ABTU_hashtable` (src/util/hashtable.c), the container behind
ABT_sched_config / ABT_pool_config.

Structure kept from the C code: `num_entries` buckets; each bucket has an
*inline* first element (valid iff its `data` pointer is non-NULL) followed by a
malloc'ed singly linked chain; the bucket index is C's truncating `%` on
`ssize_t` corrected by `+ num_entries` when negative; deleting the inline head
copies its successor into it (or clears `data` when there is none); deleting
from the chain unlinks the first match.  The chain is represented by the list of
its nodes in link order (pointer identity of chain nodes is not observable).
-/
namespace ArgoVerif.Model.HTable

abbrev Val := Nat

structure Bucket where
  hasData : Bool            -- inline head: `p_element->data != NULL`
  key : Int                 -- inline head key   (stale when `hasData = false`)
  val : Val                 -- inline head value (stale when `hasData = false`)
  chain : List (Int × Val)  -- malloc'ed elements after the head, in `p_next` order
deriving Repr, DecidableEq

structure HT where
  n : Nat                   -- num_entries
  b : Nat → Bucket

def emptyBucket : Bucket := { hasData := false, key := 0, val := 0, chain := [] }

/-- `ABTU_hashtable_create` (calloc'ed: every head has `data = NULL`, `p_next = NULL`) -/
def create (n : Nat) : HT := { n := n, b := fun _ => emptyBucket }

/-- `((ssize_t)key) % ((ssize_t)num_entries)`, `+ num_entries` when negative -/
def idx (n : Nat) (key : Int) : Nat :=
  let t := Int.tmod key (n : Int)
  (if t < 0 then t + (n : Int) else t).toNat

def chainGet (k : Int) : List (Int × Val) → Option Val
  | [] => none
  | (k', v') :: r => if k' = k then some v' else chainGet k r

/-- walk the chain; overwrite the first match or append at the end.  Bool = overwritten -/
def chainSet (k : Int) (v : Val) : List (Int × Val) → List (Int × Val) × Bool
  | [] => ([(k, v)], false)
  | (k', v') :: r =>
    if k' = k then ((k, v) :: r, true)
    else let (r', o) := chainSet k v r; ((k', v') :: r', o)

/-- unlink the first match.  Bool = deleted -/
def chainDel (k : Int) : List (Int × Val) → List (Int × Val) × Bool
  | [] => ([], false)
  | (k', v') :: r =>
    if k' = k then (r, true)
    else let (r', d) := chainDel k r; ((k', v') :: r', d)

def Bucket.get (bk : Bucket) (k : Int) : Option Val :=
  if !bk.hasData then none
  else if bk.key = k then some bk.val
  else chainGet k bk.chain

def Bucket.set (bk : Bucket) (k : Int) (v : Val) : Bucket × Bool :=
  if !bk.hasData then ({ bk with hasData := true, key := k, val := v }, false)
  else if bk.key = k then ({ bk with val := v }, true)
  else let (c, o) := chainSet k v bk.chain; ({ bk with chain := c }, o)

/-- result of delete: `none` = the out-parameter `*deleted` is left untouched
(bucket whose head holds another key and whose chain is empty) -/
def Bucket.delete (bk : Bucket) (k : Int) : Bucket × Option Bool :=
  if !bk.hasData then (bk, some false)
  else if bk.key = k then
    match bk.chain with
    | (k', v') :: r => ({ bk with key := k', val := v', chain := r }, some true)
    | [] => ({ bk with hasData := false }, some true)
  else
    match bk.chain with
    | [] => (bk, none)
    | c => let (c', d) := chainDel k c; ({ bk with chain := c' }, some d)

def updB (f : Nat → Bucket) (i : Nat) (bk : Bucket) : Nat → Bucket :=
  fun j => if j = i then bk else f j

def get (h : HT) (k : Int) : Option Val := (h.b (idx h.n k)).get k

def set (h : HT) (k : Int) (v : Val) : HT × Bool :=
  let i := idx h.n k
  let (bk, o) := (h.b i).set k v
  ({ h with b := updB h.b i bk }, o)

def delete (h : HT) (k : Int) : HT × Option Bool :=
  let i := idx h.n k
  let (bk, d) := (h.b i).delete k
  ({ h with b := updB h.b i bk }, d)

/-- operations of the line protocol / of the refinement theorem -/
inductive Op where
  | set (k : Int) (v : Val)
  | get (k : Int)
  | del (k : Int)
deriving Repr

inductive Out where
  | setR (overwritten : Bool)
  | getR (r : Option Val)
  | delR (r : Option Bool)
deriving Repr, DecidableEq

def step (h : HT) : Op → HT × Out
  | .set k v => let (h', o) := set h k v; (h', .setR o)
  | .get k => (h, .getR (get h k))
  | .del k => let (h', d) := delete h k; (h', .delR d)

def runOps (h : HT) : List Op → HT × List Out
  | [] => (h, [])
  | op :: ops => let (h1, o) := step h op; let (h2, os) := runOps h1 ops; (h2, o :: os)

/-- canonical dump of one bucket, as the C driver prints it -/
def Bucket.dump (bk : Bucket) : String :=
  (if bk.hasData then s!"H{bk.key}={bk.val}" else "-") ++
    String.join (bk.chain.map fun (k, v) => s!" {k}={v}")

end ArgoVerif.Model.HTable
