import ArgoVerif.Gen.EnvTable
/-
Model.Atoi — `src/util/atoi.c`: `atoi_impl` and the typed wrappers `ABTU_atoi`,
`ABTU_atoui32`, `ABTU_atoui64`, `ABTU_atosz`.

The C string is the byte list from the pointer `str` to the end of the object it
points into.  `*str` is the head of the list, `str++` drops it; reading when the
list is empty is a read outside the object and the model answers `oob` (the
theorems show this never happens when the object contains a NUL, and that nothing
behind the first NUL influences the result).

Kept from the C code:
 * one loop, four branches tried in this order: blank (`\n \t ' ' \r`) while no
   other character has been read; `+` while no digit has been read; `-` likewise
   (flips the sign each time); digit; anything else stops.  Hence blanks are only
   skipped *before* the first sign/digit (`"+ 2"` is an error), signs are only
   accepted *before* the first digit (`"--12-3"` is 12), and there is no check that
   the string ends after the number (`"13abc"` is 13).
 * accumulation in `uint64_t` with the test
   `val > UINT64_MAX/10 || val*10 > UINT64_MAX - digit` evaluated in wrapping 64-bit
   arithmetic exactly as written; on overflow the function returns *immediately*
   (the remaining digits are not read) with `*p_val = UINT64_MAX`.
 * `ABT_ERR_INV_ARG` (out-parameters untouched) iff the loop stops without having
   read a digit.
 * the wrappers saturate: see each function.
-/
namespace ArgoVerif.Model.Atoi
open ArgoVerif.Gen.EnvTable

abbrev Byte := UInt8

/-- `*str == '\n' || *str == '\t' || *str == ' ' || *str == '\r'` -/
def isBlank (c : Byte) : Bool := c == 10 || c == 9 || c == 32 || c == 13
/-- `'0' <= *str && *str <= '9'` -/
def isDigit (c : Byte) : Bool := decide (48 ≤ c.toNat) && decide (c.toNat ≤ 57)
/-- `*str - '0'` for a digit -/
def digitVal (c : Byte) : Nat := c.toNat - 48

def u64Max : UInt64 := 0xFFFFFFFFFFFFFFFF

/-- result of `atoi_impl` -/
inductive Impl where
  | invArg                                                -- return ABT_ERR_INV_ARG
  | ok (isSigned : Bool) (val : UInt64) (overflow : Bool) -- return ABT_SUCCESS
  | oob                                                   -- read outside the object
deriving Repr, DecidableEq

/-- the `while (1)` loop of `atoi_impl`; the list is the memory from `str` on -/
def atoiLoop : List Byte → UInt64 → (isSigned readChar readDigit : Bool) → Impl
  | [], _, _, _, _ => .oob
  | c :: rest, val, sg, rc, rd =>
    if isBlank c && !rc then atoiLoop rest val sg rc rd
    else if c == 43 && !rd then atoiLoop rest val sg true rd
    else if c == 45 && !rd then atoiLoop rest val (!sg) true rd
    else if isDigit c then
      let d : UInt64 := (digitVal c).toUInt64
      if val > u64Max / 10 || val * 10 > u64Max - d then .ok sg u64Max true
      else atoiLoop rest (val * 10 + d) sg true true
    else if !rd then .invArg
    else .ok sg val false

def atoiImpl (str : List Byte) : Impl := atoiLoop str 0 false false false

/-- result of a typed wrapper: error code, or value (as a mathematical integer;
the theorems show it is inside the C type) and the overflow flag -/
inductive Res where
  | err (code : Int)
  | ok (val : Int) (overflow : Bool)
  | oob
deriving Repr, DecidableEq

/-- `ABTU_atoi`: `int`.  Negative: `val > (uint64_t)(-(int64_t)INT_MIN)` saturates to
INT_MIN, else `(int)(-(int64_t)val)`; positive: `val > INT_MAX` saturates to INT_MAX. -/
def abtuAtoi (str : List Byte) : Res :=
  match atoiImpl str with
  | .invArg => .err errInvArg
  | .oob => .oob
  | .ok sg val ov =>
    if sg then
      if val.toNat > (-cIntMin).toNat then .ok cIntMin true
      else .ok (-(val.toNat : Int)) ov
    else
      if val.toNat > cIntMax.toNat then .ok cIntMax true
      else .ok val.toNat ov

/-- `ABTU_atoui32`: negative input gives 0, flagged unless the magnitude is 0 -/
def abtuAtoui32 (str : List Byte) : Res :=
  match atoiImpl str with
  | .invArg => .err errInvArg
  | .oob => .oob
  | .ok sg val ov =>
    if sg then .ok 0 (if val != 0 then true else ov)
    else if val.toNat > cUint32Max then .ok cUint32Max true
    else .ok val.toNat ov

/-- `ABTU_atoui64` -/
def abtuAtoui64 (str : List Byte) : Res :=
  match atoiImpl str with
  | .invArg => .err errInvArg
  | .oob => .oob
  | .ok sg val ov =>
    if sg then .ok 0 (if val != 0 then true else ov)
    else .ok val.toNat ov

/-- `ABTU_atosz`: dispatches on `sizeof(size_t)` (4 or 8, static assert in the C) -/
def abtuAtosz (str : List Byte) : Res :=
  if sizeofSizeT = 4 then abtuAtoui32 str else abtuAtoui64 str

end ArgoVerif.Model.Atoi
