import ArgoVerif.Model.WaitList
/-
Model.Cond — ABT_cond (src/cond.c, abti_cond.h) on top of the wait-list protocol.

  wait(m) / timedwait(m):  acquire L; if waiter_mutex = NULL then waiter_mutex := m
                           else if waiter_mutex ≠ m then { clear L; return ERR_INV_MUTEX }
                           unlock m            -- still holding L
                           wait_and_unlock / wait_timedout_and_unlock   (Model.WaitList)
                           lock m; return SUCCESS / ERR_COND_TIMEDOUT
  signal:     acquire L; waitlist_signal (dequeue the head if any, store READY); clear L
  broadcast:  acquire L; waitlist_broadcast; clear L

The user mutex is an abstract object with an atomic acquire/release (justified by C04:
`mutex_excl`); `waiter_mutex` is never reset by the code, and neither is it here.
-/
namespace ArgoVerif.Model.Cond
open ArgoVerif

abbrev Actor := Nat
abbrev MutexId := Nat

inductive Op | wait (m : MutexId) | timedwait (m : MutexId) | signal | broadcast
deriving DecidableEq, Repr

inductive Rc | ok | timedout | invMutex
deriving DecidableEq, Repr

inductive CPc
  | idle
  | wBegin | wAcq | wBadRel | wBad | wUnlock | wEnq | wWaiting | wRelock | wDone
  | sBegin | sAcq | sCs | sDone
deriving DecidableEq, Repr

inductive Ev
  | call (a : Actor) (op : Op)
  | ret (a : Actor) (rc : Rc)
  | mutexUnlock (a : Actor) (m : MutexId)
  | mutexLock (a : Actor) (m : MutexId)
  | wl (e : WaitList.Ev)
deriving Repr

structure St where
  wl : WaitList.St
  waiterMutex : Option MutexId
  mholder : MutexId → Option Actor
  cpc : Actor → CPc
  op : Actor → Op                     -- operation the actor is executing
  sigDone : Actor → Bool              -- a signal has already dequeued its (one) node

def init (isUlt : Actor → Bool) : St :=
  { wl := WaitList.init isUlt, waiterMutex := none, mholder := fun _ => none, cpc := fun _ => .idle,
    op := fun _ => .signal, sigDone := fun _ => false }

def setC (s : St) (a : Actor) (p : CPc) : St := { s with cpc := upd s.cpc a p }

def isTimed : Op → Bool | .timedwait _ => true | _ => false
def opMutex : Op → MutexId | .wait m => m | .timedwait m => m | _ => 0

def stepCall (s : St) (a : Actor) (op : Op) : Option St :=
  if s.cpc a ≠ .idle then none else
  match op with
  | .wait m | .timedwait m =>
    -- the caller must hold the mutex (documented precondition, asserted by the C code)
    if s.mholder m = some a then some (setC { s with op := upd s.op a op } a .wBegin) else none
  | .signal | .broadcast => some (setC { s with op := upd s.op a op, sigDone := upd s.sigDone a false } a .sBegin)

/-- the `waiter_mutex` test at the start of the critical section (plain memory, under L) -/
def afterAcquire (s : St) (a : Actor) : St :=
  let m := opMutex (s.op a)
  { s with waiterMutex := (if s.waiterMutex = none then some m else s.waiterMutex),
           cpc := upd s.cpc a (if s.waiterMutex = none ∨ s.waiterMutex = some m then .wUnlock else .wBadRel) }

/-- a wait-list step may have completed the wait of actor `n` (its wait-list pc is back to idle) -/
def finishWait (s : St) (w : WaitList.St) (n : Actor) : St :=
  { s with wl := w, cpc := if s.cpc n = .wWaiting ∧ w.pc n = .idle then upd s.cpc n .wRelock else s.cpc }

def stepMutexUnlock (s : St) (a : Actor) (m : MutexId) : Option St :=
  if s.cpc a = .wUnlock ∧ m = opMutex (s.op a) ∧ s.mholder m = some a then
    some (setC { s with mholder := upd s.mholder m none } a .wEnq)
  else if s.cpc a = .idle ∧ s.mholder m = some a then
    some { s with mholder := upd s.mholder m none }         -- ordinary unlock outside cond operations
  else none

def stepMutexLock (s : St) (a : Actor) (m : MutexId) : Option St :=
  if s.mholder m ≠ none then none
  else if s.cpc a = .wRelock ∧ m = opMutex (s.op a) then
    some (setC { s with mholder := upd s.mholder m (some a) } a .wDone)
  else if s.cpc a = .idle then some { s with mholder := upd s.mholder m (some a) }
  else none

def stepRet (s : St) (a : Actor) (rc : Rc) : Option St :=
  match s.cpc a, rc with
  | .wDone, .ok => if s.wl.timedOut a = false ∨ isTimed (s.op a) = false then some (setC s a .idle) else none
  | .wDone, .timedout => if s.wl.timedOut a = true ∧ isTimed (s.op a) = true then some (setC s a .idle) else none
  | .wBad, .invMutex => some (setC s a .idle)
  | .sDone, .ok => some (setC s a .idle)
  | _, _ => none

/-- wait-list events, guarded by where the actor is inside its cond operation -/
def stepWl (s : St) (e : WaitList.Ev) : Option St :=
  match e with
  | .begin a =>
    if s.cpc a = .wBegin then (WaitList.step s.wl e).map fun w => setC { s with wl := w } a .wAcq
    else if s.cpc a = .sBegin then (WaitList.step s.wl e).map fun w => setC { s with wl := w } a .sAcq
    else none
  | .tasL a old =>
    if s.cpc a = .wAcq then
      (WaitList.step s.wl e).map fun w => if old = false then afterAcquire { s with wl := w } a else { s with wl := w }
    else if s.cpc a = .sAcq then
      (WaitList.step s.wl e).map fun w => if old = false then setC { s with wl := w } a .sCs else { s with wl := w }
    else if s.cpc a = .wWaiting then (WaitList.step s.wl e).map fun w => { s with wl := w }
    else none
  | .enq a t =>
    if s.cpc a = .wEnq ∧ t = isTimed (s.op a) then
      (WaitList.step s.wl e).map fun w => setC { s with wl := w } a .wWaiting
    else none
  | .deq a n =>
    if s.cpc a = .sCs ∧ (s.op a = .broadcast ∨ s.sigDone a = false) then
      (WaitList.step s.wl e).map fun w => { s with wl := w, sigDone := upd s.sigDone a true }
    else none
  | .clearL a =>
    if s.cpc a = .sCs then
      -- a signal leaves its critical section after waking one waiter if there is one; a broadcast after waking all
      if s.wl.q = [] ∨ (s.op a = .signal ∧ s.sigDone a = true) then
        (WaitList.step s.wl e).map fun w => setC { s with wl := w } a .sDone
      else none
    else if s.cpc a = .wBadRel then (WaitList.step s.wl e).map fun w => setC { s with wl := w } a .wBad
    else if s.cpc a = .wWaiting then
      (WaitList.step s.wl e).map fun w => finishWait s w a
    else none
  | .loadState a _ =>
    if s.cpc a = .wWaiting then
      (WaitList.step s.wl e).map fun w => finishWait s w a
    else none
  | .storeReady a n =>
    if s.cpc a = .sCs then
      (WaitList.step s.wl e).map fun w => finishWait s w n
    else none
  | .storeBlocked a | .timeCheck a _ | .rm a =>
    if s.cpc a = .wWaiting then (WaitList.step s.wl e).map fun w => { s with wl := w } else none
  | .obsL _ => (WaitList.step s.wl e).map fun w => { s with wl := w }

def step (s : St) : Ev → Option St
  | .call a op => stepCall s a op
  | .ret a rc => stepRet s a rc
  | .mutexUnlock a m => stepMutexUnlock s a m
  | .mutexLock a m => stepMutexLock s a m
  | .wl e => stepWl s e

def machine (isUlt : Actor → Bool) : Machine St Ev := { init := init isUlt, step := step }

end ArgoVerif.Model.Cond
