import ArgoVerif.Core.LTS
/-
Model.Future — ABT_future (src/futures.c) as a labelled transition system at the granularity
call → critical section under `p_future->lock` (with the atomic accesses to `counter` inside it) → (wait) → return.

  set(v):   acquire; counter = relaxed_load(&counter)  (`ldCnt`);
            if (counter >= num_compartments) { release; return ABT_ERR_FUTURE }       (0 compartments: always)
            array[counter] = v; counter++;                                           (plain, right after the load)
            if (counter == num_compartments && p_callback) (*p_callback)(array)       (`cbBegin` … `cb` = it returned)
            release_store(&counter, counter)                                          (`stCnt`)
            if (counter == num_compartments) broadcast (`wake` per node);  release (`rel`)
  wait:     tasklet (1.x API) → ABT_ERR_FUTURE before touching anything
            acquire; if (relaxed_load(&counter) < num_compartments) { enqueue; wait_and_unlock ... woken } else release
  test:     counter = acquire_load(&counter) (`tload`, no lock); *is_ready = (counter == num_compartments)
  reset:    acquire; release_store(&counter, 0) (`stCnt`); release
  free:     acquire (and never release: "we do not have to unlock it because the entire structure is freed here");
            free(array); free(p_future)                                    — the caller stays at `freed` for good

The callback is user code that takes time: `cbBegin` is its invocation, `cb` its return (with the array contents it
saw).  Other callers run in between; in particular the lock-free ABT_future_test loads the counter (`tload`).

`rel` carries the snapshot of the object taken when the lock word is cleared (counter, num_compartments,
wait-list empty?).  `cb` carries the array contents the callback saw, `arr` a dump of array[0..counter).

Ghost: `epoch` = number of resets, `sets k` = counter stores by sets in epoch k, `cbBeg k` = callback
invocations in epoch k, `cbRuns k` = callback invocations of epoch k that have returned, `vals` = the values of this epoch's successful sets in compartment order,
`relEpoch a` = epoch in which a's current call observed the counter / was woken.
-/
namespace ArgoVerif.Model.Future
open ArgoVerif

abbrev Actor := Nat
abbrev Val := Nat

inductive Kind | ult | task | ext
deriving DecidableEq, Repr

inductive Rc | ok | errFuture
deriving DecidableEq, Repr

inductive Op | set | wait | test | reset | free
deriving DecidableEq, Repr

inductive Pc
  | idle
  | rejected     -- tasklet inside ABT_future_wait
  | setCalled
  | setCS        -- lock held, about to load the counter
  | setErrCS | setErrDone
  | setCbCS      -- compartment written, it was the last one and a callback exists: about to call it
  | setCbRun     -- inside the callback (lock held, counter not yet stored)
  | setStCS      -- about to release-store the incremented counter
  | setBcCS      -- counter = num_compartments stored: broadcasting
  | setRelCS     -- counter < num_compartments stored: about to release
  | setDone
  | waitCalled
  | waitLdCS     -- lock held, about to load the counter
  | waitCS       -- found not ready: about to enqueue
  | waitEnq | waiting | reW | woken | reR
  | passCS       -- found ready
  | waitDone
  | testCalled | testDone0 | testDone1
  | resetCalled | resetCS | resetStCS | resetDone
  | freeCalled   -- ABT_future_free: about to acquire the lock
  | freeCS       -- lock held (for ever), the memory is being released
  | freed        -- ABT_future_free has returned; the object is gone, the lock word stays taken
deriving DecidableEq, Repr

inductive Ev
  | call (a : Actor) (op : Op) (v : Val)
  | ret (a : Actor) (op : Op) (rc : Rc) (ready : Bool)
  | acq (a : Actor) (old : Bool)
  | ldCnt (a : Actor) (v : Nat)
  | cbBegin (a : Actor)
  | cb (a : Actor) (vals : List Val)
  | stCnt (a : Actor) (v : Nat)
  | enq (a : Actor)
  | wake (a : Actor) (n : Actor)
  | rel (a : Actor) (counter : Nat) (n : Nat) (empty : Bool)
  | tload (a : Actor) (v : Nat)
  | obsCnt (v : Nat)
  | obsLock (v : Bool)
  | arr (vals : List Val)
deriving Repr

structure St where
  kind : Actor → Kind
  n : Nat                     -- num_compartments
  hasCb : Bool                -- p_callback != NULL
  counter : Nat
  arr : Nat → Val             -- array[i]
  lock : Option Actor
  q : List Actor
  pc : Actor → Pc
  arg : Actor → Val           -- value passed by the actor's current set
  loc : Actor → Nat           -- the setter's local `counter`
  epoch : Nat                 -- ghost
  sets : Nat → Nat            -- ghost
  cbBeg : Nat → Nat           -- ghost
  cbRuns : Nat → Nat          -- ghost
  vals : List Val             -- ghost
  relEpoch : Actor → Nat      -- ghost

def init (kind : Actor → Kind) (n : Nat) (hasCb : Bool) : St :=
  { kind, n, hasCb, counter := 0, arr := fun _ => 0, lock := none, q := [], pc := fun _ => .idle, arg := fun _ => 0,
    loc := fun _ => 0, epoch := 0, sets := fun _ => 0, cbBeg := fun _ => 0, cbRuns := fun _ => 0, vals := [], relEpoch := fun _ => 0 }

def setPc (s : St) (a : Actor) (p : Pc) : St := { s with pc := upd s.pc a p }

def stepCall (s : St) (a : Actor) (op : Op) (v : Val) : Option St :=
  if s.pc a ≠ .idle then none else
  match op with
  | .set => some (setPc { s with arg := upd s.arg a v } a .setCalled)
  | .wait => some (setPc s a (if s.kind a = .task then .rejected else .waitCalled))
  | .test => some (setPc s a .testCalled)
  | .reset => some (setPc s a .resetCalled)
  | .free => some (setPc s a .freeCalled)

def stepRet (s : St) (a : Actor) (op : Op) (rc : Rc) (r : Bool) : Option St :=
  match s.pc a, op, rc with
  | .setDone, .set, .ok => some (setPc s a .idle)
  | .setErrDone, .set, .errFuture => some (setPc s a .idle)
  | .rejected, .wait, .errFuture => some (setPc s a .idle)
  | .woken, .wait, .ok => some (setPc s a .idle)
  | .waitDone, .wait, .ok => some (setPc s a .idle)
  | .testDone0, .test, .ok => if r = false then some (setPc s a .idle) else none
  | .testDone1, .test, .ok => if r = true then some (setPc s a .idle) else none
  | .resetDone, .reset, .ok => some (setPc s a .idle)
  | .freeCS, .free, .ok => some (setPc s a .freed)
  | _, _, _ => none

def lockAs (s : St) (a : Actor) (p : Pc) : St := setPc { s with lock := some a } a p

def stepAcq (s : St) (a : Actor) (old : Bool) : Option St :=
  if old ≠ s.lock.isSome then none else
  if old then
    (if s.pc a = .setCalled ∨ s.pc a = .waitCalled ∨ s.pc a = .resetCalled ∨ s.pc a = .freeCalled ∨
        ((s.pc a = .waiting ∨ s.pc a = .woken) ∧ s.kind a ≠ .ult) then some s else none)
  else
    match s.pc a with
    | .setCalled => some (lockAs s a .setCS)
    | .waitCalled => some (lockAs s a .waitLdCS)
    | .resetCalled => some (lockAs s a .resetCS)
    | .freeCalled => if s.q = [] then some (lockAs s a .freeCS) else none   -- UB assertion: no waiter is queued
    | .waiting => if s.kind a = .ult then none else some (lockAs s a .reW)
    | .woken => if s.kind a = .ult then none else some (lockAs s a .reR)
    | _ => none

/-- the compartment store and the local increment that follow the load in ABT_future_set -/
def store (s : St) (a : Actor) : St :=
  setPc { s with arr := upd s.arr s.counter (s.arg a), vals := s.vals ++ [s.arg a], loc := upd s.loc a (s.counter + 1) }
    a (if s.counter + 1 = s.n ∧ s.hasCb = true then .setCbCS else .setStCS)

def stepLdCnt (s : St) (a : Actor) (v : Nat) : Option St :=
  if v ≠ s.counter then none else
  match s.pc a with
  | .setCS => some (if s.n ≤ s.counter then setPc s a .setErrCS else store s a)
  | .waitLdCS =>
    some (if s.counter < s.n then setPc s a .waitCS
          else setPc { s with relEpoch := upd s.relEpoch a s.epoch } a .passCS)
  | _ => none

def stepCbBegin (s : St) (a : Actor) : Option St :=
  if s.pc a = .setCbCS then
    some (setPc { s with cbBeg := upd s.cbBeg s.epoch (s.cbBeg s.epoch + 1) } a .setCbRun)
  else none

def stepCb (s : St) (a : Actor) (vs : List Val) : Option St :=
  if s.pc a = .setCbRun ∧ vs = (List.range s.n).map s.arr then
    some (setPc { s with cbRuns := upd s.cbRuns s.epoch (s.cbRuns s.epoch + 1) } a .setStCS)
  else none

def stepStCnt (s : St) (a : Actor) (v : Nat) : Option St :=
  match s.pc a with
  | .setStCS =>
    if v = s.loc a then
      some (setPc { s with counter := v, sets := upd s.sets s.epoch (s.sets s.epoch + 1) } a
              (if v = s.n then .setBcCS else .setRelCS))
    else none
  | .resetCS =>
    if v = 0 then some (setPc { s with counter := 0, epoch := s.epoch + 1, vals := [] } a .resetStCS) else none
  | _ => none

def stepEnq (s : St) (a : Actor) : Option St :=
  if s.pc a = .waitCS then some (setPc { s with q := s.q ++ [a] } a .waitEnq) else none

def stepWake (s : St) (a n : Actor) : Option St :=
  match s.pc a, s.q with
  | .setBcCS, h :: t =>
    if h = n then some (setPc { s with q := t, relEpoch := upd s.relEpoch n s.epoch } n .woken) else none
  | _, _ => none

def chk (s : St) (c n : Nat) (e : Bool) : Option St :=
  if c = s.counter ∧ n = s.n ∧ e = s.q.isEmpty then some s else none

def unlockAs (s : St) (a : Actor) (p : Pc) : St := setPc { s with lock := none } a p

def stepRel (s : St) (a : Actor) (c n : Nat) (e : Bool) : Option St :=
  match s.pc a with
  | .setBcCS => if s.q = [] then chk (unlockAs s a .setDone) c n e else none    -- the broadcast emptied the list
  | .setRelCS => chk (unlockAs s a .setDone) c n e
  | .setErrCS => chk (unlockAs s a .setErrDone) c n e
  | .waitEnq => chk (unlockAs s a .waiting) c n e
  | .reW => chk (unlockAs s a .waiting) c n e
  | .reR => chk (unlockAs s a .woken) c n e
  | .passCS => chk (unlockAs s a .waitDone) c n e
  | .resetStCS => chk (unlockAs s a .resetDone) c n e
  | _ => none

def stepTload (s : St) (a : Actor) (v : Nat) : Option St :=
  if s.pc a = .testCalled ∧ v = s.counter then
    some (setPc { s with relEpoch := upd s.relEpoch a s.epoch } a (if v = s.n then .testDone1 else .testDone0))
  else none

def step (s : St) : Ev → Option St
  | .call a op v => stepCall s a op v
  | .ret a op rc r => stepRet s a op rc r
  | .acq a old => stepAcq s a old
  | .ldCnt a v => stepLdCnt s a v
  | .cbBegin a => stepCbBegin s a
  | .cb a vs => stepCb s a vs
  | .stCnt a v => stepStCnt s a v
  | .enq a => stepEnq s a
  | .wake a n => stepWake s a n
  | .rel a c n e => stepRel s a c n e
  | .tload a v => stepTload s a v
  | .obsCnt v => if v = s.counter then some s else none
  | .obsLock v => if v = s.lock.isSome then some s else none
  | .arr vs => if vs = (List.range s.counter).map s.arr then some s else none

def machine (kind : Actor → Kind) (n : Nat) (hasCb : Bool) : Machine St Ev :=
  { init := init kind n hasCb, step := step }

end ArgoVerif.Model.Future
