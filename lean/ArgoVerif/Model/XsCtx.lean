import ArgoVerif.Core.LTS
/-
Model.XsCtx — `ABTD_xstream_context` (src/arch/abtd_stream.c): the native thread behind a
secondary execution stream and the three functions that talk to it through
`state` / `state_lock` / `state_cond`:

    xstream_context_thread_func   (actor T)
    ABTD_xstream_context_join / _revive / _free   (actor C: the caller)

An interleaving LTS.  The pthread mutex and condition variable are ideal primitives:
`lock` needs a free mutex; `wait` atomically releases the mutex and blocks; `signal`
wakes one *chosen* blocked waiter (none only if nobody is blocked); a blocked waiter may
also wake spuriously; a woken waiter re-acquires the mutex (`relock`) before returning.
Program counters follow the C text statement by statement; every `ABTI_ASSERT` in the
file is modelled (a failing one sets `fault`).

Environment (what the callers in stream.c guarantee; see checks/c17.py ASSUMPTIONS):
* join / revive / free on one context are issued one at a time (actor C is sequential);
* revive and free are issued only after a join returned (ABT_xstream_revive requires a
  terminated main scheduler, ABT_xstream_free joins first);
* join is issued only after T passed its start-up assertion (xstream_join first joins the
  main scheduler ULT, which terminates inside `thread_f`);
* `thread_f` may return at any time (over-approximation).
-/
namespace ArgoVerif.Model.XsCtx

/-- `ABTD_xstream_context_state` -/
inductive CS where
  | running | reqJoin | waiting | reqTerminate
deriving DecidableEq, Repr

inductive Actor where
  | T | C
deriving DecidableEq, Repr

/-- program counter of `xstream_context_thread_func` -/
inductive TPc where
  | start            -- ABTI_ASSERT(state == RUNNING)
  | run              -- inside thread_f(p_arg)
  | lock             -- pthread_mutex_lock
  | chk              -- if (state == REQ_JOIN) pthread_cond_signal
  | set              -- state = WAITING
  | wait             -- pthread_cond_wait (about to release the mutex)
  | blocked          -- inside pthread_cond_wait, not woken
  | woken            -- woken, re-acquiring the mutex
  | loop             -- while (state == WAITING); then the REQ_TERMINATE test
  | unlock (restart : Bool)   -- pthread_mutex_unlock
  | done             -- returned NULL
deriving DecidableEq, Repr

/-- program counter of the caller -/
inductive CPc where
  | idle (joined : Bool)
  -- ABTD_xstream_context_join
  | jLock | jChk | jStore | jWait | jBlocked | jWoken | jLoop | jAssert | jUnlock
  -- ABTD_xstream_context_revive
  | rLock | rStore | rSig | rUnlock
  -- ABTD_xstream_context_free
  | fLock | fStore | fSig | fUnlock | fJoin | freed
deriving DecidableEq, Repr

inductive COp where
  | join | revive | free
deriving DecidableEq, Repr

inductive Ev where
  | tau (a : Actor)                      -- a test / assertion (no shared write)
  | store (a : Actor) (v : CS)           -- p_ctx->state = v
  | ret                                  -- thread_f returns
  | lock (a : Actor)
  | unlock (a : Actor)
  | wait (a : Actor)                     -- pthread_cond_wait: release + block
  | relock (a : Actor)                   -- pthread_cond_wait: re-acquire, return
  | signal (a : Actor) (w : Option Actor) -- pthread_cond_signal, waking `w`
  | spur (a : Actor)                     -- spurious wake-up of `a`
  | call (op : COp)                      -- the caller enters join / revive / free
  | pjoin                                -- pthread_join(native_thread) returns
deriving DecidableEq, Repr

/-- control state (finite) -/
structure Ctl where
  st : CS
  owner : Option Actor     -- state_lock
  tpc : TPc
  cpc : CPc
  owed : Bool              -- ghost: a (re)start of thread_f has been requested and not yet happened
  fault : Bool             -- an ABTI_ASSERT failed / thread_f restarted without a request
deriving DecidableEq, Repr

structure St where
  c : Ctl
  runs : Nat               -- ghost: how often thread_f was entered
  revives : Nat            -- ghost: how many revive requests were stored
deriving DecidableEq, Repr

def tBlocked (c : Ctl) : Bool := c.tpc = .blocked
def cBlocked (c : Ctl) : Bool := c.cpc = .jBlocked
def blocked (c : Ctl) : Actor → Bool
  | .T => tBlocked c
  | .C => cBlocked c

/-- wake `w` (by signal or spuriously) -/
def wake (c : Ctl) : Actor → Ctl
  | .T => { c with tpc := .woken }
  | .C => { c with cpc := .jWoken }

/-- effect of `pthread_cond_signal` waking `w` -/
def doSignal (c : Ctl) (w : Option Actor) : Option Ctl :=
  match w with
  | some b => if blocked c b then some (wake c b) else none
  | none => if tBlocked c || cBlocked c then none else some c

/-- counters touched by a control step -/
inductive Eff where
  | none | run | revive
deriving DecidableEq, Repr

/-- one step of the thread T -/
def stepT (c : Ctl) : Ev → Option (Ctl × Eff)
  | .tau .T =>
    match c.tpc with
    | .start =>  -- ABTI_ASSERT(p_ctx->state == RUNNING); first call of thread_f
      some ({ c with tpc := .run, owed := false,
                     fault := c.fault || c.st != .running || !c.owed }, .run)
    | .chk => if c.st = .reqJoin then none else some ({ c with tpc := .set }, .none)
    | .loop =>
      if c.st = .waiting then some ({ c with tpc := .wait }, .none)
      else if c.st = .reqTerminate then some ({ c with tpc := .unlock false }, .none)
      else -- ABTI_ASSERT(state == RUNNING || state == REQ_JOIN)
        some ({ c with tpc := .unlock true,
                       fault := c.fault || !(c.st = .running || c.st = .reqJoin) }, .none)
    | _ => none
  | .ret => if c.tpc = .run then some ({ c with tpc := .lock }, .none) else none
  | .lock .T =>
    if c.tpc = .lock ∧ c.owner = none then some ({ c with tpc := .chk, owner := some .T }, .none) else none
  | .signal .T w =>
    if c.tpc = .chk ∧ c.st = .reqJoin then (doSignal c w).map fun c' => ({ c' with tpc := .set }, .none)
    else none
  | .store .T v =>
    if c.tpc = .set ∧ v = .waiting then some ({ c with st := .waiting, tpc := .wait }, .none) else none
  | .wait .T =>
    if c.tpc = .wait then some ({ c with tpc := .blocked, owner := none }, .none) else none
  | .spur .T => if tBlocked c then some (wake c .T, .none) else none
  | .relock .T =>
    if c.tpc = .woken ∧ c.owner = none then some ({ c with tpc := .loop, owner := some .T }, .none) else none
  | .unlock .T =>
    match c.tpc with
    | .unlock true =>   -- restart: thread_f is called again
      some ({ c with tpc := .run, owner := none, owed := false, fault := c.fault || !c.owed }, .run)
    | .unlock false => some ({ c with tpc := .done, owner := none }, .none)
    | _ => none
  | _ => none

/-- one step of the caller C -/
def stepC (c : Ctl) : Ev → Option (Ctl × Eff)
  | .call .join =>
    match c.cpc with
    | .idle _ => if c.tpc = .start then none else some ({ c with cpc := .jLock }, .none)
    | _ => none
  | .call .revive => if c.cpc = .idle true then some ({ c with cpc := .rLock }, .none) else none
  | .call .free => if c.cpc = .idle true then some ({ c with cpc := .fLock }, .none) else none
  | .lock .C =>
    if c.owner = none then
      match c.cpc with
      | .jLock => some ({ c with cpc := .jChk, owner := some .C }, .none)
      | .rLock => some ({ c with cpc := .rStore, owner := some .C }, .none)
      | .fLock => some ({ c with cpc := .fStore, owner := some .C }, .none)
      | _ => none
    else none
  | .tau .C =>
    match c.cpc with
    | .jChk =>   -- if (state != WAITING) { ABTI_ASSERT(state == RUNNING); ...
      if c.st = .waiting then some ({ c with cpc := .jAssert }, .none)
      else some ({ c with cpc := .jStore, fault := c.fault || c.st != .running }, .none)
    | .jLoop =>  -- while (state == REQ_JOIN)
      if c.st = .reqJoin then some ({ c with cpc := .jWait }, .none)
      else some ({ c with cpc := .jAssert }, .none)
    | .jAssert => -- ABTI_ASSERT(state == WAITING)
      some ({ c with cpc := .jUnlock, fault := c.fault || c.st != .waiting }, .none)
    | _ => none
  | .store .C v =>
    match c.cpc with
    | .jStore => if v = .reqJoin then some ({ c with st := .reqJoin, cpc := .jWait }, .none) else none
    | .rStore => -- ABTI_ASSERT(state == WAITING); state = RUNNING
      if v = .running then
        some ({ c with st := .running, cpc := .rSig, owed := true,
                       fault := c.fault || c.st != .waiting || c.owed }, .revive)
      else none
    | .fStore => -- ABTI_ASSERT(state == WAITING); state = REQ_TERMINATE
      if v = .reqTerminate then
        some ({ c with st := .reqTerminate, cpc := .fSig, fault := c.fault || c.st != .waiting }, .none)
      else none
    | _ => none
  | .wait .C =>
    if c.cpc = .jWait then some ({ c with cpc := .jBlocked, owner := none }, .none) else none
  | .spur .C => if cBlocked c then some (wake c .C, .none) else none
  | .relock .C =>
    if c.cpc = .jWoken ∧ c.owner = none then some ({ c with cpc := .jLoop, owner := some .C }, .none) else none
  | .signal .C w =>
    match c.cpc with
    | .rSig => (doSignal c w).map fun c' => ({ c' with cpc := .rUnlock }, .none)
    | .fSig => (doSignal c w).map fun c' => ({ c' with cpc := .fUnlock }, .none)
    | _ => none
  | .unlock .C =>
    match c.cpc with
    | .jUnlock => some ({ c with cpc := .idle true, owner := none }, .none)
    | .rUnlock => some ({ c with cpc := .idle false, owner := none }, .none)
    | .fUnlock => some ({ c with cpc := .fJoin, owner := none }, .none)
    | _ => none
  | .pjoin => if c.cpc = .fJoin ∧ c.tpc = .done then some ({ c with cpc := .freed }, .none) else none
  | _ => none

def actorOf : Ev → Actor
  | .tau a => a | .store a _ => a | .ret => .T | .lock a => a | .unlock a => a | .wait a => a
  | .relock a => a | .signal a _ => a | .spur a => a | .call _ => .C | .pjoin => .C

def cstep (c : Ctl) (e : Ev) : Option (Ctl × Eff) :=
  match actorOf e with
  | .T => stepT c e
  | .C => stepC c e

def step (s : St) (e : Ev) : Option St :=
  match cstep s.c e with
  | none => none
  | some (c', .none) => some { s with c := c' }
  | some (c', .run) => some { s with c := c', runs := s.runs + 1 }
  | some (c', .revive) => some { s with c := c', revives := s.revives + 1 }

/-- after `ABTD_xstream_context_create`: state RUNNING, mutex free, the new thread not yet
scheduled; creation itself owes the first call of thread_f -/
def init : St :=
  { c := { st := .running, owner := none, tpc := .start, cpc := .idle false, owed := true, fault := false },
    runs := 0, revives := 0 }

def machine : Machine St Ev := { init := init, step := step }

/-! ### finite enumeration helpers (used by the driver and by the proofs) -/

def allActors : List Actor := [.T, .C]
def allCS : List CS := [.running, .reqJoin, .waiting, .reqTerminate]
def allEv : List Ev :=
  [.tau .T, .tau .C, .ret, .lock .T, .lock .C, .unlock .T, .unlock .C, .wait .T, .wait .C,
   .relock .T, .relock .C, .spur .T, .spur .C, .call .join, .call .revive, .call .free, .pjoin,
   .signal .T none, .signal .T (some .T), .signal .T (some .C),
   .signal .C none, .signal .C (some .T), .signal .C (some .C)] ++
  allCS.map (.store .T) ++ allCS.map (.store .C)

def succs (c : Ctl) : List Ctl := allEv.filterMap fun e => (cstep c e).map (·.1)

/-- breadth-first closure, `n` rounds -/
def closure : Nat → List Ctl → List Ctl
  | 0, acc => acc
  | n + 1, acc =>
    let new := (acc.flatMap succs).foldl (fun l c => if l.contains c then l else l ++ [c]) acc
    if new.length = acc.length then acc else closure n new

end ArgoVerif.Model.XsCtx
