import ArgoVerif.Gen.Consts
/-
Model.StackGeom — where the descriptor and the stack of a ULT live, as arithmetic over
addresses (`Int`), for the four memory provenances of `ythread_create` (src/thread.c) →
`ABTI_mem_alloc_ythread_*` (src/include/abti_mem.h) and their inverse `ABTI_mem_free_thread`,
plus `ABTD_ythread_context_init` (src/include/abtd_fcontext.h) and the initial stack pointer
computed by `init_and_switch_fcontext` (`andq $-16, %rdx; leaq -0x8(%rdx), %rsp`).

Build facts used (checked against Gen.Consts below): `ABT_CONFIG_USE_ALIGNED_ALLOC` is set, so
`ABTU_malloc(size)` is `posix_memalign(&p, 64, roundup(size, 64))`: the block returned is
`[p, p + roundup(size,64))` with `p % 64 = 0`, and `ABTU_free(q)` is `free(q)`, which is only
defined when `q` is exactly a pointer `posix_memalign` returned.  Lazy stack allocation is
disabled in this build (`ABT_CONFIG_DISABLE_LAZY_STACK_ALLOC`), the memory pool is enabled.

The cases (comment in `ythread_create`):
  1. default stack size, no user stack  → `ABTI_mem_alloc_ythread_mempool_desc_stack`:
       on an execution stream: one element of the *stack pool*; the pool returns
       `segment + header_offset` with `header_offset = thread_stacksize`; that pointer is both
       `p_stacktop` and the descriptor (`ABTI_THREAD_TYPE_MEM_MEMPOOL_DESC_STACK`);
       on an external thread: as case 2 (`ABTI_THREAD_TYPE_MEM_MALLOC_DESC_STACK`).
  2. non-default, non-zero size         → `ABTI_mem_alloc_ythread_malloc_desc_stack`:
       `alloc = roundup(size, 64)`, `p = ABTU_malloc(alloc + sizeof(ABTI_ythread))`,
       `p_stacktop = descriptor = p + alloc`, recorded `stacksize = size` (the raw size).
  3. size 0, no user stack (primary ULT) → descriptor only, `p_stacktop = NULL`.
  4. user-supplied stack `[a, a + size)` → `p_stacktop = a + size`, descriptor from the
       descriptor pool (execution stream) or `ABTU_malloc(ABTI_MEM_POOL_DESC_ELEM_SIZE)`
       (external thread).
-/
namespace ArgoVerif.Model.StackGeom
open ArgoVerif.Gen

/-- addresses are integers (all arithmetic below is on `Int`, so that `omega` sees it) -/
abbrev Addr := Int

/-- ABT_CONFIG_STATIC_CACHELINE_SIZE -/
def CL : Int := Consts.cacheLine
/-- sizeof(ABTI_ythread) -/
def YT : Int := Consts.sizeofYthread
/-- ABTI_MEM_POOL_DESC_ELEM_SIZE -/
def DESC : Int := Consts.memPoolDescElemSize

/-- this model is written for the aligned-allocation build with 64-byte cache lines -/
example : Consts.useAlignedAlloc = 1 ∧ Consts.cacheLine = 64 ∧ Consts.sizeofYthread ≤ Consts.memPoolDescElemSize ∧
    Consts.memPoolDescElemSize % 64 = 0 := by decide

/-- `ABTU_roundup_size(v, m)`; for `m` a power of two the C code computes
`(v + m - 1) & ~(m - 1)`, which is the same number -/
def roundup (v m : Int) : Int := (v + m - 1) / m * m

/-- number of bytes `posix_memalign` is asked for by `ABTU_malloc(size)` -/
def mallocBytes (size : Int) : Int := roundup size CL

inductive MemType
  | mempoolDescStack   -- ABTI_THREAD_TYPE_MEM_MEMPOOL_DESC_STACK
  | mallocDescStack    -- ABTI_THREAD_TYPE_MEM_MALLOC_DESC_STACK
  | mempoolDesc        -- ABTI_THREAD_TYPE_MEM_MEMPOOL_DESC
  | mallocDesc         -- ABTI_THREAD_TYPE_MEM_MALLOC_DESC
deriving DecidableEq, Repr

/-- the fields of the descriptor that `ABTI_mem_free_thread` reads -/
structure Ythread where
  desc : Int          -- p_ythread
  stacktop : Int      -- ctx.p_stacktop   (0 = NULL)
  stacksize : Int      -- ctx.stacksize
  type : MemType
deriving DecidableEq, Repr

/-- what was obtained from the underlying allocator -/
inductive Src
  | pool (ptr : Int)                 -- pointer returned by ABTI_mem_pool_alloc
  | malloc (ptr : Int) (size : Int)  -- ABTU_malloc(size) returned ptr
deriving DecidableEq, Repr

/-- what is handed back -/
inductive Release
  | poolFree (ptr : Int)             -- ABTI_mem_pool_free(.., ptr)
  | free (ptr : Int)                 -- ABTU_free(ptr)
deriving DecidableEq, Repr

/-- `ABTD_ythread_context_init(&ctx, p_stacktop, stacksize)` stores both values unchanged -/
def ctxInit (desc stacktop : Int) (stacksize : Int) (t : MemType) : Ythread :=
  ⟨desc, stacktop, stacksize, t⟩

/-- case 1 on an execution stream: `q` is the pointer `ABTI_mem_pool_alloc(&mem_pool_stack)`
returned (= segment + thread_stacksize) -/
def allocPoolDescStack (q : Int) (S : Int) : Ythread × Src :=
  (ctxInit q q S .mempoolDescStack, .pool q)

/-- case 2 (and case 1 on an external thread): `p` is what `ABTU_malloc` returned -/
def allocMallocDescStack (p : Int) (S : Int) : Ythread × Src :=
  let alloc := roundup S CL
  (ctxInit (p + alloc) (p + alloc) S .mallocDescStack, .malloc p (alloc + YT))

/-- cases 3 and 4 on an execution stream: descriptor `d` from the descriptor pool; user stack
`[a, a + S)` (case 3: `a = 0`, `S = 0`, `p_stacktop = NULL`) -/
def allocPoolDesc (d : Int) (a : Int) (S : Int) : Ythread × Src :=
  (ctxInit d (if a = 0 then 0 else a + S) S .mempoolDesc, .pool d)

/-- cases 3 and 4 on an external thread: descriptor by `ABTU_malloc(ABTI_MEM_POOL_DESC_ELEM_SIZE)` -/
def allocMallocDesc (d : Int) (a : Int) (S : Int) : Ythread × Src :=
  (ctxInit d (if a = 0 then 0 else a + S) S .mallocDesc, .malloc d DESC)

/-- `ABTI_mem_free_thread` as it is now: the malloc'ed stack is released at
`p_stacktop - roundup(stacksize, 64)` -/
def freeThread (y : Ythread) : Release :=
  match y.type with
  | .mempoolDescStack => .poolFree y.desc
  | .mempoolDesc => .poolFree y.desc
  | .mallocDescStack => .free (y.stacktop - roundup y.stacksize CL)
  | .mallocDesc => .free y.desc

/-- the formula before the repair of F1: `p_stacktop - stacksize` -/
def freeThreadOld (y : Ythread) : Release :=
  match y.type with
  | .mallocDescStack => .free (y.stacktop - y.stacksize)
  | _ => freeThread y

/-- the pointer the allocator gave / the pointer it gets back -/
def Src.ptr : Src → Int
  | .pool p => p
  | .malloc p _ => p

def Release.ptr : Release → Int
  | .poolFree p => p
  | .free p => p

/-- same allocator on both sides -/
def Release.matches : Release → Src → Prop
  | .poolFree p, .pool q => p = q
  | .free p, .malloc q _ => p = q
  | _, _ => False

instance (r : Release) (s : Src) : Decidable (r.matches s) := by
  cases r <;> cases s <;> simp only [Release.matches] <;> exact inferInstance

/-- initial stack pointer of a ULT whose `p_stacktop` is `top`:
`andq $-16, %rdx ; leaq -0x8(%rdx), %rsp` -/
def initialRsp (top : Int) : Int := top / 16 * 16 - 8

/-- first address above the bytes the ULT can use (everything below the aligned top) -/
def usableTop (top : Int) : Int := top / 16 * 16

/-- `ythread_create`'s dispatch on the attribute (`none`: `ABT_THREAD_ATTR_NULL`).
`onES`: called on an execution stream (else external thread).  `defS`: `thread_stacksize`.
`ptr`: the pointer the chosen allocator returns. -/
def create (attr : Option (Int × Int)) (defS : Int) (onES : Bool) (ptr : Int) : Ythread × Src :=
  match attr with
  | none => if onES then allocPoolDescStack ptr defS else allocMallocDescStack ptr defS
  | some (a, S) =>
    if a = 0 then
      if S = defS then (if onES then allocPoolDescStack ptr S else allocMallocDescStack ptr S)
      else if S ≠ 0 then allocMallocDescStack ptr S
      else (if onES then allocPoolDesc ptr 0 0 else allocMallocDesc ptr 0 0)
    else (if onES then allocPoolDesc ptr a S else allocMallocDesc ptr a S)

/-- size of one element of the stack pool (`ABTI_mem_init`): `roundup(thread_stacksize +
sizeof(ABTI_ythread), 64)`, plus one cache line when that is a multiple of 128 -/
def stackPoolHeaderSize (defS : Int) : Int :=
  let s := roundup (defS + YT) CL
  if s % (2 * CL) = 0 then s + CL else s

end ArgoVerif.Model.StackGeom
