import ArgoVerif.Core.LTS
import ArgoVerif.Model.TQ
/-
Model.PoolConc — one built-in pool (FIFO / RANDWS: `fifo.c`, `randws.c`; FIFO_WAIT: `fifo_wait.c`) under
concurrent callers, as an interleaving LTS at the granularity of the pool code's atomic steps.

One actor = one caller (external thread or ULT).  An actor's program counter follows the C control flow
(`src/pool/fifo.c`, `randws.c`, `fifo_wait.c`, `thread_queue.h`, `abtd_spinlock.h`):

  lock word            spin kinds: `ABTD_spinlock` (tas / acquire-load / clear); FIFO_WAIT: a pthread mutex
  ABTD_spinlock_acquire            sAcq:  while (tas) { sSpin: while (is_locked) ; }
  thread_queue_acquire_spinlock_if_not_empty
                                   aTop:  if (is_empty) return 1;
                                   aTry:  while (tas) { for (;;) { aSpinE: if (is_empty) return 1;
                                                                   aSpinL: if (!is_locked) break; } }
  push / push_many  (`_shared`)    sAcq.. ; { csPush: thread_queue_push_*  (hook 25)
                                              [pub: is_empty := 0, only when the queue was empty]
                                              setIn: is_in_pool(u) := 1 }*  ; rel
                   (FIFO_WAIT)     mLock ; the same ; sig: pthread_cond_signal/broadcast ; rel
  pop / pop_many    (`_shared`)    aTop.. ; { csPop: thread_queue_pop_* (hook 26: the selected unit or NULL)
                                              [pubE: is_empty := 1, only when it was the last unit]
                                              clrIn: is_in_pool(u) := 0 }*  (pop_many: until NULL or max) ; rel
                   (FIFO_WAIT)     fChk: if (is_empty) return NULL (unlocked!) ; mLock ; the same ; rel
  pop_wait / pop_timedwait (spin)  loop { aTop.. ; csPop ; rel ; if (unit) return ; wIdle: sleep / give up }
                   (FIFO_WAIT)     mLock ; wChk: if (is_empty) { wWait: cond_timedwait -> wSleep -> wRelock } ; csPop ; rel
  remove            (`_shared`)    sAcq.. ; csRm: thread_queue_remove { num_threads == 0 or is_in_pool != 1: ABT_ERR_POOL
                                              | hook 27, unlink, [pubE], clrIn } ; rel
                   (FIFO_WAIT)     rChkE: if (is_empty) ERR_POOL; rChkIn: if (is_in_pool != 1) ERR_POOL (both unlocked) ; mLock ; ..
  `_private` callbacks             the same bodies without the lock; pop_wait / pop_timedwait take it regardless.
  ABT_pool_push_threads(_ex)       (src/pool/pool.c) pmCb: converts the handles, then invokes the pool's `p_push_many` callback
                                   exactly once with the whole batch (hook 23 carries the count) -> the push_many body above.

Time is abstracted: a polling pop_wait may give up after any failed attempt, a condition wait may end at any time.
`Cfg.shared` says whether the installed callbacks are the lock-taking ones (every access mode but PRIV; FIFO_WAIT:
always).  For `shared = false` the access contract of ABT_POOL_ACCESS_PRIV is part of the model: a call may start only
when no other call is in progress (`owner = none`); overlapping calls on a private pool are not runs.

The queue content `q` is the *linearised* content: a pop / remove takes its unit out of `q` at its selection step
(hook 26 / 27), a push adds its unit at its last atomic step (`is_in_pool := 1`); between `link` and that store only
the lock owner can look at the ring.  Every step that reads or writes the ring requires `owner = some a`.

Ghost fields (never read by a guard that decides control flow of the code): `owner` (who holds the lock / whose
private call is in progress), `sawEmpty`, `sawAbsent`, `lagF`, `linOps`, `linOuts`, `base` (the content when the actor
entered its critical section), `done` (the units this call has pushed so far).
-/
namespace ArgoVerif.Model.PoolConc
open ArgoVerif

abbrev Actor := Nat

inductive LockKind
  | spin    -- fifo.c / randws.c: ABTD_spinlock
  | mutex   -- fifo_wait.c: pthread_mutex_t (+ condition variable)
deriving DecidableEq, Repr

structure Cfg where
  lk : LockKind
  shared : Bool       -- the lock-taking callbacks are installed
deriving DecidableEq, Repr

/-- `head` / `tail`: which end RANDWS selected from the context word (FIFO kinds: always false) -/
inductive Call
  | push (u : Nat) (head : Bool)
  | pushMany (us : List Nat) (head : Bool)
  | pop (tail : Bool)
  | popMany (max : Nat) (tail : Bool)
  | popWait (tail : Bool)          -- pop_wait / pop_timedwait
  | remove (u : Nat)
deriving DecidableEq, Repr

inductive Res
  | unit                       -- push, push_many
  | popped (us : List Nat)     -- pop / pop_wait: [] = ABT_THREAD_NULL, [u]; pop_many: the `num_popped` handles written, in order
  | rc (ok : Bool)             -- remove: ABT_SUCCESS / ABT_ERR_POOL
deriving DecidableEq, Repr

inductive Pc
  | idle | retp
  | pmCb
  | sAcq | sSpin
  | aTop | aTry | aSpinE | aSpinL
  | mLock
  | fChk | rChkE | rChkIn
  | csPush | pub | setIn | sig
  | csPop | pubE | clrIn
  | csRm
  | wChk | wWait | wSleep | wRelock
  | rel
  | wIdle
deriving DecidableEq, Repr

inductive Ev
  | call (a : Actor) (c : Call)
  | ret (a : Actor) (r : Res)
  | cbPushMany (a : Actor) (n : Nat)            -- hook 23: ABTI_pool_push_many invokes `p_push_many` with n units
  | tas (a : Actor) (old : Bool)                -- test-and-set of the spinlock, value found
  | loadLock (a : Actor) (v : Bool)             -- ABTD_spinlock_is_locked
  | loadEmpty (a : Actor) (v : Bool)            -- acquire-load of `is_empty`
  | loadIn (a : Actor) (u : Nat) (v : Bool)     -- acquire-load of `u->is_in_pool` outside the lock (FIFO_WAIT remove)
  | clear (a : Actor)                           -- ABTD_spinlock_release
  | mlock (a : Actor) | munlock (a : Actor)     -- pthread_mutex_lock returns / pthread_mutex_unlock
  | link (a : Actor) (u : Nat) (head : Bool)    -- hook 25: thread_queue_push_head/tail links `u`
  | take (a : Actor) (r : Nat) (head : Bool)    -- hook 26: thread_queue_pop_head/tail selected `r` (0 = queue empty)
  | unlink (a : Actor) (u : Nat)                -- hook 27: thread_queue_remove passed its guards
  | rmFail (a : Actor)                          -- thread_queue_remove: a guard failed under the lock (ABT_ERR_POOL)
  | storeEmpty (a : Actor) (v : Bool)           -- release-store to `is_empty`
  | storeIn (a : Actor) (u : Nat) (v : Bool)    -- release-store to `u->is_in_pool`
  | signal (a : Actor)                          -- pthread_cond_signal / pthread_cond_broadcast
  | condWait (a : Actor)                        -- pthread_cond_timedwait begins: mutex released
  | wake (a : Actor)                            -- the wait ends (signal, time-out or spurious)
deriving Repr

structure St where
  q : List Nat                 -- linearised content, head first
  flag : Bool                  -- `is_empty`
  lock : Bool                  -- spinlock word / "the mutex is held"
  inPool : Nat → Bool          -- `is_in_pool` of every unit
  owner : Option Actor         -- ghost
  pc : Actor → Pc
  cur : Actor → Call
  todo : Actor → List Nat      -- push / push_many: units still to link
  cnt : Actor → Nat            -- pops still wanted by this call
  pu : Actor → Nat             -- the unit this actor is linking / has just taken
  got : Actor → List Nat       -- units taken by the call in progress
  rcOk : Actor → Bool          -- remove: result
  sawEmpty : Actor → Bool      -- ghost: `q = []` held at an emptiness observation of this call
  sawAbsent : Actor → Bool     -- ghost: the unit was not in `q` at the observation that made remove fail
  lagF : Option Actor          -- ghost: `is_empty` is behind `q` because of this actor's pending store
  linOps : List TQ.Op          -- ghost: the deque operations, in linearisation order
  linOuts : List TQ.Out        -- ghost: and their results
  base : Actor → List Nat      -- ghost: `q` when the actor entered its critical section (private callbacks: at the call)
  done : Actor → List Nat      -- ghost: units the call in progress has pushed (linearised) so far

def init : St :=
  { q := [], flag := true, lock := false, inPool := fun _ => false, owner := none, pc := fun _ => .idle,
    cur := fun _ => .pop false, todo := fun _ => [], cnt := fun _ => 0, pu := fun _ => 0, got := fun _ => [],
    rcOk := fun _ => false, sawEmpty := fun _ => false, sawAbsent := fun _ => false, lagF := none, linOps := [], linOuts := [],
    base := fun _ => [], done := fun _ => [] }

def isPopWait : Call → Bool
  | .popWait _ => true
  | _ => false

def isPopMany : Call → Bool
  | .popMany _ _ => true
  | _ => false

def isPopLike : Call → Bool
  | .pop _ | .popMany _ _ | .popWait _ => true
  | _ => false

/-- does this call take the pool's lock? -/
def locks (cfg : Cfg) (c : Call) : Bool := cfg.shared || isPopWait c

def headOf : Call → Bool
  | .push _ h => h
  | .pushMany _ h => h
  | _ => false

def tailOf : Call → Bool
  | .pop t => t
  | .popMany _ t => t
  | .popWait t => t
  | _ => false

/-- how many units the call wants -/
def wants : Call → Nat
  | .popMany m _ => m
  | .pop _ | .popWait _ => 1
  | _ => 0

def setPc (s : St) (a : Actor) (p : Pc) : St := { s with pc := upd s.pc a p }
def acquire (s : St) (a : Actor) : St := { s with lock := true, owner := some a, base := upd s.base a s.q }
def release (cfg : Cfg) (s : St) : St := { s with lock := false, owner := if cfg.shared then none else s.owner }

/-- first counter inside the critical section -/
def csEntry (cfg : Cfg) : Call → Pc
  | .push _ _ | .pushMany _ _ => .csPush
  | .pop _ | .popMany _ _ => .csPop
  | .popWait _ => match cfg.lk with
    | .spin => .csPop
    | .mutex => .wChk
  | .remove _ => .csRm

/-- where the body of a call ends: release the lock, or (private callbacks) return -/
def leave (cfg : Cfg) (c : Call) : Pc := if locks cfg c then .rel else .retp

/-- first program counter of the pool callback -/
def bodyPc (cfg : Cfg) (c : Call) : Pc :=
  match c with
  | .pushMany [] _ => .retp             -- `if (num_units > 0)` / empty loop
  | .popMany 0 _ => .retp               -- `max_threads != 0 && ..` / empty loop
  | _ =>
    match cfg.lk, c with
    | .spin, .popWait _ => .aTop
    | .spin, .pop _ => if cfg.shared then .aTop else .csPop
    | .spin, .popMany _ _ => if cfg.shared then .aTop else .csPop
    | .spin, c => if cfg.shared then .sAcq else csEntry cfg c
    | .mutex, .pop _ => .fChk
    | .mutex, .popMany _ _ => .fChk
    | .mutex, .remove _ => .rChkE
    | .mutex, _ => .mLock

/-- first program counter of a call: `ABT_pool_push_threads(_ex)` with a non-empty batch first reaches the single
`ABTI_pool_push_many` invocation -/
def entryPc (cfg : Cfg) (c : Call) : Pc :=
  match c with
  | .pushMany (_ :: _) _ => .pmCb
  | _ => bodyPc cfg c

def callOk : Call → Bool
  | .push u _ => u != 0
  | .pushMany us _ => !us.contains 0
  | .remove u => u != 0
  | _ => true

def stepCall (cfg : Cfg) (s : St) (a : Actor) (c : Call) : Option St :=
  if s.pc a ≠ .idle ∨ callOk c = false then none else
  if cfg.shared = false ∧ s.owner ≠ none then none else      -- ABT_POOL_ACCESS_PRIV: calls do not overlap
  some (setPc { s with cur := upd s.cur a c,
                       owner := if cfg.shared then s.owner else some a,
                       todo := upd s.todo a (match c with | .push u _ => [u] | .pushMany us _ => us | _ => []),
                       cnt := upd s.cnt a (wants c), got := upd s.got a [], rcOk := upd s.rcOk a false,
                       sawEmpty := upd s.sawEmpty a false, sawAbsent := upd s.sawAbsent a false,
                       base := upd s.base a s.q, done := upd s.done a [] } a (entryPc cfg c))

/-- hook 23: the one invocation of the pool's `p_push_many` callback, with the whole batch -/
def stepCbPushMany (cfg : Cfg) (s : St) (a : Actor) (n : Nat) : Option St :=
  if s.pc a ≠ .pmCb ∨ n ≠ (s.todo a).length then none else
  some (setPc { s with base := upd s.base a s.q } a (bodyPc cfg (s.cur a)))

def resultOf (s : St) (a : Actor) : Res :=
  match s.cur a with
  | .push _ _ | .pushMany _ _ => .unit
  | .pop _ | .popMany _ _ | .popWait _ => .popped (s.got a)
  | .remove _ => .rc (s.rcOk a)

/-- return; a polling pop_wait between two attempts may give up (its time is over) -/
def stepRet (cfg : Cfg) (s : St) (a : Actor) (r : Res) : Option St :=
  if (s.pc a = .retp ∨ s.pc a = .wIdle) ∧ r = resultOf s a then
    some (setPc { s with owner := if cfg.shared then s.owner else none } a .idle)
  else none

def stepTas (cfg : Cfg) (s : St) (a : Actor) (old : Bool) : Option St :=
  if cfg.lk ≠ .spin ∨ old ≠ s.lock then none else
  match s.pc a with
  | .sAcq => some (if old then setPc s a .sSpin else setPc (acquire s a) a (csEntry cfg (s.cur a)))
  | .aTry => some (if old then setPc s a .aSpinE else setPc (acquire s a) a (csEntry cfg (s.cur a)))
  | _ => none

def stepLoadLock (s : St) (a : Actor) (v : Bool) : Option St :=
  if v ≠ s.lock then none else
  match s.pc a with
  | .sSpin => some (setPc s a (if v then .sSpin else .sAcq))
  | .aSpinL => some (setPc s a (if v then .aSpinE else .aTry))
  | _ => none

/-- `is_empty` read as 1 on a lock-free path: the call (or this attempt of a pop_wait) finds nothing -/
def emptyFail (s : St) (a : Actor) : St :=
  setPc { s with sawEmpty := upd s.sawEmpty a (decide (s.q = [])) } a (if isPopWait (s.cur a) then .wIdle else .retp)

def removeArg : Call → Nat
  | .remove u => u
  | _ => 0

/-- a failing guard of remove: the result is ABT_ERR_POOL, linearised at this observation -/
def rmFailed (s : St) (a : Actor) : St :=
  { s with rcOk := upd s.rcOk a false, sawAbsent := upd s.sawAbsent a (decide (removeArg (s.cur a) ∉ s.q)),
           linOps := s.linOps ++ [.remove (removeArg (s.cur a))], linOuts := s.linOuts ++ [TQ.Out.rc .errPool] }

def stepLoadEmpty (s : St) (a : Actor) (v : Bool) : Option St :=
  if v ≠ s.flag then none else
  match s.pc a with
  | .aTop => some (if v then emptyFail s a else setPc s a .aTry)
  | .wIdle => some (if v then emptyFail s a else setPc s a .aTry)          -- next attempt of a polling pop_wait
  | .aSpinE => some (if v then emptyFail s a else setPc s a .aSpinL)
  | .fChk => some (if v then emptyFail s a else setPc s a .mLock)
  | .rChkE => some (if v then setPc (rmFailed s a) a .retp else setPc s a .rChkIn)
  | .wChk =>
    if s.owner ≠ some a then none else
    some (if v then setPc { s with sawEmpty := upd s.sawEmpty a (decide (s.q = [])) } a .wWait else setPc s a .csPop)
  | _ => none

def stepLoadIn (s : St) (a : Actor) (u : Nat) (v : Bool) : Option St :=
  if v ≠ s.inPool u ∨ s.cur a ≠ .remove u then none else
  match s.pc a with
  | .rChkIn => some (if v then setPc s a .mLock else setPc (rmFailed s a) a .retp)
  | _ => none

def stepMlock (cfg : Cfg) (s : St) (a : Actor) : Option St :=
  if cfg.lk ≠ .mutex ∨ s.lock = true then none else
  match s.pc a with
  | .mLock => some (setPc (acquire s a) a (csEntry cfg (s.cur a)))
  | .wRelock => some (setPc (acquire s a) a .csPop)
  | _ => none

/-- hook 25: `thread_queue_push_head/tail` decides on `num_threads == 0` and links the unit -/
def stepLink (s : St) (a : Actor) (u : Nat) (head : Bool) : Option St :=
  match s.pc a, s.todo a with
  | .csPush, u' :: rest =>
    if u' ≠ u ∨ head ≠ headOf (s.cur a) ∨ s.owner ≠ some a ∨ u = 0 ∨ u ∈ s.q then none else
    some (setPc { s with todo := upd s.todo a rest, pu := upd s.pu a u } a (if s.q = [] then .pub else .setIn))
  | _, _ => none

def stepStoreEmpty (s : St) (a : Actor) (v : Bool) : Option St :=
  if s.owner ≠ some a then none else
  match s.pc a with
  | .pub => if v then none else some (setPc { s with flag := false, lagF := some a } a .setIn)
  | .pubE => if v then some (setPc { s with flag := true, lagF := none } a .clrIn) else none
  | _ => none

def pushOp (u : Nat) (head : Bool) : TQ.Op := if head then .pushHead u else .pushTail u
def popOp (tail : Bool) : TQ.Op := if tail then .popTail else .popHead

def stepStoreIn (cfg : Cfg) (s : St) (a : Actor) (u : Nat) (v : Bool) : Option St :=
  if s.owner ≠ some a ∨ u ≠ s.pu a then none else
  match s.pc a with
  | .setIn =>
    if v = false then none else
    let h := headOf (s.cur a)
    some (setPc { s with inPool := upd s.inPool u true, q := if h then u :: s.q else s.q ++ [u], lagF := none,
                         done := upd s.done a (s.done a ++ [u]),
                         linOps := s.linOps ++ [pushOp u h], linOuts := s.linOuts ++ [TQ.Out.unit] } a
      (if s.todo a ≠ [] then .csPush else
        match cfg.lk with
        | .mutex => .sig
        | .spin => leave cfg (s.cur a)))
  | .clrIn =>
    if v = true then none else
    some (setPc { s with inPool := upd s.inPool u false } a
      (if isPopMany (s.cur a) = true ∧ s.cnt a ≠ 0 then .csPop else leave cfg (s.cur a)))
  | _ => none

/-- the unit `thread_queue_pop_head` / `_pop_tail` selects (0 = NULL: `num_threads == 0`) and what it leaves -/
def takeUnit (q : List Nat) (tl : Bool) : Nat := if tl then q.getLast?.getD 0 else q.head?.getD 0
def takeRest (q : List Nat) (tl : Bool) : List Nat := if tl then q.dropLast else q.tail

/-- hook 26: `thread_queue_pop_head/tail` selects the unit at its end (or finds `num_threads == 0`) -/
def stepTake (cfg : Cfg) (s : St) (a : Actor) (r : Nat) (head : Bool) : Option St :=
  if s.pc a ≠ .csPop ∨ s.owner ≠ some a ∨ head = tailOf (s.cur a) ∨ r ≠ takeUnit s.q (tailOf (s.cur a)) then none else
  if s.q = [] then
    some (setPc { s with sawEmpty := upd s.sawEmpty a true,
                         linOps := s.linOps ++ [popOp (tailOf (s.cur a))],
                         linOuts := s.linOuts ++ [TQ.Out.popped (takeUnit s.q (tailOf (s.cur a)))] } a (leave cfg (s.cur a)))
  else
    some (setPc { s with q := takeRest s.q (tailOf (s.cur a)),
                         got := upd s.got a (s.got a ++ [takeUnit s.q (tailOf (s.cur a))]),
                         cnt := upd s.cnt a (s.cnt a - 1), pu := upd s.pu a (takeUnit s.q (tailOf (s.cur a))),
                         lagF := if takeRest s.q (tailOf (s.cur a)) = [] then some a else s.lagF,
                         linOps := s.linOps ++ [popOp (tailOf (s.cur a))],
                         linOuts := s.linOuts ++ [TQ.Out.popped (takeUnit s.q (tailOf (s.cur a)))] } a
      (if takeRest s.q (tailOf (s.cur a)) = [] then .pubE else .clrIn))

/-- hook 27: `thread_queue_remove` found `num_threads != 0` and `is_in_pool == 1`.  The unit must be in *this*
queue (the flag is per unit, not per queue): otherwise the call is outside the contract -/
def stepUnlink (s : St) (a : Actor) (u : Nat) : Option St :=
  if s.pc a ≠ .csRm ∨ s.owner ≠ some a ∨ s.cur a ≠ .remove u ∨ s.q = [] ∨ s.inPool u = false ∨ u ∉ s.q then none else
  let rest := s.q.erase u
  some (setPc { s with q := rest, rcOk := upd s.rcOk a true, pu := upd s.pu a u,
                       lagF := if rest = [] then some a else s.lagF,
                       linOps := s.linOps ++ [.remove u], linOuts := s.linOuts ++ [TQ.Out.rc .success] } a
    (if rest = [] then .pubE else .clrIn))

def stepRmFail (cfg : Cfg) (s : St) (a : Actor) : Option St :=
  if s.pc a ≠ .csRm ∨ s.owner ≠ some a then none else
  if s.q = [] ∨ s.inPool (removeArg (s.cur a)) = false then some (setPc (rmFailed s a) a (leave cfg (s.cur a)))
  else none

def stepClear (cfg : Cfg) (s : St) (a : Actor) : Option St :=
  if cfg.lk ≠ .spin ∨ s.pc a ≠ .rel ∨ s.owner ≠ some a then none else
  some (setPc (release cfg s) a (if isPopWait (s.cur a) = true ∧ s.got a = [] then .wIdle else .retp))

def stepMunlock (cfg : Cfg) (s : St) (a : Actor) : Option St :=
  if cfg.lk ≠ .mutex ∨ s.pc a ≠ .rel ∨ s.owner ≠ some a then none else
  some (setPc (release cfg s) a .retp)

def stepSignal (s : St) (a : Actor) : Option St :=
  if s.pc a ≠ .sig ∨ s.owner ≠ some a then none else some (setPc s a .rel)

def stepCondWait (cfg : Cfg) (s : St) (a : Actor) : Option St :=
  if s.pc a ≠ .wWait ∨ s.owner ≠ some a then none else some (setPc (release cfg s) a .wSleep)

def stepWake (s : St) (a : Actor) : Option St :=
  if s.pc a ≠ .wSleep then none else some (setPc s a .wRelock)

def step (cfg : Cfg) (s : St) : Ev → Option St
  | .call a c => stepCall cfg s a c
  | .ret a r => stepRet cfg s a r
  | .cbPushMany a n => stepCbPushMany cfg s a n
  | .tas a old => stepTas cfg s a old
  | .loadLock a v => stepLoadLock s a v
  | .loadEmpty a v => stepLoadEmpty s a v
  | .loadIn a u v => stepLoadIn s a u v
  | .clear a => stepClear cfg s a
  | .mlock a => stepMlock cfg s a
  | .munlock a => stepMunlock cfg s a
  | .link a u h => stepLink s a u h
  | .take a r h => stepTake cfg s a r h
  | .unlink a u => stepUnlink s a u
  | .rmFail a => stepRmFail cfg s a
  | .storeEmpty a v => stepStoreEmpty s a v
  | .storeIn a u v => stepStoreIn cfg s a u v
  | .signal a => stepSignal s a
  | .condWait a => stepCondWait cfg s a
  | .wake a => stepWake s a

def machine (cfg : Cfg) : Machine St Ev := { init := init, step := step cfg }

/-- the actor an event belongs to -/
def actorOf : Ev → Actor
  | .call a _ | .ret a _ | .cbPushMany a _ | .tas a _ | .loadLock a _ | .loadEmpty a _ | .loadIn a _ _ | .clear a | .mlock a | .munlock a
  | .link a _ _ | .take a _ _ | .unlink a _ | .rmFail a | .storeEmpty a _ | .storeIn a _ _ | .signal a | .condWait a
  | .wake a => a

/-- the events that read or write the ring (`num_threads`, `p_head`, `p_tail`, links) -/
def isMutation : Ev → Bool
  | .link _ _ _ | .take _ _ _ | .unlink _ _ | .rmFail _ | .storeEmpty _ _ | .storeIn _ _ _ => true
  | _ => false

end ArgoVerif.Model.PoolConc
