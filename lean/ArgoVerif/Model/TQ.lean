import ArgoVerif.Core.Heap
/-
Model.TQ — pointer-level model of `thread_queue_t` (src/pool/thread_queue.h), the queue under
every built-in pool (FIFO, FIFO_WAIT, RANDWS).

Units are `Nat` identifiers (0 = NULL).  The per-unit fields the queue code touches are
`p_prev`, `p_next`, `is_in_pool` (struct ABTI_thread); the queue fields are `num_threads`,
`p_head`, `p_tail`, `is_empty`.  Every C statement is one step of an `Option` program, in the C
order: loads/stores through a pointer are `ld*`/`st*` and yield `none` when the pointer is NULL
(undefined behaviour in C).  Besides NULL dereferences `none` is returned exactly when the
*contract* of the function is violated — the C code assumes it silently:

  * `push_head/push_tail(q, u)`: `u` is a valid unit that is in no queue (`is_in_pool = 0`).
    The C code does not look at `is_in_pool`; pushing a queued unit relinks it and corrupts
    the queue it was in.
  * `remove(q, u)`: after both coded guards passed (`num_threads != 0`, `u->is_in_pool == 1`),
    `u` must be in *this* queue.  `is_in_pool` is per unit, not per queue, so the guards cannot
    tell; removing a unit queued elsewhere corrupts both queues.  (Decidable here: `u` is among
    the `num_threads` nodes reachable from `p_head`.)

`thread_queue_acquire_spinlock_if_not_empty` and the lock discipline belong to the concurrent
model (`Model.PoolConc`); `thread_queue_free` does nothing; `print_all` is omitted.
-/
namespace ArgoVerif.Model.TQ
open ArgoVerif ArgoVerif.Heap

/-- one `thread_queue_t` plus the unit fields it can reach -/
structure St where
  num : Nat            -- p_queue->num_threads
  head : Nat           -- p_queue->p_head
  tail : Nat           -- p_queue->p_tail
  isEmpty : Nat        -- p_queue->is_empty (ABTD_atomic_int, 0/1)
  prev : Nat → Nat     -- p_thread->p_prev
  next : Nat → Nat     -- p_thread->p_next
  inPool : Nat → Nat   -- p_thread->is_in_pool (ABTD_atomic_int, 0/1)

/-- all units as `ABTI_unit_init_builtin` leaves them: links NULL, not in a pool;
queue memory zeroed (a queue must be `init`ialised before use) -/
def St.fresh : St :=
  { num := 0, head := 0, tail := 0, isEmpty := 0, prev := fun _ => 0, next := fun _ => 0, inPool := fun _ => 0 }

/-! ### loads and stores through a unit pointer (NULL ⇒ undefined) -/

def ldPrev (s : St) (a : Nat) : Option Nat := if a = 0 then none else some (s.prev a)
def ldNext (s : St) (a : Nat) : Option Nat := if a = 0 then none else some (s.next a)
def ldInPool (s : St) (a : Nat) : Option Nat := if a = 0 then none else some (s.inPool a)
def stPrev (s : St) (a v : Nat) : Option St := if a = 0 then none else some { s with prev := upd s.prev a v }
def stNext (s : St) (a v : Nat) : Option St := if a = 0 then none else some { s with next := upd s.next a v }
def stInPool (s : St) (a v : Nat) : Option St := if a = 0 then none else some { s with inPool := upd s.inPool a v }

/-- `thread_queue_init` -/
def init (s : St) : St :=
  let s := { s with num := 0 }
  let s := { s with head := 0 }
  let s := { s with tail := 0 }
  { s with isEmpty := 1 }

/-- `thread_queue_is_empty`: `is_empty ? ABT_TRUE : ABT_FALSE` -/
def isEmptyQ (s : St) : Bool := s.isEmpty ≠ 0

/-- `thread_queue_get_size` -/
def getSize (s : St) : Nat := s.num

/-- the nodes the queue reaches: `num_threads` steps of `p_next` from `p_head` -/
def members (s : St) : List Nat := walk s.next s.head s.num

/-- the same, backwards from the tail (used by the dumps) -/
def membersBack (s : St) : List Nat := walk s.prev s.tail s.num

/-- contract of both push functions -/
def PushPre (s : St) (u : Nat) : Prop := u ≠ 0 ∧ s.inPool u = 0

instance (s : St) (u : Nat) : Decidable (PushPre s u) := inferInstanceAs (Decidable (_ ∧ _))

/-- `thread_queue_push_head` -/
def pushHead (s : St) (u : Nat) : Option St :=
  if ¬ PushPre s u then none else do
  let s ←
    if s.num = 0 then do
      let s ← stPrev s u u                    -- p_thread->p_prev = p_thread;
      let s ← stNext s u u                    -- p_thread->p_next = p_thread;
      let s := { s with head := u }           -- p_queue->p_head = p_thread;
      let s := { s with tail := u }           -- p_queue->p_tail = p_thread;
      let s := { s with num := 1 }            -- p_queue->num_threads = 1;
      pure { s with isEmpty := 0 }            -- release_store(&p_queue->is_empty, 0);
    else do
      let pHead := s.head
      let pTail := s.tail
      let s ← stNext s pTail u                -- p_tail->p_next = p_thread;
      let s ← stPrev s pHead u                -- p_head->p_prev = p_thread;
      let s ← stPrev s u pTail                -- p_thread->p_prev = p_tail;
      let s ← stNext s u pHead                -- p_thread->p_next = p_head;
      let s := { s with head := u }           -- p_queue->p_head = p_thread;
      pure { s with num := s.num + 1 }        -- p_queue->num_threads++;
  stInPool s u 1                              -- release_store(&p_thread->is_in_pool, 1);

/-- `thread_queue_push_tail` -/
def pushTail (s : St) (u : Nat) : Option St :=
  if ¬ PushPre s u then none else do
  let s ←
    if s.num = 0 then do
      let s ← stPrev s u u
      let s ← stNext s u u
      let s := { s with head := u }
      let s := { s with tail := u }
      let s := { s with num := 1 }
      pure { s with isEmpty := 0 }
    else do
      let pHead := s.head
      let pTail := s.tail
      let s ← stNext s pTail u                -- p_tail->p_next = p_thread;
      let s ← stPrev s pHead u                -- p_head->p_prev = p_thread;
      let s ← stPrev s u pTail                -- p_thread->p_prev = p_tail;
      let s ← stNext s u pHead                -- p_thread->p_next = p_head;
      let s := { s with tail := u }           -- p_queue->p_tail = p_thread;
      pure { s with num := s.num + 1 }
  stInPool s u 1

/-- the unlink sequence shared by pop_head / pop_tail / remove:
`p_thread->p_prev->p_next = p_thread->p_next; p_thread->p_next->p_prev = p_thread->p_prev;`
(each operand re-read from memory, as written) -/
def unlink (s : St) (t : Nat) : Option St := do
  let tp ← ldPrev s t
  let tn ← ldNext s t
  let s ← stNext s tp tn
  let tn ← ldNext s t
  let tp ← ldPrev s t
  stPrev s tn tp

/-- `thread_queue_pop_head`; result 0 = NULL -/
def popHead (s : St) : Option (St × Nat) :=
  if s.num > 0 then do
    let t := s.head                           -- p_thread = p_queue->p_head;
    let s ←
      if s.num = 1 then
        let s := { s with head := 0 }
        let s := { s with tail := 0 }
        let s := { s with num := 0 }
        pure { s with isEmpty := 1 }          -- release_store(&p_queue->is_empty, 1);
      else do
        let s ← unlink s t
        let tn ← ldNext s t
        let s := { s with head := tn }        -- p_queue->p_head = p_thread->p_next;
        pure { s with num := s.num - 1 }      -- p_queue->num_threads--;
    let s ← stPrev s t 0                      -- p_thread->p_prev = NULL;
    let s ← stNext s t 0                      -- p_thread->p_next = NULL;
    let s ← stInPool s t 0                    -- release_store(&p_thread->is_in_pool, 0);
    pure (s, t)
  else pure (s, 0)

/-- `thread_queue_pop_tail` -/
def popTail (s : St) : Option (St × Nat) :=
  if s.num > 0 then do
    let t := s.tail                           -- p_thread = p_queue->p_tail;
    let s ←
      if s.num = 1 then
        let s := { s with head := 0 }
        let s := { s with tail := 0 }
        let s := { s with num := 0 }
        pure { s with isEmpty := 1 }
      else do
        let s ← unlink s t
        let tp ← ldPrev s t
        let s := { s with tail := tp }        -- p_queue->p_tail = p_thread->p_prev;
        pure { s with num := s.num - 1 }
    let s ← stPrev s t 0
    let s ← stNext s t 0
    let s ← stInPool s t 0
    pure (s, t)
  else pure (s, 0)

/-- return code of `thread_queue_remove` -/
inductive Rc where
  | success    -- ABT_SUCCESS
  | errPool    -- ABT_ERR_POOL (a coded guard failed; nothing was changed)
deriving DecidableEq, Repr

/-- `thread_queue_remove` -/
def remove (s : St) (u : Nat) : Option (St × Rc) :=
  if s.num = 0 then some (s, .errPool) else do      -- ABTI_CHECK_TRUE(num_threads != 0, ABT_ERR_POOL)
  let f ← ldInPool s u
  if f ≠ 1 then some (s, .errPool) else do          -- ABTI_CHECK_TRUE(is_in_pool == 1, ABT_ERR_POOL)
  if u ∉ members s then none else do                -- contract: `u` is in *this* queue
  let s ←
    if s.num = 1 then
      let s := { s with head := 0 }
      let s := { s with tail := 0 }
      let s := { s with num := 0 }
      pure { s with isEmpty := 1 }
    else do
      let s ← unlink s u
      let s ←
        if u = s.head then do
          let un ← ldNext s u
          pure { s with head := un }                -- p_queue->p_head = p_thread->p_next;
        else if u = s.tail then do
          let up ← ldPrev s u
          pure { s with tail := up }                -- p_queue->p_tail = p_thread->p_prev;
        else pure s
      pure { s with num := s.num - 1 }
  let s ← stInPool s u 0                            -- release_store(&p_thread->is_in_pool, 0);
  let s ← stPrev s u 0                              -- p_thread->p_prev = NULL;
  let s ← stNext s u 0                              -- p_thread->p_next = NULL;
  pure (s, .success)

/-! ### operations as data (line protocol, refinement theorem) -/

inductive Op where
  | pushHead (u : Nat)
  | pushTail (u : Nat)
  | popHead
  | popTail
  | remove (u : Nat)
  | size
  | isEmpty
deriving Repr, DecidableEq

inductive Out where
  | unit                 -- push: void
  | popped (u : Nat)     -- pop: the unit, 0 = NULL
  | rc (r : Rc)          -- remove
  | size (n : Nat)
  | empty (b : Bool)
deriving Repr, DecidableEq

/-- `none`: undefined (contract violation or NULL dereference) -/
def step (s : St) : Op → Option (St × Out)
  | .pushHead u => (pushHead s u).map fun s' => (s', .unit)
  | .pushTail u => (pushTail s u).map fun s' => (s', .unit)
  | .popHead => (popHead s).map fun (s', r) => (s', .popped r)
  | .popTail => (popTail s).map fun (s', r) => (s', .popped r)
  | .remove u => (remove s u).map fun (s', r) => (s', .rc r)
  | .size => some (s, .size (getSize s))
  | .isEmpty => some (s, .empty (isEmptyQ s))

def runOps (s : St) : List Op → Option (St × List Out)
  | [] => some (s, [])
  | op :: ops =>
    match step s op with
    | none => none
    | some (s1, o) =>
      match runOps s1 ops with
      | none => none
      | some (s2, os) => some (s2, o :: os)

/-! ### several queues over one set of units (what a process has: one queue per pool) -/

structure QF where
  num : Nat
  head : Nat
  tail : Nat
  isEmpty : Nat

structure World where
  q : Nat → QF
  prev : Nat → Nat
  next : Nat → Nat
  inPool : Nat → Nat

def World.fresh : World :=
  { q := fun _ => ⟨0, 0, 0, 0⟩, prev := fun _ => 0, next := fun _ => 0, inPool := fun _ => 0 }

/-- the view a `thread_queue_*(p_queue, …)` call has: that queue's fields and the unit heap -/
def World.get (w : World) (i : Nat) : St :=
  { num := (w.q i).num, head := (w.q i).head, tail := (w.q i).tail, isEmpty := (w.q i).isEmpty,
    prev := w.prev, next := w.next, inPool := w.inPool }

def World.put (w : World) (i : Nat) (s : St) : World :=
  { q := upd w.q i ⟨s.num, s.head, s.tail, s.isEmpty⟩, prev := s.prev, next := s.next, inPool := s.inPool }

def World.init (w : World) (i : Nat) : World := w.put i (TQ.init (w.get i))

def World.step (w : World) (i : Nat) (op : Op) : Option (World × Out) :=
  (TQ.step (w.get i) op).map fun (s', o) => (w.put i s', o)

end ArgoVerif.Model.TQ

/-
Model.Pool — which `thread_queue_*` call each built-in pool function makes, as data.
The table itself is generated from fifo.c / fifo_wait.c / randws.c by tools/poolgen.py
(`Gen/PoolEnds.lean`); these are the types it is written in and its interpretation.
-/
namespace ArgoVerif.Model.Pool

inductive Kind where
  | fifo | fifoWait | randws
deriving DecidableEq, Repr

inductive Access where
  | priv | spsc | mpsc | spmc | mpmc
deriving DecidableEq, Repr

/-- the pool-definition slots through which units enter or leave a built-in pool -/
inductive Slot where
  | push | pop | popWait | pushMany | popMany | remove | popTimedwait
deriving DecidableEq, Repr

/-- the mutating `thread_queue_*` functions -/
inductive Call where
  | pushHead | pushTail | popHead | popTail | remove
deriving DecidableEq, Repr

/-- an enclosing `if (context & mask)` (`set = true`) or its else-branch / negation (`set = false`) -/
structure Cond where
  mask : Nat
  set : Bool
deriving DecidableEq, Repr

/-- one call site of a mutating queue function inside a pool function -/
structure Site where
  conds : List Cond      -- the context tests it is nested in, outermost first
  call : Call
  inLoop : Bool          -- lexically inside a for/while/do loop
deriving DecidableEq, Repr

structure Entry where
  kind : Kind
  access : Access
  slot : Slot
  fn : String            -- the C function installed in that slot for that access mode
  sites : List Site      -- in source order
  guards : List String   -- the other thread_queue_* calls it makes (emptiness checks, lock fast path), in source order
  locked : List Bool := []  -- per site of `sites`: the call is made between taking the pool's lock (ABTD_spinlock_acquire /
                            -- a successful thread_queue_acquire_spinlock_if_not_empty / pthread_mutex_lock) and releasing it
deriving DecidableEq, Repr

def Cond.holds (c : Cond) (ctx : Nat) : Bool := ((ctx &&& c.mask) != 0) == c.set

/-- the queue calls enabled under a context word -/
def enabled (sites : List Site) (ctx : Nat) : List Call :=
  (sites.filter fun s => s.conds.all (·.holds ctx)).map (·.call)

def lookup (tbl : List Entry) (k : Kind) (a : Access) (sl : Slot) : Option Entry :=
  tbl.find? fun e => e.kind = k ∧ e.access = a ∧ e.slot = sl

def Kind.all : List Kind := [.fifo, .fifoWait, .randws]
def Access.all : List Access := [.priv, .spsc, .mpsc, .spmc, .mpmc]
def Slot.all : List Slot := [.push, .pop, .popWait, .pushMany, .popMany, .remove, .popTimedwait]

/-! ### sequential pool operations: the table decides which queue function runs

`fifo.c`, `fifo_wait.c`, `randws.c` wrap each `thread_queue_*` call in the pool's lock; sequentially a
pool function *is* the queue call(s) its table entry lists, selected by the context word.  The
multi-unit functions loop: `push_many` calls the push once per unit in array order; `pop_many` pops
until the queue returns NULL or `max` units were taken. -/

open ArgoVerif.Model.TQ in
/-- the single queue call a slot makes under `ctx`; `none` when the table has no entry or the
entry does not enable exactly one call -/
def theCall (tbl : List Entry) (k : Kind) (a : Access) (sl : Slot) (ctx : Nat) : Option Call :=
  match lookup tbl k a sl with
  | none => none
  | some e => match enabled e.sites ctx with
    | [c] => some c
    | _ => none

open ArgoVerif.Model.TQ in
def pushWith (c : Call) (s : St) (u : Nat) : Option St :=
  match c with
  | .pushHead => pushHead s u
  | .pushTail => pushTail s u
  | _ => none

open ArgoVerif.Model.TQ in
def popWith (c : Call) (s : St) : Option (St × Nat) :=
  match c with
  | .popHead => popHead s
  | .popTail => popTail s
  | _ => none

open ArgoVerif.Model.TQ in
/-- `p_push` -/
def poolPush (tbl : List Entry) (k : Kind) (a : Access) (s : St) (u ctx : Nat) : Option St :=
  (theCall tbl k a .push ctx).bind fun c => pushWith c s u

open ArgoVerif.Model.TQ in
/-- `p_push_many`: one queue push per unit, in array order -/
def poolPushMany (tbl : List Entry) (k : Kind) (a : Access) (s : St) (us : List Nat) (ctx : Nat) : Option St :=
  (theCall tbl k a .pushMany ctx).bind fun c =>
    us.foldlM (fun s u => pushWith c s u) s

open ArgoVerif.Model.TQ in
/-- `p_pop`, `p_pop_wait` (the wait only delays an empty answer), `p_pop_timedwait` -/
def poolPop (tbl : List Entry) (k : Kind) (a : Access) (sl : Slot) (s : St) (ctx : Nat) : Option (St × Nat) :=
  (theCall tbl k a sl ctx).bind fun c => popWith c s

open ArgoVerif.Model.TQ in
def popLoop (c : Call) : Nat → St → List Nat → Option (St × List Nat)
  | 0, s, acc => some (s, acc.reverse)
  | n + 1, s, acc =>
    match popWith c s with
    | none => none
    | some (s', 0) => some (s', acc.reverse)        -- `if (!p_thread) break;`
    | some (s', u) => popLoop c n s' (u :: acc)

open ArgoVerif.Model.TQ in
/-- `p_pop_many` with `max_threads = max` -/
def poolPopMany (tbl : List Entry) (k : Kind) (a : Access) (s : St) (max ctx : Nat) : Option (St × List Nat) :=
  (theCall tbl k a .popMany ctx).bind fun c => popLoop c max s []

open ArgoVerif.Model.TQ in
/-- `p_remove` -/
def poolRemove (tbl : List Entry) (k : Kind) (a : Access) (s : St) (u : Nat) : Option (St × Rc) :=
  (theCall tbl k a .remove 0).bind fun c =>
    match c with
    | .remove => remove s u
    | _ => none

end ArgoVerif.Model.Pool
