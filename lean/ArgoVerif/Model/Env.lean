import ArgoVerif.Model.Atoi
/-
Model.Env — `src/arch/abtd_env.c`: `get_abt_env`, `is_true/is_false`,
`load_env_bool/int/uint32/uint64/size`, `roundup_pow2_uint32/size`,
`ABTU_roundup_uint32/uint64/size` (abtu.h) and the data flow of
`ABTD_env_init` over the generated table `Gen.EnvTable.table`.

Kept from the C code:
 * lookup order `ABT_<X>` then `ABT_ENV_<X>` (first `getenv` hit wins), with the
   128-byte name buffer test;
 * `load_env_<T>`: unset or `ABTU_ato<T>` error ⇒ the *default is clamped too*
   (`max(min_val, min(max_val, default_val))`), otherwise the parsed (already
   saturated) value is clamped;  the overflow flag is ignored (`NULL`);
 * bool: with a true default everything except n/no/false/off/"0" (case-insensitive,
   "0" exact) is true; with a false default only y/yes/true/on/"1" is true;
 * `roundup_pow2_*`: 0 ↦ 0, otherwise the loop `for i in 0 .. bits-2: if (val-1)>>i == 0 break`
   and `1 << i` (so values above 2^(bits-1) give 2^(bits-1), not an overflow);
 * `ABTU_roundup_*`: `(val + m - 1) & ~(m - 1)` when `m` is a power of two, else
   `((val + m - 1) / m) * m`, in wrapping arithmetic of the type.
Integers of every C type are represented by `Int`; arithmetic that can wrap in C
is reduced modulo 2^bits explicitly.
-/
namespace ArgoVerif.Model.Env
open ArgoVerif.Gen.EnvTable
open ArgoVerif.Model.Atoi

/-- process environment: name ↦ C string (bytes, NUL-terminated) -/
abbrev Environ := List (String × List Byte)

def getenv (E : Environ) (name : String) : Option (List Byte) :=
  (E.find? (fun p => p.1 == name)).map (·.2)

/-- `get_abt_env`: the names (prefix ++ suffix) are tried in order; a name that does
not fit the 128-byte buffer is skipped -/
def getAbtEnv (E : Environ) (names : List String) : Option (List Byte) :=
  names.findSome? fun n => if n.utf8ByteSize + 1 ≤ 128 then getenv E n else none

/-- the characters of a C string (up to, not including, the first NUL) -/
def cstr (s : List Byte) : List Byte := s.takeWhile (· != 0)

def lowerByte (c : Byte) : Byte := if 65 ≤ c.toNat ∧ c.toNat ≤ 90 then c + 32 else c

/-- `strcasecmp(s, lit) == 0` for a lower-case literal -/
def caseEq (s : List Byte) (lit : String) : Bool := (cstr s).map lowerByte == lit.toUTF8.toList
/-- `strcmp(s, lit) == 0` -/
def strEq (s : List Byte) (lit : String) : Bool := cstr s == lit.toUTF8.toList

def isFalse (s : List Byte) (include0 : Bool) : Bool :=
  if include0 && strEq s "0" then true
  else caseEq s "n" || caseEq s "no" || caseEq s "false" || caseEq s "off"

def isTrue (s : List Byte) (include1 : Bool) : Bool :=
  if include1 && strEq s "1" then true
  else caseEq s "y" || caseEq s "yes" || caseEq s "true" || caseEq s "on"

def loadEnvBool (env : Option (List Byte)) (dflt : Bool) : Bool :=
  match env with
  | none => dflt
  | some s => if dflt then !(isFalse s true) else isTrue s true

/-- `ABTU_max_T(min_val, ABTU_min_T(max_val, v))` -/
def clamp (mn mx v : Int) : Int :=
  let t := if mx < v then mx else v
  if mn > t then mn else t

/-- common shape of `load_env_int/uint32/uint64/size` over the matching `ABTU_ato*` -/
def loadEnvNum (conv : List Byte → Res) (env : Option (List Byte)) (dflt mn mx : Int) : Int :=
  match env with
  | none => clamp mn mx dflt
  | some s =>
    match conv s with
    | .ok v _ => clamp mn mx v
    | _ => clamp mn mx dflt

def bitsOf : Kind → Nat
  | .bool => 32 | .int => 32 | .uint32 => 32 | .uint64 => 64 | .size => 8 * sizeofSizeT

def convOf : Kind → List Byte → Res
  | .int => abtuAtoi | .uint32 => abtuAtoui32 | .uint64 => abtuAtoui64 | .size => abtuAtosz
  | .bool => fun _ => .err errInvArg

/-- the loop of `roundup_pow2_*`: least `i < limit` with `x >> i == 0`, else `limit` -/
def findShift (x : Nat) : (fuel i : Nat) → Nat
  | 0, i => i
  | f + 1, i => if x >>> i = 0 then i else findShift x f (i + 1)

def roundupPow2 (bits : Nat) (val : Nat) : Nat :=
  if val = 0 then 0 else 1 <<< findShift (val - 1) (bits - 1) 0

/-- `ABTU_roundup_T(val, multiple)` for an unsigned `bits`-wide type -/
def roundupMultiple (bits : Nat) (val multiple : Nat) : Nat :=
  let t := (val + multiple - 1) % 2 ^ bits
  if multiple &&& (multiple - 1) = 0 then t &&& (2 ^ bits - 1 - (multiple - 1))
  else (t / multiple) * multiple % 2 ^ bits

def applyRnd (bits : Nat) (v : Int) : Rnd → Int
  | .pow2 => roundupPow2 bits v.toNat
  | .multiple m => roundupMultiple bits v.toNat m

/-- resolve a table value; `ρ` gives the run-dependent expressions their value -/
def valGet (ρ : String → Int) : Val → Int
  | .const v => v
  | .dyn e => ρ e

/-- the value a `load_env_*` call of the table returns (before the rounding wrappers) -/
def rawOf (e : Entry) (E : Environ) (ρ : String → Int) : Int :=
  let env := getAbtEnv E e.names
  match e.kind with
  | .bool => if loadEnvBool env (valGet ρ e.dflt != 0) then 1 else 0
  | k => loadEnvNum (convOf k) env (valGet ρ e.dflt) (valGet ρ e.min) (valGet ρ e.max)

/-- the setting: the rounding wrappers applied innermost first -/
def settingOf (e : Entry) (E : Environ) (ρ : String → Int) : Int :=
  e.rnd.foldl (applyRnd (bitsOf e.kind)) (rawOf e E ρ)

/-! ### `ABTD_env_init`: the run-dependent defaults, then every table entry -/

def entryOf (suffix : String) : Option Entry := table.find? (·.suffix == suffix)

def define (name : String) : Int := ((defines.find? (·.1 == name)).map (·.2)).getD 0

/-- `ABTD_env_get_stack_guard_mprotect`: (mprotect, strict) -/
def stackGuard (E : Environ) : Bool × Bool :=
  match getAbtEnv E (prefixes.map (· ++ "STACK_OVERFLOW_CHECK")) with
  | some s =>
    if caseEq s "mprotect_strict" then (true, true)
    else if caseEq s "mprotect" then (true, false)
    else (false, false)
  | none => (cfgStackGuardDefaultMprotect != 0, cfgStackGuardDefaultStrict != 0)

def wrap64 (v : Int) : Int := v % 2 ^ (8 * sizeofSizeT)

/-- values of the table's `Val.dyn` expressions, computed as `ABTD_env_init` does.
`numCores` = sysconf(_SC_NPROCESSORS_ONLN), `pageSize` = getpagesize(). -/
def dynOf (E : Environ) (numCores pageSize : Int) : String → Int :=
  let ρ0 : String → Int := fun s => if s = "sys_page_size" then pageSize else 0
  let setting0 (suffix : String) (ρ : String → Int) : Int :=
    match entryOf suffix with | some e => settingOf e E ρ | none => 0
  let sysPage := setting0 "SYS_PAGE_SIZE" ρ0
  let extra := if (stackGuard E).1 then wrap64 (sysPage * 2) else 0
  let dThread := wrap64 ((cfgDefaultThreadStacksize : Int) + extra)
  let dSched := wrap64 (define "ABTD_SCHED_DEFAULT_STACKSIZE" + extra)
  let ρ1 : String → Int := fun s =>
    if s = "sys_page_size" then pageSize
    else if s = "default_thread_stacksize" then dThread
    else if s = "default_sched_stacksize" then dSched
    else 0
  let threadStack := setting0 "THREAD_STACKSIZE" ρ1
  -- ABTU_min_uint32(ABTD_MEM_MAX_TOTAL_STACK_SIZE / thread_stacksize, ABTD_MEM_MAX_NUM_STACKS)
  let q := (define "ABTD_MEM_MAX_TOTAL_STACK_SIZE" / threadStack) % 2 ^ 32
  let dStacks := if q < define "ABTD_MEM_MAX_NUM_STACKS" then q else define "ABTD_MEM_MAX_NUM_STACKS"
  fun s =>
    if s = "num_cores" then numCores
    else if s = "sys_page_size" then pageSize
    else if s = "default_thread_stacksize" then dThread
    else if s = "default_sched_stacksize" then dSched
    else if s = "p_global->thread_stacksize * 4" then wrap64 (threadStack * 4)
    else if s = "default_mem_max_stacks" then dStacks
    else 0

/-- every setting of the table in table order, then the stack-guard kind -/
def envInit (E : Environ) (numCores pageSize : Int) : List (String × Int) :=
  let ρ := dynOf E numCores pageSize
  let g := stackGuard E
  table.map (fun e => (e.suffix, settingOf e E ρ)) ++
    [("STACK_OVERFLOW_CHECK",
      ((if g.1 then (if g.2 then stackGuardMprotectStrict else stackGuardMprotect) else stackGuardNone : Nat) : Int))]

end ArgoVerif.Model.Env
