/-
Core.LTS — labelled transition systems with a partial executable step,
runs, reachability, and the invariant principle every protocol theorem uses.
-/
namespace ArgoVerif

/-- pointwise update of a total function (identifier-indexed state, unbounded) -/
def upd {α : Type} {β : Type} [DecidableEq α] (f : α → β) (a : α) (v : β) : α → β :=
  fun x => if x = a then v else f x

@[simp] theorem upd_same {α β} [DecidableEq α] (f : α → β) (a : α) (v : β) : upd f a v a = v := by
  simp [upd]

@[simp] theorem upd_other {α β} [DecidableEq α] (f : α → β) (a b : α) (v : β) (h : b ≠ a) :
    upd f a v b = f b := by
  simp [upd, h]

structure Machine (σ : Type) (ε : Type) where
  init : σ
  step : σ → ε → Option σ

namespace Machine
variable {σ ε : Type}

/-- run a trace; `none` = the trace is not a behaviour of the model -/
def run (m : Machine σ ε) : σ → List ε → Option σ
  | s, [] => some s
  | s, e :: es => match m.step s e with
    | none => none
    | some s' => run m s' es

def Reachable (m : Machine σ ε) (s : σ) : Prop := ∃ tr, m.run m.init tr = some s

theorem run_append (m : Machine σ ε) (s : σ) (t1 t2 : List ε) :
    m.run s (t1 ++ t2) = (m.run s t1).bind (fun s' => m.run s' t2) := by
  induction t1 generalizing s with
  | nil => simp [run]
  | cons e es ih =>
    simp only [List.cons_append, run]
    cases h : m.step s e with
    | none => simp
    | some s' => simpa using ih s'

/-- an inductive invariant holds after every accepted trace -/
theorem invariant_run (m : Machine σ ε) (Inv : σ → Prop)
    (hs : ∀ s e s', Inv s → m.step s e = some s' → Inv s') :
    ∀ tr s s', Inv s → m.run s tr = some s' → Inv s' := by
  intro tr
  induction tr with
  | nil => intro s s' h hr; simp [run] at hr; subst hr; exact h
  | cons e es ih =>
    intro s s' h hr
    simp only [run] at hr
    cases hst : m.step s e with
    | none => simp [hst] at hr
    | some s1 => simp only [hst] at hr; exact ih s1 s' (hs s e s1 h hst) hr

theorem invariant_reachable (m : Machine σ ε) (Inv : σ → Prop) (h0 : Inv m.init)
    (hs : ∀ s e s', Inv s → m.step s e = some s' → Inv s') :
    ∀ s, m.Reachable s → Inv s := by
  intro s ⟨tr, hr⟩
  exact invariant_run m Inv hs tr m.init s h0 hr

end Machine

/-- relational systems: `Step s e s'`; traces as an inductive closure -/
inductive Star {σ ε : Type} (Step : σ → ε → σ → Prop) : σ → List ε → σ → Prop where
  | refl (s) : Star Step s [] s
  | cons {s e s1 es s2} : Step s e s1 → Star Step s1 es s2 → Star Step s (e :: es) s2

theorem Star.invariant {σ ε : Type} {Step : σ → ε → σ → Prop} (Inv : σ → Prop)
    (hs : ∀ s e s', Inv s → Step s e s' → Inv s') :
    ∀ {s tr s'}, Star Step s tr s' → Inv s → Inv s' := by
  intro s tr s' h
  induction h with
  | refl => exact id
  | cons hst _ ih => intro hi; exact ih (hs _ _ _ hi hst)

theorem Star.snoc {σ ε : Type} {Step : σ → ε → σ → Prop} {s tr s1 e s2}
    (h : Star Step s tr s1) (hst : Step s1 e s2) : Star Step s (tr ++ [e]) s2 := by
  induction h with
  | refl => exact Star.cons hst (Star.refl _)
  | cons h1 _ ih => exact Star.cons h1 (ih hst)

/-- executable run related to the relational closure -/
theorem Machine.run_star {σ ε : Type} (m : Machine σ ε) (Step : σ → ε → σ → Prop)
    (sound : ∀ s e s', m.step s e = some s' → Step s e s') :
    ∀ tr s s', m.run s tr = some s' → Star Step s tr s' := by
  intro tr
  induction tr with
  | nil => intro s s' h; simp [Machine.run] at h; subst h; exact Star.refl _
  | cons e es ih =>
    intro s s' h
    simp only [Machine.run] at h
    cases hst : m.step s e with
    | none => simp [hst] at h
    | some s1 => simp only [hst] at h; exact Star.cons (sound _ _ _ hst) (ih _ _ h)

end ArgoVerif
