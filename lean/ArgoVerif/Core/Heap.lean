import ArgoVerif.Core.LTS
/-
Core.Heap — linked lists in a heap of `Nat`-indexed nodes (0 = NULL).

A heap is a family of field functions `next`, `prev : Nat → Nat`; field writes are
`upd next a v`.  All list shapes are defined from one predicate

    Seg next a xs b   "following `next` from `a` visits exactly `xs`, all non-null,
                       and arrives at `b`"

by structural recursion on the abstract list `xs`:

  * `SLL next head xs`                      NULL-terminated singly linked list
  * `DLL prev next b head xs tail a`        doubly linked segment whose first node's
                                            `prev` is `b` and last node's `next` is `a`
                                            (`b = a = 0`: the usual NULL-terminated list)
  * `Circ prev next head tail xs`           circular doubly linked list as kept by
                                            `thread_queue_t`: `tail->next = head`,
                                            `head->prev = tail`, `head = tail = NULL` iff empty

Workhorse lemmas: `seg_frame` (a write at a node not in `xs` does not matter),
`seg_append` / `seg_append_iff`, `seg_snoc_iff`, `seg_set_last` (redirect the last link),
`seg_walk` (the executable traversal recovers `xs`), `dll_mirror` (reversal symmetry:
swap `prev`/`next`, `head`/`tail`, reverse `xs`).  Core Lean only.
-/
namespace ArgoVerif.Heap
open ArgoVerif

/-- following `next` from `a` visits exactly `xs` (all non-null) and arrives at `b` -/
def Seg (next : Nat → Nat) : Nat → List Nat → Nat → Prop
  | a, [], b => a = b
  | a, x :: xs, b => a = x ∧ x ≠ 0 ∧ Seg next (next x) xs b

instance Seg.dec (next : Nat → Nat) : (a : Nat) → (xs : List Nat) → (b : Nat) → Decidable (Seg next a xs b)
  | a, [], b => inferInstanceAs (Decidable (a = b))
  | a, x :: xs, b =>
    have := Seg.dec next (next x) xs b
    inferInstanceAs (Decidable (a = x ∧ x ≠ 0 ∧ Seg next (next x) xs b))

@[simp] theorem seg_nil {next : Nat → Nat} {a b : Nat} : Seg next a [] b ↔ a = b := Iff.rfl

@[simp] theorem seg_cons {next : Nat → Nat} {a x b : Nat} {xs : List Nat} :
    Seg next a (x :: xs) b ↔ a = x ∧ x ≠ 0 ∧ Seg next (next x) xs b := Iff.rfl

/-- every node of a segment is non-null -/
theorem seg_nonnull {next : Nat → Nat} {a b : Nat} {xs : List Nat} (h : Seg next a xs b) :
    ∀ x ∈ xs, x ≠ 0 := by
  induction xs generalizing a with
  | nil => simp
  | cons y ys ih =>
    obtain ⟨_, hy, hr⟩ := h
    intro x hx
    rcases List.mem_cons.mp hx with rfl | hx
    · exact hy
    · exact ih hr x hx

/-- a non-empty segment starts at its first element -/
theorem seg_head {next : Nat → Nat} {a b x : Nat} {xs : List Nat} (h : Seg next a (x :: xs) b) : a = x := h.1

/-- two heaps that agree on the nodes of `xs` have the same segments over `xs` -/
theorem seg_congr {next next' : Nat → Nat} {a b : Nat} {xs : List Nat}
    (hag : ∀ x ∈ xs, next' x = next x) : Seg next' a xs b ↔ Seg next a xs b := by
  induction xs generalizing a with
  | nil => simp
  | cons y ys ih =>
    have hy : next' y = next y := hag y (by simp)
    have ih' := @ih (next y) (fun x hx => hag x (by simp [hx]))
    simp only [seg_cons, hy, ih']

/-- **frame**: a write at a node outside `xs` does not change the segment -/
theorem seg_frame {next : Nat → Nat} {a b t v : Nat} {xs : List Nat} (h : t ∉ xs) :
    Seg (upd next t v) a xs b ↔ Seg next a xs b := by
  apply seg_congr
  intro x hx
  have : x ≠ t := fun e => h (e ▸ hx)
  simp [upd, this]

/-- segments compose … -/
theorem seg_append_iff {next : Nat → Nat} {a c : Nat} {xs ys : List Nat} :
    Seg next a (xs ++ ys) c ↔ ∃ b, Seg next a xs b ∧ Seg next b ys c := by
  induction xs generalizing a with
  | nil => simp
  | cons y r ih =>
    simp only [List.cons_append, seg_cons, ih]
    constructor
    · rintro ⟨h1, h2, b, h3, h4⟩; exact ⟨b, ⟨h1, h2, h3⟩, h4⟩
    · rintro ⟨b, ⟨h1, h2, h3⟩, h4⟩; exact ⟨h1, h2, b, h3, h4⟩

theorem seg_append {next : Nat → Nat} {a b c : Nat} {xs ys : List Nat}
    (h1 : Seg next a xs b) (h2 : Seg next b ys c) : Seg next a (xs ++ ys) c :=
  seg_append_iff.mpr ⟨b, h1, h2⟩

/-- … and a segment ending in `u` is a segment up to `u` followed by `u`'s link -/
theorem seg_snoc_iff {next : Nat → Nat} {a b u : Nat} {xs : List Nat} :
    Seg next a (xs ++ [u]) b ↔ Seg next a xs u ∧ u ≠ 0 ∧ next u = b := by
  simp only [seg_append_iff, seg_cons, seg_nil]
  constructor
  · rintro ⟨m, h1, h2, h3, h4⟩; subst h2; exact ⟨h1, h3, h4⟩
  · rintro ⟨h1, h2, h3⟩; exact ⟨u, h1, rfl, h2, h3⟩

/-- splitting at a member: its link leads into the rest -/
theorem seg_split {next : Nat → Nat} {a c u : Nat} {as bs : List Nat} :
    Seg next a (as ++ u :: bs) c ↔ Seg next a as u ∧ u ≠ 0 ∧ Seg next (next u) bs c := by
  simp only [seg_append_iff, seg_cons]
  constructor
  · rintro ⟨m, h1, h2, h3, h4⟩; subst h2; exact ⟨h1, h3, h4⟩
  · rintro ⟨h1, h2, h3⟩; exact ⟨u, h1, rfl, h2, h3⟩

/-- redirect the last link of a segment (the last node is not among the earlier ones) -/
theorem seg_set_last {next : Nat → Nat} {a b b' t : Nat} {xs : List Nat}
    (h : Seg next a (xs ++ [t]) b) (hn : t ∉ xs) : Seg (upd next t b') a (xs ++ [t]) b' := by
  rw [seg_snoc_iff] at h ⊢
  exact ⟨(seg_frame hn).mpr h.1, h.2.1, by simp⟩

theorem exists_snoc {xs : List Nat} (h : xs ≠ []) : ∃ ini l, xs = ini ++ [l] :=
  ⟨xs.dropLast, xs.getLast h, (List.dropLast_concat_getLast h).symm⟩

theorem nodup_reverse {xs : List Nat} : xs.reverse.Nodup ↔ xs.Nodup := by
  simp only [List.Nodup, List.pairwise_reverse]
  constructor <;> exact fun h => h.imp (fun h => Ne.symm h)

theorem nodup_snoc {xs : List Nat} {l : Nat} : (xs ++ [l]).Nodup ↔ l ∉ xs ∧ xs.Nodup := by
  rw [List.nodup_append]
  constructor
  · rintro ⟨h1, _, h3⟩; exact ⟨fun hm => h3 l hm l (by simp) rfl, h1⟩
  · rintro ⟨h1, h2⟩
    refine ⟨h2, by simp, ?_⟩
    intro a ha b hb e
    simp at hb; subst hb; subst e; exact h1 ha

/-- a non-empty segment ends in its last element's link -/
theorem seg_getLast {next : Nat → Nat} {a b : Nat} {xs : List Nat} (h : Seg next a xs b) (hne : xs ≠ []) :
    next (xs.getLast hne) = b := by
  obtain ⟨ini, l, rfl⟩ := exists_snoc hne
  rw [seg_snoc_iff] at h
  simpa using h.2.2

/-- a segment that does not revisit its nodes never arrives inside itself … unless empty:
the arrival point of a *closed* non-empty segment is its first node, which is a member. -/
theorem seg_closed_head_mem {next : Nat → Nat} {a : Nat} {xs : List Nat} (h : Seg next a xs a) (hne : xs ≠ []) :
    a ∈ xs := by
  cases xs with
  | nil => exact absurd rfl hne
  | cons x r => simp [h.1]

/-- executable traversal: `n` nodes starting at `a` -/
def walk (next : Nat → Nat) : Nat → Nat → List Nat
  | _, 0 => []
  | a, n + 1 => a :: walk next (next a) n

@[simp] theorem walk_length (next : Nat → Nat) (a n : Nat) : (walk next a n).length = n := by
  induction n generalizing a with
  | zero => rfl
  | succ n ih => simp [walk, ih]

/-- the traversal recovers the abstract list of a segment -/
theorem seg_walk {next : Nat → Nat} {a b : Nat} {xs : List Nat} (h : Seg next a xs b) :
    walk next a xs.length = xs := by
  induction xs generalizing a with
  | nil => rfl
  | cons y r ih =>
    obtain ⟨rfl, _, hr⟩ := h
    simp [walk, ih hr]

/-- inside a duplicate-free segment the link of a node determines its successor:
if `p`'s link is the arrival point `b` and `b` is not itself in `xs`, `p` is the last node -/
theorem seg_link_out {next : Nat → Nat} {a b p : Nat} {xs : List Nat} (h : Seg next a xs b)
    (hb : b ∉ xs) (hp : p ∈ xs) (hl : next p = b) : ∃ ini, xs = ini ++ [p] := by
  induction xs generalizing a with
  | nil => simp at hp
  | cons y r ih =>
    obtain ⟨rfl, hy, hr⟩ := h
    cases r with
    | nil =>
      simp at hp; subst hp; exact ⟨[], rfl⟩
    | cons z r' =>
      rcases List.mem_cons.mp hp with rfl | hp'
      · -- next p = z, a member, contradiction with b ∉ xs
        exfalso; apply hb
        have : next p = z := hr.1
        simp [← hl, this]
      · obtain ⟨ini, hini⟩ := ih hr (fun hm => hb (List.mem_cons_of_mem _ hm)) hp'
        exact ⟨a :: ini, by simp [hini]⟩

/-! ### singly linked, NULL-terminated -/

/-- NULL-terminated singly linked list from `head` -/
def SLL (next : Nat → Nat) (head : Nat) (xs : List Nat) : Prop := Seg next head xs 0

theorem sll_nil_iff {next : Nat → Nat} {head : Nat} {xs : List Nat} (h : SLL next head xs) :
    head = 0 ↔ xs = [] := by
  cases xs with
  | nil => simpa [SLL] using h
  | cons x r =>
    obtain ⟨rfl, hx, _⟩ := h
    simp [hx]

/-! ### doubly linked segments -/

/-- doubly linked segment: forward from `head` through `xs` to `after`, backward from `tail`
through `xs.reverse` to `before`.  (`before = after = 0`: NULL-terminated list with head and
tail pointers; `before = tail`, `after = head`: circular list.) -/
def DLL (prev next : Nat → Nat) (before head : Nat) (xs : List Nat) (tail after : Nat) : Prop :=
  Seg next head xs after ∧ Seg prev tail xs.reverse before

instance (prev next : Nat → Nat) (b h : Nat) (xs : List Nat) (t a : Nat) : Decidable (DLL prev next b h xs t a) :=
  inferInstanceAs (Decidable (_ ∧ _))

/-- reversal symmetry: read the same nodes backwards -/
theorem dll_mirror {prev next : Nat → Nat} {b h t a : Nat} {xs : List Nat} :
    DLL prev next b h xs t a ↔ DLL next prev a t xs.reverse h b := by
  simp [DLL, and_comm]

theorem dll_frame {prev next : Nat → Nat} {b h t a u v w : Nat} {xs : List Nat} (hu : u ∉ xs) :
    DLL (upd prev u v) (upd next u w) b h xs t a ↔ DLL prev next b h xs t a := by
  simp only [DLL]
  rw [seg_frame hu, seg_frame (by simpa using hu)]

theorem dll_head {prev next : Nat → Nat} {b h t a x : Nat} {xs : List Nat}
    (hd : DLL prev next b h (x :: xs) t a) : h = x ∧ prev x = b := by
  refine ⟨hd.1.1, ?_⟩
  have := hd.2
  rw [List.reverse_cons, seg_snoc_iff] at this
  exact this.2.2

theorem dll_last {prev next : Nat → Nat} {b h t a x : Nat} {xs : List Nat}
    (hd : DLL prev next b h (xs ++ [x]) t a) : t = x ∧ next x = a := by
  have hm := dll_mirror.mp hd
  rw [List.reverse_append] at hm
  exact dll_head (xs := xs.reverse) (by simpa using hm)

/-! ### circular doubly linked lists (thread_queue_t) -/

/-- circular doubly linked list with explicit head and tail pointers, exactly the shape
`thread_queue.h` maintains: no duplicates; empty ⇒ `head = tail = NULL`; otherwise `head` is the
first and `tail` the last node, `tail->next = head` and `head->prev = tail`, `next`/`prev` are
inverse along `xs`.  (A list that keeps no tail pointer uses `tail := prev head`.) -/
def Circ (prev next : Nat → Nat) (head tail : Nat) (xs : List Nat) : Prop :=
  xs.Nodup ∧ DLL prev next tail head xs tail head ∧ (xs = [] → head = 0 ∧ tail = 0)

instance (prev next : Nat → Nat) (h t : Nat) (xs : List Nat) : Decidable (Circ prev next h t xs) :=
  inferInstanceAs (Decidable (_ ∧ _ ∧ _))

theorem circ_nil {prev next : Nat → Nat} : Circ prev next 0 0 [] := by simp [Circ, DLL]

theorem circ_mirror {prev next : Nat → Nat} {h t : Nat} {xs : List Nat} :
    Circ prev next h t xs ↔ Circ next prev t h xs.reverse := by
  simp only [Circ, nodup_reverse, List.reverse_eq_nil_iff]
  rw [dll_mirror (xs := xs)]
  simp [and_comm]

theorem circ_nonnull {prev next : Nat → Nat} {h t : Nat} {xs : List Nat} (hc : Circ prev next h t xs) :
    ∀ x ∈ xs, x ≠ 0 := seg_nonnull hc.2.1.1

/-- head pointer = first node, and its `prev` is the tail -/
theorem circ_head {prev next : Nat → Nat} {h t x : Nat} {xs : List Nat} (hc : Circ prev next h t (x :: xs)) :
    h = x ∧ prev x = t ∧ x ≠ 0 := by
  have := dll_head hc.2.1
  exact ⟨this.1, this.2, hc.2.1.1.2.1⟩

/-- tail pointer = last node, and its `next` is the head -/
theorem circ_last {prev next : Nat → Nat} {h t x : Nat} {xs : List Nat} (hc : Circ prev next h t (xs ++ [x])) :
    t = x ∧ next x = h ∧ x ≠ 0 := by
  have := dll_last hc.2.1
  exact ⟨this.1, this.2, circ_nonnull hc x (by simp)⟩

/-- NULL head ⇔ empty -/
theorem circ_head_null_iff {prev next : Nat → Nat} {h t : Nat} {xs : List Nat} (hc : Circ prev next h t xs) :
    h = 0 ↔ xs = [] := by
  cases xs with
  | nil => simp [(hc.2.2 rfl).1]
  | cons x r => have := circ_head hc; simp [this.1, this.2.2]

theorem circ_walk {prev next : Nat → Nat} {h t : Nat} {xs : List Nat} (hc : Circ prev next h t xs) :
    walk next h xs.length = xs := seg_walk hc.2.1.1

theorem circ_walk_back {prev next : Nat → Nat} {h t : Nat} {xs : List Nat} (hc : Circ prev next h t xs) :
    walk prev t xs.length = xs.reverse := by
  have := seg_walk hc.2.1.2
  simpa using this

/-- two heaps that agree on the nodes of `xs` carry the same circular list -/
theorem circ_congr {prev next prev' next' : Nat → Nat} {h t : Nat} {xs : List Nat}
    (hp : ∀ x ∈ xs, prev' x = prev x) (hn : ∀ x ∈ xs, next' x = next x) :
    Circ prev' next' h t xs ↔ Circ prev next h t xs := by
  simp only [Circ, DLL]
  rw [seg_congr hn, seg_congr (xs := xs.reverse) (by simpa using hp)]

/-- singleton circular list: the node points to itself both ways -/
theorem circ_singleton {prev next : Nat → Nat} {u : Nat} (hu : u ≠ 0) (hp : prev u = u) (hn : next u = u) :
    Circ prev next u u [u] := by
  simp [Circ, DLL, hu, hp, hn]

/-- **push at the head** of a non-empty circular list: the four link writes of
`thread_queue_push_head` (`tail->next = u; head->prev = u; u->prev = tail; u->next = head`) -/
theorem circ_push_head {prev next : Nat → Nat} {h t u : Nat} {xs : List Nat}
    (hc : Circ prev next h t xs) (hne : xs ≠ []) (hu : u ≠ 0) (hnm : u ∉ xs) :
    Circ (upd (upd prev h u) u t) (upd (upd next t u) u h) u t (u :: xs) := by
  obtain ⟨hnd, ⟨hf, hb⟩, _⟩ := hc
  refine ⟨List.nodup_cons.mpr ⟨hnm, hnd⟩, ⟨?_, ?_⟩, by simp⟩
  · -- forward: u, then the old list whose last link now goes to u
    obtain ⟨ini, l, rfl⟩ := exists_snoc hne
    have hl : t = l := by
      rw [List.reverse_append] at hb; exact hb.1
    subst hl
    simp only [seg_cons, upd_same]
    refine ⟨trivial, hu, ?_⟩
    rw [seg_frame hnm]
    exact seg_set_last hf (nodup_snoc.mp hnd).1
  · -- backward: the old reversed list whose last link (the old head's prev) now goes to u, then u
    rw [List.reverse_cons, seg_snoc_iff]
    refine ⟨?_, hu, by simp⟩
    rw [seg_frame (by simpa using hnm)]
    cases xs with
    | nil => exact absurd rfl hne
    | cons x r =>
      have hh : h = x := hf.1
      subst hh
      rw [List.reverse_cons] at hb ⊢
      exact seg_set_last hb (by simpa using (List.nodup_cons.mp hnd).1)

/-- **push at the tail** (mirror image of `circ_push_head`; the same four link writes) -/
theorem circ_push_tail {prev next : Nat → Nat} {h t u : Nat} {xs : List Nat}
    (hc : Circ prev next h t xs) (hne : xs ≠ []) (hu : u ≠ 0) (hnm : u ∉ xs) :
    Circ (upd (upd prev h u) u t) (upd (upd next t u) u h) h u (xs ++ [u]) := by
  have hm := circ_mirror.mp hc
  have := circ_push_head hm (by simpa using hne) hu (by simpa using hnm)
  exact (circ_mirror (xs := xs ++ [u])).mpr (by simpa using this)

/-- **unlink the first node** of a circular list with at least two nodes
(`u->prev->next = u->next; u->next->prev = u->prev; head = u->next`, then `u`'s own links are
overwritten by anything): `thread_queue_pop_head`, and `thread_queue_remove` of the head -/
theorem circ_unlink_head {prev next : Nat → Nat} {h t u : Nat} {bs : List Nat}
    (hc : Circ prev next h t (u :: bs)) (hbne : bs ≠ []) (v w : Nat) :
    Circ (upd (upd prev (next u) (prev u)) u v) (upd (upd next (prev u) (next u)) u w) (next u) t bs := by
  have hpu : prev u = t := (circ_head hc).2.1
  obtain ⟨hnd, ⟨hf, hb⟩, _⟩ := hc
  obtain ⟨hub, hndb⟩ := List.nodup_cons.mp hnd
  obtain ⟨_, hu0, hf'⟩ := hf
  rw [List.reverse_cons, seg_snoc_iff] at hb
  obtain ⟨hb', _, _⟩ := hb
  rw [hpu]
  refine ⟨hndb, ⟨?_, ?_⟩, fun e => absurd e hbne⟩
  · rw [seg_frame hub]
    obtain ⟨ini, l, rfl⟩ := exists_snoc hbne
    have hl : t = l := by rw [List.reverse_append] at hb'; exact hb'.1
    subst hl
    exact seg_set_last hf' (nodup_snoc.mp hndb).1
  · rw [seg_frame (by simpa using hub)]
    cases bs with
    | nil => exact absurd rfl hbne
    | cons y r =>
      have hy : next u = y := hf'.1
      rw [hy]
      rw [List.reverse_cons] at hb' ⊢
      exact seg_set_last hb' (by simpa using (List.nodup_cons.mp hndb).1)

/-- **unlink the last node** (mirror image): `thread_queue_pop_tail`, `remove` of the tail -/
theorem circ_unlink_tail {prev next : Nat → Nat} {h t u : Nat} {as : List Nat}
    (hc : Circ prev next h t (as ++ [u])) (hane : as ≠ []) (v w : Nat) :
    Circ (upd (upd prev (next u) (prev u)) u v) (upd (upd next (prev u) (next u)) u w) h (prev u) as := by
  have hm := circ_mirror.mp hc
  rw [List.reverse_append] at hm
  have := circ_unlink_head (bs := as.reverse) (by simpa using hm) (by simpa using hane) w v
  exact (circ_mirror (xs := as)).mpr (by simpa using this)

/-- **unlink from the middle** (`thread_queue_remove` of a node that is neither first nor last):
predecessor and successor are linked to each other, head and tail stay -/
theorem circ_unlink_mid {prev next : Nat → Nat} {h t u : Nat} {as bs : List Nat}
    (hc : Circ prev next h t (as ++ u :: bs)) (hane : as ≠ []) (hbne : bs ≠ []) (v w : Nat) :
    Circ (upd (upd prev (next u) (prev u)) u v) (upd (upd next (prev u) (next u)) u w) h t (as ++ bs) := by
  obtain ⟨hnd, ⟨hf, hb⟩, _⟩ := hc
  obtain ⟨as', p, rfl⟩ := exists_snoc hane
  obtain ⟨n, bs', rfl⟩ : ∃ n bs', bs = n :: bs' := by
    cases bs with
    | nil => exact absurd rfl hbne
    | cons n bs' => exact ⟨n, bs', rfl⟩
  -- forward facts
  rw [seg_split] at hf
  obtain ⟨hf1, hu0, hf2⟩ := hf
  have hnu : next u = n := hf2.1
  -- backward facts
  have hrev : (as' ++ [p] ++ u :: n :: bs').reverse = (n :: bs').reverse ++ u :: (p :: as'.reverse) := by simp
  rw [hrev, seg_split] at hb
  obtain ⟨hb1, _, hb2⟩ := hb
  have hpu : prev u = p := hb2.1
  rw [hnu, hpu]
  rw [hnu] at hf2
  rw [hpu] at hb2
  -- distinctness
  have hnd1 : (as' ++ [p] ++ u :: n :: bs').Nodup := hnd
  rw [List.nodup_append, List.nodup_cons] at hnd1
  obtain ⟨hndA, ⟨huB, hndB⟩, hAB⟩ := hnd1
  have hu_not : u ∉ as' ++ [p] ++ n :: bs' := by
    intro hm
    rcases List.mem_append.mp hm with hx | hx
    · exact hAB u hx u (by simp) rfl
    · exact huB hx
  have hnd2 : (as' ++ [p] ++ n :: bs').Nodup := by
    rw [List.nodup_append]
    exact ⟨hndA, hndB, fun a ha b hb' => hAB a ha b (List.mem_cons_of_mem _ hb')⟩
  have hp_as' : p ∉ as' := (nodup_snoc.mp hndA).1
  have hp_bs : p ∉ n :: bs' := fun hm => hAB p (by simp) p (List.mem_cons_of_mem _ hm) rfl
  have hn_bs' : n ∉ bs' := (List.nodup_cons.mp hndB).1
  have hn_as : n ∉ as' ++ [p] := fun hm => hAB n hm n (by simp) rfl
  refine ⟨hnd2, ⟨?_, ?_⟩, by simp⟩
  · rw [seg_frame hu_not]
    apply seg_append (b := n)
    · exact seg_set_last hf1 hp_as'
    · rw [seg_frame hp_bs]; exact hf2
  · have hrev2 : (as' ++ [p] ++ n :: bs').reverse = (bs'.reverse ++ [n]) ++ (p :: as'.reverse) := by simp
    rw [seg_frame (fun hm => hu_not (List.mem_reverse.mp hm)), hrev2]
    apply seg_append (b := p)
    · have hb1' : Seg prev t (bs'.reverse ++ [n]) u := by simpa using hb1
      exact seg_set_last hb1' (by simpa using hn_bs')
    · rw [seg_frame (by
        intro hm; apply hn_as
        rcases List.mem_cons.mp hm with e | hm
        · simp [e]
        · simp [List.mem_reverse.mp hm])]
      exact hb2

end ArgoVerif.Heap
