import ArgoVerif.Props.SchedCommon
import ArgoVerif.Proofs.Join
import ArgoVerif.Gen.Consts
/-
Props.C12 — work-unit lifecycle: the observable state follows the state machine; exit / cancel terminate; a unit is
freed once; a terminated named unit can be revived and runs once more.
-/
namespace ArgoVerif.Props.C12
open ArgoVerif ArgoVerif.Model.Sched

/-- the edges of the life-cycle automaton that the scheduling code can produce.  Besides the documented
READY→RUNNING→(BLOCKED→READY→RUNNING)*→TERMINATED they are: RUNNING→READY (a yield), READY→READY (re-push after a
migration, store of the same value), BLOCKED→RUNNING (directed resume: resume_yield_to, exit hand-off to a joiner),
READY→TERMINATED (a unit cancelled before it ever ran / while waiting in a pool) and TERMINATED→READY, the first step of
`thread_revive` (see `terminated_left_only_by_revive`) -/
def Edge : USt → USt → Prop
  | .ready, .running | .running, .ready | .ready, .ready | .running, .blocked | .blocked, .ready | .blocked, .running
  | .running, .terminated | .ready, .terminated | .terminated, .ready => True
  | _, _ => False

/-- **the only way out of TERMINATED is a revive**: a store into a terminated unit's state is the READY store of
`thread_revive` on a unit that is terminated and not freed; it puts the unit out of everybody's reach (`reviving`) until
the revive event re-creates it -/
theorem terminated_left_only_by_revive (s s' : St) (h : machine.Reachable s) (u : UnitId) (v : USt)
    (ht : s.st u = .terminated) (hs : step s (.setSt u v) = some s') :
    v = .ready ∧ s.loc u = .done ∧ s'.loc u = .reviving ∧ s'.st u = .ready := by
  have h2 := ((inv_reachable s h).termLoc u).mp ht
  simp only [step, stepSetSt] at hs
  cases v <;> cases hl : s.loc u <;> simp only [hl] at hs <;> (repeat' (split at hs)) <;> (try cases hs) <;>
    simp_all [upd]

/-- a unit being revived can only be re-created: nothing else applies to it -/
theorem reviving_only_created (s s' : St) (e : Ev) (u : UnitId) (hl : s.loc u = .reviving) (hs : step s e = some s') :
    s'.loc u = .reviving ∨ (∃ p, e = .create u p) := by
  cases e with
  | push p v =>
    simp only [step, stepPush] at hs
    split at hs
    · rename_i hg
      cases hs
      by_cases huv : v = u
      · subst huv; rw [hl] at hg; simp [pushable] at hg
      · left; have : ¬ u = v := fun h => huv h.symm
        simp [upd, this, hl]
    · cases hs
  | _ =>
    simp only [step, stepCreate, stepPop, stepSetSt, stepRun, stepUserStart, stepUserEnd, stepCb, stepIncB,
      stepDecB, stepResume, stepFinish, stepTerminate, stepFree, stepReqSet, stepReqClr, stepMigrate, stepJoinRet, stepXferB] at hs <;>
    (repeat' (split at hs)) <;> (try cases hs) <;> simp_all [setLoc, upd] <;> grind

/-- **life_transitions**: every store to a unit's state in a reachable state follows an edge of the automaton; in
particular nothing is ever stored after TERMINATED (until a revive), BLOCKED is entered only from RUNNING, and
TERMINATED only from RUNNING or (cancellation) READY -/
theorem life_transitions (s s' : St) (h : machine.Reachable s) (u : UnitId) (v : USt)
    (hs : step s (.setSt u v) = some s') : Edge (s.st u) v := by
  have hi := inv_reachable s h
  have h1 := hi.stBlockedLoc u
  have h2 := hi.termLoc u
  have h3 := hi.runningSt u
  simp only [step, stepSetSt] at hs
  cases v <;> cases hl : s.loc u <;> simp only [hl] at hs <;> (repeat' (split at hs)) <;> (try cases hs) <;>
    cases hst : s.st u <;> simp_all [Edge]

/-- **exit terminates now**: ABTI_thread_terminate is entered from the exit callback only after the function was entered
exactly once (it is running its own exit), or on behalf of a cancellation request -/
theorem exit_or_cancel_terminates (s s' : St) (u : UnitId) (hs : step s (.terminate u) = some s') :
    (s.starts u = 1) ∨ (s.reqCancel u = true) := by
  simp only [step, stepTerminate] at hs
  split at hs
  · cases hs
  · cases hl : s.loc u <;> simp only [hl] at hs <;> (repeat' (split at hs)) <;> (try cases hs) <;> simp_all <;> grind

/-- **cancel by the next scheduling point**: a pending cancellation is honoured at a scheduling point (a scheduler holding
the popped unit, or a yield-type callback), never while the unit is running user code or sitting in a pool -/
theorem cancel_only_at_sched_point (s s' : St) (h : machine.Reachable s) (u : UnitId)
    (hs : step s (.terminate u) = some s') (hc : s'.cancelled u = true) :
    (∃ e, s.loc u = .held e) ∨ (∃ e, s.loc u = .cb e) := by
  have hct := (inv_reachable s h).cancTerm u
  simp only [step, stepTerminate] at hs
  split at hs
  · cases hs
  · cases hl : s.loc u <;> simp only [hl] at hs <;> (repeat' (split at hs)) <;> (try cases hs) <;> simp_all [upd]

/-- **freed exactly once**: a unit is freed only when terminated, and a freed unit cannot be freed again (nor pushed,
run or joined-through) until it is created anew -/
theorem free_once (s s' : St) (u : UnitId) (hs : step s (.free u) = some s') :
    s.loc u = .done ∧ s'.loc u = .freed ∧ step s' (.free u) = none := by
  simp only [step, stepFree] at hs
  split at hs
  · rename_i h; cases hs; simp [h, step, stepFree, setLoc, upd]
  · cases hs

/-- **named units stay joinable until freed, and revive runs once more**: after TERMINATED the state and location are
frozen until a revive (READY store, then the revive event = `create`) resets the epoch: start counter back to 0,
requests cleared (a cancellation or migration request of the first life does not survive), READY -/
theorem revive_runs_once_more (s s' : St) (u : UnitId) (p : PoolId) (hs : step s (.create u p) = some s') :
    s'.starts u = 0 ∧ s'.ends u = 0 ∧ s'.st u = .ready ∧ s'.loc u = .fresh ∧ s'.reqCancel u = false ∧ s'.reqJoin u = false ∧
    s'.pool u = p := by
  simp only [step, stepCreate] at hs
  split at hs
  · cases hs; simp [upd]
  · cases hs

theorem terminated_is_frozen (s s' : St) (h : machine.Reachable s) (e : Ev) (hs : step s e = some s') (u : UnitId)
    (ht : s.st u = .terminated) (hne : e ≠ .setSt u .ready) (hnc : ∀ p, e ≠ .create u p) : s'.st u = .terminated := by
  have hi := inv_reachable s h
  have hl := (hi.termLoc u).mp ht
  cases e <;>
    simp only [step, stepCreate, stepPush, stepPop, stepSetSt, stepRun, stepUserStart, stepUserEnd, stepCb, stepIncB,
      stepDecB, stepResume, stepFinish, stepTerminate, stepFree, stepReqSet, stepReqClr, stepMigrate, stepJoinRet, stepXferB] at hs <;>
    (repeat' (split at hs)) <;> (try cases hs) <;> simp_all [setLoc, upd, pushable, isCb] <;> grind

/-- non-vacuity: a named unit terminates, is joined, revived, and runs once more -/
example :
    (machine.run init
      [.create 1 0, .push 0 1, .pop 7 0 1, .setSt 1 .running, .run 7 1, .userStart 1, .userEnd 1, .finish 7 1,
       .cb 7 1 .exit, .terminate 1, .setSt 1 .terminated, .joinRet 9 1,
       .setSt 1 .ready, .create 1 0, .push 0 1, .pop 7 0 1, .setSt 1 .running, .run 7 1, .userStart 1]).map
        (fun s => decide (s.starts 1 = 1 ∧ s.st 1 = .running)) = some true := by decide

/-- cancelled while waiting in a pool: READY → TERMINATED at the scheduler that popped it, never started -/
example :
    (machine.run init [.create 1 0, .push 0 1, .reqSet 1 .cancel, .pop 7 0 1, .terminate 1, .setSt 1 .terminated]).map
        (fun s => decide (s.cancelled 1 = true ∧ s.starts 1 = 0 ∧ s.loc 1 = .done)) = some true := by decide


/-! ## widths of the counters modelled as unbounded numbers (generated from the headers on every run) -/
/-- the request word of a work unit (JOIN / CANCEL / MIGRATE bits) is 4 bytes wide in this tree: the unbounded model agrees with the C field below 2^31 -/
example : ArgoVerif.Gen.Consts.bytesThreadRequest = 4 := by decide


/-! ## the exit path of a ULT and the join hand-shake (Model.Join): "a unit whose function has returned terminates" -/
namespace Exit

/-- **a unit in its exit path waits only for a joiner that is committed**: the only wait in the exit path is for `p_link`
after the unit found the JOIN bit already set; then the joiner has won the hand-shake and is between its `fetch_or` and the
store of the link (no step of the joiner leaves that segment except towards the store) or has published the link — the
JOIN bit is never withdrawn, so the unit does reach TERMINATED -/
theorem exit_waits_only_for_committed_joiner (s : Model.Join.St) (h : Model.Join.machine.Reachable s) (hs : s.tpc = Model.Join.TPc.spin) :
    s.link = true ∨ s.jpc = Model.Join.JPc.blk ∨ s.jpc = Model.Join.JPc.lnk ∨ s.jpc = Model.Join.JPc.xlnk := by
  have hi := Model.Join.inv_reachable s h
  have hw := hi.spinWon hs
  have hr := hi.tBeforeResumes (by simp [Model.Join.TBefore, hs])
  have hn := hi.notStarted
  have hp := hi.pastWon
  have ht := hi.termIff
  have hsus := hi.suspended
  cases hj : s.jpc <;> simp_all [Model.Join.JSusp]

/-- ... and from every reachable state of the exit path some step other than a repeated poll is enabled -/
theorem exit_path_progress (s : Model.Join.St) (h : Model.Join.machine.Reachable s) (ht : s.tpc ≠ Model.Join.TPc.run) (hd : s.tpc ≠ Model.Join.TPc.done) :
    Model.Join.canProgress s = true := by
  unfold Model.Join.canProgress
  simp [hd]

/-- non-vacuity: the target finds the bit set while the joiner has not published yet, waits, and is released -/
example : (Model.Join.machine.run Model.Join.init [Model.Join.Ev.jCall true, .jLoadState false, .jFetchOr false, .tExit, .tLoadLink false, .tFetchOr true,
      .tLoadLink false]).map (fun s => decide (s.tpc = Model.Join.TPc.spin ∧ s.jpc = Model.Join.JPc.blk ∧ s.link = false)) = some true := by decide

end Exit

end ArgoVerif.Props.C12
