import ArgoVerif.Proofs.X86
import ArgoVerif.Props.SchedCommon
/-
Props.C02 (assembly half) — "a ULT resumes with its stack contents, callee-saved registers
and floating-point control state exactly as it left them, on a 16-byte aligned stack".

Every theorem is about the instruction lists in `ArgoVerif.Gen.Fcontext`, which
tools/asmgen.py regenerates from src/arch/fcontext/fcontext_x86_64_sysv_elf_gas.S on every
check run, evaluated in the machine model `Model.X86` (whose instruction semantics is
compared with the CPU by harness/fctx_native on every run).  External C functions reached
by `callq *%rsi` are arbitrary functions constrained only by the explicit hypothesis
`AbiEnv env 64` (SysV ABI: callee-saved registers, `rsp`, MXCSR/x87 control state and the
64 bytes of the caller's frame above the return address are preserved).

The context frame is the 0x40 bytes `[rsp-56, rsp+8)` relative to `rsp` at entry of a saving
routine (header comment of the .S file: fc_mxcsr, fc_x87_cw, R12..R15, RBX, RBP, RIP).
-/
namespace ArgoVerif.Props.C02
open ArgoVerif.Model.X86 ArgoVerif.Gen.Fcontext ArgoVerif.Proofs.X86

/-! ### vocabulary of the statements -/

/-- `a` and `b` hold the same bytes in `[lo, hi)` (all three access widths) -/
def Agree (a b : St) (lo hi : Int) : Prop :=
  ∀ x, lo ≤ x → x < hi → a.mem x = b.mem x ∧ a.mem32 x = b.mem32 x ∧ a.mem16 x = b.mem16 x

/-- `s2` is what a thread that called a switch routine in state `s0` must find when the call
returns: callee-saved registers and FP control state as at the call, the return address
popped, control at the return address. -/
def Resumed (s2 s0 : St) : Prop :=
  s2.reg .rbx = s0.reg .rbx ∧ s2.reg .rbp = s0.reg .rbp ∧ s2.reg .r12 = s0.reg .r12 ∧
  s2.reg .r13 = s0.reg .r13 ∧ s2.reg .r14 = s0.reg .r14 ∧ s2.reg .r15 = s0.reg .r15 ∧
  s2.reg .rsp = s0.reg .rsp + 8 ∧ s2.mxcsr = s0.mxcsr ∧ s2.fpucw = s0.fpucw ∧
  s2.pc = some (s0.mem (s0.reg .rsp))

/-- The context-word address `ctx` does not overlap the frame of a thread whose `rsp` at
entry is `sp` (`fcontext_t` lives in the ULT descriptor, never in the 0x40 bytes the switch
routine itself pushes). -/
def CtxOutsideFrame (ctx sp : Int) : Prop := ctx + 8 ≤ sp - 56 ∨ sp + 8 ≤ ctx

/-- Save with `save` (old-context pointer in register `old`) in state `s0`; later, in ANY
state `s1` whose memory still agrees with what the save half left on the 0x40-byte frame and
on the context word, and whose new-context argument (register `new`) is that context, the
restore half `restore` ends in `Resumed _ s0`.  Nothing else about `s1` is assumed: other
registers, other memory, MXCSR and x87 CW are arbitrary (another ULT ran in between). -/
def RoundTrip (save : List Instr) (old : Reg) (restore : List Instr) (new : Reg) : Prop :=
  ∀ (env : Env) (s0 s1 : St), AbiEnv env 64 →
    CtxOutsideFrame (s0.reg old) (s0.reg .rsp) →
    s1.reg new = s0.reg old →
    s1.mem (s0.reg old) = (run env s0 save).mem (s0.reg old) →
    Agree s1 (run env s0 save) (s0.reg .rsp - 56) (s0.reg .rsp + 8) →
    Resumed (run env s1 restore) s0

/-- exactly one external call was made and it satisfies `P` -/
def OneCall (s : St) (P : CallRec → Prop) : Prop :=
  match s.calls with
  | [c] => P c
  | _ => False

/-- between `s0` and `s2` nothing outside the frame `[sp-56, sp)` of the saving thread and its
context word `ctx` was written -/
def OnlyFrameWritten (m0 m2 : Int → Int) (m0_32 m2_32 m0_16 m2_16 : Int → Int) (sp ctx : Int) : Prop :=
  ∀ a, (a < sp - 56 ∨ sp ≤ a) →
    (a ≠ ctx → m2 a = m0 a) ∧ m2_32 a = m0_32 a ∧ m2_16 a = m0_16 a

/-! ### the generated lists have the shape the model gives a meaning to -/

/-- every routine of the file: `andq` immediates are alignment masks, control leaves at the
last instruction only, and no location is accessed with two different widths (so the
width-separated memory of the model is faithful) -/
theorem fctx_wellformed :
    routines.all (fun x => immOk x.2 && terminated x.2 && noMixedWidth x.2) = true := by decide

/-- the nine entry points `abtd_fcontext.h` declares are exactly the routines of the file -/
theorem fctx_routines :
    routines.map (·.1) =
      ["switch_fcontext", "jump_fcontext", "init_and_switch_fcontext", "init_and_jump_fcontext",
       "switch_with_call_fcontext", "jump_with_call_fcontext", "init_and_switch_with_call_fcontext",
       "init_and_jump_with_call_fcontext", "peek_fcontext"] := by decide

/-- each routine is its save half followed immediately by its restore / init half; the
jump routines are a restore / init half only -/
theorem fctx_split :
    switch_fcontext = switch_fcontext_save ++ switch_fcontext_restore ∧
    switch_with_call_fcontext = switch_with_call_fcontext_save ++ switch_with_call_fcontext_restore ∧
    init_and_switch_fcontext = init_and_switch_fcontext_save ++ init_and_switch_fcontext_init ∧
    init_and_switch_with_call_fcontext =
      init_and_switch_with_call_fcontext_save ++ init_and_switch_with_call_fcontext_init ∧
    jump_fcontext = jump_fcontext_restore ∧ jump_with_call_fcontext = jump_with_call_fcontext_restore ∧
    init_and_jump_fcontext = init_and_jump_fcontext_init ∧
    init_and_jump_with_call_fcontext = init_and_jump_with_call_fcontext_init := by decide

/-- which argument register carries `p_old_ctx` (stored to) and `p_new_ctx` (loaded from);
they are the positions the prototypes in `abtd_fcontext.h` give under the SysV convention
(args 1..6 = rdi rsi rdx rcx r8 r9) -/
theorem fctx_ctx_args :
    storeBase switch_fcontext_save = some .rsi ∧ loadBase switch_fcontext_restore = some .rdi ∧
    loadBase jump_fcontext_restore = some .rdi ∧
    storeBase init_and_switch_fcontext_save = some .rcx ∧
    storeBase switch_with_call_fcontext_save = some .rcx ∧
    loadBase switch_with_call_fcontext_restore = some .rdx ∧
    loadBase jump_with_call_fcontext_restore = some .rdx ∧
    storeBase init_and_switch_with_call_fcontext_save = some .r9 ∧
    loadBase peek_fcontext = some .rdx := by decide

/-! ### round trips: every saving routine × every restoring routine -/

macro "fctx_roundtrip" : tactic => `(tactic| (
  intro env s0 s1 habi hfar hnew hctx hk
  fctx_abi habi
  unfold Agree at hk
  unfold CtxOutsideFrame at hfar
  unfold Resumed
  fctx_unfold
  grind (splits := 200)))

/-- saved by `switch_fcontext`, resumed by `switch_fcontext` -/
theorem fctx_roundtrip_switch_switch :
    RoundTrip switch_fcontext_save .rsi switch_fcontext_restore .rdi := by fctx_roundtrip
/-- saved by `switch_fcontext`, resumed by `jump_fcontext` -/
theorem fctx_roundtrip_switch_jump :
    RoundTrip switch_fcontext_save .rsi jump_fcontext_restore .rdi := by fctx_roundtrip
/-- saved by `switch_fcontext`, resumed by `switch_with_call_fcontext` (callback runs first,
on the resumed stack just below the frame) -/
theorem fctx_roundtrip_switch_switch_with_call :
    RoundTrip switch_fcontext_save .rsi switch_with_call_fcontext_restore .rdx := by fctx_roundtrip
/-- saved by `switch_fcontext`, resumed by `jump_with_call_fcontext` -/
theorem fctx_roundtrip_switch_jump_with_call :
    RoundTrip switch_fcontext_save .rsi jump_with_call_fcontext_restore .rdx := by fctx_roundtrip

/-- saved by `switch_with_call_fcontext`, resumed by `switch_fcontext` -/
theorem fctx_roundtrip_switch_with_call_switch :
    RoundTrip switch_with_call_fcontext_save .rcx switch_fcontext_restore .rdi := by fctx_roundtrip
theorem fctx_roundtrip_switch_with_call_jump :
    RoundTrip switch_with_call_fcontext_save .rcx jump_fcontext_restore .rdi := by fctx_roundtrip
theorem fctx_roundtrip_switch_with_call_switch_with_call :
    RoundTrip switch_with_call_fcontext_save .rcx switch_with_call_fcontext_restore .rdx := by fctx_roundtrip
theorem fctx_roundtrip_switch_with_call_jump_with_call :
    RoundTrip switch_with_call_fcontext_save .rcx jump_with_call_fcontext_restore .rdx := by fctx_roundtrip

/-- saved by `init_and_switch_fcontext` (the caller starts a fresh ULT), resumed by
`switch_fcontext` -/
theorem fctx_roundtrip_init_and_switch_switch :
    RoundTrip init_and_switch_fcontext_save .rcx switch_fcontext_restore .rdi := by fctx_roundtrip
theorem fctx_roundtrip_init_and_switch_jump :
    RoundTrip init_and_switch_fcontext_save .rcx jump_fcontext_restore .rdi := by fctx_roundtrip
theorem fctx_roundtrip_init_and_switch_switch_with_call :
    RoundTrip init_and_switch_fcontext_save .rcx switch_with_call_fcontext_restore .rdx := by fctx_roundtrip
theorem fctx_roundtrip_init_and_switch_jump_with_call :
    RoundTrip init_and_switch_fcontext_save .rcx jump_with_call_fcontext_restore .rdx := by fctx_roundtrip

/-- saved by `init_and_switch_with_call_fcontext`, resumed by `switch_fcontext` -/
theorem fctx_roundtrip_init_and_switch_with_call_switch :
    RoundTrip init_and_switch_with_call_fcontext_save .r9 switch_fcontext_restore .rdi := by fctx_roundtrip
theorem fctx_roundtrip_init_and_switch_with_call_jump :
    RoundTrip init_and_switch_with_call_fcontext_save .r9 jump_fcontext_restore .rdi := by fctx_roundtrip
theorem fctx_roundtrip_init_and_switch_with_call_switch_with_call :
    RoundTrip init_and_switch_with_call_fcontext_save .r9 switch_with_call_fcontext_restore .rdx := by
  fctx_roundtrip
theorem fctx_roundtrip_init_and_switch_with_call_jump_with_call :
    RoundTrip init_and_switch_with_call_fcontext_save .r9 jump_with_call_fcontext_restore .rdx := by
  fctx_roundtrip

/-- non-vacuity of `RoundTrip`: the hypotheses hold for the concrete states `exSt0` (saver,
`rsp = 0x6FF8`, context word at `0x9000`) and `exSt1` (resumer with every register
different and default FP state) with a callback that trashes all caller-saved registers and
the stack below it — and the restore half really brings back `rbx = 0xB1`, `r15 = 0xC15`,
MXCSR `0xFF80`, CW `0x027F`, `rsp = 0x7000`, `pc = 0x401000`. -/
example :
    AbiEnv trashEnv 64 ∧ CtxOutsideFrame (exSt0.reg .rcx) (exSt0.reg .rsp) ∧
    (exSt1 switch_with_call_fcontext_save).reg .rdx = exSt0.reg .rcx ∧
    (exSt1 switch_with_call_fcontext_save).reg .rbx ≠ exSt0.reg .rbx ∧
    (exSt1 switch_with_call_fcontext_save).mxcsr ≠ exSt0.mxcsr ∧
    (let s2 := run trashEnv (exSt1 switch_with_call_fcontext_save) switch_with_call_fcontext_restore
     s2.reg .rbx = 0xB1 ∧ s2.reg .r15 = 0xC15 ∧ s2.mxcsr = 0xFF80 ∧ s2.fpucw = 0x027F ∧
     s2.reg .rsp = 0x7000 ∧ s2.pc = some 0x401000 ∧ s2.reg .rcx = 0xA1A1) :=
  ⟨trashEnv_abi 64, by unfold CtxOutsideFrame; decide, by decide, by decide, by decide, by decide⟩

/-! ### round trips through a whole resuming routine

`switch_fcontext` and `switch_with_call_fcontext` first save the *resumer's* context (on the
resumer's stack, into the resumer's context word) and then restore the target.  The theorems
above start at the restore half; the ones below start at the routine's entry and add what
C15 provides: the resumer's own frame and context word are disjoint from the target's. -/

/-- byte ranges `[a, a+n)` and `[b, b+m)` do not overlap -/
def Disjoint (a n b m : Int) : Prop := a + n ≤ b ∨ b + m ≤ a

/-- as `RoundTrip`, but `s1` is the state at the ENTRY of the whole resuming routine
`resumer` (a different thread, `rsp = s1.rsp`, its own old-context pointer in `rold`) -/
def RoundTripWhole (save : List Instr) (old : Reg) (resumer : List Instr) (new rold : Reg) : Prop :=
  ∀ (env : Env) (s0 s1 : St), AbiEnv env 64 →
    CtxOutsideFrame (s0.reg old) (s0.reg .rsp) →
    s1.reg new = s0.reg old →
    s1.mem (s0.reg old) = (run env s0 save).mem (s0.reg old) →
    Agree s1 (run env s0 save) (s0.reg .rsp - 56) (s0.reg .rsp + 8) →
    Disjoint (s1.reg .rsp - 56) 56 (s0.reg .rsp - 56) 64 →     -- the two threads' frames
    Disjoint (s1.reg .rsp - 56) 56 (s0.reg old) 8 →            -- resumer's frame / target's context word
    Disjoint (s1.reg rold) 8 (s0.reg .rsp - 56) 64 →           -- resumer's context word / target's frame
    Disjoint (s1.reg rold) 8 (s0.reg old) 8 →                  -- the two context words
    Resumed (run env s1 resumer) s0

/-- what `fctx_saved_sp_aligned_*` establish about a save half, as a predicate -/
def SaveFootprint (sv : List Instr) (rold : Reg) : Prop :=
  ∀ (env : Env) (s : St),
    (∀ r, r ≠ .rsp → (run env s sv).reg r = s.reg r) ∧
    OnlyFrameWritten s.mem (run env s sv).mem s.mem32 (run env s sv).mem32 s.mem16 (run env s sv).mem16
      (s.reg .rsp) (s.reg rold)

/-- composition: a restore-half round trip extends over any save half with that footprint -/
theorem roundtrip_whole_of_halves {S Rs Rr : List Instr} {old new rold : Reg}
    (hrt : RoundTrip S old Rr new) (hfp : SaveFootprint Rs rold) (hne : new ≠ .rsp) :
    RoundTripWhole S old (Rs ++ Rr) new rold := by
  intro env s0 s1 habi hfar hnew hctx hk hd1 hd2 hd3 hd4
  rw [run_append]
  obtain ⟨hregs, hofw⟩ := hfp env s1
  unfold Disjoint at hd1 hd2 hd3 hd4
  unfold OnlyFrameWritten at hofw
  apply hrt env s0 (run env s1 Rs) habi hfar
  · rw [hregs new hne]; exact hnew
  · have h := hofw (s0.reg old) (by omega)
    rw [h.1 (by omega)]; exact hctx
  · intro x h1 h2
    have h := hofw x (by omega)
    have hk := hk x h1 h2
    refine ⟨?_, ?_, ?_⟩
    · rw [h.1 (by omega)]; exact hk.1
    · rw [h.2.1]; exact hk.2.1
    · rw [h.2.2]; exact hk.2.2

theorem fctx_footprint_switch : SaveFootprint switch_fcontext_save .rsi := by
  intro env s
  refine ⟨?_, ?_⟩
  · intro r hr; fctx_unfold <;> grind
  · unfold OnlyFrameWritten; intro a ha; fctx_unfold <;> grind

theorem fctx_footprint_switch_with_call : SaveFootprint switch_with_call_fcontext_save .rcx := by
  intro env s
  refine ⟨?_, ?_⟩
  · intro r hr; fctx_unfold <;> grind
  · unfold OnlyFrameWritten; intro a ha; fctx_unfold <;> grind

/-- a context saved by `switch_fcontext` is restored by a complete `switch_fcontext` call of
another thread -/
theorem fctx_roundtrip_whole_switch_switch :
    RoundTripWhole switch_fcontext_save .rsi switch_fcontext .rdi .rsi := by
  rw [fctx_split.1]
  exact roundtrip_whole_of_halves fctx_roundtrip_switch_switch fctx_footprint_switch (by decide)
theorem fctx_roundtrip_whole_switch_switch_with_call :
    RoundTripWhole switch_fcontext_save .rsi switch_with_call_fcontext .rdx .rcx := by
  rw [fctx_split.2.1]
  exact roundtrip_whole_of_halves fctx_roundtrip_switch_switch_with_call fctx_footprint_switch_with_call (by decide)
theorem fctx_roundtrip_whole_switch_with_call_switch :
    RoundTripWhole switch_with_call_fcontext_save .rcx switch_fcontext .rdi .rsi := by
  rw [fctx_split.1]
  exact roundtrip_whole_of_halves fctx_roundtrip_switch_with_call_switch fctx_footprint_switch (by decide)
theorem fctx_roundtrip_whole_switch_with_call_switch_with_call :
    RoundTripWhole switch_with_call_fcontext_save .rcx switch_with_call_fcontext .rdx .rcx := by
  rw [fctx_split.2.1]
  exact roundtrip_whole_of_halves fctx_roundtrip_switch_with_call_switch_with_call
    fctx_footprint_switch_with_call (by decide)
theorem fctx_roundtrip_whole_init_and_switch_switch :
    RoundTripWhole init_and_switch_fcontext_save .rcx switch_fcontext .rdi .rsi := by
  rw [fctx_split.1]
  exact roundtrip_whole_of_halves fctx_roundtrip_init_and_switch_switch fctx_footprint_switch (by decide)
theorem fctx_roundtrip_whole_init_and_switch_switch_with_call :
    RoundTripWhole init_and_switch_fcontext_save .rcx switch_with_call_fcontext .rdx .rcx := by
  rw [fctx_split.2.1]
  exact roundtrip_whole_of_halves fctx_roundtrip_init_and_switch_switch_with_call
    fctx_footprint_switch_with_call (by decide)
theorem fctx_roundtrip_whole_init_and_switch_with_call_switch :
    RoundTripWhole init_and_switch_with_call_fcontext_save .r9 switch_fcontext .rdi .rsi := by
  rw [fctx_split.1]
  exact roundtrip_whole_of_halves fctx_roundtrip_init_and_switch_with_call_switch fctx_footprint_switch (by decide)
theorem fctx_roundtrip_whole_init_and_switch_with_call_switch_with_call :
    RoundTripWhole init_and_switch_with_call_fcontext_save .r9 switch_with_call_fcontext .rdx .rcx := by
  rw [fctx_split.2.1]
  exact roundtrip_whole_of_halves fctx_roundtrip_init_and_switch_with_call_switch_with_call
    fctx_footprint_switch_with_call (by decide)

/-- non-vacuity of `RoundTripWhole`: a resumer entering `switch_fcontext` at `rsp = 0x3000` with
its own context word at `0x9010` satisfies all four disjointness hypotheses w.r.t. `exSt0`'s
frame `[0x6FC0, 0x7000)` and context word `0x9000`, and the whole routine brings `exSt0` back -/
example :
    let s1 : St := { exSt1 switch_fcontext_save with
      reg := fun r => if r = .rsi then 0x9010 else (exSt1 switch_fcontext_save).reg r }
    Disjoint (s1.reg .rsp - 56) 56 (exSt0.reg .rsp - 56) 64 ∧ Disjoint (s1.reg .rsp - 56) 56 (exSt0.reg .rsi) 8 ∧
    Disjoint (s1.reg .rsi) 8 (exSt0.reg .rsp - 56) 64 ∧ Disjoint (s1.reg .rsi) 8 (exSt0.reg .rsi) 8 ∧
    (run trashEnv s1 switch_fcontext).reg .r13 = 0xC13 ∧ (run trashEnv s1 switch_fcontext).mxcsr = 0xFF80 ∧
    (run trashEnv s1 switch_fcontext).pc = some 0x401000 ∧
    (run trashEnv s1 switch_fcontext).mem 0x9010 = 0x3000 - 56 := by
  refine ⟨by unfold Disjoint; decide, by unfold Disjoint; decide, by unfold Disjoint; decide,
    by unfold Disjoint; decide, by decide, by decide, by decide, by decide⟩

/-! ### the context is saved before the callback runs -/

/-- `switch_with_call_fcontext(cb_arg, f_cb, p_new, p_old)`: exactly one external call is made;
it is `f_cb(cb_arg)`, on the stack pointer stored in `*p_new`, and the memory at that moment
is exactly the memory the save half produced — the old context (frame and `*p_old`) is
completely saved when the callback starts, so the callback may publish the old ULT (push it
to a pool, unlock a mutex…) and another stream may resume it at once (`fctx_roundtrip_*`). -/
theorem fctx_save_before_call_switch_with_call (env : Env) (s0 : St) (habi : AbiEnv env 64)
    (hc : s0.calls = []) :
    let sv := run env s0 switch_with_call_fcontext_save
    OneCall (run env s0 switch_with_call_fcontext) (fun c =>
      c.target = s0.reg .rsi ∧ c.arg = s0.reg .rdi ∧ c.sp = sv.mem (s0.reg .rdx) ∧
      c.mem = sv.mem ∧ c.mem32 = sv.mem32 ∧ c.mem16 = sv.mem16) := by
  have := habi.calls
  fctx_unfold
  simp only [OneCall, *, and_self]

/-- same for `init_and_switch_with_call_fcontext(cb_arg, f_cb, p_new, f_thread, p_stacktop,
p_old)`: the callback runs on the fresh stack after the old context is completely saved -/
theorem fctx_save_before_call_init_and_switch_with_call (env : Env) (s0 : St) (habi : AbiEnv env 64)
    (hc : s0.calls = []) :
    let sv := run env s0 init_and_switch_with_call_fcontext_save
    OneCall (run env s0 init_and_switch_with_call_fcontext) (fun c =>
      c.target = s0.reg .rsi ∧ c.arg = s0.reg .rdi ∧
      c.mem = sv.mem ∧ c.mem32 = sv.mem32 ∧ c.mem16 = sv.mem16) := by
  have := habi.calls
  fctx_unfold
  simp only [OneCall, *, and_self]

/-- structural form of the same fact: no save half contains a `callq`, every `_with_call`
routine does contain one (after the save half, by `fctx_split`) -/
theorem fctx_save_before_call :
    hasCall switch_with_call_fcontext_save = false ∧ hasCall switch_with_call_fcontext_restore = true ∧
    hasCall init_and_switch_with_call_fcontext_save = false ∧
    hasCall init_and_switch_with_call_fcontext_init = true ∧
    hasCall switch_fcontext_save = false ∧ hasCall init_and_switch_fcontext_save = false ∧
    hasCall jump_with_call_fcontext = true ∧ hasCall init_and_jump_with_call_fcontext = true := by decide

/-- non-vacuity: on `exSt0` the callback is `0x9000(0x9008)`, and at that moment `*p_old` already
holds `0x6FC0` and the frame already holds `rbp` -/
example :
    let s2 := run trashEnv exSt0 switch_with_call_fcontext
    s2.calls.map (fun c => (c.target, c.arg, c.mem 0x9000, c.mem (0x6FF8 - 8))) =
      [(0x9000, 0x9008, 0x6FC0, 0xB2)] := by decide

/-! ### what the save half writes; the saved stack pointer is aligned -/

macro "fctx_save_facts" : tactic => `(tactic| (
  dsimp only
  refine ⟨?_, ?_, ?_, ?_, ?_⟩
  · fctx_unfold <;> grind
  · intro h; fctx_unfold <;> grind
  · fctx_unfold <;> grind
  · intro r hr; fctx_unfold <;> grind
  · unfold OnlyFrameWritten; intro a ha; fctx_unfold <;> grind))

/-- The save half of `switch_fcontext` stores `rsp - 56` into `*p_old`; if the routine was
entered from an ABI-conformant call site (`(rsp + 8) % 16 = 0`) that value is 16-byte
aligned, so a callback later run on this context (`*_with_call`, `peek`) gets an aligned
stack; `rsp` ends at the frame base, no other register changes; and nothing outside
`[rsp-56, rsp)` and `*p_old` is written — in particular the caller's stack contents at and above `rsp` are untouched. -/
theorem fctx_saved_sp_aligned_switch (env : Env) (s0 : St) :
    let s1 := run env s0 switch_fcontext_save
    s1.mem (s0.reg .rsi) = s0.reg .rsp - 56 ∧
    ((s0.reg .rsp + 8) % 16 = 0 → s1.mem (s0.reg .rsi) % 16 = 0) ∧
    s1.reg .rsp = s0.reg .rsp - 56 ∧ (∀ r, r ≠ .rsp → s1.reg r = s0.reg r) ∧
    OnlyFrameWritten s0.mem s1.mem s0.mem32 s1.mem32 s0.mem16 s1.mem16 (s0.reg .rsp) (s0.reg .rsi) := by
  fctx_save_facts

theorem fctx_saved_sp_aligned_switch_with_call (env : Env) (s0 : St) :
    let s1 := run env s0 switch_with_call_fcontext_save
    s1.mem (s0.reg .rcx) = s0.reg .rsp - 56 ∧
    ((s0.reg .rsp + 8) % 16 = 0 → s1.mem (s0.reg .rcx) % 16 = 0) ∧
    s1.reg .rsp = s0.reg .rsp - 56 ∧ (∀ r, r ≠ .rsp → s1.reg r = s0.reg r) ∧
    OnlyFrameWritten s0.mem s1.mem s0.mem32 s1.mem32 s0.mem16 s1.mem16 (s0.reg .rsp) (s0.reg .rcx) := by
  fctx_save_facts

theorem fctx_saved_sp_aligned_init_and_switch (env : Env) (s0 : St) :
    let s1 := run env s0 init_and_switch_fcontext_save
    s1.mem (s0.reg .rcx) = s0.reg .rsp - 56 ∧
    ((s0.reg .rsp + 8) % 16 = 0 → s1.mem (s0.reg .rcx) % 16 = 0) ∧
    s1.reg .rsp = s0.reg .rsp - 56 ∧ (∀ r, r ≠ .rsp → s1.reg r = s0.reg r) ∧
    OnlyFrameWritten s0.mem s1.mem s0.mem32 s1.mem32 s0.mem16 s1.mem16 (s0.reg .rsp) (s0.reg .rcx) := by
  fctx_save_facts

theorem fctx_saved_sp_aligned_init_and_switch_with_call (env : Env) (s0 : St) :
    let s1 := run env s0 init_and_switch_with_call_fcontext_save
    s1.mem (s0.reg .r9) = s0.reg .rsp - 56 ∧
    ((s0.reg .rsp + 8) % 16 = 0 → s1.mem (s0.reg .r9) % 16 = 0) ∧
    s1.reg .rsp = s0.reg .rsp - 56 ∧ (∀ r, r ≠ .rsp → s1.reg r = s0.reg r) ∧
    OnlyFrameWritten s0.mem s1.mem s0.mem32 s1.mem32 s0.mem16 s1.mem16 (s0.reg .rsp) (s0.reg .r9) := by
  fctx_save_facts

/-- non-vacuity: `exSt0` is an ABI-conformant call site, the saved stack pointer is `0x6FC0` -/
example : (exSt0.reg .rsp + 8) % 16 = 0 ∧
    (run retEnv exSt0 switch_fcontext_save).mem (exSt0.reg .rsi) = 0x6FC0 ∧ (0x6FC0 : Int) % 16 = 0 := by
  decide

/-- The callback of the restoring `_with_call` routines and of `peek_fcontext` is entered on
exactly the stack pointer saved in the target context (16-byte aligned by
`fctx_saved_sp_aligned_*`, i.e. `rsp % 16 = 0` at the `callq`, as the ABI requires), before
the routine has written anything. -/
theorem fctx_call_on_saved_sp (env : Env) (s : St) (habi : AbiEnv env 64) (hc : s.calls = []) :
    OneCall (run env s switch_with_call_fcontext_restore) (fun c =>
      c.sp = s.mem (s.reg .rdx) ∧ c.target = s.reg .rsi ∧ c.arg = s.reg .rdi ∧ c.mem = s.mem) ∧
    OneCall (run env s jump_with_call_fcontext) (fun c =>
      c.sp = s.mem (s.reg .rdx) ∧ c.target = s.reg .rsi ∧ c.arg = s.reg .rdi ∧ c.mem = s.mem) := by
  have := habi.calls
  fctx_unfold
  simp only [OneCall, *, and_self]

/-- The restore halves without a callback write no memory at all (the resumed ULT's stack
contents are exactly what they were when the restore began); in the `_with_call` variants the
only writes are the callback's return address and the callback's own (`fctx_call_on_saved_sp`:
memory at the `callq` is the memory at entry). -/
theorem fctx_restore_writes_nothing (env : Env) (s : St) :
    (run env s switch_fcontext_restore).mem = s.mem ∧ (run env s switch_fcontext_restore).mem32 = s.mem32 ∧
    (run env s switch_fcontext_restore).mem16 = s.mem16 ∧
    (run env s jump_fcontext).mem = s.mem ∧ (run env s jump_fcontext).mem32 = s.mem32 ∧
    (run env s jump_fcontext).mem16 = s.mem16 := by
  refine ⟨?_, ?_, ?_, ?_, ?_, ?_⟩ <;> fctx_unfold <;> rfl

/-! ### a fresh ULT starts on an ABI-aligned stack below `p_stacktop` -/

/-- `init_and_switch_fcontext(p_new, f_thread, p_stacktop, p_old)`: for EVERY `p_stacktop`
(aligned or not) `f_thread` is entered with `(rsp + 8) % 16 = 0` (the ABI's function-entry
alignment), `rsp + 8 ≤ p_stacktop` and less than 16 bytes are lost to alignment; it receives
`p_new` as its argument; no external call is made; and nothing is written except the
caller's own frame and `*p_old` — in particular nothing at or above `p_stacktop`. -/
theorem fctx_init_aligned_init_and_switch (env : Env) (s0 : St) :
    let s2 := run env s0 init_and_switch_fcontext
    (s2.reg .rsp + 8) % 16 = 0 ∧ s2.reg .rsp + 8 ≤ s0.reg .rdx ∧ s0.reg .rdx - 16 < s2.reg .rsp + 8 ∧
    s2.pc = some (s0.reg .rsi) ∧ s2.reg .rdi = s0.reg .rdi ∧ s2.calls = s0.calls ∧
    OnlyFrameWritten s0.mem s2.mem s0.mem32 s2.mem32 s0.mem16 s2.mem16 (s0.reg .rsp) (s0.reg .rcx) := by
  dsimp only
  refine ⟨?_, ?_, ?_, ?_, ?_, ?_, ?_⟩
  · fctx_unfold <;> grind
  · fctx_unfold <;> grind
  · fctx_unfold <;> grind
  · fctx_unfold <;> grind
  · fctx_unfold <;> grind
  · fctx_unfold <;> grind
  · unfold OnlyFrameWritten; intro a ha; fctx_unfold <;> grind

/-- `init_and_jump_fcontext(p_new, f_thread, p_stacktop)`: same entry conditions; writes no
memory at all -/
theorem fctx_init_aligned_init_and_jump (env : Env) (s0 : St) :
    let s2 := run env s0 init_and_jump_fcontext
    (s2.reg .rsp + 8) % 16 = 0 ∧ s2.reg .rsp + 8 ≤ s0.reg .rdx ∧ s0.reg .rdx - 16 < s2.reg .rsp + 8 ∧
    s2.pc = some (s0.reg .rsi) ∧ s2.reg .rdi = s0.reg .rdi ∧ s2.calls = s0.calls ∧
    s2.mem = s0.mem ∧ s2.mem32 = s0.mem32 ∧ s2.mem16 = s0.mem16 := by
  dsimp only
  refine ⟨?_, ?_, ?_, ?_, ?_, ?_, ?_, ?_, ?_⟩ <;> (fctx_unfold <;> grind)

/-- `init_and_switch_with_call_fcontext(cb_arg, f_cb, p_new, f_thread, p_stacktop, p_old)`:
for every `p_stacktop` the callback `f_cb(cb_arg)` is called with `rsp % 16 = 0` at the `callq`
and `rsp ≤ p_stacktop` (its return address is the first thing written on the new stack, below
the top), then `f_thread(p_new)` is entered with `(rsp + 8) % 16 = 0`, `rsp + 8 ≤ p_stacktop`. -/
theorem fctx_init_aligned_init_and_switch_with_call (env : Env) (s0 : St) (habi : AbiEnv env 64)
    (hc : s0.calls = []) :
    let s2 := run env s0 init_and_switch_with_call_fcontext
    (s2.reg .rsp + 8) % 16 = 0 ∧ s2.reg .rsp + 8 ≤ s0.reg .r8 ∧ s0.reg .r8 - 16 < s2.reg .rsp + 8 ∧
    s2.pc = some (s0.reg .rcx) ∧ s2.reg .rdi = s0.reg .rdx ∧
    OneCall s2 (fun c => c.sp % 16 = 0 ∧ c.sp ≤ s0.reg .r8 ∧ s0.reg .r8 - 16 < c.sp ∧
      c.sp = s2.reg .rsp + 8 ∧ c.target = s0.reg .rsi ∧ c.arg = s0.reg .rdi ∧
      OnlyFrameWritten s0.mem c.mem s0.mem32 c.mem32 s0.mem16 c.mem16 (s0.reg .rsp) (s0.reg .r9)) := by
  dsimp only
  fctx_abi habi
  refine ⟨?_, ?_, ?_, ?_, ?_, ?_⟩
  · fctx_unfold <;> grind
  · fctx_unfold <;> grind
  · fctx_unfold <;> grind
  · fctx_unfold <;> grind
  · fctx_unfold <;> grind
  · fctx_unfold
    simp only [OneCall, *]
    refine ⟨?_, ?_, ?_, ?_, ?_, ?_, ?_⟩
    · grind
    · grind
    · grind
    · grind
    · grind
    · grind
    · unfold OnlyFrameWritten; intro a ha; grind

/-- `init_and_jump_with_call_fcontext(cb_arg, f_cb, p_new, f_thread, p_stacktop)` -/
theorem fctx_init_aligned_init_and_jump_with_call (env : Env) (s0 : St) (habi : AbiEnv env 64)
    (hc : s0.calls = []) :
    let s2 := run env s0 init_and_jump_with_call_fcontext
    (s2.reg .rsp + 8) % 16 = 0 ∧ s2.reg .rsp + 8 ≤ s0.reg .r8 ∧ s0.reg .r8 - 16 < s2.reg .rsp + 8 ∧
    s2.pc = some (s0.reg .rcx) ∧ s2.reg .rdi = s0.reg .rdx ∧
    OneCall s2 (fun c => c.sp % 16 = 0 ∧ c.sp ≤ s0.reg .r8 ∧ s0.reg .r8 - 16 < c.sp ∧
      c.sp = s2.reg .rsp + 8 ∧ c.target = s0.reg .rsi ∧ c.arg = s0.reg .rdi ∧
      c.mem = s0.mem ∧ c.mem32 = s0.mem32 ∧ c.mem16 = s0.mem16) := by
  dsimp only
  fctx_abi habi
  refine ⟨?_, ?_, ?_, ?_, ?_, ?_⟩
  · fctx_unfold <;> grind
  · fctx_unfold <;> grind
  · fctx_unfold <;> grind
  · fctx_unfold <;> grind
  · fctx_unfold <;> grind
  · fctx_unfold
    simp only [OneCall, *]
    refine ⟨?_, ?_, ?_, ?_, ?_, ?_, ?_, ?_, ?_⟩ <;> grind

/-- non-vacuity: an unaligned `p_stacktop = 0x5555` gives callback `rsp = 0x5550`, wrapper entry
`rsp = 0x5548` -/
example :
    let s2 := run trashEnv exSt0 init_and_switch_with_call_fcontext
    s2.reg .rsp = 0x5548 ∧ s2.pc = some 0x9000 ∧ s2.reg .rdi = 0x9008 ∧
    s2.calls.map (·.sp) = [0x5550] := by decide

/-! ### peek -/

/-- `peek_fcontext(arg, f_peek, p_target)`: `f_peek(arg)` runs on the target's saved stack
pointer (so with an aligned stack, `fctx_saved_sp_aligned_*`) before anything but the caller's
own `r12` slot is written; afterwards the caller continues as after an ordinary call
(`Resumed`: callee-saved registers, FP control state, `rsp`, return address), and the
target's 0x40-byte frame is exactly as before, so it can still be resumed.
Hypotheses besides the ABI: `f_peek` does not write the two words of the peeking thread's own
stack that `peek_fcontext` uses (it runs on a different stack — C15's disjointness). -/
theorem fctx_peek_restores (env : Env) (s0 : St) (habi : AbiEnv env 64) (hc : s0.calls = [])
    (hown : ∀ t s, (env.cb t s).mem (s0.reg .rsp - 8) = s.mem (s0.reg .rsp - 8) ∧
                   (env.cb t s).mem (s0.reg .rsp) = s.mem (s0.reg .rsp))
    (hdisj : s0.reg .rsp + 8 ≤ s0.mem (s0.reg .rdx) - 8 ∨ s0.mem (s0.reg .rdx) + 64 ≤ s0.reg .rsp - 8)
    (hctx : s0.reg .rdx ≠ s0.reg .rsp - 8) :
    let s2 := run env s0 peek_fcontext
    let t := s0.mem (s0.reg .rdx)
    Resumed s2 s0 ∧
    OneCall s2 (fun c => c.sp = t ∧ c.target = s0.reg .rsi ∧ c.arg = s0.reg .rdi ∧
      ∀ a, a ≠ s0.reg .rsp - 8 → c.mem a = s0.mem a) ∧
    Agree s2 s0 t (t + 64) := by
  dsimp only
  fctx_abi habi
  refine ⟨?_, ?_, ?_⟩
  · unfold Resumed; fctx_unfold <;> grind (splits := 200)
  · fctx_unfold
    simp only [OneCall, *]
    grind
  · unfold Agree; intro x h1 h2; fctx_unfold <;> grind

/-- non-vacuity: peeking (from `rsp = 0x6FF8`) at a context whose saved stack pointer is
`0x3000`, with the trashing callback -/
example :
    let s0 : St := { exSt0 with mem := fun a => if a = 0x9008 then 0x3000 else exSt0.mem a }
    let s2 := run trashEnv s0 peek_fcontext
    s2.reg .rsp = 0x7000 ∧ s2.reg .r12 = 0xC12 ∧ s2.pc = some 0x401000 ∧
    s2.calls.map (fun c => (c.sp, c.arg)) = [(0x3000, 0x9008)] := by decide

/-! ## Protocol half: one runner at a time, publication only after the context is saved

`Model.Sched`'s event `cb e u k` is the entry of a context-switch callback.  By `fctx_save_before_call_*` above the
callback of the `*_with_call` routines is called after the old context has been stored, and `fctx_call_on_saved_sp`
shows it runs on the *new* stack; the controlled-scheduler runs additionally check at every callback that the stack
pointer is outside the switched-away unit's stack.  So "location `cb`" means "context completely saved". -/

open ArgoVerif.Model.Sched in
/-- **single runner**: a run slice of u starts on stream e only when u is on no stream (not running, no callback
pending) — in every state u has one location, so it executes on at most one execution stream -/
theorem ctx_single_runner (s s' : ArgoVerif.Model.Sched.St) (e : Nat) (u : Nat)
    (hs : ArgoVerif.Model.Sched.step s (.run e u) = some s') :
    (∀ e', s.loc u ≠ .running e') ∧ (∀ e', s.loc u ≠ .cb e') ∧ s'.loc u = .running e := by
  simp only [ArgoVerif.Model.Sched.step, stepRun] at hs
  cases hl : s.loc u <;> simp only [hl] at hs <;> (repeat' (split at hs)) <;> (try cases hs) <;> simp_all [ArgoVerif.upd]

open ArgoVerif.Model.Sched in
/-- **publish after save**: every step that makes a unit reachable by another stream — a push to a pool, the BLOCKED
store that lets a resumer act, the READY store — happens only when the unit is not running: its context has been saved
(`cb`), or it has never run / is exclusively held by a scheduler / is blocked and resumed -/
theorem ctx_publish_after_save (s s' : ArgoVerif.Model.Sched.St) (ev : ArgoVerif.Model.Sched.Ev) (u : Nat)
    (hev : (∃ p, ev = .push p u) ∨ ev = .setSt u .blocked ∨ ev = .setSt u .ready)
    (hs : ArgoVerif.Model.Sched.step s ev = some s') : ∀ e, s.loc u ≠ .running e := by
  intro e hl
  rcases hev with ⟨p, rfl⟩ | rfl | rfl <;>
    simp only [ArgoVerif.Model.Sched.step, stepPush, stepSetSt, hl, pushable] at hs <;>
    (repeat' (split at hs)) <;> simp_all

open ArgoVerif.Model.Sched in
/-- a unit whose state reads BLOCKED is fully suspended in every reachable state: nobody who acts on the BLOCKED state
(resume, join hand-off, wait-list wake-up) can reach a unit that is still switching -/
theorem ctx_blocked_means_saved (s : ArgoVerif.Model.Sched.St) (h : ArgoVerif.Model.Sched.machine.Reachable s) (u : Nat)
    (hb : s.st u = .blocked) : s.loc u = .blocked :=
  (ArgoVerif.Model.Sched.inv_reachable s h).stBlockedLoc u hb

end ArgoVerif.Props.C02
