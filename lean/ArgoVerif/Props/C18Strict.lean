import ArgoVerif.Proofs.Ledger
import ArgoVerif.Proofs.LedgerRuns
/-
Props.C18Strict — the one C18 statement that does NOT hold for the ladder as it is in the unchanged tree
(finding C18-A).  checks/c18.py builds this module separately: while it fails, the check searches for (and
finds) the concrete failing call — `ABT_pool_add_sched(user-defined pool, automatic scheduler)` with the
unit allocation failing — and reports it (VIOLATION, or KNOWN-FINDING once the lead lists it as open);
once /repo is fixed the module builds and the statement joins the discharged obligations.
-/
namespace ArgoVerif.Props.C18Strict
open ArgoVerif.Model.Ledger ArgoVerif.Gen.Ladders ArgoVerif.Proofs.LedgerRuns

theorem runs_strict : allRuns ythread_create_with_sched 400 0 (preUntouched ythread_create_with_sched) = true := by
  decide +kernel

/-- **C18 / pre-existing objects untouched, full strength** for `ythread_create` with a stackable
scheduler: whatever acquisition fails, the caller's scheduler is not released. -/
theorem ledger_preexisting_untouched_ythread_create_with_sched (o : Oracle) :
    preUntouched ythread_create_with_sched (exec ythread_create_with_sched 400 o) = true :=
  all_runs_exec_noparam ythread_create_with_sched 400 _ rfl runs_strict o

end ArgoVerif.Props.C18Strict
