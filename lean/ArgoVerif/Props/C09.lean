import ArgoVerif.Proofs.Eventual2
import ArgoVerif.Gen.Consts
import ArgoVerif.Proofs.Future2
import ArgoVerif.Proofs.Future3b
import ArgoVerif.Proofs.Future4
import ArgoVerif.Proofs.Future8
import ArgoVerif.Proofs.Future9b
import ArgoVerif.Proofs.Future6
/-
Props.C09 — eventuals and futures become ready exactly once and wake every waiter.
All theorems quantify over every trace accepted by the models, i.e. over every interleaving of the steps
(call, lock acquisition, counter load/store, callback, enqueue, wake-ups, lock release, return) of any
number of ULT / tasklet / external callers, any number of resets, any compartment count.
-/
namespace ArgoVerif.Props.C09
open ArgoVerif ArgoVerif.Model

/-! ## ABT_eventual -/

/-- the invariant is inductive for the whole step function -/
theorem ev_inv_step (s s' : Eventual.St) (e : Eventual.Ev) (h : Eventual.Inv s) (hs : Eventual.step s e = some s') :
    Eventual.Inv s' := by
  cases e with
  | call a op v => exact Eventual.inv_stepCall s s' a op v h hs
  | ret a op rc r v => exact Eventual.inv_stepRet s s' a op rc r v h hs
  | acq a old => cases old
                 · exact Eventual.inv_stepAcq_f s s' a h hs
                 · exact Eventual.inv_stepAcq_t s s' a h hs
  | enq a => exact Eventual.inv_stepEnq s s' a h hs
  | wake a n => exact Eventual.inv_stepWake s s' a n h hs
  | rel a r e => exact Eventual.inv_stepRel s s' a r e h hs
  | obsLock v => simp only [Eventual.step] at hs; split at hs <;> simp_all
  | obs r => simp only [Eventual.step] at hs; split at hs <;> simp_all

theorem ev_inv_reachable (k : Eventual.Actor → Eventual.Kind) (nb : Nat) (v0 : Eventual.Val) (s : Eventual.St)
    (h : (Eventual.machine k nb v0).Reachable s) : Eventual.Inv s :=
  Machine.invariant_reachable (Eventual.machine k nb v0) Eventual.Inv (Eventual.inv_init k nb v0)
    (fun s e s' hi hs => ev_inv_step s s' e hi hs) s h

/-- **ready exactly once per epoch**: in every reachable state at most one ABT_eventual_set has succeeded
since creation / the last reset, and the eventual is ready iff one has. -/
theorem ev_ready_once (k : Eventual.Actor → Eventual.Kind) (nb : Nat) (v0 : Eventual.Val) (s : Eventual.St)
    (h : (Eventual.machine k nb v0).Reachable s) :
    s.sets s.epoch ≤ 1 ∧ (s.ready = true ↔ s.sets s.epoch = 1) :=
  ⟨(ev_inv_reachable k nb v0 s h).setsLe, (ev_inv_reachable k nb v0 s h).readyIff⟩

/-- **the first set makes it ready**: a set that gets the lock while the eventual is not ready copies its
value (when there is a buffer), marks it ready and is the one successful set of the epoch. -/
theorem ev_first_set_makes_ready (s s' : Eventual.St) (a : Eventual.Actor)
    (hs : Eventual.step s (.acq a false) = some s') (hp : s.pc a = .setCalled) (hr : s.ready = false) :
    s'.ready = true ∧ s'.pc a = .setOkCS ∧ s'.sets s.epoch = s.sets s.epoch + 1 ∧ s'.setVal s.epoch = s.arg a ∧
    (s.nbytes ≠ 0 → s'.value = s.arg a) := by
  rcases Eventual.acq_f_cases s s' a hs with ⟨_, hr', _⟩ | ⟨_, _, rfl⟩ | ⟨hp', _⟩ | ⟨hp', _⟩ | ⟨hp', _⟩ | ⟨hp', _⟩ |
      ⟨hp', _⟩ | ⟨hp', _⟩ | ⟨hp', _⟩ | ⟨hp', _⟩
  · rw [hr] at hr'; cases hr'
  · refine ⟨rfl, by simp [Eventual.doSet, Eventual.setPc], by simp [Eventual.doSet, Eventual.setPc],
      by simp [Eventual.doSet, Eventual.setPc], ?_⟩
    intro hn; simp [Eventual.doSet, Eventual.setPc, hn]
  all_goals (rw [hp] at hp'; cases hp')

/-- **a second set fails and changes nothing**: a set that gets the lock while the eventual is ready leaves
`ready`, the value, the wait-list and the ghost set count untouched, and the only return the model allows
from there is ABT_ERR_EVENTUAL. -/
theorem ev_second_set_err_nochange (s s1 s2 s3 : Eventual.St) (a : Eventual.Actor) (r e rr : Bool) (rc : Eventual.Rc)
    (v : Eventual.Val) (hp : s.pc a = .setCalled) (hr : s.ready = true)
    (h1 : Eventual.step s (.acq a false) = some s1) (h2 : Eventual.step s1 (.rel a r e) = some s2)
    (h3 : Eventual.step s2 (.ret a .set rc rr v) = some s3) :
    rc = .errEventual ∧ s3.ready = true ∧ s3.value = s.value ∧ s3.q = s.q ∧ s3.sets = s.sets ∧ s3.lock = none ∧
    v = s.value := by
  rcases Eventual.acq_f_cases s s1 a h1 with ⟨_, _, rfl⟩ | ⟨_, hr', _⟩ | ⟨hp', _⟩ | ⟨hp', _⟩ | ⟨hp', _⟩ | ⟨hp', _⟩ |
      ⟨hp', _⟩ | ⟨hp', _⟩ | ⟨hp', _⟩ | ⟨hp', _⟩
  · simp only [Eventual.step, Eventual.stepRel, Eventual.lockAs, Eventual.setPc, upd_same] at h2
    obtain ⟨rfl, _, _⟩ := Eventual.chk_some _ _ _ _ h2
    obtain ⟨hpc, hv, rfl⟩ := Eventual.ret_set _ _ _ _ _ _ h3
    simp only [Eventual.unlockAs, Eventual.setPc, upd_same] at hpc hv
    rcases hpc with ⟨hpc, _⟩ | ⟨_, hrc⟩
    · cases hpc
    · exact ⟨hrc, by simpa [Eventual.unlockAs, Eventual.setPc] using hr, by simp [Eventual.unlockAs, Eventual.setPc],
        by simp [Eventual.unlockAs, Eventual.setPc], by simp [Eventual.unlockAs, Eventual.setPc],
        by simp [Eventual.unlockAs, Eventual.setPc], hv⟩
  · rw [hr] at hr'; cases hr'
  all_goals (rw [hp] at hp'; cases hp')

/-- in every reachable state, a set that is failing (or has failed and not yet returned) observed a state in
which another set of that epoch had succeeded -/
theorem ev_failed_set_means_other_succeeded (k : Eventual.Actor → Eventual.Kind) (nb : Nat) (v0 : Eventual.Val)
    (s : Eventual.St) (h : (Eventual.machine k nb v0).Reachable s) (a : Eventual.Actor)
    (hp : s.pc a = .setErrCS ∨ s.pc a = .setErrDone) : s.sets (s.relEpoch a) = 1 := by
  have hi := ev_inv_reachable k nb v0 s h
  rcases hp with hp | hp <;> exact (hi.sawOK a (by rw [hp]; trivial)).1

/-- **a waiter returns only after the eventual became ready, and reads the value that was set**: when
ABT_eventual_wait returns successfully, a set had succeeded in the epoch in which the waiter was let
through (found ready under the lock, or woken by the setter's broadcast); and if no reset intervened,
the eventual is still ready and the buffer content the waiter reads (`v`) is the value passed by that
first set (for a non-empty buffer). -/
theorem ev_wait_returns_after_ready_with_value (k : Eventual.Actor → Eventual.Kind) (nb : Nat) (v0 : Eventual.Val)
    (s s' : Eventual.St) (h : (Eventual.machine k nb v0).Reachable s) (a : Eventual.Actor) (r : Bool) (v : Eventual.Val)
    (hs : Eventual.step s (.ret a .wait .ok r v) = some s') :
    s.sets (s.relEpoch a) = 1 ∧ s.relEpoch a ≤ s.epoch ∧
    (s.relEpoch a = s.epoch → s.ready = true ∧ (s.nbytes ≠ 0 → v = s.setVal s.epoch)) := by
  have hi := ev_inv_reachable k nb v0 s h
  obtain ⟨hpc, hv⟩ := Eventual.ret_wait_ok s s' a r v hs
  have hsaw : Eventual.SawReady (s.pc a) := by rcases hpc with hpc | hpc <;> rw [hpc] <;> trivial
  have h1 := hi.sawOK a hsaw
  refine ⟨h1.1, h1.2, ?_⟩
  intro he
  have hr : s.ready = true := hi.readyIff.mpr (by rw [← he]; exact h1.1)
  exact ⟨hr, fun hn => by rw [hv]; exact hi.valOK hr hn⟩

/-- a waiter can only be woken by a setter inside the critical section in which it made the eventual ready -/
theorem ev_wake_only_when_ready (k : Eventual.Actor → Eventual.Kind) (nb : Nat) (v0 : Eventual.Val)
    (s s' : Eventual.St) (h : (Eventual.machine k nb v0).Reachable s) (a n : Eventual.Actor)
    (hs : Eventual.step s (.wake a n) = some s') : s.ready = true ∧ s.pc a = .setOkCS ∧ s'.pc n = .woken := by
  have hi := ev_inv_reachable k nb v0 s h
  obtain ⟨hpc, t, hq, rfl⟩ := Eventual.wake_cases s s' a n hs
  exact ⟨hi.okCS a hpc, hpc, by simp [Eventual.setPc]⟩

/-- **test never reports ready before the set**: the flag ABT_eventual_test returns is the value of `ready`
it read under the lock, and it is TRUE only if a set had succeeded in that epoch. -/
theorem ev_test_not_early (k : Eventual.Actor → Eventual.Kind) (nb : Nat) (v0 : Eventual.Val)
    (s s' : Eventual.St) (h : (Eventual.machine k nb v0).Reachable s) (a : Eventual.Actor) (v : Eventual.Val)
    (hs : Eventual.step s (.ret a .test .ok true v) = some s') :
    s.sets (s.relEpoch a) = 1 ∧ s.relEpoch a ≤ s.epoch := by
  have hi := ev_inv_reachable k nb v0 s h
  have hpc := (Eventual.ret_test_true s s' a v hs).1
  exact hi.sawOK a (by rw [hpc]; trivial)

/-- the test's critical section reports exactly the current `ready` -/
theorem ev_test_reads_ready (s s' : Eventual.St) (a : Eventual.Actor)
    (hs : Eventual.step s (.acq a false) = some s') (hp : s.pc a = .testCalled) :
    s'.pc a = (if s.ready then .testCS1 else .testCS0) ∧ s'.ready = s.ready ∧ s'.value = s.value := by
  rcases Eventual.acq_f_cases s s' a hs with ⟨hp', _⟩ | ⟨hp', _⟩ | ⟨hp', _⟩ | ⟨hp', _⟩ | ⟨_, hr, rfl⟩ | ⟨_, hr, rfl⟩ |
      ⟨hp', _⟩ | ⟨hp', _⟩ | ⟨hp', _⟩ | ⟨hp', _⟩
  any_goals (rw [hp] at hp'; cases hp')
  all_goals simp [Eventual.lockAs, Eventual.setPc, hr]

/-- **reset**: the critical section of ABT_eventual_reset clears `ready`, starts a new epoch with no successful
set, and leaves the buffer and the wait-list alone; the next set therefore succeeds (`ev_first_set_makes_ready`)
and waiters arriving afterwards block until then. -/
theorem ev_reset (k : Eventual.Actor → Eventual.Kind) (nb : Nat) (v0 : Eventual.Val)
    (s s' : Eventual.St) (h : (Eventual.machine k nb v0).Reachable s) (a : Eventual.Actor)
    (hs : Eventual.step s (.acq a false) = some s') (hp : s.pc a = .resetCalled) :
    s'.ready = false ∧ s'.epoch = s.epoch + 1 ∧ s'.sets s'.epoch = 0 ∧ s'.value = s.value ∧ s'.q = s.q := by
  have hi := ev_inv_reachable k nb v0 s h
  rcases Eventual.acq_f_cases s s' a hs with ⟨hp', _⟩ | ⟨hp', _⟩ | ⟨hp', _⟩ | ⟨hp', _⟩ | ⟨hp', _⟩ | ⟨hp', _⟩ |
      ⟨_, rfl⟩ | ⟨hp', _⟩ | ⟨hp', _⟩ | ⟨hp', _⟩
  any_goals (rw [hp] at hp'; cases hp')
  refine ⟨rfl, rfl, ?_, rfl, rfl⟩
  simpa [Eventual.setPc] using (hi.setsFut (s.epoch + 1) (by omega))

/-- **no lost wake-up**: whenever waiters are queued and nobody is inside a critical section, the eventual is
not ready (so a set that will succeed and broadcast is still to come); and the successful setter leaves its
critical section only with an empty wait-list. -/
theorem ev_no_lost_wakeup (k : Eventual.Actor → Eventual.Kind) (nb : Nat) (v0 : Eventual.Val)
    (s : Eventual.St) (h : (Eventual.machine k nb v0).Reachable s) :
    (s.q ≠ [] → s.lock = none → s.ready = false) ∧
    (∀ a r e s', Eventual.step s (.rel a r e) = some s' → s.pc a = .setOkCS → s.q = [] ∧ ∀ b, ¬ Eventual.InQ (s'.pc b)) := by
  have hi := ev_inv_reachable k nb v0 s h
  constructor
  · intro hq hl
    cases hr : s.ready with
    | false => rfl
    | true => exact absurd hl (hi.noLost hq hr).1
  · intro a r e s' hs hp
    have hi' := ev_inv_step s s' _ hi hs
    simp only [Eventual.step, Eventual.stepRel, hp] at hs
    split at hs
    · rename_i hq
      obtain ⟨rfl, _, _⟩ := Eventual.chk_some _ _ _ _ hs
      refine ⟨hq, fun b hb => ?_⟩
      have := (hi'.inQ b).mpr hb
      simp [Eventual.unlockAs, Eventual.setPc, hq] at this
    · cases hs

/-- **free only after the set is done** (ABT_eventual_free takes the lock — and never gives it back): the free
proceeds only at a moment when nobody holds the eventual lock, i.e. when no setter (the one that woke the freeing
waiter included) is between its lock acquisition and its lock release, and nobody is queued; and once the free holds
the lock nobody else is ever inside a critical section of this object again.  So the idiom "wait, then free" by a
woken waiter cannot pull the object away from under the setter that is still broadcasting. -/
theorem ev_free_after_set_done (k : Eventual.Actor → Eventual.Kind) (nb : Nat) (v0 : Eventual.Val) (s : Eventual.St)
    (h : (Eventual.machine k nb v0).Reachable s) :
    (∀ a s', Eventual.step s (.acq a false) = some s' → s.pc a = .freeCalled →
        s.lock = none ∧ (∀ b, ¬ Eventual.HoldsLock (s.pc b)) ∧ s.q = [] ∧ s'.pc a = .freeCS ∧ s'.lock = some a) ∧
    (∀ a, (s.pc a = .freeCS ∨ s.pc a = .freed) →
        s.lock = some a ∧ (∀ b, b ≠ a → ¬ Eventual.HoldsLock (s.pc b)) ∧
        ∀ b s', Eventual.step s (.acq b false) ≠ some s') := by
  have hi := ev_inv_reachable k nb v0 s h
  constructor
  · intro a s' hs hp
    have hl := Eventual.acq_f_free s s' a hs
    have hno : ∀ b, ¬ Eventual.HoldsLock (s.pc b) := by
      intro b hb
      have := (hi.lockIff b).mpr hb
      rw [hl] at this; cases this
    rcases Eventual.acq_f_cases s s' a hs with ⟨hp', _⟩ | ⟨hp', _⟩ | ⟨hp', _⟩ | ⟨hp', _⟩ | ⟨hp', _⟩ | ⟨hp', _⟩ |
        ⟨hp', _⟩ | ⟨_, hq, rfl⟩ | ⟨hp', _⟩ | ⟨hp', _⟩
    any_goals (rw [hp] at hp'; cases hp')
    exact ⟨hl, hno, hq, by simp [Eventual.setPc], by simp [Eventual.setPc]⟩
  · intro a hp
    have hh : Eventual.HoldsLock (s.pc a) := by rcases hp with hp | hp <;> rw [hp] <;> trivial
    have hl := (hi.lockIff a).mpr hh
    refine ⟨hl, ?_, ?_⟩
    · intro b hne hb
      have h2 := (hi.lockIff b).mpr hb
      rw [hl] at h2
      exact hne (Option.some.inj h2).symm
    · intro b s' hs
      have := Eventual.acq_f_free s s' b hs
      rw [hl] at this; cases this

/-- a tasklet calling ABT_eventual_wait is rejected (1.x API) and never takes part in the protocol -/
theorem ev_tasklet_wait_rejected (k : Eventual.Actor → Eventual.Kind) (nb : Nat) (v0 : Eventual.Val)
    (s : Eventual.St) (h : (Eventual.machine k nb v0).Reachable s) (a : Eventual.Actor) (hk : s.kind a = .task) :
    ¬ Eventual.InWait (s.pc a) :=
  (ev_inv_reachable k nb v0 s h).taskPc a hk

/-- non-vacuity: 8-byte eventual; ULT 1 waits and blocks, external thread 2 tests (not ready), tasklet 3 sets 0xAB and
wakes 1, ULT 4's set fails and leaves the value, 1 returns reading 0xAB, 2 tests (ready), reset, test again (not ready). -/
example :
    ((Eventual.machine (fun a => if a = 2 then .ext else if a = 3 then .task else .ult) 8 0).run
        (Eventual.init (fun a => if a = 2 then .ext else if a = 3 then .task else .ult) 8 0)
      [.call 1 .wait 0, .acq 1 false, .enq 1, .rel 1 false false,
       .call 2 .test 0, .acq 2 false, .rel 2 false false, .ret 2 .test .ok false 0,
       .call 3 .set 0xAB, .acq 3 false, .call 4 .set 0xCD, .acq 4 true, .wake 3 1, .rel 3 true true, .ret 3 .set .ok false 0xAB,
       .acq 4 false, .rel 4 true true, .ret 4 .set .errEventual false 0xAB,
       .ret 1 .wait .ok false 0xAB,
       .call 2 .test 0, .acq 2 false, .rel 2 true true, .ret 2 .test .ok true 0xAB,
       .call 1 .reset 0, .acq 1 false, .rel 1 false true, .ret 1 .reset .ok false 0,
       .call 2 .test 0, .acq 2 false, .rel 2 false true, .ret 2 .test .ok false 0]).map
      (fun s => ([s.epoch, s.sets 0, s.sets 1, s.value], s.ready, s.q)) = some ([1, 1, 0, 0xAB], false, []) := by decide

/-- the model rejects a waiter that returns before any set … -/
example :
    (Eventual.machine (fun _ => .ult) 8 0).run (Eventual.init (fun _ => .ult) 8 0)
      [.call 1 .wait 0, .acq 1 false, .enq 1, .rel 1 false false, .ret 1 .wait .ok false 0] = none := by decide

/-- … and a second successful set -/
example :
    (Eventual.machine (fun _ => .ult) 8 0).run (Eventual.init (fun _ => .ult) 8 0)
      [.call 1 .set 5, .acq 1 false, .rel 1 true true, .ret 1 .set .ok false 5,
       .call 2 .set 6, .acq 2 false, .rel 2 true true, .ret 2 .set .ok false 6] = none := by decide

/-- … and a free by the woken waiter while the setter is still inside its critical section; after the setter's release
the free is accepted and nobody gets the lock any more -/
example :
    ((Eventual.machine (fun _ => .ult) 8 0).run (Eventual.init (fun _ => .ult) 8 0)
      [.call 1 .wait 0, .acq 1 false, .enq 1, .rel 1 false false, .call 2 .set 5, .acq 2 false, .wake 2 1,
       .ret 1 .wait .ok false 5, .call 1 .free 0, .acq 1 true, .acq 1 false]) = none ∧
    ((Eventual.machine (fun _ => .ult) 8 0).run (Eventual.init (fun _ => .ult) 8 0)
      [.call 1 .wait 0, .acq 1 false, .enq 1, .rel 1 false false, .call 2 .set 5, .acq 2 false, .wake 2 1,
       .ret 1 .wait .ok false 5, .call 1 .free 0, .acq 1 true, .rel 2 true true, .acq 1 false, .ret 1 .free .ok false 0,
       .ret 2 .set .ok false 5, .call 2 .test 0, .acq 2 true]).map (fun s => (s.pc 1, s.lock)) = some (.freed, some 1) ∧
    ((Eventual.machine (fun _ => .ult) 8 0).run (Eventual.init (fun _ => .ult) 8 0)
      [.call 1 .free 0, .acq 1 false, .ret 1 .free .ok false 0, .call 2 .test 0, .acq 2 false]) = none := by decide

/-! ## ABT_future -/

/-- the invariants are inductive for the whole step function -/
theorem fut_inv_step (s s' : Future.St) (e : Future.Ev) (h : Future.Inv s) (hs : Future.step s e = some s') :
    Future.Inv s' := by
  cases e with
  | call a op v => exact Future.inv_stepCall s s' a op v h hs
  | ret a op rc r => exact Future.inv_stepRet s s' a op rc r h hs
  | acq a old => cases old
                 · exact Future.inv_stepAcq_f s s' a h hs
                 · exact Future.inv_stepAcq_t s s' a h hs
  | ldCnt a v => exact Future.inv_stepLdCnt s s' a v h hs
  | cbBegin a => exact Future.inv_stepCbBegin s s' a h hs
  | cb a vs => exact Future.inv_stepCb s s' a vs h hs
  | stCnt a v => exact Future.inv_stepStCnt s s' a v h hs
  | enq a => exact Future.inv_stepEnq s s' a h hs
  | wake a n => exact Future.inv_stepWake s s' a n h hs
  | rel a c n e => exact Future.inv_stepRel s s' a c n e h hs
  | tload a v => exact Future.inv_stepTload s s' a v h hs
  | obsCnt v => simp only [Future.step] at hs; split at hs <;> simp_all
  | obsLock v => simp only [Future.step] at hs; split at hs <;> simp_all
  | arr vs => simp only [Future.step] at hs; split at hs <;> simp_all

theorem fut_inv_reachable (k : Future.Actor → Future.Kind) (n : Nat) (c : Bool) (s : Future.St)
    (h : (Future.machine k n c).Reachable s) : Future.Inv s ∧ Future.Fill s :=
  Machine.invariant_reachable (Future.machine k n c) (fun s => Future.Inv s ∧ Future.Fill s)
    ⟨Future.inv_init k n c, Future.fill_init k n c⟩
    (fun s e s' hi hs => ⟨fut_inv_step s s' e hi.1 hs, Future.fill_step s s' e hi.1 hi.2 hs⟩) s h

/-- **ready exactly at the n-th set**: the counter is the number of sets that have stored it in this epoch,
never exceeds num_compartments, and ABT_future_test answers TRUE exactly when the value it loads is
num_compartments — i.e. when the num_compartments-th set of the epoch has completed its counter store. -/
theorem fut_ready_at_nth (k : Future.Actor → Future.Kind) (n : Nat) (c : Bool) (s : Future.St)
    (h : (Future.machine k n c).Reachable s) :
    s.counter = s.sets s.epoch ∧ s.counter ≤ s.n ∧
    (∀ a v s', Future.step s (.tload a v) = some s' →
        v = s.sets s.epoch ∧ (s'.pc a = .testDone1 ↔ s.sets s.epoch = s.n) ∧ (s'.pc a = .testDone0 ↔ s.sets s.epoch ≠ s.n)) := by
  have hi := (fut_inv_reachable k n c s h).1
  refine ⟨hi.cntSets, hi.cntLe, ?_⟩
  intro a v s' hs
  simp only [Future.step, Future.stepTload] at hs
  split at hs
  · rename_i hc
    cases hs
    have hv : v = s.sets s.epoch := by rw [hc.2]; exact hi.cntSets
    refine ⟨hv, ?_, ?_⟩ <;> by_cases hvn : v = s.n <;> simp [Future.setPc, hvn, ← hv]
  · cases hs

/-- a test answers TRUE / a waiter is let through only in an epoch in which num_compartments sets completed -/
theorem fut_through_means_all_set (k : Future.Actor → Future.Kind) (n : Nat) (c : Bool) (s : Future.St)
    (h : (Future.machine k n c).Reachable s) (a : Future.Actor) (hp : Future.SawReady (s.pc a)) :
    s.sets (s.relEpoch a) = s.n ∧ s.relEpoch a ≤ s.epoch :=
  ⟨((fut_inv_reachable k n c s h).1.sawOK a hp).1, ((fut_inv_reachable k n c s h).1.sawOK a hp).2.1⟩

/-- **the callback runs exactly once, before any waiter returns**: in every epoch the callback runs at most
once; and when ABT_future_wait returns successfully (likewise when a test reported ready), then — provided
the future has a callback and at least one compartment — the callback has already run exactly once in the
epoch in which the waiter was let through. -/
theorem fut_callback_once_before_any_return (k : Future.Actor → Future.Kind) (n : Nat) (c : Bool) (s : Future.St)
    (h : (Future.machine k n c).Reachable s) :
    (∀ e, s.cbRuns e ≤ 1) ∧
    (∀ a r s', Future.step s (.ret a .wait .ok r) = some s' → s.hasCb = true → 0 < s.n → s.cbRuns (s.relEpoch a) = 1) ∧
    (∀ a s', Future.step s (.ret a .test .ok true) = some s' → s.hasCb = true → 0 < s.n → s.cbRuns (s.relEpoch a) = 1) := by
  have hi := (fut_inv_reachable k n c s h).1
  refine ⟨hi.cbLe, ?_, ?_⟩
  · intro a r s' hs hc hn
    have key : Future.SawReady (s.pc a) := by
      rcases Future.ret_wait_ok s s' a r hs with hpc | hpc <;> rw [hpc] <;> trivial
    exact (hi.sawOK a key).2.2 hc hn
  · intro a s' hs hc hn
    have key : Future.SawReady (s.pc a) := by
      rw [Future.ret_test_true s s' a hs]; trivial
    exact (hi.sawOK a key).2.2 hc hn

/-- the callback is called by the setter that fills the last compartment and has *returned* (`cb`) before that
setter stores the counter: at that moment the counter is still num_compartments − 1, so no test can have reported
ready and no waiter can have been let through in this epoch on account of this set -/
theorem fut_callback_before_counter_store (k : Future.Actor → Future.Kind) (n : Nat) (c : Bool) (s s' : Future.St)
    (h : (Future.machine k n c).Reachable s) (a : Future.Actor) (vs : List Future.Val)
    (hs : Future.step s (.cb a vs) = some s') :
    s.counter + 1 = s.n ∧ s.cbRuns s.epoch = 0 ∧ s'.cbRuns s.epoch = 1 ∧ s'.counter = s.counter := by
  have hi := (fut_inv_reachable k n c s h).1
  simp only [Future.step, Future.stepCb] at hs
  split at hs
  · rename_i hc
    cases hs
    have h1 := hi.cbRunStage a hc.1
    have h2 := hi.staged a (by rw [hc.1]; trivial)
    refine ⟨by omega, h1.2.2.1, by simp [Future.setPc, h1.2.2.1], rfl⟩
  · cases hs

/-- **ready is not observable before the callback has completed** (lock-free ABT_future_test): when the acquire
load of ABT_future_test reads num_compartments — so the test will answer TRUE — the callback of the epoch (if the
future has one and at least one compartment) has been invoked exactly once *and has returned*, and nobody is about to
call it or inside it.  Conversely, while some setter is about to call the callback or inside it, the counter is
still below num_compartments: every test answers FALSE and no waiter passes. -/
theorem fut_test_ready_after_callback (k : Future.Actor → Future.Kind) (n : Nat) (c : Bool) (s : Future.St)
    (h : (Future.machine k n c).Reachable s) :
    (∀ a v s', Future.step s (.tload a v) = some s' → v = s.n → s.hasCb = true → 0 < s.n →
        s'.pc a = .testDone1 ∧ s.cbBeg s.epoch = 1 ∧ s.cbRuns s.epoch = 1 ∧
        ∀ b, s.pc b ≠ .setCbCS ∧ s.pc b ≠ .setCbRun) ∧
    (∀ b, (s.pc b = .setCbCS ∨ s.pc b = .setCbRun) → s.counter < s.n ∧ s.cbRuns s.epoch = 0 ∧
        ∀ a v s', Future.step s (.tload a v) = some s' → s'.pc a = .testDone0) := by
  have hi := (fut_inv_reachable k n c s h).1
  have hcs := hi.cbStage; have hcr := hi.cbRunStage; have hst := hi.staged
  constructor
  · intro a v s' hs hv hc hn
    simp only [Future.step, Future.stepTload] at hs
    split at hs
    · rename_i hcc
      cases hs
      have hfull : s.counter = s.n := by rw [← hcc.2]; exact hv
      have hr := hi.cbFull hfull hc hn
      have hno : ∀ b, s.pc b ≠ .setCbCS ∧ s.pc b ≠ .setCbRun := by
        intro b
        constructor
        · intro hb; have := (hcs b hb).2.2.1; omega
        · intro hb; have := (hcr b hb).2.2.1; omega
      refine ⟨by simp [Future.setPc, hv], ?_, hr, hno⟩
      cases hl : s.lock with
      | none => rw [hi.begFree hl]; exact hr
      | some x =>
        have hx := (hi.lockIff x).mp hl
        by_cases hsx : Future.Staged (s.pc x)
        · have h3 : s.pc x = .setStCS := by
            have := (hno x).1; have := (hno x).2
            cases hpx : s.pc x <;> simp_all [Future.Staged]
          rw [(hi.stStage x h3).2]; exact hr
        · rw [hi.begHeld x hx hsx]; exact hr
    · cases hs
  · intro b hb
    have hlt : s.counter < s.n ∧ s.cbRuns s.epoch = 0 := by
      rcases hb with hb | hb
      · have h1 := hcs b hb; have h2 := hst b (by rw [hb]; trivial); exact ⟨by omega, h1.2.2.1⟩
      · have h1 := hcr b hb; have h2 := hst b (by rw [hb]; trivial); exact ⟨by omega, h1.2.2.1⟩
    refine ⟨hlt.1, hlt.2, ?_⟩
    intro a v s' hs
    simp only [Future.step, Future.stepTload] at hs
    split at hs
    · rename_i hcc
      cases hs
      have : v ≠ s.n := by rw [hcc.2]; omega
      simp [Future.setPc, this]
    · cases hs

/-- **reset is linearizable with the sets** (no lost update on the counter): ABT_future_reset stores 0 while it
holds the future lock, hence at that step no set is between its load of the counter and its store (nobody is
`Staged`), and the new epoch starts with counter 0 and no set counted; and whenever a set stores the counter it
holds the lock and the value it stores is exactly the current counter plus one — the counter has not been changed
(in particular not reset) since that set loaded it.  Together: the counter always equals the number of sets that
completed since the last reset (`fut_ready_at_nth`). -/
theorem fut_reset_linearizable (k : Future.Actor → Future.Kind) (n : Nat) (c : Bool) (s : Future.St)
    (h : (Future.machine k n c).Reachable s) :
    (∀ a v s', Future.step s (.stCnt a v) = some s' → s.pc a = .resetCS →
        v = 0 ∧ s.lock = some a ∧ (∀ b, ¬ Future.Staged (s.pc b)) ∧ s'.counter = 0 ∧ s'.epoch = s.epoch + 1 ∧
        s'.sets s'.epoch = 0 ∧ s'.vals = []) ∧
    (∀ a v s', Future.step s (.stCnt a v) = some s' → s.pc a = .setStCS →
        v = s.counter + 1 ∧ s.lock = some a ∧ s'.epoch = s.epoch ∧ s'.sets s.epoch = s.sets s.epoch + 1 ∧
        s'.counter = s'.sets s'.epoch) := by
  have hi := (fut_inv_reachable k n c s h).1
  constructor
  · intro a v s' hs hp
    have hi' := fut_inv_step s s' _ hi hs
    have hl := (hi.lockIff a).mpr (by rw [hp]; trivial)
    simp only [Future.step, Future.stepStCnt, hp] at hs
    split at hs
    · rename_i hv
      cases hs
      refine ⟨hv, hl, ?_, rfl, rfl, ?_, rfl⟩
      · intro b hb
        have := Future.holder_unique s hi a (by rw [hp]; trivial) b (Future.staged_holds _ hb)
        subst this
        rw [hp] at hb; exact hb
      · simpa [Future.setPc] using (hi.fut (s.epoch + 1) (by omega)).1
    · cases hs
  · intro a v s' hs hp
    have hi' := fut_inv_step s s' _ hi hs
    have hl := (hi.lockIff a).mpr (by rw [hp]; trivial)
    have hst := hi.staged a (by rw [hp]; trivial)
    have hc' := hi'.cntSets
    simp only [Future.step, Future.stepStCnt, hp] at hs
    split at hs
    · rename_i hv
      cases hs
      refine ⟨by omega, hl, rfl, by simp [Future.setPc], ?_⟩
      simpa [Future.setPc] using hc'
    · cases hs

/-- **free only after every set is done** (ABT_future_free takes the lock — and never gives it back): the free
proceeds only at a moment when nobody holds the future lock, i.e. when no setter (the one that woke the freeing
waiter included) is between its lock acquisition and its lock release, and nobody is queued; and once the free
holds the lock nobody else is ever inside a critical section of this object again. -/
theorem fut_free_after_set_done (k : Future.Actor → Future.Kind) (n : Nat) (c : Bool) (s : Future.St)
    (h : (Future.machine k n c).Reachable s) :
    (∀ a s', Future.step s (.acq a false) = some s' → s.pc a = .freeCalled →
        s.lock = none ∧ (∀ b, ¬ Future.HoldsLock (s.pc b)) ∧ s.q = [] ∧ s'.pc a = .freeCS ∧ s'.lock = some a) ∧
    (∀ a, (s.pc a = .freeCS ∨ s.pc a = .freed) →
        s.lock = some a ∧ (∀ b, b ≠ a → ¬ Future.HoldsLock (s.pc b)) ∧ ∀ b s', Future.step s (.acq b false) ≠ some s') := by
  have hi := (fut_inv_reachable k n c s h).1
  constructor
  · intro a s' hs hp
    have hl := Future.acq_f_free s s' a hs
    simp only [Future.step, Future.stepAcq, hp] at hs
    split at hs
    · cases hs
    · simp only [Bool.false_eq_true, if_false] at hs
      split at hs
      · rename_i hq
        cases hs
        refine ⟨hl, ?_, hq, by simp [Future.lockAs, Future.setPc], by simp [Future.lockAs, Future.setPc]⟩
        intro b hb
        have := (hi.lockIff b).mpr hb
        rw [hl] at this; cases this
      · cases hs
  · intro a hp
    have hh : Future.HoldsLock (s.pc a) := by rcases hp with hp | hp <;> rw [hp] <;> trivial
    have hl := (hi.lockIff a).mpr hh
    refine ⟨hl, ?_, ?_⟩
    · intro b hne hb
      exact hne (Future.holder_unique s hi a hh b hb)
    · intro b s' hs
      have := Future.acq_f_free s s' b hs
      rw [hl] at this; cases this

/-- **further sets fail**: a set whose load of the counter finds it ≥ num_compartments (all compartments
taken — or a future without compartments) changes nothing and can only return ABT_ERR_FUTURE; and never
more than num_compartments sets succeed in an epoch. -/
theorem fut_extra_set_err (k : Future.Actor → Future.Kind) (n : Nat) (c : Bool) (s : Future.St)
    (h : (Future.machine k n c).Reachable s) :
    s.sets s.epoch ≤ s.n ∧
    (∀ a v s1, Future.step s (.ldCnt a v) = some s1 → s.pc a = .setCS → s.n ≤ s.counter →
        s1.pc a = .setErrCS ∧ s1.counter = s.counter ∧ s1.arr = s.arr ∧ s1.vals = s.vals ∧ s1.cbRuns = s.cbRuns ∧ s1.q = s.q) ∧
    (∀ a rc r s', Future.step s (.ret a .set rc r) = some s' → s.pc a = .setErrDone → rc = .errFuture) := by
  have hi := (fut_inv_reachable k n c s h).1
  refine ⟨by rw [← hi.cntSets]; exact hi.cntLe, ?_, ?_⟩
  · intro a v s1 hs hp hfull
    by_cases hv : v = s.counter
    · simp [Future.step, Future.stepLdCnt, hp, hv, hfull] at hs
      cases hs
      simp [Future.setPc]
    · simp [Future.step, Future.stepLdCnt, hv] at hs
  · intro a rc r s' hs hp
    simp only [Future.step, Future.stepRet, hp] at hs
    cases rc <;> simp at hs
    rfl

/-- **what the code does for zero compartments** (checked against the property text): with
num_compartments = 0 the counter stays 0 = num_compartments, so the future is ready from creation:
every wait passes without ever enqueuing, every test answers TRUE, every set takes the error branch,
and **the callback never runs** (`cbRuns k = 0` for every epoch).  This is the documented behaviour
("cb_func() is never called if num_compartments is zero"), but it does not match the literal property
text "the callback runs exactly once, before any waiter returns" for the compartment count 0 that the
quantifier includes: waiters return and the callback has run zero times. -/
theorem fut_zero_compartments (k : Future.Actor → Future.Kind) (c : Bool) (s : Future.St)
    (h : (Future.machine k 0 c).Reachable s) (hn : s.n = 0) :
    s.counter = 0 ∧ s.q = [] ∧ (∀ e, s.cbRuns e = 0) ∧ (∀ a, ¬ Future.NeedsComp (s.pc a)) ∧
    (∀ a v s', Future.step s (.ldCnt a v) = some s' → s.pc a = .waitLdCS → s'.pc a = .passCS) ∧
    (∀ a v s', Future.step s (.ldCnt a v) = some s' → s.pc a = .setCS → s'.pc a = .setErrCS) ∧
    (∀ a v s', Future.step s (.tload a v) = some s' → s'.pc a = .testDone1) := by
  have hi := (fut_inv_reachable k 0 c s h).1
  have hz := hi.zero hn
  have hc : s.counter = 0 := by have := hi.cntLe; omega
  refine ⟨hc, hz.2.1, hz.2.2.2, hz.1, ?_, ?_, ?_⟩
  · intro a v s' hs hp
    have h1 : ¬ s.counter < s.n := by omega
    by_cases hv : v = s.counter
    · simp [Future.step, Future.stepLdCnt, hp, hv, h1] at hs
      cases hs; simp [Future.setPc]
    · simp [Future.step, Future.stepLdCnt, hv] at hs
  · intro a v s' hs hp
    have h1 : s.n ≤ s.counter := by omega
    by_cases hv : v = s.counter
    · simp [Future.step, Future.stepLdCnt, hp, hv, h1] at hs
      cases hs; simp [Future.setPc]
    · simp [Future.step, Future.stepLdCnt, hv] at hs
  · intro a v s' hs
    simp only [Future.step, Future.stepTload] at hs
    split at hs
    · rename_i hcc
      cases hs
      have : v = s.n := by rw [hcc.2, hc, hn]
      simp [Future.setPc, this]
    · cases hs

/-- **the callback sees all set values**: the argument array the callback receives is exactly the list of
the values passed by the num_compartments successful sets of the epoch, compartment i holding the value of
the (i+1)-th of them (`vals` is extended by each successful set when it writes its compartment). -/
theorem fut_values_all_passed (k : Future.Actor → Future.Kind) (n : Nat) (c : Bool) (s s' : Future.St)
    (h : (Future.machine k n c).Reachable s) (a : Future.Actor) (vs : List Future.Val)
    (hs : Future.step s (.cb a vs) = some s') : vs = s.vals ∧ vs.length = s.n := by
  obtain ⟨hi, hf⟩ := fut_inv_reachable k n c s h
  simp only [Future.step, Future.stepCb] at hs
  split at hs
  · rename_i hc
    have h1 := hi.cbRunStage a hc.1
    have h2 := hi.staged a (by rw [hc.1]; trivial)
    have hl : s.vals.length = s.n := by omega
    have := Future.fill_full s hf s.n hl
    rw [hc.2, this]
    exact ⟨rfl, hl⟩
  · cases hs

/-- each successful set appends exactly its own argument to that list, at the compartment index it loaded -/
theorem fut_set_appends (s s' : Future.St) (a : Future.Actor) (v : Nat) (hs : Future.step s (.ldCnt a v) = some s')
    (hp : s.pc a = .setCS) (hlt : s.counter < s.n) :
    s'.vals = s.vals ++ [s.arg a] ∧ s'.arr s.counter = s.arg a ∧ v = s.counter := by
  have h1 : ¬ s.n ≤ s.counter := by omega
  by_cases hv : v = s.counter
  · simp [Future.step, Future.stepLdCnt, hp, hv, h1] at hs
    cases hs
    exact ⟨by simp [Future.store, Future.setPc], by simp [Future.store, Future.setPc], hv⟩
  · simp [Future.step, Future.stepLdCnt, hv] at hs

/-- **no lost wake-up**: whenever waiters are queued and nobody is inside a critical section, the counter is
below num_compartments; the setter that completes the future leaves its critical section only with an empty
wait-list. -/
theorem fut_no_lost_wakeup (k : Future.Actor → Future.Kind) (n : Nat) (c : Bool) (s : Future.St)
    (h : (Future.machine k n c).Reachable s) :
    (s.q ≠ [] → s.lock = none → s.counter < s.n) ∧
    (∀ a cc nn e s', Future.step s (.rel a cc nn e) = some s' → s.pc a = .setBcCS → s.q = [] ∧ ∀ b, ¬ Future.InQ (s'.pc b)) := by
  have hi := (fut_inv_reachable k n c s h).1
  constructor
  · intro hq hl
    by_cases hc : s.counter = s.n
    · exact absurd hl (hi.noLost hq hc).1
    · have := hi.cntLe; omega
  · intro a cc nn e s' hs hp
    have hi' := fut_inv_step s s' _ hi hs
    simp only [Future.step, Future.stepRel, hp] at hs
    split at hs
    · rename_i hq
      obtain ⟨rfl, _, _⟩ := Future.chk_some _ _ _ _ _ hs
      refine ⟨hq, fun b hb => ?_⟩
      have := (hi'.inQ b).mpr hb
      simp [Future.unlockAs, Future.setPc, hq] at this
    · cases hs

/-- non-vacuity: 2 compartments with callback; external thread 1 waits and blocks; ULT 2 sets 7; tasklet 3 tests (not
ready); ULT 4 sets 9: callback sees [7, 9], counter stored, 1 woken; test ready; a third set fails; 1 returns; reset. -/
example :
    ((Future.machine (fun a => if a = 1 then .ext else if a = 3 then .task else .ult) 2 true).run
        (Future.init (fun a => if a = 1 then .ext else if a = 3 then .task else .ult) 2 true)
      [.call 1 .wait 0, .acq 1 false, .ldCnt 1 0, .enq 1, .rel 1 0 2 false,
       .call 2 .set 7, .acq 2 false, .ldCnt 2 0, .stCnt 2 1, .rel 2 1 2 false, .ret 2 .set .ok false,
       .call 3 .test 0, .tload 3 1, .ret 3 .test .ok false,
       .call 4 .set 9, .acq 4 false, .ldCnt 4 1, .cbBegin 4, .cb 4 [7, 9], .stCnt 4 2, .call 3 .test 0, .tload 3 2, .wake 4 1,
       .rel 4 2 2 true, .ret 4 .set .ok false, .ret 3 .test .ok true,
       .call 2 .set 11, .acq 2 false, .ldCnt 2 2, .rel 2 2 2 true, .ret 2 .set .errFuture false,
       .ret 1 .wait .ok false, .arr [7, 9],
       .call 2 .reset 0, .acq 2 false, .stCnt 2 0, .rel 2 0 2 true, .ret 2 .reset .ok false]).map
      (fun s => ([s.epoch, s.counter, s.cbRuns 0, s.cbRuns 1, s.sets 0], s.q, s.vals)) = some ([1, 0, 1, 0, 2], [], []) := by
  decide

/-- the model rejects a callback that runs after the counter store … -/
example :
    (Future.machine (fun _ => .ult) 1 true).run (Future.init (fun _ => .ult) 1 true)
      [.call 1 .set 7, .acq 1 false, .ldCnt 1 0, .stCnt 1 1, .cbBegin 1] = none := by decide

/-- … a counter store (which a lock-free test could see) while the callback is still running … -/
example :
    (Future.machine (fun _ => .ult) 1 true).run (Future.init (fun _ => .ult) 1 true)
      [.call 1 .set 7, .acq 1 false, .ldCnt 1 0, .cbBegin 1, .stCnt 1 1] = none := by decide

/-- … a reset that stores the counter without holding the lock … -/
example :
    (Future.machine (fun _ => .ult) 2 false).run (Future.init (fun _ => .ult) 2 false)
      [.call 1 .set 7, .acq 1 false, .ldCnt 1 0, .call 2 .reset 0, .stCnt 2 0] = none := by decide

/-- … and a free while the setter that woke the waiter is still inside its critical section; after the setter's
release the free is accepted, and from then on nobody gets the lock -/
example :
    ((Future.machine (fun _ => .ult) 1 false).run (Future.init (fun _ => .ult) 1 false)
      [.call 1 .wait 0, .acq 1 false, .ldCnt 1 0, .enq 1, .rel 1 0 1 false,
       .call 2 .set 7, .acq 2 false, .ldCnt 2 0, .stCnt 2 1, .wake 2 1, .ret 1 .wait .ok false,
       .call 1 .free 0, .acq 1 true, .acq 1 false]) = none ∧
    ((Future.machine (fun _ => .ult) 1 false).run (Future.init (fun _ => .ult) 1 false)
      [.call 1 .wait 0, .acq 1 false, .ldCnt 1 0, .enq 1, .rel 1 0 1 false,
       .call 2 .set 7, .acq 2 false, .ldCnt 2 0, .stCnt 2 1, .wake 2 1, .ret 1 .wait .ok false,
       .call 1 .free 0, .acq 1 true, .rel 2 1 1 true, .acq 1 false, .ret 2 .set .ok false, .ret 1 .free .ok false,
       .call 2 .set 9, .acq 2 true]).map (fun s => (s.pc 1, s.lock)) = some (.freed, some 1) ∧
    ((Future.machine (fun _ => .ult) 1 false).run (Future.init (fun _ => .ult) 1 false)
      [.call 1 .free 0, .acq 1 false, .ret 1 .free .ok false, .call 2 .set 9, .acq 2 false]) = none := by decide

/-- … and a waiter of a 0-compartment future returns at once, no callback (the documented behaviour) -/
example :
    ((Future.machine (fun _ => .ult) 0 true).run (Future.init (fun _ => .ult) 0 true)
      [.call 1 .wait 0, .acq 1 false, .ldCnt 1 0, .rel 1 0 0 true, .ret 1 .wait .ok false,
       .call 2 .set 5, .acq 2 false, .ldCnt 2 0, .rel 2 0 0 true, .ret 2 .set .errFuture false,
       .call 1 .test 0, .tload 1 0, .ret 1 .test .ok true]).map (fun s => (s.cbRuns 0, s.counter)) = some (0, 0) := by
  decide


/-! ## widths of the counters modelled as unbounded numbers (generated from the headers on every run) -/
/-- `counter` of ABT_future is 8 bytes wide in this tree: the unbounded model agrees with the C field below 2^63 -/
example : ArgoVerif.Gen.Consts.bytesFutureCounter = 8 := by decide
/-- `num_compartments` is 8 bytes wide in this tree: the unbounded model agrees with the C field below 2^63 -/
example : ArgoVerif.Gen.Consts.bytesFutureNumCompartments = 8 := by decide

end ArgoVerif.Props.C09
