import ArgoVerif.Proofs.WaitListAll
import ArgoVerif.Proofs.WLPtr
import ArgoVerif.Proofs.PopWaitC7
/-
Props.C19 — timed waits respect their deadline and never damage the waiter queue; blocking pool pops never lose a
unit and return empty-handed in bounded time.  Three models:

  * Model.WaitList (sections below up to `wl_wake_only_suspended`): the spinlock + wait-list *protocol* with an abstract
    list — every trace: any number of ULT / non-ULT, timed / untimed waiters and wakers, every interleaving of their
    atomic steps, every outcome of each `now >= deadline` comparison.  The same theorems serve C05 (cond), C08, C09
    through the shared wait-list code.
  * Model.WLPtr ("pointer-level wait-list"): `p_head` / `p_tail` / `p_next` / `p_prev` exactly as abti_waitlist.h writes
    them — untimed enqueues never write `p_prev`, signals leave stale ones — for every operation sequence.
  * Model.PopWait ("blocking pool pops"): producers and consumers of one FIFO / RANDWS pool (spinlock, `is_empty` fast
    path, sleep-poll loop with the virtual clock) or FIFO_WAIT pool (mutex + condition variable), all interleavings.
-/
namespace ArgoVerif.Props.C19
open ArgoVerif ArgoVerif.Model.WaitList
open ArgoVerif.Heap ArgoVerif.Model

/-- the spinlock is exclusive: wait-list operations of different actors never overlap -/
theorem wl_lock_excl (u : Actor → Bool) (s : St) (h : (machine u).Reachable s) (a b : Actor)
    (ha : HasL (s.pc a)) (hb : HasL (s.pc b)) : a = b := by
  have hi := inv_reachable u s h
  have h1 := (hi.lIff a).mpr ha
  have h2 := (hi.lIff b).mpr hb
  rw [h1] at h2; exact Option.some.inj h2

/-- enqueue, dequeue and removal happen only while the acting actor holds the lock -/
theorem wl_ops_under_lock (u : Actor → Bool) (s s' : St) (h : (machine u).Reachable s) (e : Ev)
    (hs : step s e = some s') :
    match e with
    | .enq a _ | .deq a _ | .rm a | .storeReady a _ => s.lOwner = some a
    | _ => True := by
  have hi := inv_reachable u s h
  have hl := hi.lIff
  cases e <;> simp only [step, stepEnq, stepDeq, stepRm, stepStoreReady] at hs ⊢ <;> (try trivial) <;>
    (repeat' (split at hs)) <;> (first | (cases hs; done) | grind [HasL])

/-- **a timed-out waiter consumes no signal**: when a waiter unlinks its own node (timeout path) it has
not been made READY, and READY is only ever stored into a node that a waker dequeued — so the removed
node is never made READY later, and every READY store corresponds to exactly one dequeue -/
theorem timed_out_consumes_no_signal (u : Actor → Bool) (s s' : St) (h : (machine u).Reachable s) (a : Actor)
    (hs : step s (.rm a) = some s') : s.ready a = false ∧ a ∈ s.q ∧ a ∉ s'.q ∧ s'.ready a = false ∧ s'.timedOut a = true := by
  have hi := inv_reachable u s h
  simp only [step, stepRm] at hs
  split at hs
  · rename_i hp
    cases hs
    have hr := hi.tmoRmInv a hp
    have hpend : s.pending ≠ some a := by
      intro hpd
      have hw : s.lOwner = some a := (hi.lIff a).mpr (by rw [hp]; trivial)
      have := (hi.pendIff a).mpr ⟨hw, by rw [hpd]; simp⟩
      rw [hp] at this; cases this
    have hq := hi.timedInQ a (by rw [hp]; trivial) hr hpend
    refine ⟨hr, hq, ?_, hr, by simp [setPc, upd]⟩
    simp only [setPc]
    exact fun hm => (List.Nodup.mem_erase_iff hi.nodup).mp hm |>.1 rfl
  · cases hs

/-- READY is stored only into the node the same waker dequeued in the same critical section, and that
node was still waiting and not READY -/
theorem ready_only_dequeued (u : Actor → Bool) (s s' : St) (h : (machine u).Reachable s) (a n : Actor)
    (hs : step s (.storeReady a n) = some s') : s.pending = some n ∧ Waiting (s.pc n) ∧ s.ready n = false ∧ n ∉ s.q := by
  have hi := inv_reachable u s h
  simp only [step, stepStoreReady] at hs
  split at hs
  · rename_i hp
    exact ⟨hp.2, (hi.pendWait n hp.2).1, (hi.pendWait n hp.2).2.2, (hi.pendWait n hp.2).2.1⟩
  · cases hs

/-- **timeout result**: the timeout path reports "timed out" iff, under the lock, the node was still not READY;
if a signal came first (`READY` already stored) the wait reports success -/
theorem timed_success_if_signalled_first (u : Actor → Bool) (s s' : St) (a : Actor) (r : Bool)
    (hp : s.pc a = .tmo) (hs : step s (.loadState a r) = some s') :
    r = s.ready a ∧ (r = true → s'.pc a = .tmoRel ∧ s'.timedOut a = false) ∧ (r = false → s'.pc a = .tmoRm) := by
  simp only [step, stepLoadState] at hs
  split at hs
  · cases hs
  · rename_i hr
    rw [hp] at hs
    refine ⟨by simpa using hr, ?_, ?_⟩ <;> intro hrv <;> subst hrv <;> simp at hs <;> subst hs <;> simp [setPc, upd]

/-- **timeout only after the deadline**: the timeout path is entered only by a `now >= deadline` comparison that
came out true -/
theorem timed_timeout_only_after_deadline (s s' : St) (e : Ev) (a : Actor) (hs : step s e = some s')
    (hbefore : s.pc a ≠ .tmo ∧ s.pc a ≠ .tuAcq) (hafter : s'.pc a = .tmo ∨ s'.pc a = .tuAcq) :
    e = .timeCheck a true := by
  have hf := pc_frame s s' e hs a
  cases e <;> simp only [step, stepBegin, stepTasL, stepClearL, stepEnq, stepStoreBlocked, stepLoadState,
    stepDeq, stepStoreReady, stepTimeCheck, stepRm] at hs <;>
    (repeat' (split at hs)) <;> (try cases hs) <;>
    simp_all [setPc, takeL, dropL, upd] <;> grind

/-- **queue intact**: the wait-list never holds a node twice, holds only nodes of actors that are inside a wait and
not READY, and a waiter that is neither READY nor being woken is still queued (so later signals reach it) -/
theorem timed_queue_intact (u : Actor → Bool) (s : St) (h : (machine u).Reachable s) :
    s.q.Nodup ∧ (∀ a ∈ s.q, Waiting (s.pc a) ∧ s.ready a = false) ∧
    (∀ a, TimedWaiting (s.pc a) → s.ready a = false → s.pending ≠ some a → a ∈ s.q) ∧
    (∀ a, s.pc a = .uWait → a ∈ s.q ∨ s.pending = some a) := by
  have hi := inv_reachable u s h
  exact ⟨hi.nodup, hi.inQ, hi.timedInQ, hi.ultWait⟩

/-- a ULT is dequeued only when fully suspended (BLOCKED stored, lock released by its scheduler context) -/
theorem wl_wake_only_suspended (u : Actor → Bool) (s s' : St) (h : (machine u).Reachable s) (a n : Actor)
    (hs : step s (.deq a n) = some s') (hu : s.pc n = .uSusp ∨ s.pc n = .uRelL ∨ s.pc n = .uWait) : s.pc n = .uWait := by
  have hi := inv_reachable u s h
  simp only [step, stepDeq] at hs
  split at hs
  · rename_i hd tl hpc hq
    have haW : s.lOwner = some a := (hi.lIff a).mpr (by rw [hpc]; trivial)
    rcases hu with h3 | h3 | h3
    · have : s.lOwner = some n := (hi.lIff n).mpr (by rw [h3]; trivial)
      rw [haW] at this; have := Option.some.inj this; subst this; rw [hpc] at h3; cases h3
    · have : s.lOwner = some n := (hi.lIff n).mpr (by rw [h3]; trivial)
      rw [haW] at this; have := Option.some.inj this; subst this; rw [hpc] at h3; cases h3
    · exact h3
  · cases hs

/-- non-vacuity: two timed waiters and one untimed ULT; the middle one times out, a signal wakes the head,
a broadcast wakes the rest; the trace is accepted and the queue ends empty -/
example :
    ((machine (fun a => a = 3)).run (init (fun a => a = 3))
      [.begin 1, .tasL 1 false, .enq 1 true, .timeCheck 1 false, .loadState 1 false, .clearL 1,
       .begin 2, .tasL 2 false, .enq 2 true, .timeCheck 2 false, .loadState 2 false, .clearL 2,
       .begin 3, .tasL 3 false, .enq 3 false, .storeBlocked 3, .clearL 3,
       .loadState 2 false, .tasL 2 false, .timeCheck 2 true, .loadState 2 false, .rm 2, .clearL 2,
       .begin 4, .tasL 4 false, .deq 4 1, .storeReady 4 1, .clearL 4,
       .begin 4, .tasL 4 false, .deq 4 3, .storeReady 4 3, .clearL 4,
       .loadState 1 true]).map (fun s => (s.q, s.timedOut 2, s.timedOut 1, s.pc 1, s.pc 2, s.pc 3))
      = some ([], true, false, .idle, .idle, .idle) := by decide

/-! ## pointer-level wait-list (Model.WLPtr): the removal code and its stale `p_prev` links -/

/-- **G5 — the pointer-level wait-list refines a FIFO with removal.**  After EVERY sequence of enqueues (timed and
untimed), signals, broadcasts and timed-out removals starting from the empty list — the statements of
`abti_waitlist.h` executed on a heap in which untimed nodes carry garbage `p_prev` and popped predecessors leave
stale ones — the structure represents an abstract list `xs`, and every further operation whose C precondition
holds is executed by the same pointer code (`ptrStep`) and acts on `xs` as append / drop-head / clear / erase,
again yielding a represented list: removal of the head, of a middle node and of the tail, with timed and untimed
neighbours, are all covered (they are the cases of the proof of `rep_removeTimed`). -/
theorem wl_refines_fifo_with_removal (ops : List WLPtr.Op) (m : WLPtr.M)
    (h : WLPtr.machine.run WLPtr.machine.init ops = some m) :
    WLPtr.WlRep m.s m.xs ∧
    ∀ op, WLPtr.wlPre m op → ∃ m', WLPtr.step m op = some m' ∧ m'.s = WLPtr.ptrStep m.xs.length m.s op ∧
      m'.xs = WLPtr.wlAbs m.xs op ∧ WLPtr.WlRep m'.s m'.xs := by
  have hr : WLPtr.Rep m.s m.xs := WLPtr.rep_reachable m ⟨ops, h⟩
  refine ⟨(WLPtr.wlRep_iff _ _).mpr hr, ?_⟩
  intro op hp
  have hex : ∃ m', WLPtr.step m op = some m' ∧ m'.s = WLPtr.ptrStep m.xs.length m.s op ∧ m'.xs = WLPtr.wlAbs m.xs op := by
    cases op <;> simp only [WLPtr.wlPre] at hp <;> simp [WLPtr.step, WLPtr.specStep, WLPtr.wlAbs, hp]
  obtain ⟨m', hs, h1, h2⟩ := hex
  exact ⟨m', hs, h1, h2, (WLPtr.wlRep_iff _ _).mpr (WLPtr.step_rep hr hs)⟩

/-- operations whose precondition fails are not behaviours of the model (the driver rejects such a trace) -/
theorem wl_step_iff_pre (m : WLPtr.M) (op : WLPtr.Op) : (WLPtr.step m op).isSome ↔ WLPtr.wlPre m op := by
  cases op <;> simp [WLPtr.step, WLPtr.specStep, WLPtr.wlPre] <;> split <;> simp_all

/-- the broadcast loop `do { … } while (p)` reaches NULL after exactly `|xs|` iterations and has cleared the
`p_next` of the queued nodes and nothing else -/
theorem wl_broadcast_terminates (ops : List WLPtr.Op) (m : WLPtr.M)
    (h : WLPtr.machine.run WLPtr.machine.init ops = some m) (hne : m.xs ≠ []) :
    (WLPtr.clearLoop m.s.next m.s.head m.xs.length).2 = 0 ∧
    ∀ x, (WLPtr.clearLoop m.s.next m.s.head m.xs.length).1 x = if x ∈ m.xs then 0 else m.s.next x := by
  have hr : WLPtr.Rep m.s m.xs := WLPtr.rep_reachable m ⟨ops, h⟩
  exact WLPtr.clearLoop_spec hr.1 hne hr.2.2.1

/-- **a timed-out waiter does not corrupt the queue for the others, wherever it stood**: after the removal code
ran for a queued timed node `n`, the remaining waiters are exactly the old ones without `n` in their old relative
order, each of them is reached by following `p_next` from `p_head` (which ends at NULL right after the last of
them), and `p_tail` is the last of them (NULL if none is left) -/
theorem wl_remove_keeps_others (ops : List WLPtr.Op) (m : WLPtr.M)
    (h : WLPtr.machine.run WLPtr.machine.init ops = some m) (n : Nat) (hn : n ∈ m.xs) (ht : m.s.timed n = true) :
    let s' := WLPtr.removeTimed m.s n
    let ys := m.xs.filter (· != n)
    WLPtr.step m (.removeTimed n) = some { s := s', xs := ys } ∧
    ys.Sublist m.xs ∧ (∀ x ∈ m.xs, x ≠ n → x ∈ ys) ∧ n ∉ ys ∧
    walk s'.next s'.head ys.length = ys ∧ Seg s'.next s'.head ys 0 ∧ s'.tail = ys.getLast?.getD 0 ∧
    WLPtr.PrevOk s' ys := by
  have hr : WLPtr.Rep m.s m.xs := WLPtr.rep_reachable m ⟨ops, h⟩
  have he : m.xs.erase n = m.xs.filter (· != n) := List.Nodup.erase_eq_filter hr.2.2.1 n
  have hr' := WLPtr.rep_removeTimed hr hn ht
  rw [he] at hr'
  have hw := (WLPtr.wlRep_iff _ _).mpr hr'
  refine ⟨by simp [WLPtr.step, WLPtr.specStep, hn, ht, he, WLPtr.ptrStep], List.filter_sublist, ?_, by simp, seg_walk hr'.1, hw.1, hw.2.1, hw.2.2.2⟩
  intro x hx hxn
  simp [hx, hxn]

open WLPtr in
/-- non-vacuity: seven nodes, timed (2 4 5 7) and untimed (1 3 6) mixed.  Removal of a middle node between an
untimed predecessor and a timed successor (4), of the head whose `p_prev` is stale because its predecessor was
popped by a signal (2), of a middle node between two untimed nodes (5), of the tail (7), then a broadcast; after
each prefix the structure represents the expected list -/
example :
    let ops : List WLPtr.Op := [.enqUntimed 1, .enqTimed 2, .enqUntimed 3, .enqTimed 4, .enqTimed 5, .removeTimed 4, .popHead,
      .removeTimed 2, .enqUntimed 6, .removeTimed 5, .enqTimed 7, .removeTimed 7, .enqTimed 8, .broadcast]
    (List.range 15).map (fun k => (WLPtr.machine.run WLPtr.machine.init (ops.take k)).map (fun m => (m.xs, decide (Rep m.s m.xs)))) =
      [some ([], true), some ([1], true), some ([1, 2], true), some ([1, 2, 3], true), some ([1, 2, 3, 4], true),
       some ([1, 2, 3, 4, 5], true), some ([1, 2, 3, 5], true), some ([2, 3, 5], true), some ([3, 5], true),
       some ([3, 5, 6], true), some ([3, 6], true), some ([3, 6, 7], true), some ([3, 6], true), some ([3, 6, 8], true),
       some ([], true)] := by decide

open WLPtr in
/-- the stale link is really there: after `enqTimed 1, enqTimed 2, popHead` node 2 is the head and its `p_prev` still
names the popped node 1 — the code's head test `p_head == &thread` (not `p_prev == NULL`) is what makes its removal
correct -/
example :
    (WLPtr.machine.run WLPtr.machine.init [.enqTimed 1, .enqTimed 2, .popHead]).map (fun m => (m.xs, m.s.head, m.s.prev 2)) = some ([2], 2, 1) ∧
    (WLPtr.machine.run WLPtr.machine.init [.enqTimed 1, .enqTimed 2, .popHead, .removeTimed 2]).map (fun m => (m.xs, m.s.head, m.s.tail)) = some ([], 0, 0) := by
  decide

open WLPtr in
/-- **the invariant is doing work**: take the list 1,2,3 (all timed) and remove 2 *without* the statement
`thread.p_next->p_prev = thread.p_prev` (state `bad`): the list is still 1,3 with correct head, tail and links, only
`PrevOk` fails — node 3 is not the head and its `p_prev` (2) is stale.  Running the removal code for node 3 on that
state corrupts the list: `p_tail` becomes the already removed node 2, node 3 stays linked behind node 1 (following
`p_next` from the head still visits it), so the structure represents no list any more; on the state the real code
produces, the same removal yields the list [1] -/
example :
    let good := (WLPtr.machine.run WLPtr.machine.init [.enqTimed 1, .enqTimed 2, .enqTimed 3]).map (·.s) |>.getD WLPtr.init
    let bad : WLPtr.St := { removeTimed good 2 with prev := good.prev }
    (Seg bad.next bad.head [1, 3] 0 ∧ bad.tail = 3 ∧ ¬ PrevOk bad [1, 3] ∧ bad.prev 3 = 2) ∧
    (let s' := removeTimed bad 3
     s'.tail = 2 ∧ walk s'.next s'.head 2 = [1, 3] ∧ ¬ Rep s' [1] ∧ ¬ Rep s' [1, 3]) ∧
    Rep (removeTimed (removeTimed good 2) 3) [1] := by
  decide

/-! ## blocking pool pops (Model.PopWait): FIFO / RANDWS sleep-poll loops, FIFO_WAIT condition wait -/

/-- **a blocking pop never loses a unit, whatever the interleaving** (both pool kinds, any number of producers and
consumers calling push / pop / pop_wait / pop_timedwait).  In every reachable state:
(1) conservation — every unit that was linked by a push is, with multiplicity, either still queued or was unlinked by
    exactly one pop (`pushed = queued + taken` as multisets), so nothing pushed while a consumer waits, sleeps, spins
    on the lock or is about to give up can disappear;
(2) a unit is handed to a caller only by the pop that unlinked it: an actor holds a unit (`got`) only between its own
    `take` and its return, and a return delivers exactly the held unit;
(3) a `pop_wait(t)` of the polling pools that returns empty-handed has read the clock at a value exceeding its start
    time by more than `t` **and** its latest look at the pool in that same iteration saw it empty;
(4) the same for `pop_timedwait(abs)` (clock read beyond `abs`) and for every other empty-handed pop. -/
theorem popwait_no_loss (k : PopWait.Kind) (s : PopWait.St) (h : (PopWait.machine k).Reachable s) :
    (∀ u, s.pushed.count u = s.q.count u + s.taken.count u) ∧
    (∀ a u, s.got a = some u → s.pc a = .aRel ∨ s.pc a = .fnUnl ∨ s.pc a = .fwUnl ∨ s.pc a = .retp) ∧
    (∀ a t tl, k = .poll → s.cur a = .popWait t tl → s.pc a = .retp → s.got a = none →
        s.emptyAtPoll a = true ∧ ∃ s0, s.start a = some s0 ∧ s0 + t < s.lastRead a) ∧
    (∀ a abs, k = .poll → s.cur a = .popTimedwait abs → s.pc a = .retp → s.got a = none →
        s.emptyAtPoll a = true ∧ abs < s.lastRead a) ∧
    (∀ a, (∀ u, s.cur a ≠ .push u) → s.pc a = .retp → s.got a = none → s.emptyAtPoll a = true) := by
  have hi := PopWait.inv_reachable k s h
  refine ⟨hi.b, fun a u => (hi.c a).g1 u, ?_, ?_, fun a => (hi.c a).e0⟩
  · intro a t tl hk hc hp hg
    exact ⟨(hi.c a).e0 (by simp [hc]) hp hg, (hi.c a).w4 t tl hk hc hp hg⟩
  · intro a abs hk hc hp hg
    exact ⟨(hi.c a).e0 (by simp [hc]) hp hg, (hi.c a).t2 abs hk hc hp hg⟩

/-- what the ghost flags of `popwait_no_loss` record: `emptyAtPoll` becomes true only at an instant at which the queue
is empty (the `is_empty` load that returned 1, or the pop under the lock that found nothing), `lastRead` is the value of
the actor's own clock read, a unit enters `taken`/`got` only by the `take` that removes it from the queue, and a return
hands over exactly the held unit -/
theorem popwait_ghosts_sound (k : PopWait.Kind) (s s' : PopWait.St) (h : (PopWait.machine k).Reachable s) (a : PopWait.Actor) :
    (PopWait.step k s (.loadEmpty a true) = some s' → s.q = []) ∧
    (PopWait.step k s (.take a none) = some s' → s.q = [] ∧ s'.q = []) ∧
    (∀ u, PopWait.step k s (.take a (some u)) = some s' →
        s'.got a = some u ∧ s'.taken = s.taken ++ [u] ∧ s.q.count u = s'.q.count u + 1 ∧ s'.q.length + 1 = s.q.length) ∧
    (∀ v, PopWait.step k s (.clock a v) = some s' → s'.lastRead a = v ∧ s.now ≤ v ∧ s'.now = v) ∧
    (∀ r, PopWait.step k s (.ret a r) = some s' → r = s.got a ∧ s'.got a = none) := by
  have hi := PopWait.inv_reachable k s h
  refine ⟨?_, ?_, ?_, ?_, ?_⟩
  · intro hs
    simp only [PopWait.step, Option.map_eq_some_iff] at hs
    obtain ⟨s1, hs, _⟩ := hs
    simp only [PopWait.step0, PopWait.stepLoadEmpty] at hs
    split at hs
    · cases hs
    · rename_i hv; exact hi.a.flagIff.mp (by simpa using hv)
  · intro hs
    simp only [PopWait.step, Option.map_eq_some_iff] at hs
    obtain ⟨s1, hs, rfl⟩ := hs
    obtain ⟨p, _, hc⟩ := PopWait.take_cases s s1 a none hs
    rcases hc with ⟨htf, _, rfl⟩ | ⟨x, rest, _, hr, _⟩
    · have := PopWait.takeFrom_none htf
      exact ⟨this, by simpa [PopWait.bump, PopWait.actorOf, PopWait.setPc] using this⟩
    · cases hr
  · intro u hs
    simp only [PopWait.step, Option.map_eq_some_iff] at hs
    obtain ⟨s1, hs, rfl⟩ := hs
    obtain ⟨p, _, hc⟩ := PopWait.take_cases s s1 a (some u) hs
    rcases hc with ⟨_, hr, _⟩ | ⟨x, rest, htf, hr, rfl⟩
    · cases hr
    · cases hr
      have := PopWait.takeFrom_some htf
      refine ⟨by simp [PopWait.bump, PopWait.actorOf, PopWait.setPc, upd], by simp [PopWait.bump, PopWait.actorOf, PopWait.setPc], ?_, ?_⟩
      · have := this.2.2 u; simpa [PopWait.bump, PopWait.actorOf, PopWait.setPc] using this
      · simpa [PopWait.bump, PopWait.actorOf, PopWait.setPc] using this.2.1
  · intro v hs
    simp only [PopWait.step, Option.map_eq_some_iff] at hs
    obtain ⟨s1, hs, rfl⟩ := hs
    simp only [PopWait.step0, PopWait.stepClock] at hs
    split at hs
    · cases hs
    · rename_i hv
      have hv : s.now ≤ v := by omega
      (repeat' (split at hs)) <;> first
        | (cases hs; done)
        | (cases hs; simp [PopWait.bump, PopWait.actorOf, PopWait.setPc, upd, hv])
  · intro r hs
    simp only [PopWait.step, Option.map_eq_some_iff] at hs
    obtain ⟨s1, hs, rfl⟩ := hs
    simp only [PopWait.step0, PopWait.stepRet] at hs
    split at hs
    · rename_i hg; cases hs
      exact ⟨hg.2, by simp [PopWait.bump, PopWait.actorOf, PopWait.setPc, upd]⟩
    · cases hs

/-- **a polling pop_wait returns in bounded time.**  Model assumptions, exactly the statement's: a clock read never
returns less than an earlier one (`clock a v` requires `v ≥ now`) and a `nanosleep(100 ns)` that starts after a read of
`v` ends no earlier than `v + 100` (`sleepDone` requires `now ≥ wake = v + 100`).  Then, in every reachable state and
for all interleavings with other producers and consumers, a `pop_wait(t)` in progress on a FIFO / RANDWS pool
(1) has read the clock — once per loop iteration — at most `⌊t/100⌋ + 1` times while it is still looping and at most
    `⌊t/100⌋ + 2` times when it returns (`⌈t / 100 ns⌉ + 2` iterations at most);
(2) if it has never seen the pool non-empty (the pool "stays empty"), it has executed exactly three atomic steps per
    iteration (`is_empty` load, clock read, sleep): at most `3·(⌊t/100⌋ + 2)` own steps in all, no lock operation, and
    the only way out is the empty-handed return;
(3) the iteration in progress can always continue: the load of `is_empty = 1` is enabled at the loop top, any clock value
    `≥ now` is accepted at the time check, and the sleep ends as soon as time has passed `wake`. -/
theorem popwait_bounded (s : PopWait.St) (h : (PopWait.machine .poll).Reachable s) (a : PopWait.Actor) (t : Nat) (tl : Bool)
    (hc : s.cur a = .popWait t tl) :
    ((PopWait.LoopA (s.pc a) ∨ s.pc a = .wTime ∨ s.pc a = .wSleep) → s.reads a ≤ t / 100 + 1) ∧
    (s.pc a = .retp → s.reads a ≤ t / 100 + 2) ∧
    (s.sawItems a = false → s.pc a ≠ .idle →
        (s.pc a = .aTop ∨ s.pc a = .wTime ∨ s.pc a = .wSleep ∨ s.pc a = .retp) ∧ s.steps a ≤ 3 * s.reads a + 1 ∧
        s.steps a ≤ 3 * (t / 100 + 2) ∧ (s.pc a = .retp → s.got a = none)) ∧
    (s.pc a = .aTop → s.flag = true → (PopWait.step .poll s (.loadEmpty a true)).isSome) ∧
    (s.pc a = .wTime → ∀ v, s.now ≤ v → (PopWait.step .poll s (.clock a v)).isSome) ∧
    (s.pc a = .wSleep → s.wake a ≤ s.now → (PopWait.step .poll s (.sleepDone a)).isSome) ∧
    (s.pc a = .wSleep → (PopWait.step .poll s (.advance (max s.now (s.wake a)))).isSome) := by
  have hi := PopWait.inv_reachable .poll s h
  have hc' := hi.c a
  refine ⟨?_, ?_, ?_, ?_, ?_, ?_, ?_⟩
  · intro hp; have := hc'.w3 t tl rfl hc hp; omega
  · intro hp; have := hc'.w5 t tl rfl hc hp; omega
  · intro hs hp
    have h6 := hc'.w6 t tl rfl hc hs hp
    have h3 := hc'.w3 t tl rfl hc
    have h5 := hc'.w5 t tl rfl hc
    rcases h6 with ⟨e, hst⟩ | ⟨e, hst⟩ | ⟨e, hst⟩ | ⟨e, hst⟩
    · have := h3 (by simp [e, PopWait.LoopA]); refine ⟨by simp [e], by omega, by omega, by simp [e]⟩
    · have := h3 (by simp [e]); refine ⟨by simp [e], by omega, by omega, by simp [e]⟩
    · have := h3 (by simp [e]); refine ⟨by simp [e], by omega, by omega, by simp [e]⟩
    · have := h5 e
      refine ⟨by simp [e], by omega, by omega, ?_⟩
      intro _
      -- a call that never saw the pool non-empty never took a unit: it is not at a take position and holds nothing
      cases hgot : s.got a with
      | none => rfl
      | some u =>
        exfalso
        have hk := hc'.s2 u rfl hgot
        rw [hs] at hk; cases hk
  · intro hp hf
    simp [PopWait.step, PopWait.step0, PopWait.stepLoadEmpty, hp, hf, PopWait.afterEmpty, hc]
  · intro hp v hv
    have : ¬ v < s.now := by omega
    simp only [PopWait.step, PopWait.step0, PopWait.stepClock, this, if_false, hp, hc]
    cases s.start a <;> simp <;> split <;> simp
  · intro hp hw
    have : ¬ s.now < s.wake a := by omega
    simp [PopWait.step, PopWait.step0, PopWait.stepSleepDone, this, hp]
  · intro _
    have : ¬ max s.now (s.wake a) < s.now := by omega
    simp [PopWait.step, PopWait.step0, PopWait.stepAdvance, this]

/-- the same for `pop_timedwait(abs)` on a polling pool: with `base` the clock when the call began, at most
`⌊(abs − base)/100⌋ + 1` clock reads (one per iteration, each preceded by a 100 ns sleep) before the empty-handed
return, which happens at the first read beyond `abs` -/
theorem poptimedwait_bounded (s : PopWait.St) (h : (PopWait.machine .poll).Reachable s) (a : PopWait.Actor) (abs : Nat)
    (hc : s.cur a = .popTimedwait abs) :
    ((PopWait.LoopA (s.pc a) ∨ s.pc a = .tSleep ∨ s.pc a = .tTime) → s.reads a ≤ (abs - s.base a) / 100) ∧
    (s.pc a = .retp → s.reads a ≤ (abs - s.base a) / 100 + 1) ∧
    (s.pc a = .tTime → ∀ v, s.now ≤ v → (PopWait.step .poll s (.clock a v)).isSome) ∧
    (s.pc a = .tSleep → s.wake a ≤ s.now → (PopWait.step .poll s (.sleepDone a)).isSome) := by
  have hi := PopWait.inv_reachable .poll s h
  have hc' := hi.c a
  refine ⟨?_, ?_, ?_, ?_⟩
  · intro hp; have := (hc'.t1 abs rfl hc hp).1; omega
  · intro hp; have := hc'.t3 abs rfl hc hp; omega
  · intro hp v hv
    have : ¬ v < s.now := by omega
    simp only [PopWait.step, PopWait.step0, PopWait.stepClock, this, if_false, hp, hc]
    split <;> simp
  · intro hp hw
    have : ¬ s.now < s.wake a := by omega
    simp [PopWait.step, PopWait.step0, PopWait.stepSleepDone, this, hp]

/-- **FIFO_WAIT: no lost wake-up, and nobody sleeps for ever.**  In every reachable state of the mutex + condition
variable protocol (pushes signal under the mutex, `pop_wait` / `pop_timedwait` wait only after having seen the pool
empty under the mutex, spurious wake-ups allowed):
(1) while some consumer is asleep on the condition variable without having been signalled, every queued unit has a
    wake-up in flight: `|queue| ≤ #consumers signalled that have not yet looked at the queue again + (1 if the mutex
    holder is a pusher between its link and its signal)`; in particular the state "queue non-empty, a consumer asleep,
    no wake-up in flight" is unreachable — a push that happens while a consumer sleeps wakes one;
(2) the sleepers are exactly the actors at the wait position, every one of them has a finite deadline (`≤ clock it
    read + t`, resp. `≤ abs`) after which its time-out step is enabled, and every signalled consumer is on its way to
    the re-check: waiting for the mutex or popping under it (it pops whatever is there, possibly nothing);
(3) a consumer goes to sleep only while the queue is empty (it holds the mutex from the emptiness check to the wait);
(4) a blocking pop of this pool executes at most 8 atomic steps of its own. -/
theorem popwait_fifo_wait_no_lost_signal (s : PopWait.St) (h : (PopWait.machine .fwait).Reachable s) :
    (s.waiters ≠ [] → s.q.length ≤ s.woken.length + PopWait.pendSig s) ∧
    ¬ (s.q ≠ [] ∧ s.waiters ≠ [] ∧ s.woken = [] ∧ ∀ a, s.pc a ≠ .fpSig) ∧
    (∀ a, a ∈ s.waiters ↔ s.pc a = .fwSleep) ∧
    (∀ a t tl, s.cur a = .popWait t tl → s.pc a = .fwSleep → s.wake a ≤ s.lastRead a + t) ∧
    (∀ a abs, s.cur a = .popTimedwait abs → s.pc a = .fwSleep → s.wake a ≤ abs) ∧
    (∀ a, s.pc a = .fwSleep → s.wake a ≤ s.now → (PopWait.step .fwait s (.timeout a)).isSome) ∧
    (∀ a, a ∈ s.woken → s.pc a = .fwRelock ∨ s.pc a = .fwCs) ∧
    (∀ a, (s.pc a = .fwClock ∨ s.pc a = .fwWait) → s.q = [] ∧ s.owner = some a) ∧
    (∀ a n, (∀ u, s.cur a ≠ .push u) → (∀ tl, s.cur a ≠ .pop tl) → PopWait.fwIdx (s.pc a) = some n → s.steps a ≤ n ∧ n ≤ 8) := by
  have hi := PopWait.inv_reachable .fwait s h
  refine ⟨hi.f, ?_, hi.a.waitIff, fun a t tl hc hp => (hi.c a).f2 t tl hc hp, fun a abs hc hp => (hi.c a).f3 abs hc (Or.inr hp),
    ?_, hi.a.wokenPc, ?_, ?_⟩
  · rintro ⟨hq, hw, hk, hp⟩
    have h1 := hi.f hw
    have h0 : PopWait.pendSig s = 0 := by
      have := PopWait.pendSig_le s
      have hne : ¬ PopWait.pendSig s = 1 := fun e => by
        obtain ⟨a, ha⟩ := (PopWait.pendSig_iff hi.a).mp e
        exact hp a ha
      omega
    rw [hk, h0] at h1
    have : s.q.length ≠ 0 := by simpa using hq
    simp at h1; exact hq h1
  · intro a hp hw
    simp [PopWait.step, PopWait.step0, PopWait.stepTimeout, hp, hw]
  · intro a hp
    refine ⟨hi.a.sawEmpty a hp, (hi.a.ownerIff a).mpr ?_⟩
    rcases hp with e | e <;> simp [e, PopWait.HasLock]
  · intro a n h1 h2 hn
    refine ⟨(hi.c a).f4 rfl h1 h2 n hn, ?_⟩
    cases hp : s.pc a <;> simp [hp, PopWait.fwIdx] at hn <;> omega

/-- non-vacuity, polling pool: a `pop_wait(250 ns)` on a pool that stays empty reads the clock at 1000, 1100, 1200 and
returns NULL at the read of 1300 — four iterations = ⌊250/100⌋ + 2, the bound of `popwait_bounded` is attained — after
11 = 3·4 − 1 own steps -/
example :
    ((PopWait.machine .poll).run PopWait.init
      [.call 3 (.popWait 250 false), .loadEmpty 3 true, .clock 3 1000, .advance 1100, .sleepDone 3,
       .loadEmpty 3 true, .clock 3 1100, .advance 1200, .sleepDone 3,
       .loadEmpty 3 true, .clock 3 1200, .advance 1300, .sleepDone 3,
       .loadEmpty 3 true, .clock 3 1300]).map
      (fun s => decide (s.pc 3 = .retp ∧ s.got 3 = none ∧ s.reads 3 = 4 ∧ s.steps 3 = 11 ∧ s.start 3 = some 1000 ∧
        s.lastRead 3 = 1300 ∧ s.emptyAtPoll 3 = true)) = some true := by decide

/-- non-vacuity, polling pool: a unit pushed while the consumer sleeps in its poll loop is found at the next poll
(fast-path load of `is_empty = 0`, try-lock, pop, release) and returned; a second consumer that raced for it spins on
the lock, then sees `is_empty = 1` again and goes to its time check -/
example :
    ((PopWait.machine .poll).run PopWait.init
      [.call 2 (.popWait 1000 false), .loadEmpty 2 true, .clock 2 500, .call 4 (.popWait 50 false),
       .call 1 (.push 7), .tas 1 false, .link 1, .clear 1, .ret 1 none,
       .advance 600, .sleepDone 2, .loadEmpty 2 false, .loadEmpty 4 false, .tas 2 false, .tas 4 true,
       .take 2 (some 7), .loadEmpty 4 true, .clear 2, .ret 2 (some 7)]).map
      (fun s => decide (s.pc 2 = .idle ∧ s.pc 4 = .wTime ∧ s.q = [] ∧ s.flag = true ∧ s.pushed = [7] ∧ s.taken = [7] ∧
        s.lock = false ∧ s.sawItems 4 = true)) = some true := by decide

/-- non-vacuity, FIFO_WAIT: consumer 2 sleeps on the condition variable with deadline 1500, a push signals it, it
re-locks and pops the unit; consumer 3 (pop_timedwait, deadline 2000) is not signalled, times out at 2000, re-checks
under the mutex and returns empty-handed -/
example :
    ((PopWait.machine .fwait).run PopWait.init
      [.call 2 (.popWait 1000 false), .mlock 2, .loadEmpty 2 true, .clock 2 500, .condWait 2 1500,
       .call 3 (.popTimedwait 2000), .mlock 3, .loadEmpty 3 true, .condWait 3 2000,
       .call 1 (.push 9), .mlock 1, .link 1, .signal 1 (some 2), .munlock 1, .ret 1 none,
       .mlock 2, .take 2 (some 9), .munlock 2, .ret 2 (some 9),
       .advance 2000, .timeout 3, .mlock 3, .take 3 none, .munlock 3, .ret 3 none]).map
      (fun s => decide (s.pc 2 = .idle ∧ s.pc 3 = .idle ∧ s.q = [] ∧ s.waiters = [] ∧ s.woken = [] ∧ s.pushed = [9] ∧
        s.taken = [9] ∧ s.steps 3 = 7)) = some true := by decide

/-- the model rejects what the code cannot do: a pusher that skips its signal (unlock right after the link), a sleeper
that times out before its deadline, an empty-handed return of pop_wait before the budget is exceeded -/
example :
    ((PopWait.machine .fwait).run PopWait.init [.call 1 (.push 9), .mlock 1, .link 1, .munlock 1]).isNone ∧
    ((PopWait.machine .fwait).run PopWait.init [.call 2 (.popWait 1000 false), .mlock 2, .loadEmpty 2 true, .clock 2 500, .condWait 2 1500,
       .advance 1499, .timeout 2]).isNone ∧
    ((PopWait.machine .poll).run PopWait.init [.call 3 (.popWait 250 false), .loadEmpty 3 true, .clock 3 1000, .advance 1100, .sleepDone 3,
       .loadEmpty 3 true, .clock 3 1250, .ret 3 none]).isNone := by decide

end ArgoVerif.Props.C19
