import ArgoVerif.Proofs.WaitListAll
import ArgoVerif.Proofs.WLPtr
/-
Props.C19 — timed waits respect their deadline and never damage the waiter queue
(wait-list protocol; the pointer-level list with stale `p_prev` links: section "pointer-level wait-list" below).

Every theorem is about all traces of Model.WaitList: any number of ULT / non-ULT, timed / untimed
waiters and wakers, every interleaving of their atomic steps, every outcome of each `now >= deadline`
comparison.  The same theorems serve C05 (cond), C08, C09 through the shared wait-list code.
-/
namespace ArgoVerif.Props.C19
open ArgoVerif ArgoVerif.Model.WaitList
open ArgoVerif.Heap ArgoVerif.Model

/-- the spinlock is exclusive: wait-list operations of different actors never overlap -/
theorem wl_lock_excl (u : Actor → Bool) (s : St) (h : (machine u).Reachable s) (a b : Actor)
    (ha : HasL (s.pc a)) (hb : HasL (s.pc b)) : a = b := by
  have hi := inv_reachable u s h
  have h1 := (hi.lIff a).mpr ha
  have h2 := (hi.lIff b).mpr hb
  rw [h1] at h2; exact Option.some.inj h2

/-- enqueue, dequeue and removal happen only while the acting actor holds the lock -/
theorem wl_ops_under_lock (u : Actor → Bool) (s s' : St) (h : (machine u).Reachable s) (e : Ev)
    (hs : step s e = some s') :
    match e with
    | .enq a _ | .deq a _ | .rm a | .storeReady a _ => s.lOwner = some a
    | _ => True := by
  have hi := inv_reachable u s h
  have hl := hi.lIff
  cases e <;> simp only [step, stepEnq, stepDeq, stepRm, stepStoreReady] at hs ⊢ <;> (try trivial) <;>
    (repeat' (split at hs)) <;> (first | (cases hs; done) | grind [HasL])

/-- **a timed-out waiter consumes no signal**: when a waiter unlinks its own node (timeout path) it has
not been made READY, and READY is only ever stored into a node that a waker dequeued — so the removed
node is never made READY later, and every READY store corresponds to exactly one dequeue -/
theorem timed_out_consumes_no_signal (u : Actor → Bool) (s s' : St) (h : (machine u).Reachable s) (a : Actor)
    (hs : step s (.rm a) = some s') : s.ready a = false ∧ a ∈ s.q ∧ a ∉ s'.q ∧ s'.ready a = false ∧ s'.timedOut a = true := by
  have hi := inv_reachable u s h
  simp only [step, stepRm] at hs
  split at hs
  · rename_i hp
    cases hs
    have hr := hi.tmoRmInv a hp
    have hpend : s.pending ≠ some a := by
      intro hpd
      have hw : s.lOwner = some a := (hi.lIff a).mpr (by rw [hp]; trivial)
      have := (hi.pendIff a).mpr ⟨hw, by rw [hpd]; simp⟩
      rw [hp] at this; cases this
    have hq := hi.timedInQ a (by rw [hp]; trivial) hr hpend
    refine ⟨hr, hq, ?_, hr, by simp [setPc, upd]⟩
    simp only [setPc]
    exact fun hm => (List.Nodup.mem_erase_iff hi.nodup).mp hm |>.1 rfl
  · cases hs

/-- READY is stored only into the node the same waker dequeued in the same critical section, and that
node was still waiting and not READY -/
theorem ready_only_dequeued (u : Actor → Bool) (s s' : St) (h : (machine u).Reachable s) (a n : Actor)
    (hs : step s (.storeReady a n) = some s') : s.pending = some n ∧ Waiting (s.pc n) ∧ s.ready n = false ∧ n ∉ s.q := by
  have hi := inv_reachable u s h
  simp only [step, stepStoreReady] at hs
  split at hs
  · rename_i hp
    exact ⟨hp.2, (hi.pendWait n hp.2).1, (hi.pendWait n hp.2).2.2, (hi.pendWait n hp.2).2.1⟩
  · cases hs

/-- **timeout result**: the timeout path reports "timed out" iff, under the lock, the node was still not READY;
if a signal came first (`READY` already stored) the wait reports success -/
theorem timed_success_if_signalled_first (u : Actor → Bool) (s s' : St) (a : Actor) (r : Bool)
    (hp : s.pc a = .tmo) (hs : step s (.loadState a r) = some s') :
    r = s.ready a ∧ (r = true → s'.pc a = .tmoRel ∧ s'.timedOut a = false) ∧ (r = false → s'.pc a = .tmoRm) := by
  simp only [step, stepLoadState] at hs
  split at hs
  · cases hs
  · rename_i hr
    rw [hp] at hs
    refine ⟨by simpa using hr, ?_, ?_⟩ <;> intro hrv <;> subst hrv <;> simp at hs <;> subst hs <;> simp [setPc, upd]

/-- **timeout only after the deadline**: the timeout path is entered only by a `now >= deadline` comparison that
came out true -/
theorem timed_timeout_only_after_deadline (s s' : St) (e : Ev) (a : Actor) (hs : step s e = some s')
    (hbefore : s.pc a ≠ .tmo ∧ s.pc a ≠ .tuAcq) (hafter : s'.pc a = .tmo ∨ s'.pc a = .tuAcq) :
    e = .timeCheck a true := by
  have hf := pc_frame s s' e hs a
  cases e <;> simp only [step, stepBegin, stepTasL, stepClearL, stepEnq, stepStoreBlocked, stepLoadState,
    stepDeq, stepStoreReady, stepTimeCheck, stepRm] at hs <;>
    (repeat' (split at hs)) <;> (try cases hs) <;>
    simp_all [setPc, takeL, dropL, upd] <;> grind

/-- **queue intact**: the wait-list never holds a node twice, holds only nodes of actors that are inside a wait and
not READY, and a waiter that is neither READY nor being woken is still queued (so later signals reach it) -/
theorem timed_queue_intact (u : Actor → Bool) (s : St) (h : (machine u).Reachable s) :
    s.q.Nodup ∧ (∀ a ∈ s.q, Waiting (s.pc a) ∧ s.ready a = false) ∧
    (∀ a, TimedWaiting (s.pc a) → s.ready a = false → s.pending ≠ some a → a ∈ s.q) ∧
    (∀ a, s.pc a = .uWait → a ∈ s.q ∨ s.pending = some a) := by
  have hi := inv_reachable u s h
  exact ⟨hi.nodup, hi.inQ, hi.timedInQ, hi.ultWait⟩

/-- a ULT is dequeued only when fully suspended (BLOCKED stored, lock released by its scheduler context) -/
theorem wl_wake_only_suspended (u : Actor → Bool) (s s' : St) (h : (machine u).Reachable s) (a n : Actor)
    (hs : step s (.deq a n) = some s') (hu : s.pc n = .uSusp ∨ s.pc n = .uRelL ∨ s.pc n = .uWait) : s.pc n = .uWait := by
  have hi := inv_reachable u s h
  simp only [step, stepDeq] at hs
  split at hs
  · rename_i hd tl hpc hq
    have haW : s.lOwner = some a := (hi.lIff a).mpr (by rw [hpc]; trivial)
    rcases hu with h3 | h3 | h3
    · have : s.lOwner = some n := (hi.lIff n).mpr (by rw [h3]; trivial)
      rw [haW] at this; have := Option.some.inj this; subst this; rw [hpc] at h3; cases h3
    · have : s.lOwner = some n := (hi.lIff n).mpr (by rw [h3]; trivial)
      rw [haW] at this; have := Option.some.inj this; subst this; rw [hpc] at h3; cases h3
    · exact h3
  · cases hs

/-- non-vacuity: two timed waiters and one untimed ULT; the middle one times out, a signal wakes the head,
a broadcast wakes the rest; the trace is accepted and the queue ends empty -/
example :
    ((machine (fun a => a = 3)).run (init (fun a => a = 3))
      [.begin 1, .tasL 1 false, .enq 1 true, .timeCheck 1 false, .loadState 1 false, .clearL 1,
       .begin 2, .tasL 2 false, .enq 2 true, .timeCheck 2 false, .loadState 2 false, .clearL 2,
       .begin 3, .tasL 3 false, .enq 3 false, .storeBlocked 3, .clearL 3,
       .loadState 2 false, .tasL 2 false, .timeCheck 2 true, .loadState 2 false, .rm 2, .clearL 2,
       .begin 4, .tasL 4 false, .deq 4 1, .storeReady 4 1, .clearL 4,
       .begin 4, .tasL 4 false, .deq 4 3, .storeReady 4 3, .clearL 4,
       .loadState 1 true]).map (fun s => (s.q, s.timedOut 2, s.timedOut 1, s.pc 1, s.pc 2, s.pc 3))
      = some ([], true, false, .idle, .idle, .idle) := by decide

/-! ## pointer-level wait-list (Model.WLPtr): the removal code and its stale `p_prev` links -/

/-- **G5 — the pointer-level wait-list refines a FIFO with removal.**  After EVERY sequence of enqueues (timed and
untimed), signals, broadcasts and timed-out removals starting from the empty list — the statements of
`abti_waitlist.h` executed on a heap in which untimed nodes carry garbage `p_prev` and popped predecessors leave
stale ones — the structure represents an abstract list `xs`, and every further operation whose C precondition
holds is executed by the same pointer code (`ptrStep`) and acts on `xs` as append / drop-head / clear / erase,
again yielding a represented list: removal of the head, of a middle node and of the tail, with timed and untimed
neighbours, are all covered (they are the cases of the proof of `rep_removeTimed`). -/
theorem wl_refines_fifo_with_removal (ops : List WLPtr.Op) (m : WLPtr.M)
    (h : WLPtr.machine.run WLPtr.machine.init ops = some m) :
    WLPtr.WlRep m.s m.xs ∧
    ∀ op, WLPtr.wlPre m op → ∃ m', WLPtr.step m op = some m' ∧ m'.s = WLPtr.ptrStep m.xs.length m.s op ∧
      m'.xs = WLPtr.wlAbs m.xs op ∧ WLPtr.WlRep m'.s m'.xs := by
  have hr : WLPtr.Rep m.s m.xs := WLPtr.rep_reachable m ⟨ops, h⟩
  refine ⟨(WLPtr.wlRep_iff _ _).mpr hr, ?_⟩
  intro op hp
  have hex : ∃ m', WLPtr.step m op = some m' ∧ m'.s = WLPtr.ptrStep m.xs.length m.s op ∧ m'.xs = WLPtr.wlAbs m.xs op := by
    cases op <;> simp only [WLPtr.wlPre] at hp <;> simp [WLPtr.step, WLPtr.specStep, WLPtr.wlAbs, hp]
  obtain ⟨m', hs, h1, h2⟩ := hex
  exact ⟨m', hs, h1, h2, (WLPtr.wlRep_iff _ _).mpr (WLPtr.step_rep hr hs)⟩

/-- operations whose precondition fails are not behaviours of the model (the driver rejects such a trace) -/
theorem wl_step_iff_pre (m : WLPtr.M) (op : WLPtr.Op) : (WLPtr.step m op).isSome ↔ WLPtr.wlPre m op := by
  cases op <;> simp [WLPtr.step, WLPtr.specStep, WLPtr.wlPre] <;> split <;> simp_all

/-- the broadcast loop `do { … } while (p)` reaches NULL after exactly `|xs|` iterations and has cleared the
`p_next` of the queued nodes and nothing else -/
theorem wl_broadcast_terminates (ops : List WLPtr.Op) (m : WLPtr.M)
    (h : WLPtr.machine.run WLPtr.machine.init ops = some m) (hne : m.xs ≠ []) :
    (WLPtr.clearLoop m.s.next m.s.head m.xs.length).2 = 0 ∧
    ∀ x, (WLPtr.clearLoop m.s.next m.s.head m.xs.length).1 x = if x ∈ m.xs then 0 else m.s.next x := by
  have hr : WLPtr.Rep m.s m.xs := WLPtr.rep_reachable m ⟨ops, h⟩
  exact WLPtr.clearLoop_spec hr.1 hne hr.2.2.1

/-- **a timed-out waiter does not corrupt the queue for the others, wherever it stood**: after the removal code
ran for a queued timed node `n`, the remaining waiters are exactly the old ones without `n` in their old relative
order, each of them is reached by following `p_next` from `p_head` (which ends at NULL right after the last of
them), and `p_tail` is the last of them (NULL if none is left) -/
theorem wl_remove_keeps_others (ops : List WLPtr.Op) (m : WLPtr.M)
    (h : WLPtr.machine.run WLPtr.machine.init ops = some m) (n : Nat) (hn : n ∈ m.xs) (ht : m.s.timed n = true) :
    let s' := WLPtr.removeTimed m.s n
    let ys := m.xs.filter (· != n)
    WLPtr.step m (.removeTimed n) = some { s := s', xs := ys } ∧
    ys.Sublist m.xs ∧ (∀ x ∈ m.xs, x ≠ n → x ∈ ys) ∧ n ∉ ys ∧
    walk s'.next s'.head ys.length = ys ∧ Seg s'.next s'.head ys 0 ∧ s'.tail = ys.getLast?.getD 0 ∧
    WLPtr.PrevOk s' ys := by
  have hr : WLPtr.Rep m.s m.xs := WLPtr.rep_reachable m ⟨ops, h⟩
  have he : m.xs.erase n = m.xs.filter (· != n) := List.Nodup.erase_eq_filter hr.2.2.1 n
  have hr' := WLPtr.rep_removeTimed hr hn ht
  rw [he] at hr'
  have hw := (WLPtr.wlRep_iff _ _).mpr hr'
  refine ⟨by simp [WLPtr.step, WLPtr.specStep, hn, ht, he, WLPtr.ptrStep], List.filter_sublist, ?_, by simp, seg_walk hr'.1, hw.1, hw.2.1, hw.2.2.2⟩
  intro x hx hxn
  simp [hx, hxn]

open WLPtr in
/-- non-vacuity: seven nodes, timed (2 4 5 7) and untimed (1 3 6) mixed.  Removal of a middle node between an
untimed predecessor and a timed successor (4), of the head whose `p_prev` is stale because its predecessor was
popped by a signal (2), of a middle node between two untimed nodes (5), of the tail (7), then a broadcast; after
each prefix the structure represents the expected list -/
example :
    let ops : List WLPtr.Op := [.enqUntimed 1, .enqTimed 2, .enqUntimed 3, .enqTimed 4, .enqTimed 5, .removeTimed 4, .popHead,
      .removeTimed 2, .enqUntimed 6, .removeTimed 5, .enqTimed 7, .removeTimed 7, .enqTimed 8, .broadcast]
    (List.range 15).map (fun k => (WLPtr.machine.run WLPtr.machine.init (ops.take k)).map (fun m => (m.xs, decide (Rep m.s m.xs)))) =
      [some ([], true), some ([1], true), some ([1, 2], true), some ([1, 2, 3], true), some ([1, 2, 3, 4], true),
       some ([1, 2, 3, 4, 5], true), some ([1, 2, 3, 5], true), some ([2, 3, 5], true), some ([3, 5], true),
       some ([3, 5, 6], true), some ([3, 6], true), some ([3, 6, 7], true), some ([3, 6], true), some ([3, 6, 8], true),
       some ([], true)] := by decide

open WLPtr in
/-- the stale link is really there: after `enqTimed 1, enqTimed 2, popHead` node 2 is the head and its `p_prev` still
names the popped node 1 — the code's head test `p_head == &thread` (not `p_prev == NULL`) is what makes its removal
correct -/
example :
    (WLPtr.machine.run WLPtr.machine.init [.enqTimed 1, .enqTimed 2, .popHead]).map (fun m => (m.xs, m.s.head, m.s.prev 2)) = some ([2], 2, 1) ∧
    (WLPtr.machine.run WLPtr.machine.init [.enqTimed 1, .enqTimed 2, .popHead, .removeTimed 2]).map (fun m => (m.xs, m.s.head, m.s.tail)) = some ([], 0, 0) := by
  decide

open WLPtr in
/-- **the invariant is doing work**: take the list 1,2,3 (all timed) and remove 2 *without* the statement
`thread.p_next->p_prev = thread.p_prev` (state `bad`): the list is still 1,3 with correct head, tail and links, only
`PrevOk` fails — node 3 is not the head and its `p_prev` (2) is stale.  Running the removal code for node 3 on that
state corrupts the list: `p_tail` becomes the already removed node 2, node 3 stays linked behind node 1 (following
`p_next` from the head still visits it), so the structure represents no list any more; on the state the real code
produces, the same removal yields the list [1] -/
example :
    let good := (WLPtr.machine.run WLPtr.machine.init [.enqTimed 1, .enqTimed 2, .enqTimed 3]).map (·.s) |>.getD WLPtr.init
    let bad : WLPtr.St := { removeTimed good 2 with prev := good.prev }
    (Seg bad.next bad.head [1, 3] 0 ∧ bad.tail = 3 ∧ ¬ PrevOk bad [1, 3] ∧ bad.prev 3 = 2) ∧
    (let s' := removeTimed bad 3
     s'.tail = 2 ∧ walk s'.next s'.head 2 = [1, 3] ∧ ¬ Rep s' [1] ∧ ¬ Rep s' [1, 3]) ∧
    Rep (removeTimed (removeTimed good 2) 3) [1] := by
  decide

end ArgoVerif.Props.C19
