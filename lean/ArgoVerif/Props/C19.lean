import ArgoVerif.Proofs.WaitListAll
/-
Props.C19 — timed waits respect their deadline and never damage the waiter queue
(wait-list protocol part; the pointer-level list with stale `p_prev` links is in Props.C19Ptr).

Every theorem is about all traces of Model.WaitList: any number of ULT / non-ULT, timed / untimed
waiters and wakers, every interleaving of their atomic steps, every outcome of each `now >= deadline`
comparison.  The same theorems serve C05 (cond), C08, C09 through the shared wait-list code.
-/
namespace ArgoVerif.Props.C19
open ArgoVerif ArgoVerif.Model.WaitList

/-- the spinlock is exclusive: wait-list operations of different actors never overlap -/
theorem wl_lock_excl (u : Actor → Bool) (s : St) (h : (machine u).Reachable s) (a b : Actor)
    (ha : HasL (s.pc a)) (hb : HasL (s.pc b)) : a = b := by
  have hi := inv_reachable u s h
  have h1 := (hi.lIff a).mpr ha
  have h2 := (hi.lIff b).mpr hb
  rw [h1] at h2; exact Option.some.inj h2

/-- enqueue, dequeue and removal happen only while the acting actor holds the lock -/
theorem wl_ops_under_lock (u : Actor → Bool) (s s' : St) (h : (machine u).Reachable s) (e : Ev)
    (hs : step s e = some s') :
    match e with
    | .enq a _ | .deq a _ | .rm a | .storeReady a _ => s.lOwner = some a
    | _ => True := by
  have hi := inv_reachable u s h
  have hl := hi.lIff
  cases e <;> simp only [step, stepEnq, stepDeq, stepRm, stepStoreReady] at hs ⊢ <;> (try trivial) <;>
    (repeat' (split at hs)) <;> (first | (cases hs; done) | grind [HasL])

/-- **a timed-out waiter consumes no signal**: when a waiter unlinks its own node (timeout path) it has
not been made READY, and READY is only ever stored into a node that a waker dequeued — so the removed
node is never made READY later, and every READY store corresponds to exactly one dequeue -/
theorem timed_out_consumes_no_signal (u : Actor → Bool) (s s' : St) (h : (machine u).Reachable s) (a : Actor)
    (hs : step s (.rm a) = some s') : s.ready a = false ∧ a ∈ s.q ∧ a ∉ s'.q ∧ s'.ready a = false ∧ s'.timedOut a = true := by
  have hi := inv_reachable u s h
  simp only [step, stepRm] at hs
  split at hs
  · rename_i hp
    cases hs
    have hr := hi.tmoRmInv a hp
    have hpend : s.pending ≠ some a := by
      intro hpd
      have hw : s.lOwner = some a := (hi.lIff a).mpr (by rw [hp]; trivial)
      have := (hi.pendIff a).mpr ⟨hw, by rw [hpd]; simp⟩
      rw [hp] at this; cases this
    have hq := hi.timedInQ a (by rw [hp]; trivial) hr hpend
    refine ⟨hr, hq, ?_, hr, by simp [setPc, upd]⟩
    simp only [setPc]
    exact fun hm => (List.Nodup.mem_erase_iff hi.nodup).mp hm |>.1 rfl
  · cases hs

/-- READY is stored only into the node the same waker dequeued in the same critical section, and that
node was still waiting and not READY -/
theorem ready_only_dequeued (u : Actor → Bool) (s s' : St) (h : (machine u).Reachable s) (a n : Actor)
    (hs : step s (.storeReady a n) = some s') : s.pending = some n ∧ Waiting (s.pc n) ∧ s.ready n = false ∧ n ∉ s.q := by
  have hi := inv_reachable u s h
  simp only [step, stepStoreReady] at hs
  split at hs
  · rename_i hp
    exact ⟨hp.2, (hi.pendWait n hp.2).1, (hi.pendWait n hp.2).2.2, (hi.pendWait n hp.2).2.1⟩
  · cases hs

/-- **timeout result**: the timeout path reports "timed out" iff, under the lock, the node was still not READY;
if a signal came first (`READY` already stored) the wait reports success -/
theorem timed_success_if_signalled_first (u : Actor → Bool) (s s' : St) (a : Actor) (r : Bool)
    (hp : s.pc a = .tmo) (hs : step s (.loadState a r) = some s') :
    r = s.ready a ∧ (r = true → s'.pc a = .tmoRel ∧ s'.timedOut a = false) ∧ (r = false → s'.pc a = .tmoRm) := by
  simp only [step, stepLoadState] at hs
  split at hs
  · cases hs
  · rename_i hr
    rw [hp] at hs
    refine ⟨by simpa using hr, ?_, ?_⟩ <;> intro hrv <;> subst hrv <;> simp at hs <;> subst hs <;> simp [setPc, upd]

/-- **timeout only after the deadline**: the timeout path is entered only by a `now >= deadline` comparison that
came out true -/
theorem timed_timeout_only_after_deadline (s s' : St) (e : Ev) (a : Actor) (hs : step s e = some s')
    (hbefore : s.pc a ≠ .tmo ∧ s.pc a ≠ .tuAcq) (hafter : s'.pc a = .tmo ∨ s'.pc a = .tuAcq) :
    e = .timeCheck a true := by
  have hf := pc_frame s s' e hs a
  cases e <;> simp only [step, stepBegin, stepTasL, stepClearL, stepEnq, stepStoreBlocked, stepLoadState,
    stepDeq, stepStoreReady, stepTimeCheck, stepRm] at hs <;>
    (repeat' (split at hs)) <;> (try cases hs) <;>
    simp_all [setPc, takeL, dropL, upd] <;> grind

/-- **queue intact**: the wait-list never holds a node twice, holds only nodes of actors that are inside a wait and
not READY, and a waiter that is neither READY nor being woken is still queued (so later signals reach it) -/
theorem timed_queue_intact (u : Actor → Bool) (s : St) (h : (machine u).Reachable s) :
    s.q.Nodup ∧ (∀ a ∈ s.q, Waiting (s.pc a) ∧ s.ready a = false) ∧
    (∀ a, TimedWaiting (s.pc a) → s.ready a = false → s.pending ≠ some a → a ∈ s.q) ∧
    (∀ a, s.pc a = .uWait → a ∈ s.q ∨ s.pending = some a) := by
  have hi := inv_reachable u s h
  exact ⟨hi.nodup, hi.inQ, hi.timedInQ, hi.ultWait⟩

/-- a ULT is dequeued only when fully suspended (BLOCKED stored, lock released by its scheduler context) -/
theorem wl_wake_only_suspended (u : Actor → Bool) (s s' : St) (h : (machine u).Reachable s) (a n : Actor)
    (hs : step s (.deq a n) = some s') (hu : s.pc n = .uSusp ∨ s.pc n = .uRelL ∨ s.pc n = .uWait) : s.pc n = .uWait := by
  have hi := inv_reachable u s h
  simp only [step, stepDeq] at hs
  split at hs
  · rename_i hd tl hpc hq
    have haW : s.lOwner = some a := (hi.lIff a).mpr (by rw [hpc]; trivial)
    rcases hu with h3 | h3 | h3
    · have : s.lOwner = some n := (hi.lIff n).mpr (by rw [h3]; trivial)
      rw [haW] at this; have := Option.some.inj this; subst this; rw [hpc] at h3; cases h3
    · have : s.lOwner = some n := (hi.lIff n).mpr (by rw [h3]; trivial)
      rw [haW] at this; have := Option.some.inj this; subst this; rw [hpc] at h3; cases h3
    · exact h3
  · cases hs

/-- non-vacuity: two timed waiters and one untimed ULT; the middle one times out, a signal wakes the head,
a broadcast wakes the rest; the trace is accepted and the queue ends empty -/
example :
    ((machine (fun a => a = 3)).run (init (fun a => a = 3))
      [.begin 1, .tasL 1 false, .enq 1 true, .timeCheck 1 false, .loadState 1 false, .clearL 1,
       .begin 2, .tasL 2 false, .enq 2 true, .timeCheck 2 false, .loadState 2 false, .clearL 2,
       .begin 3, .tasL 3 false, .enq 3 false, .storeBlocked 3, .clearL 3,
       .loadState 2 false, .tasL 2 false, .timeCheck 2 true, .loadState 2 false, .rm 2, .clearL 2,
       .begin 4, .tasL 4 false, .deq 4 1, .storeReady 4 1, .clearL 4,
       .begin 4, .tasL 4 false, .deq 4 3, .storeReady 4 3, .clearL 4,
       .loadState 1 true]).map (fun s => (s.q, s.timedOut 2, s.timedOut 1, s.pc 1, s.pc 2, s.pc 3))
      = some ([], true, false, .idle, .idle, .idle) := by decide

end ArgoVerif.Props.C19
