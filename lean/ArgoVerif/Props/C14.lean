import ArgoVerif.Proofs.UnitMap
import ArgoVerif.Proofs.UnitMapConc3
import ArgoVerif.Proofs.Assoc
import ArgoVerif.Model.UnitMapLock
/-
Props.C14 — user-defined pools: unit ↔ work-unit mapping.
Property theorems only; lemmas live in Proofs/UnitMap.lean (sequential table),
Proofs/UnitMapConc*.lean (lock-free get), Proofs/Assoc.lean (create/free balance).

Not covered by a theorem here: the last sentence of the property ("work units execute
exactly once whatever order a user pool or scheduler hands them out in") concerns the
scheduler loop; this component checks it dynamically only (completion counters of
harness/api_userpool.c under a PRNG pop policy).
-/
namespace ArgoVerif.Props.C14
open ArgoVerif ArgoVerif.Model

/-! ### the unit → work-unit table, one caller at a time -/
section table
open ArgoVerif.Model.UnitMap

abbrev Spec := UInt64 → Option Nat

/-- client contract of `unit.c`: units are non-NULL; a unit is mapped at most once at a time
(live units of user pools are distinct handles); unmap / get only for mapped units -/
def legal (z : UInt64) (m : Spec) : Op → Prop
  | .map u _ _ => u ≠ z ∧ m u = none
  | .unmap u => u ≠ z ∧ m u ≠ none
  | .get u => u ≠ z ∧ m u ≠ none

def specStep (m : Spec) : Op → Out → Spec
  | .map u th _, .mapR true => fun x => if x = u then some th else m x
  | .unmap u, .unmapR => fun x => if x = u then none else m x
  | _, _ => m

/-- a map fails only if its `malloc` fails; unmap and get never abort; get returns the mapped
work unit -/
def specOut (m : Spec) : Op → Out → Prop
  | .map _ _ mem, .mapR ok => (mem = true → ok = true)
  | .unmap _, .unmapR => True
  | .get u, .getR th => m u = some th
  | _, _ => False

/-- as long as the caller keeps the contract, every result is what the finite map says -/
def specRun (z : UInt64) (m : Spec) : List Op → List Out → Prop
  | [], [] => True
  | op :: ops, o :: os => legal z m op → specOut m op o ∧ specRun z (specStep m op o) ops os
  | _, _ => False

theorem unitmap_step_refines (m : UM) (op : Op) (hw : WF m) (hl : legal m.nul (absMap m) op) :
    WF (step m op).1 ∧ (step m op).1.nul = m.nul ∧ specOut (absMap m) op (step m op).2 ∧
    ∀ x, absMap (step m op).1 x = specStep (absMap m) op (step m op).2 x := by
  cases op with
  | map u th mem =>
    have hs := map_spec m u th mem hw hl.1 hl.2
    simp only [step]
    cases hm : mapThread m u th mem with
    | none =>
      refine ⟨hw, rfl, ?_, fun _ => rfl⟩
      intro hmem; have := hs.1 hmem; rw [hm] at this; cases this
    | some m' =>
      obtain ⟨h1, h2, h3, _⟩ := hs.2 m' hm
      exact ⟨h1, h2.2, fun _ => rfl, h3⟩
  | unmap u =>
    obtain ⟨m', hm, h1, h2, h3, _⟩ := unmap_spec m u hw hl.1 hl.2
    simp only [step, hm]
    exact ⟨h1, h2.2, trivial, h3⟩
  | get u =>
    simp only [step]
    cases hg : getThread m u with
    | none =>
      have : absMap m u = none := by simp [absMap, hl.1, hg]
      exact absurd this hl.2
    | some th =>
      refine ⟨hw, rfl, ?_, fun _ => rfl⟩
      simp [specOut, absMap, hl.1, hg]

/-- **C14 (table is a finite map)**.  From any well-formed table (in particular the empty one
made by `ABTI_unit_init_hash_table`), for *every* sequence of `unit_map_thread` /
`unit_unmap_thread` / `unit_get_thread_from_user_defined_unit` on `uintptr_t` handles —
colliding in a bucket or not, with the real hash function, tombstones reused — that keeps
the client contract, no assertion fires, a map fails only for lack of memory, and every get
returns the work unit last mapped to that unit. -/
theorem unitmap_refines_map (ops : List Op) (m : UM) (hw : WF m) :
    specRun m.nul (absMap m) ops (runOps m ops).2 := by
  induction ops generalizing m with
  | nil => simp [runOps, specRun]
  | cons op ops ih =>
    simp only [runOps, specRun]
    intro hl
    have hs := unitmap_step_refines m op hw hl
    have ih' := ih (step m op).1 hs.1
    have heq : absMap (step m op).1 = specStep (absMap m) op (step m op).2 := funext hs.2.2.2
    rw [heq, hs.2.1] at ih'
    exact ⟨hs.2.2.1, ih'⟩

theorem unitmap_init_empty (exp : Nat) (z : UInt64) : WF (empty exp z) ∧ ∀ u, absMap (empty exp z) u = none :=
  ⟨empty_wf exp z, absMap_empty exp z⟩

/-- **C14 (tombstones are reused, chains never shrink)**.  A map into a bucket that contains a
tombstone succeeds without allocating and leaves every chain length unchanged; no operation
ever shortens a chain (elements are only released by `unit_finalize_hash_table`). -/
theorem unitmap_tombstones_reused (m : UM) (u : UInt64) (th : Nat) (hw : WF m) (hu : u ≠ m.nul)
    (hnew : absMap m u = none) (htomb : ∃ e ∈ m.b (hashIndex m.exp u), e.unit = m.nul) :
    ∃ m', mapThread m u th false = some m' ∧ ∀ i, (m'.b i).length = (m.b i).length := by
  have hs := map_spec m u th false hw hu hnew
  obtain ⟨e, he, he0⟩ := htomb
  cases hm : mapThread m u th false with
  | none =>
    simp only [mapThread] at hm
    cases hr : chainReuse m.nul u th (m.b (hashIndex m.exp u)) with
    | none => exact absurd he0 ((chainReuse_none m.nul u th _).mp hr e he)
    | some c => simp [hr] at hm
  | some m' => exact ⟨m', rfl, (hs.2 m' hm).2.2.2.2 ⟨e, he, he0⟩⟩

/-- **C14 (same handle in two pools)**.  abt.h lets different user pools use the same `ABT_unit`
value for a work unit (e.g. its `ABT_thread` handle).  Moving such a work unit from one user
pool to another calls `unit_map_thread(u, t)` while `u ↦ t` is still mapped and then
`unit_unmap_thread(u)` once.  For every well-formed table: the map fails only for lack of
memory; the unmap then succeeds (no assertion), the table is well formed again and represents
exactly the same finite map — in particular `get(u)` still returns `t` — and no chain shrank.
(In between the unit is stored twice; the unmap removes the first occurrence.) -/
theorem unitmap_remap_same_unit (m : UM) (u : UInt64) (t : Nat) (mem : Bool) (hw : WF m) (hu : u ≠ m.nul)
    (hm : absMap m u = some t) :
    (mem = true → (mapThread m u t mem).isSome = true) ∧
    ∀ m1, mapThread m u t mem = some m1 →
      ∃ m2, unmapThread m1 u = some m2 ∧ WF m2 ∧ m2.nul = m.nul ∧ getThread m2 u = some t ∧
        (∀ x, absMap m2 x = absMap m x) ∧ ∀ i, (m.b i).length ≤ (m2.b i).length := by
  have hs := remap_spec m u t mem hw hu hm
  refine ⟨hs.1, ?_⟩
  intro m1 h1
  obtain ⟨m2, a1, a2, a3, a4, a5⟩ := hs.2 m1 h1
  refine ⟨m2, a1, a2, a3.2, ?_, a4, a5⟩
  have := a4 u
  rw [hm] at this
  simpa [absMap, a3.2, hu] using this

theorem unitmap_chains_never_shrink (m : UM) (op : Op) (i : Nat) :
    (m.b i).length ≤ ((step m op).1.b i).length := by
  cases op with
  | map u th mem =>
    simp only [step, mapThread]
    cases hr : chainReuse m.nul u th (m.b (hashIndex m.exp u)) with
    | some c =>
      simp only [updB]; split
      · next hi => rw [chainReuse_length m.nul u th _ c hr, hi]; exact Nat.le_refl _
      · exact Nat.le_refl _
    | none =>
      cases mem with
      | false => exact Nat.le_refl _
      | true =>
        simp only [if_true, updB]; split
        · next hi => rw [hi]; simp
        · exact Nat.le_refl _
  | unmap u =>
    simp only [step, unmapThread]
    cases hr : chainClear m.nul u (m.b (hashIndex m.exp u)) with
    | none => exact Nat.le_refl _
    | some c =>
      simp only [updB]; split
      · next hi => rw [chainClear_length m.nul u _ c hr, hi]; exact Nat.le_refl _
      · exact Nat.le_refl _
  | get u =>
    simp only [step]
    cases getThread m u <;> exact Nat.le_refl _

/-- non-vacuity: three units colliding in bucket 1 of the real 256-bucket hash (0x8, 0x800 and
0x17f8 all hash to 1), unmap of the middle one, reuse of its tombstone by a fourth colliding
unit without allocating (`mem = false`), lookups before and after -/
example :
    (runOps (empty 8 7) [.map 0x8 1 true, .map 0x800 2 true, .map 0x17f8 3 true, .get 0x800, .unmap 0x800,
                       .get 0x8, .get 0x17f8, .map 0x1ff0 4 false, .get 0x1ff0, .get 0x8]).2
      = [.mapR true, .mapR true, .mapR true, .getR 2, .unmapR, .getR 1, .getR 3, .mapR true, .getR 4, .getR 1] ∧
    (hashIndex 8 0x8, hashIndex 8 0x800, hashIndex 8 0x17f8, hashIndex 8 0x1ff0) = (1, 1, 1, 1) := by
  decide

end table

/-! ### lock-free lookup against concurrent map / unmap -/
section lockfree
open ArgoVerif.Model.UnitMap

/-- **C14 (lock-free get)**.  Any number of callers run `unit_map_thread`, `unit_unmap_thread`
and the lock-free `unit_get_thread_from_user_defined_unit` concurrently, interleaved at the
granularity of single loads/stores of list-cell fields and lock operations, for an arbitrary
bucket function `h` (so same-bucket interference is included), under the contract written in
the guards of `Model.UnitMap.Step` (a get of `u` starts after a `map(u, th)` completed and no
`unmap(u)` starts before it returns).  Then in every reachable state:
* a get that has returned, returned exactly `th`;
* no get and no unmap ever reaches the end of a chain (the `ABTI_ASSERT(p_cur)` never fires);
* the abstract map `abs` is realised in the heap: a mapped unit sits in exactly one linked
  cell, in the bucket `h u`, whose `p_thread` is its work unit. -/
theorem unitmap_lockfree_get (h : Nat → Nat) (tr : List (Nat × Act)) (s : CSt)
    (hr : Star (Step h) CSt.init tr s) :
    (∀ t u th r, s.pc t = .gDone u th r → r = th) ∧
    (∀ t, ¬ stuck s t) ∧
    (∀ u th, s.abs u = some th →
      s.wh u ≠ 0 ∧ s.pub (s.wh u) = true ∧ s.bkt (s.wh u) = h u ∧ (s.cell (s.wh u)).unit = u ∧
      (s.cell (s.wh u)).thr = th ∧ ∀ e, s.pub e = true → (s.cell e).unit = u → e = s.wh u) := by
  have hi : Inv h s := Star.invariant (Inv h) (fun s e s' => inv_step h s e s') hr (inv_init h)
  refine ⟨?_, ?_, ?_⟩
  · intro t u th r hpc
    have := hi.pcs t; rw [hpc] at this; exact this
  · intro t hst
    rcases hst with ⟨u, th, hpc⟩ | ⟨u, hpc⟩
    · have hp := hi.pcs t; rw [hpc] at hp; simp only [PcOK] at hp
      have h1 := hi.g.abs_ok u th hp.1
      have h2 := hi.g.pub_lt (s.wh u) (hi.g.wh_ok u h1.1).1
      omega
    · have hp := hi.pcs t; rw [hpc] at hp; simp only [PcOK] at hp
      omega
  · intro u th ha
    have h1 := hi.g.abs_ok u th ha
    have h2 := hi.g.wh_ok u h1.1
    refine ⟨h1.1, h2.1, h2.2.2.1, h2.2.1, h1.2.1, ?_⟩
    intro e he heu
    have := hi.g.uniq e he (by rw [heu]; exact h2.2.2.2)
    rw [heu] at this; exact this.symm

end lockfree

/-! ### association with pools: create_unit / free_unit -/
section assoc
open ArgoVerif.Model.Assoc

/-- **C14 (create/free balance)**.  Start with no work unit associated.  After *every* legal
sequence of `ABTI_thread_init_pool`, `ABTI_thread_set_associated_pool`,
`ABTI_unit_set_associated_pool`, `ABTI_thread_unset_associated_pool`, hand-overs of units to
pools and lookups — over any mix of built-in and user pools, with `create_unit` returning NULL,
a handle no other work unit uses, or (user pool → user pool) the very handle the work unit
already has, and the table's `malloc` failing at arbitrary points — no table assertion fires, and for every
non-NULL unit handle `u` and pool `p`:
`#create_unit(p)=u − #free_unit(p,u) = [some work unit currently has unit u and pool p]`,
the log alternates create/free for each (u,p) (`LogOK`), so every created unit is freed
exactly once when its association ends; when no work unit is associated with `p` any more
all units of `p` have been freed. -/
theorem assoc_create_free_balance (exp : Nat) (z : UInt64) (isb : Nat → Bool) (ops : List Op)
    (hl : LegalRun (St.init exp z isb) ops) :
    ∃ s os, runOps (St.init exp z isb) ops = some (s, os) ∧ s.map.nul = z ∧ LogOK z s.log ∧
      ∀ u p, u ≠ z →
        creates s.log u p = frees s.log u p + (if live s u p = true then 1 else 0) ∧
        (live s u p = true ↔ ∃ t, s.thr t = ⟨.user u, some p⟩) := by
  obtain ⟨s, os, hr, hi, hz⟩ := run_spec ops _ (ainv_init exp z isb) hl
  have hz : s.map.nul = z := hz
  refine ⟨s, os, hr, hz, hz ▸ hi.log_ok, ?_⟩
  intro u p hu
  rw [← hz] at hu
  constructor
  · rw [← hi.bridge u p hu]; exact log_balance s.map.nul s.log hi.log_ok u p hu
  · simp only [live]
    constructor
    · intro hlv
      cases hm : UnitMap.absMap s.map u with
      | none => simp [hm] at hlv
      | some t =>
        simp only [hm, beq_iff_eq] at hlv
        refine ⟨t, ?_⟩
        have := hi.map_ok u t hm
        cases hx : s.thr t with
        | mk a b => rw [hx] at this hlv; simp only at this hlv; rw [this, hlv]
    · rintro ⟨t, ht⟩
      have := (hi.user_ok t u (by rw [ht])).2.1
      simp [this, ht]

/-- **C14 (no use after free)**.  In every such run, each unit handed to a user pool function
(push / remove / is_in_pool …) and each unit passed to `free_unit` was created by that pool
and not freed since; each `create_unit` result was not live. -/
theorem assoc_no_use_after_free (exp : Nat) (z : UInt64) (isb : Nat → Bool) (ops : List Op)
    (hl : LegalRun (St.init exp z isb) ops) :
    ∃ s os, runOps (St.init exp z isb) ops = some (s, os) ∧ LogOK z s.log := by
  obtain ⟨s, os, hr, hi, hz⟩ := run_spec ops _ (ainv_init exp z isb) hl
  have hz : s.map.nul = z := hz
  exact ⟨s, os, hr, hz ▸ hi.log_ok⟩

/-- **C14 (a handle is never free for reuse while still in the table)**.  Every `create_unit` /
`free_unit` event of the log records how many elements of the unit table hold the handle at the
instant of the callback.  In every legal run (`CountOK`): when `create_unit` returns `u`, and when
`free_unit` is called with `u`, the table holds `u` exactly as often as there are *other*
outstanding units with that handle (created, not yet passed to `free_unit` — non-zero only when
pools share one handle for a work unit).  So the runtime maps a handle only after `create_unit`
returned it and has already unmapped it when it hands it to `free_unit`: at no instant is a handle
that its pool may recycle still present in the table.  For handles that are not shared the
recorded multiplicity is 0 at every callback (second part). -/
theorem assoc_handle_unmapped_when_recyclable (exp : Nat) (z : UInt64) (isb : Nat → Bool) (ops : List Op)
    (hl : LegalRun (St.init exp z isb) ops) :
    ∃ s os, runOps (St.init exp z isb) ops = some (s, os) ∧ CountOK z s.log ∧
      ∀ u, u ≠ z → crT s.log u = frT s.log u + (if (UnitMap.absMap s.map u).isSome then 1 else 0) := by
  obtain ⟨s, os, hr, hi, hz⟩ := run_spec ops _ (ainv_init exp z isb) hl
  have hz : s.map.nul = z := hz
  exact ⟨s, os, hr, hz ▸ hi.count_ok, fun u hu => hi.cnt u (by rw [hz]; exact hu)⟩

/-- reading `CountOK` for one event: a `free_unit(p, u)` that is the only outstanding unit with that
handle happens with `u` absent from the table; a `create_unit` result that no outstanding unit
uses is absent from the table -/
theorem countOK_free_absent (z : UInt64) (p : Nat) (u : UInt64) (n : Nat) (r : List Ev)
    (h : CountOK z (.free p u n :: r)) (hone : crT r u = frT r u + 1) : n = 0 := by
  simp only [CountOK] at h; omega

theorem countOK_create_absent (z : UInt64) (p t : Nat) (u : UInt64) (m : Nat) (r : List Ev)
    (h : CountOK z (.create p t u m :: r)) (hu : u ≠ z) (hnone : crT r u = frT r u) : m = 0 := by
  simp only [CountOK] at h; have := h.1 hu; omega

/-- **C14 (failure rollback)**.  If `ABTI_thread_set_associated_pool` fails (the new pool's
`create_unit` returned NULL → ABT_ERR_OTHER, or the table could not allocate → ABT_ERR_MEM)
every descriptor keeps its unit and pool, the table is unchanged, and the only calls made are
`create_unit` (→ NULL), or `create_unit` followed by `free_unit` of the same new unit; with
memory available and a non-NULL unit it succeeds. -/
theorem assoc_failure_rollback (s : St) (t p : Nat) (nu : UInt64) (mem : Bool) (hi : AInv s)
    (hl : Legal s (.setPool t p nu mem)) :
    ∃ s' rc, setAssoc s t p nu mem = some (s', rc) ∧ AInv s' ∧
      (rc ≠ .ok → RolledBack s s' t p nu) ∧ (mem = true → nu ≠ s.map.nul → rc = .ok) := by
  obtain ⟨s', rc, h1, h2, h3, _, h5⟩ := setAssocCore_spec s t _ p nu mem hi rfl hl.1 hl.2
  exact ⟨s', rc, h1, h2, h3, h5⟩

/-- the same for `ABTI_unit_set_associated_pool` (ABT_pool_push / ABT_xstream_run_unit) and
`ABTI_thread_init_pool` (creation) -/
theorem assoc_failure_rollback_unit (s : St) (u : URef) (p : Nat) (nu : UInt64) (mem : Bool) (hi : AInv s)
    (hl : Legal s (.unitSetPool u p nu mem)) :
    ∃ t s' rc, unitThread s u = some t ∧ unitSetAssoc s u p nu mem = some (s', rc) ∧ AInv s' ∧
      (rc ≠ .ok → RolledBack s s' t p nu) := by
  obtain ⟨t, ht, htu⟩ := unitThread_spec s u hi hl.1
  have hnn : u ≠ .null := by intro h; rw [h] at hl; exact hl.1
  obtain ⟨s', rc, h1, h2, h3, _⟩ := setAssocCore_spec s t u p nu mem hi htu hnn hl.2
  exact ⟨t, s', rc, ht, by simp [unitSetAssoc, ht, h1], h2, h3⟩

theorem assoc_failure_rollback_init (s : St) (t p : Nat) (nu : UInt64) (mem : Bool) (hi : AInv s)
    (hl : Legal s (.init t p nu mem)) :
    AInv (initPool s t p nu mem).1 ∧
    ((initPool s t p nu mem).2 ≠ .ok → RolledBack s (initPool s t p nu mem).1 t p nu) :=
  ⟨(initPool_spec s t p nu mem hi hl.1 hl.2).1, (initPool_spec s t p nu mem hi hl.1 hl.2).2.1⟩

/-- **C14 (translation)**.  In every reachable state `ABT_unit_get_thread` of a live unit returns
the work unit whose `ABT_thread_get_unit` is that unit, and vice versa. -/
theorem assoc_unit_thread_translation (s : St) (hi : AInv s) :
    (∀ u, okRef s u → ∃ t, unitThread s u = some t ∧ (s.thr t).unit = u) ∧
    (∀ t, (s.thr t).unit ≠ .null → unitThread s (s.thr t).unit = some t) := by
  refine ⟨fun u hu => unitThread_spec s u hi hu, ?_⟩
  intro t hnn
  cases hu : (s.thr t).unit with
  | null => exact absurd hu hnn
  | builtin t0 => rw [hi.bi t t0 hu]; rfl
  | user x =>
    obtain ⟨hx0, hm, _⟩ := hi.user_ok t x hu
    simp only [unitThread]
    simp only [UnitMap.absMap, hx0, if_false] at hm
    exact hm

/-- non-vacuity for the shared-handle case: user pools 1 and 2 both use the handle 0x100 for work
unit 7; moving it 1 → 2 → 1 logs create/free per pool, the lookup keeps answering 7 -/
example :
    (runOps (St.init 8 7 (fun p => p == 0))
      [.init 7 1 0x100 true, .setPool 7 2 0x100 true, .lookup (.user 0x100), .setPool 7 1 0x100 false,
       .lookup (.user 0x100), .unset 7]).map (fun r => (r.2, r.1.log.reverse))
      = some ([.rc .ok, .rc .ok, .thread 7, .rc .ok, .thread 7, .done],
              [.create 1 7 0x100 0, .create 2 7 0x100 1, .free 1 0x100 1, .create 1 7 0x100 1, .free 2 0x100 1,
               .free 1 0x100 0]) := by
  decide

/-- non-vacuity: create in user pool 1, push to user pool 2 (create new, free old), a failing
migration back (create_unit → NULL), to built-in pool 0 (free), free of the work unit -/
example :
    (runOps (St.init 8 7 (fun p => p == 0))
      [.init 7 1 0x100 true, .use 7, .setPool 7 2 0x4000 true, .lookup (.user 0x4000), .setPool 7 1 7 true,
       .setPool 7 0 7 true, .unset 7]).map (fun r => (r.2, r.1.log.reverse))
      = some ([.rc .ok, .done, .rc .ok, .thread 7, .rc .other, .rc .ok, .done],
              [.create 1 7 0x100 0, .use 1 0x100, .create 2 7 0x4000 0, .free 1 0x100 0, .create 1 7 7 0, .free 2 0x4000 0]) := by
  decide

end assoc

/-! ### bucket-lock discipline: at most one bucket lock per table operation -/
section locks
open ArgoVerif.Model.UnitMap

/-- **C14 (no nested bucket locks, interleaving model of unit.c)**.  In every reachable state of
the interleaving model of `unit_map_thread` / `unit_unmap_thread` / the lock-free lookup: a caller
holds at most one bucket lock, and a caller that is about to acquire a bucket lock (`mAcq`,
`uAcq`) holds none.  Hence every wait-for edge starts at a caller that holds nothing: no cycle of
bucket locks can form, whatever the hash puts where. -/
theorem unitmap_one_bucket_lock_at_a_time (h : Nat → Nat) (tr : List (Nat × Act)) (s : CSt)
    (hr : Star (Step h) CSt.init tr s) :
    (∀ t b b', s.lock b = some t → s.lock b' = some t → b = b') ∧
    (∀ t u th b, s.pc t = .mAcq u th → s.lock b ≠ some t) ∧
    (∀ t u b, s.pc t = .uAcq u → s.lock b ≠ some t) := by
  have hi : Inv h s := Star.invariant (Inv h) (fun s e s' => inv_step h s e s') hr (inv_init h)
  refine ⟨?_, ?_, ?_⟩
  · intro t b b' h1 h2
    have e1 := hi.lock2 t b h1
    have e2 := hi.lock2 t b' h2
    rw [e1] at e2; exact Option.some.inj e2
  · intro t u th b hpc hl
    have := hi.lock2 t b hl
    rw [hpc] at this; simp [holds] at this
  · intro t u b hpc hl
    have := hi.lock2 t b hl
    rw [hpc] at this; simp [holds] at this

/-- **C14 (a lock holder is never blocked)**.  Whoever holds a bucket lock always has an enabled
transition of its own (it never waits for anything while holding the lock): together with the
previous theorem, callers waiting for a bucket lock are eventually served under fair scheduling —
the table operations cannot deadlock among themselves. -/
theorem unitmap_lock_holder_can_step (h : Nat → Nat) (tr : List (Nat × Act)) (s : CSt)
    (hr : Star (Step h) CSt.init tr s) (t b : Nat) (hl : s.lock b = some t) :
    ∃ a s', Step h s (t, a) s' := by
  have hi : Inv h s := Star.invariant (Inv h) (fun s e s' => inv_step h s e s') hr (inv_init h)
  have hh := hi.lock2 t b hl
  have hp := hi.pcs t
  cases hpc : s.pc t with
  | mHead u th => exact ⟨_, _, Step.mHead hpc⟩
  | mScan u th cur =>
    by_cases hc : cur = 0
    · subst hc; exact ⟨_, _, Step.mScanEnd hpc⟩
    · by_cases hu : (s.cell cur).unit = 0
      · exact ⟨_, _, Step.mScanTomb hpc hc hu⟩
      · exact ⟨_, _, Step.mScanUsed hpc hc hu⟩
  | mNext u th cur => exact ⟨_, _, Step.mNext hpc⟩
  | mSetUnit u th cur => exact ⟨_, _, Step.mSetUnit hpc⟩
  | mSetThr u th cur => exact ⟨_, _, Step.mSetThr hpc⟩
  | mAlloc u th => exact ⟨_, _, Step.mAllocOk hpc⟩
  | mPub u th new => exact ⟨_, _, Step.mPub hpc⟩
  | mRel u th ok => exact ⟨_, _, Step.mRel hpc⟩
  | uHead u => exact ⟨_, _, Step.uHead hpc⟩
  | uScan u cur =>
    rw [hpc] at hp; simp only [PcOK] at hp
    have hc : cur ≠ 0 := by omega
    by_cases hu : (s.cell cur).unit = u
    · exact ⟨_, _, Step.uScanHit hpc hc hu⟩
    · exact ⟨_, _, Step.uScanMiss hpc hc hu⟩
  | uNext u cur => exact ⟨_, _, Step.uNext hpc⟩
  | uClear u cur => exact ⟨_, _, Step.uClear hpc⟩
  | uRel u => exact ⟨_, _, Step.uRel hpc⟩
  | _ => rw [hpc] at hh; simp [holds] at hh

end locks

section lockdisc
open ArgoVerif.Model.UnitMapLock

theorem lockdisc_inv (tr : List Ev) (s : St) (hr : machine.run init tr = some s) :
    ∀ a b, s.lock b = some a ↔ s.held a = some b := by
  refine Machine.invariant_run machine (fun s => ∀ a b, s.lock b = some a ↔ s.held a = some b) ?_ tr init s
    (by intro a b; simp [init]) hr
  intro s e s' hi hs
  have hs' : exec s e = some s' := hs
  cases e with
  | acquire a b =>
    simp only [exec] at hs'
    split at hs'
    · next hc =>
      simp only [Option.some.injEq] at hs'; subst hs'
      intro a' b'
      have := hi a' b'; have := hi a b'; have := hi a' b
      grind [upd]
    · cases hs'
  | spin a b =>
    simp only [exec] at hs'
    split at hs'
    · simp only [Option.some.injEq] at hs'; subst hs'; exact hi
    · cases hs'
  | release a b =>
    simp only [exec] at hs'
    split at hs'
    · next hc =>
      simp only [Option.some.injEq] at hs'; subst hs'
      intro a' b'
      have := hi a' b'; have := hi a b'; have := hi a' b
      grind [upd]
    · cases hs'

/-- **C14 (lock discipline of observed executions)**.  Every trace of bucket-lock operations that
`Model.UnitMapLock` accepts: each actor holds at most one bucket lock at any time; an actor that
waits for a bucket lock (failed test-and-set) holds none (this is the guard of `spin`); and the
holder of any taken lock can release it at once without acquiring anything.  A real execution in
which some stream acquires or waits for a second bucket lock while holding one is rejected — such
executions are exactly the ones that can form a lock cycle. -/
theorem lockdisc_no_hold_and_wait (tr : List Ev) (s : St) (hr : machine.run init tr = some s) :
    (∀ a b b', s.lock b = some a → s.lock b' = some a → b = b') ∧
    (∀ a b, s.lock b = some a → (exec s (.release a b)).isSome = true) ∧
    (∀ a b s', exec s (.spin a b) = some s' → s.held a = none) := by
  have hi := lockdisc_inv tr s hr
  refine ⟨?_, ?_, ?_⟩
  · intro a b b' h1 h2
    have e1 := (hi a b).mp h1; have e2 := (hi a b').mp h2
    rw [e1] at e2; exact Option.some.inj e2
  · intro a b hl
    have := (hi a b).mp hl
    simp [exec, this, hl]
  · intro a b s' hs
    simp only [exec] at hs
    split at hs
    · next hc => exact hc.1
    · cases hs

/-- non-vacuity: two actors on two buckets, one waits; and the nested acquisition is rejected -/
example : (machine.run init [.acquire 0 1, .spin 1 1, .acquire 1 2, .release 0 1, .release 1 2, .acquire 1 1,
    .release 1 1]).isSome = true := by decide
example : machine.run init [.acquire 0 1, .acquire 1 2, .acquire 0 2] = none := by decide
example : machine.run init [.acquire 0 1, .acquire 1 2, .spin 0 2] = none := by decide

end lockdisc


/-! ## batch pops: no unit leaves a pool without reaching the caller -/
namespace batch
open ArgoVerif.Model.Assoc

/-- **the adapter over a legacy pool definition is a pop_many**: calling the user's `p_pop` until the buffer is full or the
pool reports empty hands the caller exactly the first `min m |q|` units in order and leaves the others in the pool — in
particular every unit that `p_pop` took out of the pool is in the caller's buffer -/
theorem pop_many_loop_is_split (q : List Nat) (m : Nat) :
    (popManyLoop q m).1 = (popManySplit q m).1 ∧ (popManyLoop q m).2.1 = (popManySplit q m).2 := by
  induction m generalizing q with
  | zero => simp [popManyLoop, popManySplit]
  | succ m ih =>
    cases q with
    | nil => simp [popManyLoop, popManySplit]
    | cons t rest =>
      have := ih rest
      simp only [popManyLoop, popManySplit, List.take_succ_cons, List.drop_succ_cons] at *
      exact ⟨by rw [this.1], this.2⟩

/-- conservation: handed out ++ left = content before, and the number handed out is `min m |q|` -/
theorem pop_many_conserves (q : List Nat) (m : Nat) :
    (popManyLoop q m).1 ++ (popManyLoop q m).2.1 = q ∧ (popManyLoop q m).1.length = min m q.length := by
  have h := pop_many_loop_is_split q m
  rw [h.1, h.2]
  simp [popManySplit, List.take_append_drop, List.length_take]

/-- the user's `p_pop` is called once per unit handed out, plus once more only if the pool ran empty before the buffer was
full: never for a unit that does not fit -/
theorem pop_many_calls (q : List Nat) (m : Nat) :
    (popManyLoop q m).2.2 = (if m ≤ q.length then m else q.length + 1) := by
  induction m generalizing q with
  | zero => simp [popManyLoop]
  | succ m ih =>
    cases q with
    | nil => simp [popManyLoop]
    | cons t rest =>
      have := ih rest
      simp only [popManyLoop, List.length_cons]
      rw [this]
      split <;> split <;> omega

example : popManyLoop [7, 8, 9] 2 = ([7, 8], [9], 2) ∧ popManyLoop [7, 8] 5 = ([7, 8], [], 3) := by decide

end batch

end ArgoVerif.Props.C14
