import ArgoVerif.Proofs.RWLock2
import ArgoVerif.Gen.Consts
import ArgoVerif.Proofs.RWLock3
import ArgoVerif.Proofs.RWLock4
import ArgoVerif.Proofs.RWLock5
/-
Props.C10 — ABT_rwlock: a writer excludes everybody, readers share, nobody is stuck.
Every theorem quantifies over all states reachable in Model.RWLock, i.e. over every interleaving of the steps of any
number of ULT / external-thread callers of rdlock / wrlock / unlock (and of tasklets, which are rejected).
-/
namespace ArgoVerif.Props.C10
open ArgoVerif ArgoVerif.Model.RWLock

/-- the invariant is inductive for the whole step function -/
theorem inv_step (s s' : St) (e : Ev) (h : Inv s) (hs : step s e = some s') : Inv s' := by
  cases e with
  | call a op => exact inv_stepCall s s' a op h hs
  | ret a op rc => exact inv_stepRet s s' a op rc h hs
  | mutexLock a => exact inv_stepMutexLock s s' a h hs
  | mutexUnlock a => exact inv_stepMutexUnlock s s' a h hs
  | sleep a => exact inv_stepSleep s s' a h hs
  | enq a => exact inv_stepEnq s s' a h hs
  | update a => exact inv_stepUpdate s s' a h hs
  | wake a n => exact inv_stepWake s s' a n h hs
  | snap rc wf => simp only [step] at hs; split at hs <;> simp_all

/-- every reachable state satisfies the invariant -/
theorem inv_reachable (k : Actor → Kind) (s : St) (h : (machine k).Reachable s) : Inv s :=
  Machine.invariant_reachable (machine k) Inv (inv_init k) (fun s e s' hi hs => inv_step s s' e hi hs) s h

/-- **a writer excludes every other holder, and the two fields say exactly who holds.**
`writer` / `readers` are the ghost holder sets (a caller enters them when it executes `write_flag = 1` /
`reader_count++` under the mutex and leaves them when an unlock executes the matching statement).  In every reachable
state: if `w` holds as a writer then nobody holds as a reader and any writer holder is `w`; `write_flag = 1` exactly
when a writer holds; `reader_count` is the number of reader holds. -/
theorem rw_writer_excl (k : Actor → Kind) (s : St) (h : (machine k).Reachable s) :
    (∀ w, s.writer = some w → (∀ b, b ∉ s.readers) ∧ (∀ w', s.writer = some w' → w' = w)) ∧
    (s.writeFlag = true ↔ s.writer ≠ none) ∧
    s.readerCount = (s.readers.length : Int) := by
  have hi := inv_reachable k s h
  refine ⟨?_, hi.wfIff, hi.rcLen⟩
  intro w hw
  have hnil := hi.excl (by rw [hw]; simp)
  refine ⟨fun b => by rw [hnil]; simp, fun w' hw' => ?_⟩
  rw [hw] at hw'; exact (Option.some.inj hw').symm

/-- the ghost sets mean what they should: a caller that is about to return from a successful wrlock / rdlock is in
the writer / reader set, and only it can take itself out (by its own unlock: see `rw_unlock_matches`) -/
theorem rw_return_means_holding (k : Actor → Kind) (s : St) (h : (machine k).Reachable s) (a : Actor) :
    (s.pc a = .wDone → s.writer = some a) ∧ (s.pc a = .rDone → a ∈ s.readers) := by
  have hi := inv_reachable k s h
  exact ⟨fun hp => hi.wHolds a (Or.inr hp), fun hp => hi.rHolds a (Or.inr hp)⟩

/-- **readers share**: a rdlock call that holds the internal mutex and finds `write_flag = 0` cannot enter the
cond wait; it increments `reader_count` (whatever its value: other readers may hold) and becomes a holder.  In
particular (second part) when only readers hold — no writer in the ghost set — `write_flag` is 0, so a reader is
never blocked by readers. -/
theorem rw_readers_share (k : Actor → Kind) (s : St) (h : (machine k).Reachable s) (a : Actor)
    (hp : s.pc a = .rTest) :
    (s.writeFlag = false →
      step s (.sleep a) = none ∧
      ∃ s', step s (.update a) = some s' ∧ s'.pc a = .rUnlock ∧ s'.readerCount = s.readerCount + 1 ∧
        a ∈ s'.readers ∧ s'.writeFlag = false) ∧
    (s.writer = none → s.writeFlag = false) := by
  have hi := inv_reachable k s h
  constructor
  · intro hw
    refine ⟨by simp [step, stepSleep, hp, hw], _, by simp only [step, stepUpdate, hp, hw, if_true]; rfl, ?_⟩
    simp [setPc, upd]
  · intro hn
    cases hw : s.writeFlag with
    | false => rfl
    | true => exact absurd hn (hi.wfIff.mp hw)

/-- a reader enters the cond wait only while a writer (somebody else) holds the lock -/
theorem rw_reader_sleeps_only_under_writer (k : Actor → Kind) (s s' : St) (h : (machine k).Reachable s) (a : Actor)
    (hp : s.pc a = .rTest) (hs : step s (.sleep a) = some s') : ∃ w, s.writer = some w ∧ w ≠ a := by
  have hi := inv_reachable k s h
  simp only [step, stepSleep, hp] at hs
  split at hs
  · rename_i hw
    have hne := hi.wfIff.mp hw
    cases hwr : s.writer with
    | none => exact absurd hwr hne
    | some w =>
      refine ⟨w, rfl, ?_⟩
      intro he; subst he
      have := hi.writerPc w hwr
      rw [hp] at this; exact this
  · cases hs

/-- a writer enters the cond wait only while somebody else holds the lock (a writer, or at least one reader) -/
theorem rw_writer_sleeps_only_under_holder (k : Actor → Kind) (s s' : St) (h : (machine k).Reachable s) (a : Actor)
    (hp : s.pc a = .wTest) (hs : step s (.sleep a) = some s') :
    (∃ w, s.writer = some w ∧ w ≠ a) ∨ (∃ r, r ∈ s.readers ∧ r ≠ a) := by
  have hi := inv_reachable k s h
  simp only [step, stepSleep, hp] at hs
  split at hs
  · rename_i hw
    rcases hw with hw | hw
    · left
      have hne := hi.wfIff.mp hw
      cases hwr : s.writer with
      | none => exact absurd hwr hne
      | some w =>
        refine ⟨w, rfl, ?_⟩
        intro he; subst he
        have := hi.writerPc w hwr
        rw [hp] at this; exact this
    · right
      cases hr : s.readers with
      | nil => have := hi.rcLen; rw [hr] at this; simp at this; exact absurd this hw
      | cons r t =>
        have hm : r ∈ s.readers := by rw [hr]; simp
        refine ⟨r, by simp, ?_⟩
        intro he; subst he
        have := hi.readerPc r hm
        rw [hp] at this; exact this
  · cases hs

/-- **no lost wake-up (safety form).**  Whenever a locker sleeps in the cond wait it is in the wait-list, and the
predicate it waits for is still false *or* a broadcast is still to come: a sleeping reader ⇒ `write_flag = 1`, or an
unlocker sits between its counter update and the end of its broadcast (it holds the mutex at `uBcast`); a sleeping
writer ⇒ `write_flag = 1 ∨ reader_count ≠ 0`, or such an unlocker exists. -/
theorem rw_no_stuck_safety (k : Actor → Kind) (s : St) (h : (machine k).Reachable s) (a : Actor) :
    (s.pc a = .rSleep → a ∈ s.q ∧ (s.writeFlag = true ∨ ∃ b, s.mholder = some b ∧ s.pc b = .uBcast)) ∧
    (s.pc a = .wSleep → a ∈ s.q ∧ (s.writeFlag = true ∨ s.readerCount ≠ 0 ∨ ∃ b, s.mholder = some b ∧ s.pc b = .uBcast)) := by
  have hi := inv_reachable k s h
  have hb : Bcasting s.mholder s.pc → ∃ b, s.mholder = some b ∧ s.pc b = .uBcast := by
    intro ⟨h1, h2⟩
    cases hm : s.mholder with
    | none => exact absurd hm h1
    | some b => exact ⟨b, rfl, h2 b hm⟩
  constructor
  · intro hp
    refine ⟨(hi.qIff a).mpr (by rw [hp]; trivial), ?_⟩
    rcases hi.rSleepOk a hp with h1 | h1
    · exact Or.inl h1
    · exact Or.inr (hb h1)
  · intro hp
    refine ⟨(hi.qIff a).mpr (by rw [hp]; trivial), ?_⟩
    rcases hi.wSleepOk a hp with h1 | h1 | h1
    · exact Or.inl h1
    · exact Or.inr (Or.inl h1)
    · exact Or.inr (Or.inr (hb h1))

/-- **every unlock broadcasts to everybody**: an unlocker that has updated the counters releases the internal mutex
only when the wait-list is empty, i.e. when no caller is asleep any more (each sleeper was dequeued by a `wake` and
will re-evaluate its predicate) -/
theorem rw_unlock_wakes_all (k : Actor → Kind) (s s' : St) (h : (machine k).Reachable s) (a : Actor)
    (hp : s.pc a = .uBcast) (hs : step s (.mutexUnlock a) = some s') :
    s.q = [] ∧ ∀ b, s.pc b ≠ .rSleep ∧ s.pc b ≠ .wSleep := by
  have hi := inv_reachable k s h
  simp only [step, stepMutexUnlock, hp] at hs
  split at hs
  · rename_i hq
    refine ⟨hq, fun b => ⟨fun hb => ?_, fun hb => ?_⟩⟩
    · have := (hi.qIff b).mpr (by rw [hb]; trivial); rw [hq] at this; cases this
    · have := (hi.qIff b).mpr (by rw [hb]; trivial); rw [hq] at this; cases this
  · cases hs

/-- a woken caller re-evaluates its predicate under the mutex: from `rWoken` / `wWoken` the only step of that caller
the model accepts is `mutexLock`, which leads to the loop test -/
theorem rw_woken_retests (s s' : St) (a : Actor) (hs : step s (.mutexLock a) = some s')
    (hp : s.pc a = .rWoken ∨ s.pc a = .wWoken) :
    s.mholder = none ∧ ((s.pc a = .rWoken ∧ s'.pc a = .rTest) ∨ (s.pc a = .wWoken ∧ s'.pc a = .wTest)) := by
  simp only [step, stepMutexLock] at hs
  split at hs
  · cases hs
  · rename_i hm
    refine ⟨by simpa using hm, ?_⟩
    rcases hp with hp | hp <;> rw [hp] at hs <;> simp only [Option.some.injEq] at hs <;> subst hs <;>
      simp [takeM, setPc, upd, hp]

/-- **unlock tells readers and the writer apart correctly.**  The code has no owner field: `if (write_flag)
write_flag = 0; else reader_count--`.  Under the invariant this is sound: when the caller is the writer the flag is
set (so the flag is cleared and the reader count untouched, the writer leaves the ghost set); when the caller is a
reader the flag is clear and `reader_count > 0` (so it is decremented and exactly one hold of the caller leaves the
ghost set; the ABTI_UB_ASSERT never fires). -/
theorem rw_unlock_matches (k : Actor → Kind) (s s' : St) (h : (machine k).Reachable s) (a : Actor)
    (hp : s.pc a = .uUpd) (hs : step s (.update a) = some s') :
    (s.writer = some a →
      s.writeFlag = true ∧ s'.writeFlag = false ∧ s'.writer = none ∧ s'.readerCount = s.readerCount ∧
      s'.readers = s.readers) ∧
    (s.writer ≠ some a →
      a ∈ s.readers ∧ s.writeFlag = false ∧ s.readerCount > 0 ∧ s'.readerCount = s.readerCount - 1 ∧
      s'.readers = s.readers.erase a ∧ s'.writeFlag = false ∧ s'.writer = none) := by
  have hi := inv_reachable k s h
  simp only [step, stepUpdate, hp, Option.some.injEq] at hs
  subst hs
  constructor
  · intro hw
    have hf : s.writeFlag = true := hi.wfIff.mpr (by rw [hw]; simp)
    simp [setPc, hf]
  · intro hw
    have hm : a ∈ s.readers := by
      rcases hi.uHolds a (Or.inr hp) with h1 | h1
      · exact h1
      · exact absurd h1 hw
    have hnw : s.writer = none := by
      cases hwr : s.writer with
      | none => rfl
      | some w =>
        have := hi.excl (by rw [hwr]; simp)
        rw [this] at hm; cases hm
    have hf : s.writeFlag = false := by
      cases hwf : s.writeFlag with
      | false => rfl
      | true => exact absurd hnw (hi.wfIff.mp hwf)
    have hpos : s.readerCount > 0 := by
      have := hi.rcLen
      have : s.readers.length > 0 := List.length_pos_of_mem hm
      omega
    simp [setPc, hf, hm, hpos, hnw]

/-- **a tasklet is rejected and nothing changes** (API 1.x): a tasklet's rdlock / wrlock call only moves the
tasklet to the error return; the mutex, the counters, the wait-list, the holder sets and every other caller's
program counter are untouched, and the only step the tasklet can take next is the error return. -/
theorem rw_tasklet_rejected_nochange (s s' : St) (a : Actor) (op : Op) (hk : s.kind a = .tasklet)
    (ho : op = .rdlock ∨ op = .wrlock) (hs : step s (.call a op) = some s') :
    s'.mholder = s.mholder ∧ s'.readerCount = s.readerCount ∧ s'.writeFlag = s.writeFlag ∧ s'.q = s.q ∧
    s'.readers = s.readers ∧ s'.writer = s.writer ∧ (∀ b, b ≠ a → s'.pc b = s.pc b) ∧
    (s'.pc a = .rRejected ∨ s'.pc a = .wRejected) ∧
    (∀ rc, step s' (.ret a op rc) ≠ none → rc = .err) ∧
    step s' (.mutexLock a) = none ∧ step s' (.update a) = none ∧ step s' (.sleep a) = none := by
  rcases ho with ho | ho <;> subst ho <;> simp only [step, stepCall] at hs <;>
    (split at hs; · cases hs) <;> simp only [hk, if_true, Option.some.injEq] at hs <;> subst hs <;>
    (refine ⟨rfl, rfl, rfl, rfl, rfl, rfl, fun b hb => by simp [setPc, upd, hb], by simp [setPc, upd], ?_, ?_, ?_, ?_⟩) <;>
    first
      | (intro rc; cases rc <;> simp [step, stepRet, setPc, upd])
      | (simp [step, stepMutexLock, stepUpdate, stepSleep, setPc, upd]; try (split <;> simp))

/-- tasklets never hold the lock and are never anywhere but idle or on the error return -/
theorem rw_tasklet_never_holds (k : Actor → Kind) (s : St) (h : (machine k).Reachable s) (a : Actor)
    (hk : s.kind a = .tasklet) :
    a ∉ s.readers ∧ s.writer ≠ some a ∧ (s.pc a = .idle ∨ s.pc a = .rRejected ∨ s.pc a = .wRejected) := by
  have hi := inv_reachable k s h
  exact ⟨(hi.taskNoHold a hk).1, (hi.taskNoHold a hk).2, hi.taskPc a hk⟩

/-- **deadlock freedom.**  `active s a` = a is inside a call or holds the lock.  `enabledFor s b` (executable) = some
progress event of b is accepted by the model in s: a return, `mutexLock`, `sleep`, `update`, `wake`, `mutexUnlock`, or
— for a holder outside any call — `call unlock` (the property's hypothesis "the current holders unlock"); new lock
calls and observations do not count.  In every reachable state with an active caller, some active caller has an
enabled progress event: the system as a whole is never stuck with somebody inside a call. -/
theorem rw_deadlock_free (k : Actor → Kind) (s : St) (h : (machine k).Reachable s) (a : Actor)
    (ha : active s a = true) : ∃ b, active s b = true ∧ enabledFor s b = true :=
  deadlock_free_of_inv s (inv_reachable k s h) a ha

/-- the same with the executable `enabled` over any finite list that contains the active callers -/
theorem rw_deadlock_free_enabled (k : Actor → Kind) (s : St) (h : (machine k).Reachable s) (a : Actor)
    (ha : active s a = true) (acts : List Actor) (hall : ∀ b, active s b = true → b ∈ acts) :
    enabled s acts = true := by
  obtain ⟨b, hb, he⟩ := rw_deadlock_free k s h a ha
  simp only [enabled, List.any_eq_true, Bool.and_eq_true]
  exact ⟨b, hall b hb, hb, he⟩

/-- `enabledFor` is sound: it really exhibits an accepted, non-observation event of that caller -/
theorem rw_enabled_sound (s : St) (b : Actor) (he : enabledFor s b = true) :
    ∃ e s', e ∈ candidates s b ∧ step s e = some s' := by
  simp only [enabledFor, List.any_eq_true] at he
  obtain ⟨e, hm, hsome⟩ := he
  cases hst : step s e with
  | none => rw [hst] at hsome; cases hsome
  | some s' => exact ⟨e, s', hm, hst⟩

/-- **more precisely, nobody waits for nothing**: a caller that is inside a call either can step itself, or waits
for the internal mutex whose holder can step, or sleeps while a holder of the rwlock (or the broadcasting unlocker)
can step. -/
theorem rw_blocked_has_cause (k : Actor → Kind) (s : St) (h : (machine k).Reachable s) (a : Actor)
    (hp : s.pc a ≠ .idle) :
    enabledFor s a = true ∨
    (∃ b, s.mholder = some b ∧ b ≠ a ∧ enabledFor s b = true) ∨
    ((s.pc a = .rSleep ∨ s.pc a = .wSleep) ∧ s.mholder = none ∧
      ∃ b, (s.writer = some b ∨ b ∈ s.readers) ∧ enabledFor s b = true) :=
  blocked_has_cause_of_inv s (inv_reachable k s h) a hp

/-! ### non-vacuity: concrete accepted traces -/

/-- actors 1..8 are ULTs / external threads, 9 is a tasklet -/
def kinds : Actor → Kind := fun a => if a = 9 then .tasklet else if a % 2 = 0 then .ext else .ult

/-- two readers (1, 2) hold together; writer 3 tests, sleeps; 1 unlocks (3 woken, re-tests, sleeps again since
reader 2 still holds); 2 unlocks (3 woken); 3 acquires -/
example :
    ((machine kinds).run (init kinds)
      [.call 1 .rdlock, .mutexLock 1, .update 1, .mutexUnlock 1, .ret 1 .rdlock .ok,
       .call 2 .rdlock, .mutexLock 2, .snap 1 false, .update 2, .mutexUnlock 2, .snap 2 false, .ret 2 .rdlock .ok,
       .call 3 .wrlock, .mutexLock 3, .sleep 3, .enq 3,
       .call 1 .unlock, .mutexLock 1, .update 1, .wake 1 3, .mutexUnlock 1, .snap 1 false, .ret 1 .unlock .ok,
       .mutexLock 3, .sleep 3, .enq 3,
       .call 2 .unlock, .mutexLock 2, .update 2, .wake 2 3, .mutexUnlock 2, .snap 0 false, .ret 2 .unlock .ok,
       .mutexLock 3, .update 3, .mutexUnlock 3, .snap 0 true, .ret 3 .wrlock .ok]).map
        (fun s => decide (s.pc 1 = .idle ∧ s.pc 2 = .idle ∧ s.pc 3 = .idle ∧ s.writer = some 3 ∧ s.readers = [] ∧
                          s.writeFlag = true ∧ s.readerCount = 0 ∧ s.q = [] ∧ s.mholder = none))
      = some true := by decide

/-- writer 4 holds; readers 1 and 2 sleep; the unlock of 4 wakes both (head first); both enter together -/
example :
    ((machine kinds).run (init kinds)
      [.call 4 .wrlock, .mutexLock 4, .update 4, .mutexUnlock 4, .ret 4 .wrlock .ok,
       .call 1 .rdlock, .call 2 .rdlock, .mutexLock 1, .sleep 1, .mutexLock 2, .sleep 2, .enq 1, .enq 2,
       .call 4 .unlock, .mutexLock 4, .update 4, .wake 4 1, .wake 4 2, .mutexUnlock 4, .ret 4 .unlock .ok,
       .mutexLock 2, .update 2, .mutexUnlock 2, .mutexLock 1, .update 1, .mutexUnlock 1,
       .ret 1 .rdlock .ok, .ret 2 .rdlock .ok]).map
        (fun s => decide (s.readers = [1, 2] ∧ s.readerCount = 2 ∧ s.writer = none ∧ s.writeFlag = false ∧ s.q = []))
      = some true := by decide

/-- a reader enters while other readers hold (and while a writer is asleep waiting for them): it does not wait -/
example :
    ((machine kinds).run (init kinds)
      [.call 1 .rdlock, .mutexLock 1, .update 1, .mutexUnlock 1, .ret 1 .rdlock .ok,
       .call 3 .wrlock, .mutexLock 3, .sleep 3,
       .call 2 .rdlock, .mutexLock 2, .update 2, .mutexUnlock 2, .ret 2 .rdlock .ok,
       .call 1 .rdlock, .mutexLock 1, .update 1, .mutexUnlock 1, .ret 1 .rdlock .ok]).map
        (fun s => decide (s.readers = [1, 2, 1] ∧ s.readerCount = 3 ∧ s.pc 3 = .wSleep ∧ s.q = [3]))
      = some true := by decide

/-- and the model refuses what the property forbids: a reader sleeping while only readers hold; a writer proceeding
while a reader holds; an unlocker leaving with sleepers still queued; a tasklet locking -/
example :
    ((machine kinds).run (init kinds)
      [.call 1 .rdlock, .mutexLock 1, .update 1, .mutexUnlock 1, .ret 1 .rdlock .ok,
       .call 2 .rdlock, .mutexLock 2, .sleep 2]).isNone = true ∧
    ((machine kinds).run (init kinds)
      [.call 1 .rdlock, .mutexLock 1, .update 1, .mutexUnlock 1, .ret 1 .rdlock .ok,
       .call 3 .wrlock, .mutexLock 3, .update 3]).isNone = true ∧
    ((machine kinds).run (init kinds)
      [.call 1 .rdlock, .mutexLock 1, .update 1, .mutexUnlock 1, .ret 1 .rdlock .ok,
       .call 3 .wrlock, .mutexLock 3, .sleep 3,
       .call 1 .unlock, .mutexLock 1, .update 1, .mutexUnlock 1]).isNone = true ∧
    ((machine kinds).run (init kinds) [.call 9 .rdlock, .mutexLock 9]).isNone = true ∧
    ((machine kinds).run (init kinds) [.call 9 .wrlock, .ret 9 .wrlock .err]).isSome = true := by decide

/-- `enabled` on a concrete state: writer 3 asleep behind reader 1 (idle holder): progress is possible (1 can unlock) -/
example :
    ((machine kinds).run (init kinds)
      [.call 1 .rdlock, .mutexLock 1, .update 1, .mutexUnlock 1, .ret 1 .rdlock .ok,
       .call 3 .wrlock, .mutexLock 3, .sleep 3]).map
        (fun s => (enabled s [1, 3], enabledFor s 3, enabledFor s 1, active s 3, active s 2)) =
      some (true, false, true, true, false) := by decide


/-! ## widths of the counters modelled as unbounded numbers (generated from the headers on every run) -/
/-- `reader_count` is 8 bytes wide in this tree: the unbounded model agrees with the C field below 2^63 -/
example : ArgoVerif.Gen.Consts.bytesRwlockReaderCount = 8 := by decide

end ArgoVerif.Props.C10
