import ArgoVerif.Proofs.KTable
import ArgoVerif.Proofs.KTableRaceT
import ArgoVerif.Proofs.KTableConcX
import ArgoVerif.Proofs.KeyId
import ArgoVerif.Gen.Consts
/-
Props.C16 — work-unit-local storage behaves as an independent key→value map per
work unit.  Property theorems only; lemmas live in Proofs/KTable.lean (sequential
core) and Proofs/KTableRace.lean (lazy creation / concurrent setters).

Table sizes: the environment loader (`ABTD_env_key_table_size`) yields
`roundup_pow2(clamp(ABT_KEY_TABLE_SIZE, 1, UINT32_MAX))`, i.e. one of 2^0 … 2^31
(default 4).  The theorems below need only `size ≥ 1`: `key_id & (size-1) ≤ size-1`
holds for every size, so every element lands in a bucket that `ABTI_ktable_free`
visits; the power-of-two assertion of the C code is not needed for correctness of
the map (only for an even spread).
-/
namespace ArgoVerif.Props.C16
open ArgoVerif ArgoVerif.Model.KTable

/-- abstract state of one work unit: total map key id → value, `0` = NULL -/
abbrev Spec := Nat → Val

/-- the destructor calls a map `m` prescribes for key id `k` when the unit is freed:
exactly one call `kd k (m k)` iff both the value and the key's destructor are non-NULL -/
def specCalls (kd : Nat → Nat) (m : Spec) (k : Nat) : List DCall :=
  if m k ≠ 0 ∧ kd k ≠ 0 then [{ keyId := k, dtor := kd k, val := m k }] else []

def specStep (m : Spec) : Op → Out → Spec
  | .set k v _ _, .setR true => fun x => if x = k.id then v else m x
  | .free, _ => fun _ => 0
  | _, _ => m

/-- what an operation may report given the abstract map before it.  A set may fail
only when an allocation it needs fails; a failed set changes nothing (`specStep`). -/
def specOut (kd : Nat → Nat) (m : Spec) : Op → Out → Prop
  | .set _ _ mT mE, .setR ok => (mT = true → mE = true → ok = true)
  | .get kid, .getR v => v = m kid
  | .revive, .reviveR => True
  | .free, .freeR calls _ => ∀ k, calls.filter (fun d => d.keyId == k) = specCalls kd m k
  | _, _ => False

def specRun (kd : Nat → Nat) (m : Spec) : List Op → List Out → Prop
  | [], [] => True
  | op :: ops, o :: os => specOut kd m op o ∧ specRun kd (specStep m op o) ops os
  | _, _ => False

/-- every set uses a key whose destructor is the one registered for its id
(`ABT_key_create` hands out each id once, so an id determines its destructor) -/
def KeysOk (kd : Nat → Nat) : List Op → Prop
  | [] => True
  | .set k _ _ _ :: ops => k.dtor = kd k.id ∧ KeysOk kd ops
  | _ :: ops => KeysOk kd ops

theorem ktable_step_refines (kd : Nat → Nat) (g : Geom) (size : Nat) (hsz : 0 < size) (s : Slot) (op : Op)
    (hw : SlotWF kd size s) (hk : KeysOk kd [op]) :
    SlotWF kd size (step g size s op).1 ∧ specOut kd (slotGet s) op (step g size s op).2 ∧
    ∀ k, slotGet (step g size s op).1 k = specStep (slotGet s) op (step g size s op).2 k := by
  cases op with
  | set k v mT mE =>
    have hk' : k.dtor = kd k.id := hk.1
    have h := slotSet_spec kd g size hsz s k v mT mE hw hk'
    refine ⟨h.1, h.2.2, ?_⟩
    intro k'
    have := h.2.1 k'
    simp only [step]
    rw [this]
    cases hok : (slotSet g size s k v mT mE).2 <;> simp [specStep]
  | get kid => exact ⟨hw, rfl, fun _ => rfl⟩
  | revive => exact ⟨hw, trivial, fun _ => rfl⟩
  | free =>
    refine ⟨trivial, ?_, fun _ => rfl⟩
    intro k
    cases s with
    | none => simp [step, slotFree, specCalls, slotGet]
    | some t =>
      simp only [step, slotFree, specCalls, slotGet]
      exact freeCalls_filter kd t hw.1 k

/-- **C16 (per-unit map)**.  For every table size ≥ 1, every number of keys (colliding
in a bucket or not) and *every* sequence of set / get / revive / free on one work
unit's `p_keytable` — starting from NULL or from any well-formed table, with
allocation failures allowed at any set — each `get` returns the last value
successfully set for that key id (NULL if none), `thread_revive` keeps all values,
and `thread_free` calls, for each key id, its destructor exactly once with the stored
value iff both are non-NULL and not at all otherwise; the next work unit using the
descriptor starts from the empty map. -/
theorem ktable_refines_map (kd : Nat → Nat) (g : Geom) (size : Nat) (hsz : 0 < size) (ops : List Op) (s : Slot)
    (hw : SlotWF kd size s) (hk : KeysOk kd ops) :
    specRun kd (slotGet s) ops (runOps g size s ops).2 ∧ SlotWF kd size (runOps g size s ops).1 := by
  induction ops generalizing s with
  | nil => exact ⟨trivial, hw⟩
  | cons op ops ih =>
    have hk1 : KeysOk kd [op] := by cases op <;> simp_all [KeysOk]
    have hk2 : KeysOk kd ops := by cases op <;> simp_all [KeysOk]
    have hs := ktable_step_refines kd g size hsz s op hw hk1
    have ih' := ih (step g size s op).1 hs.1 hk2
    have heq : slotGet (step g size s op).1 = specStep (slotGet s) op (step g size s op).2 := funext hs.2.2
    rw [heq] at ih'
    simp only [runOps, specRun]
    exact ⟨⟨hs.2.1, ih'.1⟩, ih'.2⟩

/-! ### many work units -/

abbrev SysSpec := Nat → Spec

def sysSpecRun (kd : Nat → Nat) (M : SysSpec) : List (Nat × Op) → List Out → Prop
  | [], [] => True
  | (u, op) :: ops, o :: os =>
    specOut kd (M u) op o ∧ sysSpecRun kd (fun x => if x = u then specStep (M u) op o else M x) ops os
  | _, _ => False

def SysKeysOk (kd : Nat → Nat) : List (Nat × Op) → Prop
  | [] => True
  | (_, op) :: ops => KeysOk kd [op] ∧ SysKeysOk kd ops

/-- **C16 (independence)**.  Any interleaved sequence of operations on any number of
work units (ULTs, tasklets, the primary ULT — each is one `p_keytable` slot; the caller
may be the owner or another work unit, `ABT_thread_set_specific`) behaves as one
independent map per unit: an operation on unit `u` reports what `u`'s own map says and
changes only `u`'s map; no value is visible under another unit or another key.
(Operations are atomic here; the concurrent case is `ktable_create_race`.) -/
theorem ktable_units_independent (kd : Nat → Nat) (g : Geom) (size : Nat) (hsz : 0 < size)
    (ops : List (Nat × Op)) (S : Sys) (hw : ∀ u, SlotWF kd size (S u)) (hk : SysKeysOk kd ops) :
    sysSpecRun kd (fun u => slotGet (S u)) ops (sysRun g size S ops).2 ∧
    ∀ u, SlotWF kd size ((sysRun g size S ops).1 u) := by
  induction ops generalizing S with
  | nil => exact ⟨trivial, hw⟩
  | cons p ops ih =>
    obtain ⟨u, op⟩ := p
    have hs := ktable_step_refines kd g size hsz (S u) op (hw u) hk.1
    have hw' : ∀ x, SlotWF kd size ((sysStep g size S u op).1 x) := by
      intro x
      simp only [sysStep, updS]
      split
      · exact hs.1
      · exact hw x
    have ih' := ih (sysStep g size S u op).1 hw' hk.2
    have heq : (fun x => slotGet ((sysStep g size S u op).1 x)) =
        (fun x => if x = u then specStep (slotGet (S u)) op (step g size (S u) op).2 else slotGet (S x)) := by
      funext x
      simp only [sysStep, updS]
      split
      · exact funext hs.2.2
      · rfl
    rw [heq] at ih'
    simp only [sysRun, sysSpecRun]
    exact ⟨⟨hs.2.1, ih'.1⟩, ih'.2⟩

/-- an operation on unit `u` leaves every other unit's slot literally untouched -/
theorem ktable_other_units_untouched (g : Geom) (size : Nat) (S : Sys) (u u' : Nat) (op : Op) (h : u' ≠ u) :
    (sysStep g size S u op).1 u' = S u' := by
  simp [sysStep, updS, h]

/-- **C16 (destructors)**.  For the table reached by any operation sequence from an empty
slot, `ABTI_ktable_free` invokes, for every key id `k`: nothing if the stored value or the
key's destructor is NULL, and otherwise exactly one call of that destructor with exactly the
stored value (which by `ktable_refines_map` is the last value set). -/
theorem ktable_destructor_once (kd : Nat → Nat) (g : Geom) (size : Nat) (hsz : 0 < size) (ops : List Op)
    (hk : KeysOk kd ops) (k : Nat) :
    let s := (runOps g size none ops).1
    (slotFree s).1.filter (fun d => d.keyId == k) = specCalls kd (slotGet s) k := by
  intro s
  have hw : SlotWF kd size s := (ktable_refines_map kd g size hsz ops none trivial hk).2
  cases hs : s with
  | none => simp [slotFree, specCalls, slotGet]
  | some t =>
    rw [hs] at hw
    simp only [slotFree, specCalls, slotGet]
    exact freeCalls_filter kd t hw.1 k

/-- **C16 (storage blocks)**.  For the table reached by any operation sequence, the blocks
`ABTI_ktable_free` releases are exactly the blocks obtained for this table (the block holding
the table and every element block), each once, each with the deallocator matching its
allocator; and every element's storage lies inside one of them. -/
theorem ktable_blocks_freed_once (g : Geom) (size : Nat) (ops : List Op) (t : Table)
    (h : (runOps g size none ops).1 = some t) :
    (freeBlocks t).Perm t.ledger ∧ ((freeBlocks t).map Prod.fst).Nodup ∧
    (∀ i e, e ∈ t.b i → e.blk ∈ (freeBlocks t).map Prod.fst) := by
  have hb : SlotBWF (runOps g size none ops).1 := runOps_bwf g size ops none trivial
  rw [h] at hb
  have hb : BWF t := hb
  have hperm : (freeBlocks t).Perm t.ledger := by
    simp only [freeBlocks, hb.used_eq]; exact List.reverse_perm _
  refine ⟨hperm, ?_, ?_⟩
  · have : ((freeBlocks t).map Prod.fst).Perm (t.ledger.map Prod.fst) := hperm.map _
    rw [this.nodup_iff, hb.ids]; exact List.nodup_range
  · intro i e he
    have : ((freeBlocks t).map Prod.fst).Perm (t.ledger.map Prod.fst) := hperm.map _
    rw [this.mem_iff, hb.ids, List.mem_range]
    exact hb.elems_in i e he

/-- **C16 (revive)**.  `thread_revive` does not access `p_keytable`: whatever was stored
before a revive is returned after it (corollary of `ktable_refines_map`, stated explicitly). -/
theorem ktable_revive_keeps_values (g : Geom) (size : Nat) (s : Slot) (k : Nat) :
    slotGet (step g size s .revive).1 k = slotGet s k := rfl

/-! ### lazy creation race / concurrent setters -/

/-- **C16 (creation race)**.  `n` callers execute `ABTI_ktable_set(pp_ktable, key t, val t)`
concurrently on one empty slot (NULL); a key id determines its key (`hkey`: `ABT_key_create`
hands out every id once).  For *every* interleaving of their atomic steps
(weak CAS with spurious failures, spinning on LOCKED, lock-free chain walk, lock, re-walk,
publish, unlock), without allocation failures, in every reachable state:
* at most one table has been created, exactly one once the slot is valid, and the slot never
  leaves the valid state;
* chains hold pairwise distinct key ids in the right buckets (no duplicate element even when
  several callers insert the same new key);
* every caller that has returned reported success and its key is in the table with the value
  of the caller that stored last for that key (itself if nobody else uses that key). -/
theorem ktable_create_race (P : Params) (hsz : 0 < P.size) (hf : P.faults = false)
    (hkey : ∀ a b, (P.key a).id = (P.key b).id → P.key a = P.key b)
    (tr : List (Nat × Act)) (s : CSt) (h : Star (Step P) CSt.init tr s) :
    s.created ≤ 1 ∧ (s.slot = .valid → s.created = 1) ∧
    (∀ t, s.pc t ≠ .crashed ∧ s.pc t ≠ .done false) ∧
    (s.slot = .valid → WF (fun k => (P.key (s.lastw k)).dtor) s.tbl ∧ s.tbl.size = P.size) ∧
    (∀ t, s.pc t = .done true →
        s.slot = .valid ∧ (P.key (s.lastw (P.key t).id)).id = (P.key t).id ∧
        tget s.tbl (P.key t).id = P.val (s.lastw (P.key t).id) ∧
        ((∀ t', t' < P.n → (P.key t').id = (P.key t).id → t' = t) → tget s.tbl (P.key t).id = P.val t)) :=
  race_main P hsz hf hkey tr s h

/-- the failure path the theorem above excludes: when the creator's allocation fails it
stores NULL; a caller spinning on LOCKED leaves its loop with NULL and passes it to
`ABTI_ktable_set_impl` (NULL dereference).  Reachable with two callers. -/
theorem ktable_create_race_failure_path :
    ∃ tr s, Star (Step { g := ⟨108, 32, 8, 16, 32⟩, size := 4, n := 2, key := fun t => ⟨2 + t, 0⟩,
                         val := fun t => t + 1, faults := true }) CSt.init tr s ∧ s.pc 1 = .crashed :=
  race_failure_example

/-! ### non-vacuity -/

/-- 3 keys colliding in one bucket of a 2-bucket table (ids 2,4,6) plus id 3, update in
place, NULL value, key without destructor, revive, then free -/
example :
    (runOps ⟨108, 32, 8, 16, 32⟩ 2 none
      [.set ⟨2, 7⟩ 20 true true, .set ⟨4, 7⟩ 40 true true, .set ⟨6, 0⟩ 60 true true, .set ⟨3, 9⟩ 30 true true,
       .set ⟨4, 7⟩ 41 true true, .set ⟨2, 7⟩ 0 true true, .get 4, .get 2, .get 8, .revive, .get 6, .free, .get 4]).2
      = [.setR true, .setR true, .setR true, .setR true, .setR true, .setR true, .getR 41, .getR 0, .getR 0,
         .reviveR, .getR 60,
         .freeR [⟨4, 7, 41⟩, ⟨3, 9, 30⟩] [(1, .mempool), (0, .mempool)], .getR 0] := by decide

example : KeysOk (fun k => if k = 6 then 0 else if k = 3 then 9 else 7)
    [.set ⟨2, 7⟩ 20 true true, .set ⟨6, 0⟩ 60 true true, .set ⟨3, 9⟩ 30 true true, .free] := by
  simp [KeysOk]

/-- a complete race of two callers with different keys: both end in `done true` -/
example : ∃ tr s, Star (Step { g := ⟨108, 32, 8, 16, 32⟩, size := 1, n := 2, key := fun t => ⟨2 + t, 0⟩,
                               val := fun t => t + 1, faults := false }) CSt.init tr s ∧
    s.pc 0 = .done true ∧ s.pc 1 = .done true ∧ tget s.tbl 2 = 1 ∧ tget s.tbl 3 = 2 :=
  race_success_example

/-! ### concurrent `ABTI_ktable_set` / `ABTI_ktable_get` on one table (Model.KTableConc)

Any number of actors (the owner and other work units / external threads), each repeatedly
calling set (safe variant: lock-free walk, lock, re-walk, append, unlock; or the non-safe variant
on a private table) and get (lock-free walk, plain read), interleaved at the granularity of the
atomic operations of abti_key.h plus the plain `value` accesses.  All theorems quantify over
every accepted run of `machine c` (equivalently, by `Proofs.run_inv`, every run of the relational
`Step`), i.e. over all interleavings, table sizes ≥ 1, keys and values. -/
section conc
open ArgoVerif.Model.KTableConc

theorem ktconc_reach (c : Cfg) (tr : List Ev) (s : St) (h : (machine c).run (init c) tr = some s) :
    Star (Step c) (init c) tr s ∧ PInv s ∧ TInv c s :=
  run_inv c tr (init c) s (pinv_init c) (tinv_init c) h

/-- **C16 (concurrent: chains stay well formed, one element per key)**.  In every reachable state
every element sits in the bucket its key id selects, carries its key's destructor, and no chain
holds two elements with the same key id — also when several callers insert the same new key, or
different new keys of one bucket, at the same time. -/
theorem ktconc_chains_well_formed (c : Cfg) (hsz : 0 < c.size) (tr : List Ev) (s : St)
    (h : (machine c).run (init c) tr = some s) :
    WF c.kd s.tbl ∧ s.tbl.size = c.size ∧ ∀ b, ((s.tbl.b b).map (·.keyId)).Nodup := by
  obtain ⟨_, _, ht⟩ := ktconc_reach c tr s h
  exact ⟨tinv_wf c s hsz ht, ht.size, ht.nodup⟩

/-- **C16 (concurrent: nothing is ever unlinked or overwritten)**.  Once an element is linked at
position `i` of a chain it stays exactly there in every later state of the run (same key id,
destructor and storage; only `value` may change): elements are only ever added at the tail. -/
theorem ktconc_append_only (c : Cfg) (tr1 tr2 : List Ev) (s1 s2 : St)
    (h1 : (machine c).run (init c) tr1 = some s1) (h2 : (machine c).run s1 tr2 = some s2) :
    ∀ (b i : Nat) (x : Elem), (s1.tbl.b b)[i]? = some x →
      ∃ x', (s2.tbl.b b)[i]? = some x' ∧ sameElem x x' := by
  obtain ⟨_, hp, ht⟩ := ktconc_reach c tr1 s1 h1
  obtain ⟨hst, _, _⟩ := run_inv c tr2 s1 s2 hp ht h2
  exact star_append_only c tr2 s1 s2 hp ht hst

/-- **C16 (concurrent: the publishing store hits the tail)**.  Whenever a caller is about to
release-store its new element into link `j`, that link is the current tail (`j` = chain length,
i.e. the link is NULL) and the key is not in the chain: the re-walk under the lock makes the
remembered `pp_elem` current again.  (So the tail guard of the executable `exec` never rejects a
behaviour of the model; it only rejects observed traces that are not behaviours.) -/
theorem ktconc_publish_at_tail (c : Cfg) (tr : List Ev) (s : St) (h : (machine c).run (init c) tr = some s)
    (a : Actor) (k : Key) (v : Val) (sf : Bool) (j blk : Nat) (hpc : s.pc a = .pub k v sf j blk) :
    j = (chain c s k.id).length ∧ k.id ∉ (chain c s k.id).map (·.keyId) ∧
    (sf = true → s.lock = some a) ∧ (sf = false → s.priv = some a) := by
  obtain ⟨_, hp, ht⟩ := ktconc_reach c tr s h
  have := ht.pubc a k.id j (by rw [hpc]; rfl)
  refine ⟨by rw [this.1, ks_chain, List.length_map], this.2, ?_, ?_⟩
  · intro hs; subst hs; exact hp.lock1 a (by rw [hpc]; rfl)
  · intro hs; subst hs; exact hp.priv1 a (by rw [hpc]; rfl)

/-- **C16 (concurrent: get is linearizable)**.  `hist kid` lists every value stored under `kid`
in store order (each entry is written by a set that is in progress at that moment); the abstract
value of the key is its last entry (NULL if empty).  A get that is about to return `r` was
called when the history had `h0` entries and read `value` when it had `hr`: either it found no
element and the key had never been set when it was called (`r = NULL`), or `r` is entry `hr-1`
with `h0 ≤ hr`: the value that was current at the call (stored by the latest set whose store
preceded the call) or a value stored by an overlapping set — the abstract value at some moment
inside the get's own interval. -/
theorem ktconc_get_linearizable (c : Cfg) (tr : List Ev) (s : St) (h : (machine c).run (init c) tr = some s)
    (a : Actor) (kid h0 : Nat) (r : Val) (hr : Nat) (hpc : s.pc a = .gret kid h0 r hr) :
    (hr = 0 ∧ r = 0 ∧ h0 = 0) ∨
    (h0 ≤ hr ∧ 1 ≤ hr ∧ hr ≤ (s.hist kid).length ∧ (s.hist kid)[hr - 1]? = some r) := by
  obtain ⟨_, _, ht⟩ := ktconc_reach c tr s h
  rcases ht.gret a kid h0 r hr hpc with h1 | ⟨h1, h2, h3⟩
  · exact Or.inl h1
  · have := lt_of_getElem?_some _ _ _ h3
    exact Or.inr ⟨h1, h2, by omega, h3⟩

/-- **C16 (concurrent: last-writer map)**.  In every reachable state — in particular once all sets
have returned — a lookup of any key id yields the value stored last under it (NULL if none):
no set is lost, whatever raced with it. -/
theorem ktconc_last_writer_map (c : Cfg) (tr : List Ev) (s : St) (h : (machine c).run (init c) tr = some s)
    (k : Nat) : tget s.tbl k = absVal s k := by
  obtain ⟨_, _, ht⟩ := ktconc_reach c tr s h
  exact tinv_tget c s ht k

/-- **C16 (concurrent: destructors)**.  Whatever interleaving built the table, `ABTI_ktable_free`
(run when no access is in progress: the `free` event requires every actor idle) calls, for each
key id, its destructor exactly once with the last value stored iff both are non-NULL, and not at
all otherwise. -/
theorem ktconc_destructor_once (c : Cfg) (hsz : 0 < c.size) (tr : List Ev) (s : St)
    (h : (machine c).run (init c) tr = some s) (k : Nat) :
    (freeCalls s.tbl).filter (fun d => d.keyId == k) = specCalls c.kd (absVal s) k := by
  obtain ⟨_, _, ht⟩ := ktconc_reach c tr s h
  rw [freeCalls_filter c.kd s.tbl (tinv_wf c s hsz ht) k, tinv_tget c s ht k]
  rfl

/-- the free event itself is only accepted when nobody is inside the table -/
theorem ktconc_free_when_quiescent (c : Cfg) (tr : List Ev) (s s' : St) (h : (machine c).run (init c) tr = some s)
    (hf : (machine c).step s .free = some s') : (∀ a, s.pc a = .idle) ∧ s'.tbl = s.tbl ∧ s'.live = false := by
  obtain ⟨_, hp, _⟩ := ktconc_reach c tr s h
  have hst := exec_sound c s .free s' hp hf
  cases hst with
  | free hall _ => exact ⟨hall, rfl, rfl⟩

def exCfg : Cfg := { g := ⟨108, 32, 8, 16, 32⟩, size := 2, kd := fun k => if k = 4 then 7 else 0 }

/-- non-vacuity: actors 0 and 1 insert the colliding new keys 2 and 4 (bucket 0 of a 2-bucket
table); both finish their lock-free walk at the empty bucket head before either appends; actor 1's
re-walk under the lock finds actor 0's element and appends behind it; actor 2's get of key 2
overlaps; afterwards both keys are present. -/
def okRun : List Ev :=
  [.startSet 0 ⟨2, 0⟩ 20 true, .startSet 1 ⟨4, 7⟩ 40 true, .startGet 2 2,
   .load 0 0 0 false, .load 1 0 0 false, .load 2 0 0 false, .endGet 2 0,
   .acquire 0, .load 0 0 0 false, .storeLink 0 0 0, .release 0, .endSet 0 true,
   .acquire 1, .load 1 0 0 true, .load 1 0 1 false, .storeLink 1 0 1, .release 1, .endSet 1 true,
   .startGet 2 4, .load 2 0 0 true, .load 2 0 1 true, .readVal 2, .endGet 2 40,
   .startSet 0 ⟨4, 7⟩ 41 true, .load 0 0 0 true, .load 0 0 1 true, .storeVal 0, .endSet 0 true, .free]

example : ((machine exCfg).run (init exCfg) okRun).isSome = true := by decide

example : (((machine exCfg).run (init exCfg) okRun).map fun s =>
    (tget s.tbl 2, tget s.tbl 4, freeCalls s.tbl, s.hist 4)) = some (20, 41, [⟨4, 7, 41⟩], [40, 41]) := by decide

/-- rejected trace: the same race without the re-walk — actor 1 stores its element into the link
it remembered from the lock-free walk (link 0), which is no longer the tail.  Not a run. -/
example : (machine exCfg).run (init exCfg)
    [.startSet 0 ⟨2, 0⟩ 20 true, .startSet 1 ⟨4, 7⟩ 40 true, .load 0 0 0 false, .load 1 0 0 false,
     .acquire 0, .load 0 0 0 false, .storeLink 0 0 0, .release 0, .endSet 0 true,
     .acquire 1, .storeLink 1 0 0] = none := by decide

/-- and even with the load: a publishing store into a non-tail link is rejected by the tail guard
(here the state is forged by hand: actor 1 about to publish at link 0 of a chain of length 1) -/
example :
    let s0 := ((machine exCfg).run (init exCfg)
      [.startSet 0 ⟨2, 0⟩ 20 true, .load 0 0 0 false, .acquire 0, .load 0 0 0 false, .storeLink 0 0 0,
       .release 0, .endSet 0 true])
    (s0.bind fun s => (machine exCfg).step { s with pc := upd s.pc 1 (.pub ⟨4, 7⟩ 40 true 0 1), lock := some 1 }
      (.storeLink 1 0 0)) = none := by decide

end conc

/-! ### key ids (Model.KeyId): `ABT_key_create` on any number of streams -/
section keyid
open ArgoVerif.Model.KeyId

/-- **C16 (key ids are unique)**.  Whatever the interleaving of concurrent `ABT_key_create` calls
(each takes its id with one atomic fetch-and-add on `g_key_id`): the ids returned to callers are
pairwise distinct, all at least `start` (= `ABTI_KEY_ID_END_`, so none collides with the ids of the
runtime's static keys), and below the counter.  Two keys therefore never share an element of any
key table ("values never leak between keys").  (The counter is unbounded here: fewer than
2^32 − 2 creations per process is an assumption.) -/
theorem keyid_distinct (start : Nat) (tr : List Ev) (s : St) (h : (machine start).run (init start) tr = some s) :
    s.returned.Nodup ∧ (∀ id, id ∈ s.returned → start ≤ id ∧ id < s.g) ∧
    (∀ a a' id, s.pc a = .got id → s.pc a' = .got id → a = a') ∧
    (∀ a id, s.pc a = .got id → id ∉ s.returned) := by
  have hi := inv_run start tr s h
  have hs := start_const start tr s h
  refine ⟨hi.rnodup, ?_, hi.uniq, fun a id hp => (hi.got a id hp).2⟩
  intro id hid
  have := hi.range id (hi.rsub id hid)
  rw [hs] at this; exact this

/-- the static keys of thread.c use ids below the start of the counter (generated from the headers) -/
theorem keyid_static_ids_reserved :
    ArgoVerif.Gen.Consts.keyIdStackableSched < ArgoVerif.Gen.Consts.keyIdEnd ∧
    ArgoVerif.Gen.Consts.keyIdMigration < ArgoVerif.Gen.Consts.keyIdEnd ∧
    ArgoVerif.Gen.Consts.keyIdStackableSched ≠ ArgoVerif.Gen.Consts.keyIdMigration := by decide

/-- non-vacuity: three creators interleaved; ids 2, 3, 4 -/
example : ((machine 2).run (init 2)
    [.call 0, .call 1, .call 2, .fetchAdd 1 2, .fetchAdd 0 3, .ret 0 3, .fetchAdd 2 4, .ret 2 4, .ret 1 2]).map
      (fun s => (s.returned, s.g)) = some ([2, 4, 3], 5) := by decide

/-- rejected: an observed read-modify-write that did not see the current counter is not a run -/
example : (machine 2).run (init 2) [.call 0, .call 1, .fetchAdd 0 2, .fetchAdd 1 2] = none := by decide

/-- what the atomicity buys: with the read-modify-write split into load and store two creators get
the same id (this is NOT the model of the code; its events are not in `Ev`, so a trace containing a
separate load or store of the counter is rejected by the driver as not being a run) -/
example : (([SplitEv.load 0, .load 1, .store 0, .store 1].foldl splitExec ⟨2, fun _ => none, []⟩).ids) = [2, 2] := by
  decide

end keyid

end ArgoVerif.Props.C16
