import ArgoVerif.Props.SchedCommon
import ArgoVerif.Props.C06Stop
/-
Props.C01 — every work unit runs exactly once to completion; none is lost or duplicated.
Model.Sched abstracts pools as bags with an arbitrary pop choice, so FIFO / FIFO_WAIT / RANDWS / user-defined pools and
every scheduler policy (predefined, user-defined, stacked) are instances; theorems quantify over all accepted traces.
-/
namespace ArgoVerif.Props.C01
open ArgoVerif ArgoVerif.Model.Sched

/-- **conservation / no duplication**: a unit is pushed only from a place where no execution stream can reach it
(fresh, popped-and-held, switched-away with its callback pending, or blocked-and-resumed), never while it is in a
pool, running, or already terminated; so it is never in two pools or in a pool and running -/
theorem once_push_from_unreachable (s s' : St) (p : PoolId) (u : UnitId) (hs : step s (.push p u) = some s') :
    (∀ q, s.loc u ≠ .inPool q) ∧ (∀ e, s.loc u ≠ .running e) ∧ s.loc u ≠ .done ∧ s.loc u ≠ .freed ∧ s.loc u ≠ .none ∧
    s'.loc u = .inPool p := by
  simp only [step, stepPush] at hs
  split at hs
  · rename_i h
    cases hs
    have hp := h.1
    refine ⟨?_, ?_, ?_, ?_, ?_, by simp [upd]⟩
    · intro q hl; rw [hl] at hp; simp [pushable] at hp
    · intro e hl; rw [hl] at hp; simp [pushable] at hp
    · intro hl; rw [hl] at hp; simp [pushable] at hp
    · intro hl; rw [hl] at hp; simp [pushable] at hp
    · intro hl; rw [hl] at hp; simp [pushable] at hp
  · cases hs

/-- a pop returns only a unit that is in that pool, and takes it out: until it is pushed again nobody else can pop it -/
theorem once_pop_takes_out (s s' : St) (e : EsId) (p : PoolId) (u : UnitId) (hs : step s (.pop e p u) = some s') :
    s.loc u = .inPool p ∧ s'.loc u = .held e := by
  simp only [step, stepPop] at hs
  split at hs
  · rename_i h; cases hs; exact ⟨h, by simp [setLoc, upd]⟩
  · cases hs

/-- a run slice starts only for a unit that the starting stream holds exclusively (popped by a scheduler, just created,
or blocked and resumed): never for a unit that is in a pool, already running elsewhere, or terminated -/
theorem once_run_exclusive (s s' : St) (e : EsId) (u : UnitId) (hs : step s (.run e u) = some s') :
    (∀ q, s.loc u ≠ .inPool q) ∧ (∀ e', s.loc u ≠ .running e') ∧ s.loc u ≠ .done ∧ s'.loc u = .running e := by
  simp only [step, stepRun] at hs
  cases hl : s.loc u <;> simp only [hl] at hs <;> (repeat' (split at hs)) <;> (try cases hs) <;> simp_all [upd]

/-- **at most one start** per creation / revival epoch, and the function ends at most once, after it started -/
theorem once_start_le_one (s : St) (h : machine.Reachable s) (u : UnitId) : s.starts u ≤ 1 ∧ s.ends u ≤ s.starts u :=
  (inv_reachable s h).startsLe u

/-- **a terminated unit has run**: TERMINATED (and not cancelled) implies the function was entered exactly once -/
theorem once_terminated_ran (s : St) (h : machine.Reachable s) (u : UnitId)
    (ht : s.st u = .terminated) (hc : s.cancelled u = false) : s.starts u = 1 := by
  have hi := inv_reachable s h
  have hl := (hi.termLoc u).mp ht
  have htm := hi.doneTerm u hl
  rcases hi.termRan u htm with h1 | h1
  · rw [hc] at h1; cases h1
  · exact h1

/-- **join returns after the end**: when join / free returns to the joiner the target is TERMINATED, hence (unless it was
cancelled) its function has been entered exactly once and the unit is out of every pool -/
theorem once_join_after_end (s s' : St) (h : machine.Reachable s) (j u : UnitId) (hs : step s (.joinRet j u) = some s') :
    s.st u = .terminated ∧ (s.cancelled u = true ∨ s.starts u = 1) ∧ (∀ q, s.loc u ≠ .inPool q) := by
  simp only [step, stepJoinRet] at hs
  split at hs
  · rename_i hg
    refine ⟨hg.1, ?_, ?_⟩
    · cases hc : s.cancelled u with
      | true => exact Or.inl rfl
      | false => exact Or.inr (once_terminated_ran s h u hg.1 hc)
    · intro q hq; rcases hg.2 with h1 | h1 <;> rw [hq] at h1 <;> cases h1
  · cases hs

/-- other units are untouched by an event (no unit's bookkeeping leaks into another's) -/
theorem once_units_independent (s s' : St) (e : Ev) (hs : step s e = some s') (v : UnitId) (hv : v ≠ e.unit) :
    s'.loc v = s.loc v ∧ s'.st v = s.st v ∧ s'.starts v = s.starts v :=
  let f := frame s s' e hs v hv; ⟨f.1, f.2.1, f.2.2.2.1⟩

/-- non-vacuity: create, push, pop, run, yield (callback re-push), second slice, finish, exit callback, terminate, join -/
example :
    (machine.run init
      [.create 1 0, .push 0 1, .pop 7 0 1, .setSt 1 .running, .run 7 1, .userStart 1, .cb 7 1 .yield, .setSt 1 .ready,
       .push 0 1, .pop 8 0 1, .setSt 1 .running, .run 8 1, .userEnd 1, .finish 8 1, .cb 8 1 .exit, .terminate 1,
       .setSt 1 .terminated, .joinRet 99 1, .free 1]).map (fun s => decide (s.loc 1 = .freed ∧ s.starts 1 = 1 ∧ s.ends 1 = 1))
      = some true := by decide

/-- a second start, a double push and a pop of a running unit are all rejected by the model -/
example : machine.run init [.create 1 0, .push 0 1, .push 0 1] = none := by decide
example : (machine.run init [.create 1 0, .push 0 1, .pop 7 0 1, .setSt 1 .running, .run 7 1, .pop 8 0 1]).isNone = true := by decide

end ArgoVerif.Props.C01
