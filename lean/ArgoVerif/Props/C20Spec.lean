import ArgoVerif.Gen.EnvTable
/-
Props.C20Spec — specification vocabulary for the textual part of C20 (definitions
only; the theorems that use them are in Props/C20.lean, their proofs in Proofs/).
Nothing here refers to the models: these are the *independent* statements of what
"the decimal value of the digit run", "saturated", "the documented affinity
grammar" and "the documented CPU-id lists" mean.
-/
namespace ArgoVerif.Props.C20Spec

abbrev Byte := UInt8

/-! ### numbers (atoi.c) -/

/-- blanks accepted before a number: space, TAB, LF, CR -/
def isBlank (c : Byte) : Bool := c == 32 || c == 9 || c == 10 || c == 13
/-- `+` or `-` -/
def isSign (c : Byte) : Bool := c == 43 || c == 45
/-- ASCII `0`..`9` -/
def isDigit (c : Byte) : Bool := decide (48 ≤ c.toNat ∧ c.toNat ≤ 57)

/-- positional decimal value of a digit string (most significant first), in ℕ:
`decVal [] = 0`, `decVal (ds ++ [d]) = 10 * decVal ds + (d - '0')` -/
def decVal (ds : List Byte) : Nat := ds.foldl (fun a c => 10 * a + (c.toNat - 48)) 0

/-- a sign run denotes "negative" iff it contains an odd number of `-` -/
def negative (signs : List Byte) : Bool := decide ((signs.count 45) % 2 = 1)

/-- The mathematical integer a string denotes for atoi.c: skip the leading blanks,
then the maximal run of signs, then take the maximal run of digits.  `none` when
that digit run is empty.  Whatever follows the digit run is ignored.  (Blanks
*after* a sign are not skipped: `"+ 2"` has an empty digit run.) -/
def numberOf (s : List Byte) : Option Int :=
  let a := s.dropWhile isBlank
  let signs := a.takeWhile isSign
  let digits := (a.dropWhile isSign).takeWhile isDigit
  if digits = [] then none
  else some (if negative signs then -((decVal digits : Nat) : Int) else ((decVal digits : Nat) : Int))

/-- saturation of a mathematical integer at the limits `[lo, hi]` of a C type -/
def saturate (lo hi m : Int) : Int := if m < lo then lo else if hi < m then hi else m

/-- what a conversion to a C type with limits `[lo, hi]` must deliver for the string
`s`: `none` = ABT_ERR_INV_ARG; `some (v, flag)` = success with value `v` and
overflow flag `flag` -/
def expected (lo hi : Int) (s : List Byte) : Option (Int × Bool) :=
  match numberOf s with
  | none => none
  | some m => some (saturate lo hi m, decide (m < lo ∨ hi < m))

/-! ### environment settings (abtd_env.c) -/
open ArgoVerif.Gen.EnvTable in
/-- what one rounding wrapper must deliver: `pow2` — the smallest power of two that is
≥ the input; `multiple m` — the smallest multiple of `m` that is ≥ the input -/
def RndPost : Rnd → Int → Int → Prop
  | .pow2, a, b => (∃ k : Nat, b = 2 ^ k) ∧ a ≤ b ∧ b < 2 * a
  | .multiple m, a, b => b % (m : Int) = 0 ∧ a ≤ b ∧ b < a + m

open ArgoVerif.Gen.EnvTable in
/-- the wrappers of a table row applied innermost first, each meeting `RndPost` -/
def RndChain : List Rnd → Int → Int → Prop
  | [], a, c => c = a
  | r :: rs, a, c => ∃ b, RndPost r a b ∧ RndChain rs b c

/-! ### ABT_SET_AFFINITY (grammar in the header comment of abtd_affinity.c) -/

/-- tokens of the documented grammar -/
inductive Tok where
  | int (v : Int)     -- <integer>, with its value
  | lbrace | rbrace | colon | comma
deriving DecidableEq, Repr

/-- white space "ignored between tokens": space, TAB, CR, LF -/
def isWs (c : Byte) : Bool := c == 32 || c == 9 || c == 13 || c == 10

def symTok (c : Byte) : Option Tok :=
  if c == 123 then some .lbrace else if c == 125 then some .rbrace
  else if c == 58 then some .colon else if c == 44 then some .comma else none

/-- value of `<integer> = sign* digit+` -/
def intVal (signs digits : List Byte) : Int :=
  if negative signs then -((decVal digits : Nat) : Int) else ((decVal digits : Nat) : Int)

/-- `Lex buf toks`: the C string in `buf` (everything up to its first NUL; what
follows the NUL is arbitrary) is the concatenation of the spellings of `toks`,
each optionally preceded by white space, with optional trailing white space.
An integer is spelled `sign* digit+` with nothing between the signs and the
digits, and extends over all following digits (longest match). -/
inductive Lex : List Byte → List Tok → Prop
  | eos (w post : List Byte) : (∀ c ∈ w, isWs c = true) → Lex (w ++ 0 :: post) []
  | sym (w : List Byte) (c : Byte) (t : Tok) (rest : List Byte) (ts : List Tok) :
      (∀ c ∈ w, isWs c = true) → symTok c = some t → Lex rest ts → Lex (w ++ c :: rest) (t :: ts)
  | int (w sg ds rest : List Byte) (ts : List Tok) :
      (∀ c ∈ w, isWs c = true) → (∀ c ∈ sg, isSign c = true) → ds ≠ [] → (∀ c ∈ ds, isDigit c = true) →
      (∀ c r, rest = c :: r → isDigit c = false) → Lex rest ts →
      Lex (w ++ sg ++ ds ++ rest) (.int (intVal sg ds) :: ts)

/-- optional `":" <num> [":" <stride>]` -/
abbrev NumStride := Option (Int × Option Int)
def NumStride.num : NumStride → Int
  | none => 1 | some (n, _) => n
def NumStride.stride : NumStride → Int
  | some (_, some s) => s | _ => 1

/-- `<id-interval>` -/
structure IdInterval where
  id : Int
  ns : NumStride
deriving Repr

/-- `<es-id-list>` -/
inductive EsIdList where
  | id (v : Int)
  | braces (l : List IdInterval)
deriving Repr

/-- `<interval>` -/
structure Interval where
  es : EsIdList
  ns : NumStride
deriving Repr

/-- `":" <num> ":" <stride>` | `":" <num>` | nothing, `<num> = <positive integer>` -/
inductive GNumStride : List Tok → NumStride → Prop
  | full (n s : Int) : 0 < n → GNumStride [.colon, .int n, .colon, .int s] (some (n, some s))
  | num (n : Int) : 0 < n → GNumStride [.colon, .int n] (some (n, none))
  | none : GNumStride [] none

/-- `<id-interval> = <id> ":" <num> ":" <stride> | <id> ":" <num> | <id>` -/
inductive GIdInterval : List Tok → IdInterval → Prop
  | mk (id : Int) (t : List Tok) (ns : NumStride) : GNumStride t ns → GIdInterval (.int id :: t) ⟨id, ns⟩

/-- `<id-list> = <id-interval> | <id-list> "," <id-interval>` -/
inductive GIdList : List Tok → List IdInterval → Prop
  | one (t : List Tok) (x : IdInterval) : GIdInterval t x → GIdList t [x]
  | snoc (l t : List Tok) (xs : List IdInterval) (x : IdInterval) :
      GIdList l xs → GIdInterval t x → GIdList (l ++ .comma :: t) (xs ++ [x])

/-- `<es-id-list> = <id> | "{" <id-list> "}"` -/
inductive GEsIdList : List Tok → EsIdList → Prop
  | id (v : Int) : GEsIdList [.int v] (.id v)
  | braces (l : List Tok) (xs : List IdInterval) : GIdList l xs → GEsIdList (.lbrace :: l ++ [.rbrace]) (.braces xs)

/-- `<interval> = <es-id-list> ":" <num> ":" <stride> | <es-id-list> ":" <num> | <es-id-list>` -/
inductive GInterval : List Tok → Interval → Prop
  | mk (e t : List Tok) (es : EsIdList) (ns : NumStride) :
      GEsIdList e es → GNumStride t ns → GInterval (e ++ t) ⟨es, ns⟩

/-- `<list> = <interval> | <list> "," <interval>` -/
inductive GList : List Tok → List Interval → Prop
  | one (t : List Tok) (x : Interval) : GInterval t x → GList t [x]
  | snoc (l t : List Tok) (xs : List Interval) (x : Interval) :
      GList l xs → GInterval t x → GList (l ++ .comma :: t) (xs ++ [x])

/-- the restrictions the parser adds to the documented grammar: every integer
literal has magnitude at most INT_MAX (so INT_MIN itself cannot be written), and
every `<num>` is below MAX_NUM_ELEMS -/
def intOk (v : Int) : Prop := -ArgoVerif.Gen.EnvTable.cIntMax ≤ v ∧ v ≤ ArgoVerif.Gen.EnvTable.cIntMax
def nsOk (ns : NumStride) : Prop :=
  intOk ns.num ∧ intOk ns.stride ∧ ns.num < (ArgoVerif.Gen.EnvTable.maxNumElems : Int)
def IdInterval.ok (x : IdInterval) : Prop := intOk x.id ∧ nsOk x.ns
def EsIdList.ok : EsIdList → Prop
  | .id v => intOk v
  | .braces l => ∀ x ∈ l, x.ok
def Interval.ok (x : Interval) : Prop := x.es.ok ∧ nsOk x.ns

/-- conversion of a mathematical integer to `int` as the ABI does it (wrap-around) -/
def wrapInt32 (x : Int) : Int := (x + 2147483648) % 4294967296 - 2147483648

/-- documented expansion: `<id>, <id> + <stride>, ..., <id> + <stride> * (<num> - 1)` -/
def IdInterval.expand (x : IdInterval) : List Int :=
  (List.range x.ns.num.toNat).map fun (i : Nat) => x.id + x.ns.stride * (i : Int)
def EsIdList.expand : EsIdList → List Int
  | .id v => [v]
  | .braces l => l.flatMap IdInterval.expand
/-- documented expansion: `<es-id-list>`, then the same list with `<stride> * k`
added to every element for `k = 1 .. <num> - 1` -/
def Interval.expand (x : Interval) : List (List Int) :=
  (List.range x.ns.num.toNat).map fun (k : Nat) => x.es.expand.map fun v => v + x.ns.stride * (k : Int)
def expandList (l : List Interval) : List (List Int) := l.flatMap Interval.expand

end ArgoVerif.Props.C20Spec
