import ArgoVerif.Props.SchedCommon
import ArgoVerif.Gen.Consts
import ArgoVerif.Props.C06Stop
/-
Props.C06 — stream join/free and ABT_finalize wait for all work: the per-pool count of blocked units that drives the
"may this scheduler stop?" decision (ABTI_sched_has_to_stop / has_unit: size + num_blocked) is exact.
The join/finalize hand-shake itself (FINISH request, main-scheduler ULT join, native join) is tied by T1 skeletons and
exercised by every scenario's ABT_xstream_join / ABT_finalize under the controlled scheduler (deadlock detection).
-/
namespace ArgoVerif.Props.C06
open ArgoVerif ArgoVerif.Model.Sched

/-- **the blocked counter is exact**: in every reachable state `num_blocked` of pool p equals the number of
increments made on behalf of some unit and not yet undone; per unit that number is 1 if its current suspension
(or yield_to credit) is counted, plus the resumptions whose decrement is still in flight -/
theorem blocked_eq_owed (s : St) (h : machine.Reachable s) :
    (∀ p, s.nb p = (cntP s.owedL p : Int)) ∧
    (∀ u, cntU s.owedL u = s.lag u + (if s.charged u = true then 1 else 0)) :=
  ⟨(inv_reachable s h).nbCount, (inv_reachable s h).unitCount⟩

/-- **never negative** -/
theorem blocked_nonneg (s : St) (h : machine.Reachable s) (p : PoolId) : 0 ≤ s.nb p := by
  rw [(inv_reachable s h).nbCount p]; exact Int.natCast_nonneg _

/-- **zero whenever no unit is blocked**: if no suspension is counted and no decrement is in flight, every counter is 0 -/
theorem blocked_zero_when_none (s : St) (h : machine.Reachable s)
    (hn : ∀ u, s.charged u = false ∧ s.lag u = 0) (p : PoolId) : s.nb p = 0 := by
  have hi := inv_reachable s h
  have hempty : s.owedL = [] := by
    cases hl : s.owedL with
    | nil => rfl
    | cons x r =>
      obtain ⟨u, q⟩ := x
      have hm : (u, q) ∈ s.owedL := by rw [hl]; simp
      have hpos := cntU_pos_of_mem s.owedL u q hm
      have := hi.unitCount u
      rw [(hn u).1, (hn u).2] at this
      simp at this; omega
  rw [hi.nbCount p, hempty]; simp [cntP]

/-- **a blocked unit keeps its pool's scheduler alive**: a unit that is BLOCKED and not being resumed is counted in the
`num_blocked` of the pool it will be pushed to on resumption, so `size + num_blocked` of that pool is positive and a
scheduler serving it does not take the FINISH exit (stop only when drained) -/
theorem blocked_unit_counted (s : St) (h : machine.Reachable s) (u : UnitId)
    (hb : s.loc u = .blocked) (hr : s.resumed u = false) : 1 ≤ s.nb (s.pool u) := by
  have hi := inv_reachable s h
  have hc := hi.blockedCharged u hb hr
  have hm := hi.chargedMem u hc.1
  rw [hc.2] at hm
  have := cntP_pos_of_mem s.owedL u (s.pool u) hm
  rw [hi.nbCount]; omega

/-- whoever observes the state BLOCKED observes a unit that is completely suspended (context saved, callback past its
counter increment): the BLOCKED store is the last step of the suspension callback -/
theorem blocked_visible_after_count (s s' : St) (u : UnitId) (hs : step s (.setSt u .blocked) = some s') :
    s.charged u = true ∧ s.chargedPool u = s.pool u ∧ (∃ e, s.loc u = .cb e) := by
  simp only [step, stepSetSt] at hs
  cases hl : s.loc u <;> simp only [hl] at hs <;> (repeat' (split at hs)) <;> (try cases hs) <;> simp_all

/-- **a resumed unit is never unaccounted**: the push that puts a resumed unit back into its pool happens while the unit
is still counted in that pool's `num_blocked` (the decrement comes after the push): at every instant a suspended-then-
resumed unit is visible to `ABTI_sched_has_unit` either through the counter or through the pool's size, so a scheduler
with a pending FINISH request cannot conclude "drained" in between -/
theorem resumed_unit_always_accounted (s s' : St) (p : PoolId) (u : UnitId) (hs : step s (.push p u) = some s')
    (hb : s.loc u = .blocked) : s.charged u = true ∧ s.chargedPool u = p ∧ s'.loc u = .inPool p := by
  simp only [step, stepPush] at hs
  split at hs
  · rename_i h; cases hs; exact ⟨(h.2.2.2 hb).2.1, (h.2.2.2 hb).2.2, by simp [upd]⟩
  · cases hs

/-- decrementing before the push (the unit would be invisible for a moment) is rejected -/
example : (machine.run init
      [.create 1 0, .push 0 1, .pop 7 0 1, .setSt 1 .running, .run 7 1, .cb 7 1 .suspend, .incB 1 0,
       .setSt 1 .blocked, .resume 1, .setSt 1 .ready, .decB 1 0, .push 0 1]).isNone = true := by decide

/-- non-vacuity, including the lagging decrement: u blocks, is resumed and pushed, blocks again before the resumer's
decrement: the counter is 2 for a moment, then 1 -/
example :
    (machine.run init
      [.create 1 0, .push 0 1, .pop 7 0 1, .setSt 1 .running, .run 7 1, .userStart 1, .cb 7 1 .suspend, .incB 1 0,
       .setSt 1 .blocked, .resume 1, .setSt 1 .ready, .push 0 1, .pop 7 0 1, .setSt 1 .running, .run 7 1,
       .cb 7 1 .suspend, .incB 1 0]).map (fun s => decide (s.nb 0 = 2 ∧ s.lag 1 = 1))
      = some true := by decide


/-- **finding F18 (open, KNOWN_FINDINGS.json)**: the accounting above covers the resumption that pushes the unit back into
its pool.  A *directed* resumption (`ABT_self_resume_yield_to`, `resume_suspend_to`, `resume_exit_to`) by a ULT of another
stream is also a trace of the code and of this model: unit 5 of pool 1 suspends on stream 1, is resumed and run on stream 0,
and after the decrement it is running while pool 1 holds nothing and counts nothing — the scheduler of stream 1 may now
conclude "drained".  The witness is replayed against the real code by corpus/findings/f18_resume_yield_to_foreign_unit.c. -/
example :
    (machine.run init
      [.create 5 1, .push 1 5, .pop 1 1 5, .setSt 5 .running, .run 1 5, .userStart 5, .cb 1 5 .suspend, .incB 5 1,
       .setSt 5 .blocked, .resume 5, .setSt 5 .running, .run 0 5, .decB 5 1]).map
      (fun s => decide (s.loc 5 = .running 0 ∧ s.pool 5 = 1 ∧ s.nb 1 = 0 ∧ s.owedL = [])) = some true := by decide


/-! ## widths of the counters modelled as unbounded numbers (generated from the headers on every run) -/
/-- `num_blocked`: Model.Sched / Model.Stop use Int / Nat is 4 bytes wide in this tree: the unbounded model agrees with the C field below 2^31 -/
example : ArgoVerif.Gen.Consts.bytesPoolNumBlocked = 4 := by decide
/-- `num_scheds` is 4 bytes wide in this tree: the unbounded model agrees with the C field below 2^31 -/
example : ArgoVerif.Gen.Consts.bytesPoolNumScheds = 4 := by decide
/-- the scheduler request word is 4 bytes wide in this tree: the unbounded model agrees with the C field below 2^31 -/
example : ArgoVerif.Gen.Consts.bytesSchedRequest = 4 := by decide

end ArgoVerif.Props.C06
