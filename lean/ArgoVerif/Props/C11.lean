import ArgoVerif.Props.SchedCommon
/-
Props.C11 — suspend/resume and directed switches hand control exactly as documented (unit-level part).
-/
namespace ArgoVerif.Props.C11
open ArgoVerif ArgoVerif.Model.Sched

/-- **not run until resumed**: a blocked unit gets a run slice (or is made READY / pushed) only after a resume was
issued for this suspension -/
theorem suspend_not_run_until_resumed (s s' : St) (e : Ev) (hs : step s e = some s') (u : UnitId)
    (hb : s.loc u = .blocked) (hleave : s'.loc u ≠ .blocked) : s.resumed u = true := by
  cases e <;>
    simp only [step, stepCreate, stepPush, stepPop, stepSetSt, stepRun, stepUserStart, stepUserEnd, stepCb, stepIncB,
      stepDecB, stepResume, stepFinish, stepTerminate, stepFree, stepReqSet, stepReqClr, stepMigrate, stepJoinRet, stepXferB] at hs <;>
    (repeat' (split at hs)) <;> (try cases hs) <;> simp_all [setLoc, upd] <;> grind

/-- the `resumed` mark is set only by a resume event for that unit, which requires the unit to be completely suspended
(state BLOCKED, location blocked) and not already resumed: one resume, one way out -/
theorem resume_requires_blocked (s s' : St) (u : UnitId) (hs : step s (.resume u) = some s') :
    s.loc u = .blocked ∧ s.st u = .blocked ∧ s.resumed u = false ∧ s'.resumed u = true := by
  simp only [step, stepResume] at hs
  split at hs
  · rename_i h; cases hs; exact ⟨h.1, h.2.1, h.2.2, by simp [upd]⟩
  · cases hs

/-- **runs exactly once per resume**: leaving the blocked location consumes the resume mark -/
theorem resume_runs_exactly_once (s s' : St) (e : Ev) (hs : step s e = some s') (u : UnitId)
    (hb : s.loc u = .blocked) (hleave : s'.loc u ≠ .blocked) : s'.resumed u = false := by
  cases e <;>
    simp only [step, stepCreate, stepPush, stepPop, stepSetSt, stepRun, stepUserStart, stepUserEnd, stepCb, stepIncB,
      stepDecB, stepResume, stepFinish, stepTerminate, stepFree, stepReqSet, stepReqClr, stepMigrate, stepJoinRet, stepXferB] at hs <;>
    (repeat' (split at hs)) <;> (try cases hs) <;> simp_all [setLoc, upd] <;> grind

/-- **resume-race safety**: in every reachable state a unit whose state reads BLOCKED is at the blocked location: its
context is saved, the scheduler callback has finished its increment; a resumer on another stream that acts the moment
BLOCKED becomes visible therefore never pushes a unit that is still switching -/
theorem resume_race_safe (s : St) (h : machine.Reachable s) (u : UnitId) (hb : s.st u = .blocked) :
    s.loc u = .blocked ∧ (s.resumed u = false → s.charged u = true) := by
  have hi := inv_reachable s h
  have hl := hi.stBlockedLoc u hb
  exact ⟨hl, fun hr => (hi.blockedCharged u hl hr).1⟩

/-- a resumed unit is at the blocked location until it is pushed or run (nobody else can have it) -/
theorem resumed_is_blocked (s : St) (h : machine.Reachable s) (u : UnitId) (hr : s.resumed u = true) : s.loc u = .blocked :=
  (inv_reachable s h).resumedBlocked u hr

/-- directed switch to a blocked unit (resume_yield_to / exit hand-off to the joiner): the target is run directly, without
passing through a pool, and only after a resume event -/
example :
    (machine.run init
      [.create 1 0, .push 0 1, .pop 7 0 1, .setSt 1 .running, .run 7 1, .userStart 1, .cb 7 1 .suspend, .incB 1 0,
       .setSt 1 .blocked, .resume 1, .decB 1 0, .setSt 1 .running, .run 7 1]).map
        (fun s => decide (s.loc 1 = .running 7 ∧ s.nb 0 = 0 ∧ s.lag 1 = 0)) = some true := by decide

/-- running a blocked unit without a resume is rejected -/
example : (machine.run init
      [.create 1 0, .push 0 1, .pop 7 0 1, .setSt 1 .running, .run 7 1, .cb 7 1 .suspend, .incB 1 0,
       .setSt 1 .blocked, .setSt 1 .running]).isNone = true := by decide

end ArgoVerif.Props.C11
