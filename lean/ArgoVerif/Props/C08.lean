import ArgoVerif.Proofs.Barrier2
import ArgoVerif.Gen.Consts
/-
Props.C08 — barriers release nobody early and everybody once the last waiter arrives.
All theorems quantify over every trace accepted by the barrier model, i.e. over every interleaving of
the steps (call, lock acquisition, enqueue, wake-ups, lock release, return, reinit) of any number of
ULT / tasklet / external callers over any number of rounds.  `num_waiters` is positive
(ABT_barrier_create and ABT_barrier_reinit refuse 0).
-/
namespace ArgoVerif.Props.C08
open ArgoVerif ArgoVerif.Model.Barrier

/-- the invariant is inductive for the whole step function -/
theorem inv_step (s s' : St) (e : Ev) (h : Inv s) (hs : step s e = some s') : Inv s' := by
  cases e with
  | call a => exact inv_stepCall s s' a h hs
  | ret a rc => exact inv_stepRet s s' a rc h hs
  | acq a old => cases old
                 · exact inv_stepAcq_f s s' a h hs
                 · exact inv_stepAcq_t s s' a h hs
  | enq a => exact inv_stepEnq s s' a h hs
  | wake a n => exact inv_stepWake s s' a n h hs
  | rel a c nw e => exact inv_stepRel s s' a c nw e h hs
  | reinit n rc => exact inv_stepReinit s s' n rc h hs
  | obsLock v => simp only [step] at hs; split at hs <;> simp_all
  | obs c nw => simp only [step] at hs; split at hs <;> simp_all
  | fsamp a v => exact inv_stepFsamp s s' a v h hs
  | fbump a v => exact inv_stepFbump s s' a v h hs
  | obsF v => simp only [step] at hs; split at hs <;> simp_all

/-- every reachable state satisfies the invariant -/
theorem inv_reachable (k : Actor → Kind) (n : Nat) (hn : 0 < n) (s : St) (h : (machine k n).Reachable s) : Inv s :=
  Machine.invariant_reachable (machine k n) Inv (inv_init k n hn) (fun s e s' hi hs => inv_step s s' e hi hs) s h

/-- **nobody returns early**: whenever a caller returns successfully from ABT_barrier_wait, the round
its call was counted into (`roundOf a`, fixed at the `counter++` of its critical section) has received
exactly `need` entries, where `need` is the value of `num_waiters` in effect for that round.  Every
entry is a distinct call (one `acq` step of a caller at `called`). -/
theorem barrier_none_early (k : Actor → Kind) (n : Nat) (hn : 0 < n) (s s' : St) (h : (machine k n).Reachable s)
    (a : Actor) (hs : step s (.ret a .ok) = some s') :
    s.entered (s.roundOf a) = s.need (s.roundOf a) ∧ 0 < s.need (s.roundOf a) := by
  have hi := inv_reachable k n hn s h
  have hrel : Released (s.pc a) := by
    simp only [step, stepRet] at hs
    split at hs <;> simp_all [Released]
  have h1 := hi.relRound a hrel; have h2 := hi.past; have h3 := hi.entNow; have h4 := hi.needNow; have h5 := hi.nwPos
  grind

/-- `need` of a round is the `num_waiters` in force when its entries are counted: the step that counts
an entry records it. -/
theorem barrier_entry_counts (s s' : St) (a : Actor) (hs : step s (.acq a false) = some s') (hp : s.pc a = .called) :
    s'.roundOf a = s.round ∧ s'.entered s.round = s.entered s.round + 1 ∧ s'.need s.round = s.nw ∧
    s'.counter = s.counter + 1 := by
  simp only [step, stepAcq] at hs
  split at hs
  · cases hs
  · simp only [Bool.false_eq_true, if_false, hp] at hs
    cases hs
    simp [enter, setPc]

/-- **the last arrival releases everybody and resets in the same critical section**: when the last
arrival of a round releases the barrier lock, the wait-list is empty, nobody is left waiting (every
waiter of the round has been made ready inside this critical section), the counter is 0 again and the
round number has advanced — all in one step, i.e. before any other caller can get the lock. -/
theorem barrier_all_released (k : Actor → Kind) (n : Nat) (hn : 0 < n) (s s' : St) (h : (machine k n).Reachable s)
    (a : Actor) (c nw : Nat) (e : Bool) (hs : step s (.rel a c nw e) = some s') (hp : s.pc a = .csLast) :
    s.q = [] ∧ (∀ b, ¬ InQ (s'.pc b)) ∧ s'.counter = 0 ∧ s'.round = s.round + 1 ∧ s'.lock = none ∧
    c = 0 ∧ e = true := by
  have hi := inv_reachable k n hn s h
  have hi' := inv_step s s' _ hi hs
  simp only [step, stepRel, hp] at hs
  split at hs
  · rename_i hqw
    have hq := hqw.1
    obtain ⟨h1, h2, _, h4⟩ := chk_some _ _ _ _ _ hs
    subst h1
    refine ⟨hq, ?_, rfl, rfl, rfl, h2, ?_⟩
    · intro b hb
      have := (hi'.inQ b).mpr hb
      simp [setPc, hq] at this
    · simp [h4, setPc, hq]
  · cases hs

/-- every waiter that is woken was waiting in the *current* round, and it is woken by a caller whose
own entry completed that round (counter = num_waiters) -/
theorem barrier_wake_current_round (k : Actor → Kind) (n : Nat) (hn : 0 < n) (s s' : St) (h : (machine k n).Reachable s)
    (a b : Actor) (hs : step s (.wake a b) = some s') :
    s.roundOf b = s.round ∧ s.counter = s.nw ∧ InQ (s.pc b) ∧ s'.pc b = .woken := by
  have hi := inv_reachable k n hn s h
  simp only [step, stepWake] at hs
  split at hs
  · rename_i hd tl hpc hq
    split at hs
    · rename_i hn'
      subst hn'
      cases hs
      have hm : hd ∈ s.q := by rw [hq]; simp
      exact ⟨hi.qRound hd hm, hi.cntLast a hpc, (hi.inQ hd).mp hm, by simp [setPc]⟩
    · cases hs
  · cases hs

/-- **round isolation**: a call that gets the lock is counted into the current round, and at that
moment the wait-list holds exactly the earlier arrivals of this same round (nobody of an earlier round
is still queued, nobody of this round is missing): `counter` = length of the list = entries of the
round so far < `num_waiters`.  Because the reset and the broadcast happen in the critical section that
completes a round (`barrier_all_released`), an entry after the reset belongs to round k+1. -/
theorem barrier_round_isolation (k : Actor → Kind) (n : Nat) (hn : 0 < n) (s s' : St) (h : (machine k n).Reachable s)
    (a : Actor) (hs : step s (.acq a false) = some s') (hp : s.pc a = .called) :
    s'.roundOf a = s.round ∧ (∀ b, b ∈ s.q → s.roundOf b = s.round) ∧
    s.counter = s.q.length ∧ s.entered s.round = s.counter ∧ s.counter < s.nw := by
  have hi := inv_reachable k n hn s h
  have hl := acq_f_free s s' a hs
  have hc := hi.cntFree hl
  exact ⟨(barrier_entry_counts s s' a hs hp).1, hi.qRound, hc.1, hi.entNow, hc.2⟩

/-- **no lost waiter**: a caller that is waiting is in the wait-list of the current round, so the
last arrival of this round will wake it (`barrier_all_released`) -/
theorem barrier_waiting_is_queued (k : Actor → Kind) (n : Nat) (hn : 0 < n) (s : St) (h : (machine k n).Reachable s)
    (a : Actor) (ha : s.pc a = .waiting) : a ∈ s.q ∧ s.roundOf a = s.round := by
  have hi := inv_reachable k n hn s h
  have hm : a ∈ s.q := (hi.inQ a).mpr (by rw [ha]; trivial)
  exact ⟨hm, hi.qRound a hm⟩

/-- a released caller can return (the return step is enabled) unless it is an external waiter that
still holds the lock in its wait loop -/
theorem barrier_released_can_return (s : St) (a : Actor) (ha : s.pc a = .woken ∨ s.pc a = .done) :
    ∃ s', step s (.ret a .ok) = some s' := by
  rcases ha with ha | ha <;> simp [step, stepRet, ha]

/-- **reinit**: ABT_barrier_reinit with a positive count (called, as documented, while nobody is inside
the barrier: counter = 0) only replaces `num_waiters`; the state is again that of a fresh barrier with
the new count as far as rounds are concerned — the invariant holds, so all round theorems apply, and
the next entries record the new count as their `need`. -/
theorem barrier_reinit (k : Actor → Kind) (n : Nat) (hn : 0 < n) (s s' : St) (h : (machine k n).Reachable s)
    (m : Nat) (hm : m ≠ 0) (rc : Rc) (hs : step s (.reinit m rc) = some s') :
    rc = .ok ∧ s.counter = 0 ∧ s'.nw = m ∧ s'.counter = 0 ∧ s'.q = s.q ∧ s'.round = s.round ∧ Inv s' := by
  have hi' := inv_step s s' _ (inv_reachable k n hn s h) hs
  simp only [step, stepReinit, hm, if_false] at hs
  split at hs
  · rename_i hc
    cases hs
    exact ⟨hc.1, hc.2, rfl, hc.2, rfl, rfl, hi'⟩
  · cases hs

/-- **re-initialisation does not disturb the waiters that are still leaving** — the futex generation word.
ABT_barrier_reinit changes `num_waiters` and nothing else: not the program counter of any caller, not the wait-list,
and in particular not the generation word `waitlist.futex.val` nor what any sleeper sampled from it. -/
theorem barrier_reinit_keeps_generation (s s' : St) (m : Nat) (rc : Rc) (hs : step s (.reinit m rc) = some s') :
    s'.fval = s.fval ∧ s'.samp = s.samp ∧ s'.wny = s.wny ∧ s'.pc = s.pc ∧ s'.q = s.q ∧ s'.lock = s.lock ∧
    s'.counter = s.counter := by
  simp only [step, stepReinit] at hs
  (repeat' (split at hs)) <;> first | (cases hs; done) | (cases hs; simp)

/-- **a woken external waiter leaves its futex loop**.  A non-ULT waiter sleeps in
`do futex_wait(val, original_val) while (val == original_val)` with `original_val` sampled under the barrier lock.
In every reachable state: the generation word never goes back below a sample (`samp a ≤ fval`); and once the last
arrival that dequeued a non-ULT waiter `a` has released the lock (more generally: whenever no increment is pending),
the word is strictly greater than what `a` sampled — so `a`'s re-check finds `val ≠ original_val` and `a` returns, no
matter how late it runs and whatever happened in between: further rounds, and ABT_barrier_reinit
(`barrier_reinit_keeps_generation`).  The only writer of the word is a broadcaster inside its critical section
(`fbump` is enabled at `csLast` only), each write increments it, and a broadcaster that woke a non-ULT waiter cannot
release the lock before it has incremented the word.
Not modelled: wrap-around of the 32-bit word (2^32 broadcasts while one waiter sleeps). -/
theorem barrier_ext_woken_leaves_futex_loop (k : Actor → Kind) (n : Nat) (hn : 0 < n) (s : St)
    (h : (machine k n).Reachable s) :
    (∀ a, s.samp a ≤ s.fval) ∧
    (∀ a, s.kind a ≠ .ult → s.pc a = .woken → (s.lock = none ∨ s.wny = false) → s.samp a < s.fval) ∧
    (∀ a v s', step s (.fbump a v) = some s' → s.pc a = .csLast ∧ s.lock = some a ∧ s'.fval = s.fval + 1) ∧
    (∀ a c nw e s', step s (.rel a c nw e) = some s' → s.pc a = .csLast → s.wny = false) := by
  have hi := inv_reachable k n hn s h
  refine ⟨hi.sampLe, ?_, ?_, ?_⟩
  · intro a hk hp hl
    have hw : s.wny = false := by
      rcases hl with hl | hl
      · cases hwn : s.wny with
        | false => rfl
        | true => exact absurd hl (hi.wnyCS hwn).1
      · exact hl
    rcases hi.wokenLt a hk (Or.inl hp) with h1 | h1
    · exact h1
    · rw [hw] at h1; cases h1
  · intro a v s' hs
    simp only [step, stepFbump] at hs
    split at hs
    · rename_i hc
      cases hs
      exact ⟨hc.1, (hi.lockIff a).mpr (by rw [hc.1]; trivial), hc.2.2.2⟩
    · cases hs
  · intro a c nw e s' hs hp
    simp only [step, stepRel, hp] at hs
    split at hs
    · rename_i hqw; exact hqw.2
    · cases hs

/-- ABT_barrier_reinit(0) fails with ABT_ERR_INV_ARG and changes nothing -/
theorem barrier_reinit_zero (s s' : St) (rc : Rc) (hs : step s (.reinit 0 rc) = some s') : rc = .errInvArg ∧ s' = s := by
  simp only [step, stepReinit, if_true] at hs
  split at hs
  · rename_i hc; cases hs; exact ⟨hc, rfl⟩
  · cases hs

/-- **a tasklet is rejected and nothing changes** (1.x API): a tasklet's ABT_barrier_wait can only
return ABT_ERR_BARRIER, it never takes the lock, and after its return every field of the barrier —
and the ghost round bookkeeping — is what it was before the call. -/
theorem barrier_tasklet_rejected_nochange (s s1 s2 : St) (a : Actor) (rc : Rc) (hk : s.kind a = .task)
    (h1 : step s (.call a) = some s1) (h2 : step s1 (.ret a rc) = some s2) :
    rc = .errBarrier ∧ s2.counter = s.counter ∧ s2.nw = s.nw ∧ s2.q = s.q ∧ s2.lock = s.lock ∧
    s2.round = s.round ∧ s2.entered = s.entered ∧ s2.pc a = .idle := by
  simp only [step, stepCall] at h1
  split at h1
  · cases h1
    simp only [step, stepRet, setPc, hk, if_true, upd_same] at h2
    cases rc <;> simp at h2
    cases h2
    simp
  · cases h1

/-- a tasklet never gets past the rejection: in every reachable state it is idle or about to return the error -/
theorem barrier_tasklet_never_waits (k : Actor → Kind) (n : Nat) (hn : 0 < n) (s : St) (h : (machine k n).Reachable s)
    (a : Actor) (hk : s.kind a = .task) : s.pc a = .idle ∨ s.pc a = .rejected :=
  (inv_reachable k n hn s h).taskPc a hk

/-- mutual exclusion of the critical sections and the counter bound: whoever holds the lock is unique,
and whenever the lock is free the counter is below `num_waiters` (so the assertion at the top of the
critical section of ABT_barrier_wait holds) -/
theorem barrier_counter_bound (k : Actor → Kind) (n : Nat) (hn : 0 < n) (s : St) (h : (machine k n).Reachable s) :
    (s.lock = none → s.counter < s.nw ∧ s.counter = s.q.length) ∧
    (∀ a b, HoldsLock (s.pc a) → HoldsLock (s.pc b) → a = b) := by
  have hi := inv_reachable k n hn s h
  refine ⟨fun hl => ⟨(hi.cntFree hl).2, (hi.cntFree hl).1⟩, ?_⟩
  intro a b ha hb
  have h1 := (hi.lockIff a).mpr ha
  have h2 := (hi.lockIff b).mpr hb
  rw [h1] at h2; exact Option.some.inj h2

/-- non-vacuity: num_waiters = 2, actors 1 (ULT) and 2 (external thread) do two rounds, actor 2 re-enters
fast: it is the first of round 1 while actor 1 (woken) has not yet returned from round 0; actor 3 (tasklet) is
rejected; then reinit to 1 and a one-waiter round. -/
example :
    ((machine (fun a => if a = 1 then .ult else if a = 2 then .ext else .task) 2).run
        (init (fun a => if a = 1 then .ult else if a = 2 then .ext else .task) 2)
      [.call 1, .acq 1 false, .enq 1, .call 3, .rel 1 1 2 false, .ret 3 .errBarrier,
       .call 2, .acq 2 false, .wake 2 1, .rel 2 0 2 true, .ret 2 .ok,
       .call 2, .acq 2 false, .enq 2, .fsamp 2 0, .rel 2 1 2 false, .acq 2 false, .fsamp 2 0, .rel 2 1 2 false,
       .ret 1 .ok, .call 1, .acq 1 false, .wake 1 2, .obsF 0, .fbump 1 1, .rel 1 0 2 true, .ret 1 .ok,
       .reinit 0 .errInvArg, .reinit 1 .ok, .obsF 1, .ret 2 .ok, .call 1, .acq 1 false, .rel 1 0 1 true, .ret 1 .ok]).map
      (fun s => ([s.round, s.entered 0, s.entered 1, s.entered 2, s.need 2, s.counter, s.fval, s.samp 2], s.q, s.pc 1, s.pc 2))
      = some ([3, 2, 2, 1, 1, 0, 1, 0], [], .idle, .idle) := by decide

/-- the model rejects an early return (actor 1 returns although the second waiter never came) … -/
example :
    (machine (fun _ => .ult) 2).run (init (fun _ => .ult) 2)
      [.call 1, .acq 1 false, .enq 1, .rel 1 1 2 false, .ret 1 .ok] = none := by decide

/-- … and a last arrival that wakes only the head of the list (signal instead of broadcast) -/
example :
    (machine (fun _ => .ult) 3).run (init (fun _ => .ult) 3)
      [.call 1, .acq 1 false, .enq 1, .rel 1 1 3 false, .call 2, .acq 2 false, .enq 2, .rel 2 2 3 false,
       .call 3, .acq 3 false, .wake 3 1, .rel 3 0 3 false] = none := by decide

/-- … a last arrival that woke an external waiter and releases the lock without having advanced the futex word, and
any write of that word outside a broadcast (e.g. by a re-initialisation) -/
example :
    (machine (fun a => if a = 1 then .ext else .ult) 2).run (init (fun a => if a = 1 then .ext else .ult) 2)
      [.call 1, .acq 1 false, .enq 1, .fsamp 1 0, .rel 1 1 2 false, .call 2, .acq 2 false, .wake 2 1, .rel 2 0 2 true] = none ∧
    (machine (fun a => if a = 1 then .ext else .ult) 2).run (init (fun a => if a = 1 then .ext else .ult) 2)
      [.call 1, .acq 1 false, .enq 1, .fsamp 1 0, .rel 1 1 2 false, .call 2, .acq 2 false, .wake 2 1, .fbump 2 1,
       .rel 2 0 2 true, .ret 2 .ok, .reinit 2 .ok, .fbump 2 0] = none := by decide

/-! ### ABT_xstream_barrier -/
open ArgoVerif.Model in
/-- the invariant of the xstream-barrier model holds in every reachable state -/
theorem xinv_reachable (n : Nat) (s : XBarrier.St) (h : (XBarrier.machine n).Reachable s) : XBarrier.Inv s :=
  Machine.invariant_reachable (XBarrier.machine n) XBarrier.Inv (XBarrier.inv_init n)
    (fun s e s' hi hs => by
      cases e with
      | call a => exact XBarrier.inv_stepCall s s' a hi hs
      | ret a => exact XBarrier.inv_stepRet s s' a hi hs) s h

open ArgoVerif.Model in
/-- **the guard of ABT_xstream_barrier_wait**.  What stream_barrier.c adds around the trusted
primitive `pthread_barrier_wait` (count = num_waiters) is the test `num_waiters > 1`:
(1) with num_waiters ≤ 1 a call does not touch the primitive and can return at once — correct, because
    a round of one caller is complete by that call alone;
(2) with num_waiters > 1 the call enters the primitive, and
(3) in both cases a return happens only when the round of that call has received
    max(num_waiters, 1) calls.
TRUSTED: the behaviour of pthread_barrier_wait (here: the virtual barrier of the controlled scheduler),
modelled as "callers collect in `arrived` until `num_waiters` are inside, then exactly those are released". -/
theorem xbarrier_guard (n : Nat) (s s' : XBarrier.St) (h : (XBarrier.machine n).Reachable s) (a : Actor) :
    (s.nw ≤ 1 → XBarrier.step s (.call a) = some s' → s'.arrived = s.arrived ∧ s'.pc a = .skipped ∧
        ∃ s'', XBarrier.step s' (.ret a) = some s'') ∧
    (1 < s.nw → XBarrier.step s (.call a) = some s' → (s'.pc a = .inPrim ∧ a ∈ s'.arrived) ∨ s'.pc a = .released) ∧
    (XBarrier.step s (.ret a) = some s' → s.entered (s.roundOf a) = (if 1 < s.nw then s.nw else 1)) := by
  have hi := xinv_reachable n s h
  refine ⟨?_, ?_, ?_⟩
  · intro hn hs
    have h1 : ¬ 1 < s.nw := by omega
    by_cases hp : s.pc a = .idle
    · simp [XBarrier.step, XBarrier.stepCall, hp, h1] at hs
      cases hs
      refine ⟨rfl, by simp, ?_⟩
      simp [XBarrier.step, XBarrier.stepRet]
    · simp [XBarrier.step, XBarrier.stepCall, hp] at hs
  · intro hn hs
    by_cases hp : s.pc a = .idle
    · by_cases hl : s.arrived.length + 1 < s.nw
      · simp [XBarrier.step, XBarrier.stepCall, hp, hn, hl] at hs
        cases hs; left; exact ⟨by simp, by simp⟩
      · simp [XBarrier.step, XBarrier.stepCall, hp, hn, hl] at hs
        cases hs; right; simp
    · simp [XBarrier.step, XBarrier.stepCall, hp] at hs
  · intro hs
    simp only [XBarrier.step, XBarrier.stepRet] at hs
    split at hs
    · rename_i hp
      exact hi.past _ (hi.relRound a hp)
    · cases hs

open ArgoVerif.Model in
/-- non-vacuity: three streams, two rounds; the third arrival releases the first two -/
example :
    ((XBarrier.machine 3).run (XBarrier.init 3)
      [.call 1, .call 2, .call 3, .ret 3, .call 3, .ret 1, .ret 2, .call 2, .call 1, .ret 1, .ret 2, .ret 3]).map
      (fun s => (s.round, s.entered 0, s.entered 1, s.arrived)) = some (2, 3, 3, []) := by decide

open ArgoVerif.Model in
/-- an early return is not a behaviour of the model -/
example : (XBarrier.machine 3).run (XBarrier.init 3) [.call 1, .call 2, .ret 1] = none := by decide


/-! ## widths of the counters modelled as unbounded numbers (generated from the headers on every run) -/
/-- `counter` of ABT_barrier is 8 bytes wide in this tree: the unbounded model agrees with the C field below 2^63 -/
example : ArgoVerif.Gen.Consts.bytesBarrierCounter = 8 := by decide
/-- `num_waiters` is 8 bytes wide in this tree: the unbounded model agrees with the C field below 2^63 -/
example : ArgoVerif.Gen.Consts.bytesBarrierNumWaiters = 8 := by decide

end ArgoVerif.Props.C08
