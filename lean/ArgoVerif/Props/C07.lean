import ArgoVerif.Proofs.TQ
import ArgoVerif.Gen.PoolEnds
import ArgoVerif.Gen.Consts
import ArgoVerif.Proofs.PoolConcH
import ArgoVerif.Proofs.PoolConcM
/-
Props.C07 — built-in pools are queues: the sequential / data-structure half first, the concurrent half
(`Model.PoolConc`: lock discipline, lock-free emptiness pre-checks, linearisation points) at the end of the file.

`thread_queue_t` (src/pool/thread_queue.h) is the only state under FIFO, FIFO_WAIT and RANDWS
pools; every pool function is "take the pool's lock, call thread_queue_*, release".  This file
proves that the pointer-level queue code is a double-ended queue of distinct units
(`tq_refines_deque` and corollaries) and that each pool function calls the end its kind
documents (`pool_kind_ends`, over the table generated from the C sources).  The concurrent
half (lock discipline, linearisation points, pop_wait) is `Model.PoolConc`; it uses
`tq_step_refines` / the `*_spec` lemmas of `Proofs.TQ` as "one critical section = one deque
operation".
-/
namespace ArgoVerif.Props.C07
open ArgoVerif ArgoVerif.Heap ArgoVerif.Model.TQ ArgoVerif.Model.Pool

/-! ## thread_queue refines a deque -/

/-- **one queue operation = one deque operation.**  In any state satisfying the invariant
(`Circ` well-formedness of the `p_prev`/`p_next` ring from `p_head`/`p_tail`, `num_threads` =
length, `is_empty` = 1 iff empty, `is_in_pool u` = 1 iff `u` is queued, units outside the queue
unlinked), each of push_head / push_tail / pop_head / pop_tail / remove / get_size / is_empty

* is defined (no NULL dereference, contract respected) exactly when the deque operation is:
  push of a non-NULL unit not already queued; remove of a non-NULL unit (or any unit when the
  queue is empty — the first coded guard returns before touching it);
* returns the deque's result (pop: the unit at that end, NULL iff empty; remove: `ABT_SUCCESS`
  iff the unit was queued, else `ABT_ERR_POOL` with *nothing* changed);
* re-establishes the invariant, and the new abstract content is the deque's.

This is the lemma the concurrent pool model applies to the body of each critical section. -/
theorem tq_step_refines {s : St} (hi : Inv s) (op : Op) :
    match specStep (abs s) op with
    | none => step s op = none
    | some (xs', o) => ∃ s', step s op = some (s', o) ∧ Inv s' ∧ abs s' = xs' :=
  step_refines hi op

/-- **C07 (sequential): every operation sequence.**  Starting from `thread_queue_init` on units
as `ABTI_unit_init_builtin` leaves them, *every* sequence of queue operations is defined exactly
when the same sequence on a deque of distinct units is, produces the same outputs, and ends in a
well-formed ring representing the deque's final content (so nothing is lost, duplicated or
reordered by the pointer manipulation, including remove from head / middle / tail and the
one-element special cases). -/
theorem tq_refines_deque (ops : List Op) {s : St} (hc : Clean s) :
    match specRun [] ops with
    | none => runOps (init s) ops = none
    | some (xs', os) => ∃ s', runOps (init s) ops = some (s', os) ∧ Inv s' ∧ abs s' = xs' := by
  have h := run_refines ops (init_inv hc).1
  rw [(init_inv hc).2] at h
  exact h

/-- the same from any state satisfying the invariant (e.g. in the middle of a run) -/
theorem tq_refines_deque_from (ops : List Op) {s : St} (hi : Inv s) :
    match specRun (abs s) ops with
    | none => runOps s ops = none
    | some (xs', os) => ∃ s', runOps s ops = some (s', os) ∧ Inv s' ∧ abs s' = xs' :=
  run_refines ops hi

/-- **each pushed unit leaves exactly once.**  After any defined run from an empty queue, the
multiset of pushed units equals the multiset of units handed out (non-NULL pop results and
successfully removed units) plus the units still queued, and no unit is queued twice.  (A unit
may be pushed again after it was handed out; multiset equality counts every round.) -/
theorem tq_each_pushed_popped_once {ops : List Op} {s s' : St} {os : List Out} (hc : Clean s)
    (h : runOps (init s) ops = some (s', os)) :
    (pushedOf ops).Perm (leftOf ops os ++ abs s') ∧ (abs s').Nodup := by
  obtain ⟨hs, hi'⟩ := run_refines_some (init_inv hc).1 h
  rw [(init_inv hc).2] at hs
  have hg : Good ([] : List Nat) := ⟨by simp, by simp⟩
  refine ⟨List.perm_iff_count.mpr (fun a => ?_), hi'.wf.nodup⟩
  have := specRun_count hg hs a
  simp only [List.count_nil, Nat.zero_add, List.count_append] at this ⊢
  exact this

/-- **FIFO order.**  If units only enter by push_tail and leave by pop_head (what FIFO and
FIFO_WAIT pools do, see `pool_kind_ends`), the sequence of popped units followed by the units still
queued *is* the sequence of pushes: units leave in the order they entered. -/
theorem tq_fifo_order {ops : List Op} {s s' : St} {os : List Out} (hc : Clean s)
    (hf : ∀ op ∈ ops, FifoOp op) (h : runOps (init s) ops = some (s', os)) :
    leftOf ops os ++ abs s' = pushedOf ops := by
  obtain ⟨hs, _⟩ := run_refines_some (init_inv hc).1 h
  rw [(init_inv hc).2] at hs
  have := specRun_fifo ⟨by simp, by simp⟩ hf hs
  simpa using this.symm

/-- **size and emptiness are exact** in every state a run can reach (sequentially: whenever the
pool is quiescent): `get_size` is the number of queued units, `is_empty` is true iff there is none,
and a unit's `is_in_pool` flag is 1 iff it is queued. -/
theorem tq_size_exact {ops : List Op} {s s' : St} {os : List Out} (hc : Clean s)
    (h : runOps (init s) ops = some (s', os)) :
    getSize s' = (abs s').length ∧ (isEmptyQ s' = true ↔ abs s' = []) ∧ ∀ u, s'.inPool u = 1 ↔ u ∈ abs s' := by
  obtain ⟨_, hi'⟩ := run_refines_some (init_inv hc).1 h
  refine ⟨hi'.wf.num, ?_, hi'.inPool_iff⟩
  simp only [isEmptyQ, hi'.wf.empty]
  cases abs s' <;> simp

/-- the dumps the differential driver prints are determined by the abstract content: forward
walk = content, backward walk = reversed content -/
theorem tq_dump_exact {s : St} (hi : Inv s) : members s = abs s ∧ membersBack s = (abs s).reverse :=
  ⟨rfl, hi.wf.membersBack_eq⟩

/-- **the body of one critical section** (no closed-world assumption).  For a queue whose pointer
structure represents `xs`, an operation is defined exactly when its contract holds (push: valid unit
with `is_in_pool = 0`; remove from a non-empty queue: valid unit which, if flagged, is in this queue);
then it returns the deque's result, the structure represents the deque's new content, it wrote only
fields of this queue's units and of the pushed unit, and a unit that left is unlinked with
`is_in_pool = 0`.  This is the lemma `Model.PoolConc` instantiates per lock-protected call. -/
theorem tq_critical_section {s : St} {xs : List Nat} (h : WFrel s xs) (op : Op) :
    (Contract s xs op → ∃ s' xs' o, step s op = some (s', o) ∧ specStep xs op = some (xs', o) ∧ LocalEffect s s' xs xs' op) ∧
    (¬ Contract s xs op → step s op = none) :=
  step_local h op

/-- **queues over one set of units do not disturb each other.**  In a process state where every queue
is well formed, no unit is in two queues, `is_in_pool` is 1 exactly for queued units and unqueued
units are unlinked: an operation on queue `i` is defined exactly under the contract (which here reads:
a pushed unit is in *no* queue; a unit removed from a non-empty queue is not in *another* queue — the
guard `is_in_pool == 1` of `thread_queue_remove` cannot tell, the flag is per unit), acts on queue `i`
as the deque operation, leaves every other queue's content unchanged and preserves all of the above. -/
theorem tq_queues_independent {w : World} (hi : WInv w) (i : Nat) (op : Op) :
    (Contract (w.get i) (w.abs i) op →
      ∃ w' o, w.step i op = some (w', o) ∧ WInv w' ∧ specStep (w.abs i) op = some (w'.abs i, o) ∧
        ∀ j, j ≠ i → w'.abs j = w.abs j) ∧
    (¬ Contract (w.get i) (w.abs i) op → w.step i op = none) :=
  world_step hi i op

/-- every defined run over any number of queues, from all queues empty, is a run of independent
deques (one per queue) with the same outputs; units may move between queues (pop here, push there) -/
theorem tq_world_refines (ops : List (Nat × Op)) {w' : World} {os : List Out}
    (h : World.initial.run ops = some (w', os)) :
    WInv w' ∧ specWorldRun (fun _ => []) ops = some (w'.abs, os) := by
  have := world_run_refines ops World.initial_inv h
  exact ⟨this.1, this.2⟩

/-! ### non-vacuity -/

/-- a concrete heap: push 3 units at the tail, one at the head, remove from the middle, pop both ends -/
example :
    (runOps (init St.fresh) [.pushTail 1, .pushTail 2, .pushTail 3, .pushHead 4, .remove 2, .size,
        .popHead, .popTail, .remove 9, .popHead, .popHead, .isEmpty]).map (·.2)
      = some [.unit, .unit, .unit, .unit, .rc .success, .size 3,
        .popped 4, .popped 3, .rc .errPool, .popped 1, .popped 0, .empty true] := by decide

/-- the invariant's structural part holds on a 4-unit ring and describes it (head 4, tail 3) -/
example : ∃ s', runOps (init St.fresh) [.pushTail 1, .pushTail 2, .pushTail 3, .pushHead 4] = some (s', [.unit, .unit, .unit, .unit])
    ∧ Circ s'.prev s'.next s'.head s'.tail [4, 1, 2, 3] ∧ members s' = [4, 1, 2, 3] ∧ membersBack s' = [3, 2, 1, 4] :=
  ⟨_, rfl, by decide, by decide, by decide⟩

/-- hypotheses of the run theorems are satisfiable: the fresh state is clean, so `init` establishes `Inv` -/
example : Inv (init St.fresh) := (init_inv fresh_clean).1

/-- contract violations are undefined in the model, not silently totalised: pushing a queued unit,
pushing NULL, removing NULL from a non-empty queue -/
example : runOps (init St.fresh) [.pushTail 1, .pushHead 1] = none ∧ runOps (init St.fresh) [.pushTail 0] = none
    ∧ runOps (init St.fresh) [.pushTail 1, .remove 0] = none := by decide

/-- two queues sharing units: a unit popped from queue 0 is pushed to queue 1; removing from queue 1 a
unit that sits in queue 0 is outside the contract (undefined), removing a free unit is `ABT_ERR_POOL` -/
example :
    (World.initial.run [(0, .pushTail 1), (0, .pushTail 2), (1, .pushTail 3), (0, .popHead), (1, .pushHead 1),
        (1, .remove 5), (1, .popTail), (1, .popTail), (0, .size)]).map (·.2)
      = some [.unit, .unit, .unit, .popped 1, .unit, .rc .errPool, .popped 3, .popped 1, .size 1] ∧
    World.initial.run [(0, .pushTail 1), (1, .pushTail 3), (1, .remove 1)] = none := by decide

/-! ## which end each pool function uses (generated table) -/

open ArgoVerif.Gen.PoolEnds ArgoVerif.Gen

/-- abt.h: "if one of CREATE, CREATE_TO, REVIVE, REVIVE_TO is set, a work unit is pushed to the head" -/
def docPushHeadMask : Nat :=
  Consts.ctxOpCreate.toNat ||| Consts.ctxOpCreateTo.toNat ||| Consts.ctxOpRevive.toNat ||| Consts.ctxOpReviveTo.toNat

/-- abt.h: "if ABT_POOL_CONTEXT_OWNER_SECONDARY is set, a work unit is popped from the tail" -/
def docPopTailMask : Nat := Consts.ctxOwnerSecondary.toNat

/-- the documented discipline: which queue function a pool operation must call under context `ctx` -/
def specCall (k : Kind) (sl : Slot) (ctx : Nat) : Call := specCallM docPushHeadMask docPopTailMask k sl ctx

/-- the same as a table shape: context tests and callee per call site -/
def expectedShape (k : Kind) (sl : Slot) : List (List Cond × Call) := expectedShapeM docPushHeadMask docPopTailMask k sl

/-- the generated table, site by site, has the documented shape for every kind × access × slot
(kernel evaluation over the 105 generated entries) -/
theorem table_shape : ∀ k ∈ Kind.all, ∀ a ∈ Access.all, ∀ sl ∈ Slot.all,
    (lookup table k a sl).map (fun e => e.sites.map shape) = some (expectedShape k sl) := by decide

/-- **which end each pool operation uses.**  For every pool kind, every access mode and every
way a unit enters or leaves a built-in pool (push, push_many, pop, pop_many, pop_wait,
pop_timedwait, remove), the C function installed in that slot makes exactly one kind of
`thread_queue_*` call under every context word:
FIFO and FIFO_WAIT enqueue at the tail and dequeue at the head whatever the context; RANDWS pushes
at the head iff the context has CREATE / CREATE_TO / REVIVE / REVIVE_TO and pops at the tail iff it
has OWNER_SECONDARY (pop_timedwait, which has no context, pops at the head); remove is
`thread_queue_remove`.  The table is regenerated from fifo.c / fifo_wait.c / randws.c on every run
(tools/poolgen.py): using another end, another mask or another test changes it and this fails. -/
theorem pool_kind_ends (k : Kind) (a : Access) (sl : Slot) :
    ∃ e, lookup table k a sl = some e ∧ ∀ ctx, enabled e.sites ctx = [specCall k sl ctx] := by
  have hk : k ∈ Kind.all := by cases k <;> simp [Kind.all]
  have ha : a ∈ Access.all := by cases a <;> simp [Access.all]
  have hs : sl ∈ Slot.all := by cases sl <;> simp [Slot.all]
  have h := table_shape k hk a ha sl hs
  cases hl : lookup table k a sl with
  | none => simp [hl] at h
  | some e =>
    refine ⟨e, rfl, fun ctx => ?_⟩
    simp only [hl, Option.map_some, Option.some.injEq] at h
    rw [enabled_eq_shape, h]; exact enabledShape_expected _ _ k sl ctx

/-- the model's pool functions resolve, through the generated table, to exactly the documented queue call -/
theorem pool_call_resolved (k : Kind) (a : Access) (sl : Slot) (ctx : Nat) :
    theCall table k a sl ctx = some (specCall k sl ctx) := by
  obtain ⟨e, hl, he⟩ := pool_kind_ends k a sl
  simp [theCall, hl, he ctx]

/-- **push_many keeps array order.**  On a well-formed pool of any kind and access mode, pushing distinct
free units `us` with one `push_many` call puts them at the end the context selects, in array order: a tail
push (FIFO, FIFO_WAIT, RANDWS without a create/revive flag) appends `us`; a RANDWS head push leaves them
in front, last unit first (each goes in front of the previous one) — exactly as the same pushes one by one. -/
theorem pool_push_many_order (k : Kind) (a : Access) (ctx : Nat) {s : St} (hi : Inv s) (us : List Nat)
    (hnd : us.Nodup) (hfree : ∀ u ∈ us, u ≠ 0 ∧ u ∉ abs s) :
    ∃ s', poolPushMany table k a s us ctx = some s' ∧ Inv s' ∧
      abs s' = (if specCall k .pushMany ctx = .pushHead then us.reverse ++ abs s else abs s ++ us) := by
  have hc := pool_call_resolved k a .pushMany ctx
  simp only [poolPushMany, hc, Option.bind_some]
  by_cases hh : k = .randws ∧ ctx &&& docPushHeadMask ≠ 0
  · have : specCall k .pushMany ctx = .pushHead := by simp [specCall, specCallM, hh]
    rw [this]; simpa using pushHead_many hi us hnd hfree
  · have : specCall k .pushMany ctx = .pushTail := by simp [specCall, specCallM, hh]
    rw [this]; simpa using pushTail_many hi us hnd hfree

/-- **pop_many hands out a contiguous run from one end.**  `pop_many` with room for `max` units returns the
first `max` units in queue order (FIFO, FIFO_WAIT, RANDWS owner) or the last `max` units, last first (RANDWS
with OWNER_SECONDARY), fewer only if the pool runs empty, and leaves exactly the others, in order. -/
theorem pool_pop_many_order (k : Kind) (a : Access) (ctx max : Nat) {s : St} (hi : Inv s) :
    ∃ s' got, poolPopMany table k a s max ctx = some (s', got) ∧ Inv s' ∧
      (if specCall k .popMany ctx = .popTail
        then got = (abs s).reverse.take max ∧ abs s' = ((abs s).reverse.drop max).reverse
        else got = (abs s).take max ∧ abs s' = (abs s).drop max) := by
  have hc := pool_call_resolved k a .popMany ctx
  simp only [poolPopMany, hc, Option.bind_some]
  by_cases hh : k = .randws ∧ ctx &&& docPopTailMask ≠ 0
  · have : specCall k .popMany ctx = .popTail := by simp [specCall, specCallM, hh]
    rw [this]
    obtain ⟨s', hl, hi', ha⟩ := popLoop_tail max hi []
    exact ⟨s', _, hl, hi', by simp [ha]⟩
  · have : specCall k .popMany ctx = .popHead := by simp [specCall, specCallM, hh]
    rw [this]
    obtain ⟨s', hl, hi', ha⟩ := popLoop_head max hi []
    exact ⟨s', _, hl, hi', by simp [ha]⟩

/-- non-vacuity: a RANDWS create-push_many of 1,2,3 leaves 3,2,1 (head first); a thief's pop_many(2) then
takes 1 and 2 from the tail; on FIFO the same calls append 1,2,3 and take 1,2 from the head -/
example :
    ((poolPushMany table .randws .mpmc (init St.fresh) [1, 2, 3] 0x1000).map abs = some [3, 2, 1]) ∧
    ((poolPushMany table .randws .mpmc (init St.fresh) [1, 2, 3] 0x1000).bind
        (fun s => (poolPopMany table .randws .mpmc s 2 0x200).map (fun p => (p.2, abs p.1))) = some ([1, 2], [3])) ∧
    ((poolPushMany table .fifo .priv (init St.fresh) [1, 2, 3] 0x1000).bind
        (fun s => (poolPopMany table .fifo .priv s 2 0x200).map (fun p => (p.2, abs p.1))) = some ([1, 2], [3])) := by decide

/-- the `_many` functions (and only the multi-unit or retrying ones) make their queue call inside a
loop — one `thread_queue_*` call per unit; single push / pop / remove make it once, outside any loop -/
theorem pool_many_loops : ∀ e ∈ table,
    ((e.slot = .pushMany ∨ e.slot = .popMany) → e.sites.all (·.inLoop) = true) ∧
    ((e.slot = .push ∨ e.slot = .pop ∨ e.slot = .remove) → e.sites.all (! ·.inLoop) = true) := by decide

/-- non-vacuity: concrete context words.  A RANDWS create-push goes to the head, a yield-push to the
tail; the owner pops the head, a thief (OWNER_SECONDARY) the tail; FIFO ignores all of it. -/
example :
    specCall .randws .push Consts.ctxOpCreate.toNat = .pushHead ∧
    specCall .randws .push Consts.ctxOpYield.toNat = .pushTail ∧
    specCall .randws .pop Consts.ctxOwnerPrimary.toNat = .popHead ∧
    specCall .randws .pop Consts.ctxOwnerSecondary.toNat = .popTail ∧
    specCall .fifo .push Consts.ctxOpCreate.toNat = .pushTail ∧
    specCall .fifoWait .pop Consts.ctxOwnerSecondary.toNat = .popHead := by decide

example : (lookup table .randws .mpmc .push).map (·.fn) = some "pool_push_shared" ∧
    (lookup table .randws .priv .popMany).map (fun e => enabled e.sites 0x200) = some [.popTail] := by decide

end ArgoVerif.Props.C07

/-! ## concurrent half: one pool under any number of concurrent callers (`Model.PoolConc`) -/

namespace ArgoVerif.Props.C07
open ArgoVerif ArgoVerif.Model.PoolConc
open ArgoVerif.Model.TQ (specRun specStep specRun_good specRun_count specRun_fifo pushedOf leftOf FifoOp Good)
open ArgoVerif.Model.Pool (Kind Access Slot lookup)

/-- **mutual exclusion.**  In every reachable state of a pool — any number of actors, any interleaving of their atomic
steps, spinlock kinds (FIFO, RANDWS) and the mutex kind (FIFO_WAIT), shared and private callbacks — at most one actor is
between taking the pool's lock and releasing it (private callbacks: between call and return): the program counters
`csPush … rel` at which `thread_queue_*` code runs are occupied by one actor at a time. -/
theorem pool_mutual_exclusion {cfg : Cfg} {s : St} (hr : (machine cfg).Reachable s) {a b : Actor}
    (ha : InCS (s.pc a)) (hb : InCS (s.pc b)) : a = b := by
  have hi := inv_reachable hr
  have h1 := hi.csOwner a ha
  have h2 := hi.csOwner b hb
  rw [h1] at h2
  exact Option.some.inj h2

/-- **every queue mutation happens while the caller holds the pool's lock.**  For the lock-taking callbacks (every access
mode but PRIV; FIFO_WAIT always): whenever a step that reads or writes the ring — hook 25 link, hook 26 select/unlink,
hook 27 remove, the guards of remove, the `is_empty` / `is_in_pool` publications — is taken in a reachable state, the
stepping actor owns the lock, the lock word is set, and it is inside the critical section. -/
theorem pool_mutation_requires_lock {cfg : Cfg} {s s' : St} {e : Ev} (hr : (machine cfg).Reachable s)
    (hsh : cfg.shared = true) (hm : isMutation e = true) (hs : step cfg s e = some s') :
    s.owner = some (actorOf e) ∧ s.lock = true ∧ InCS (s.pc (actorOf e)) := by
  have hi := inv_reachable hr
  obtain ⟨ho, hc⟩ := mutation_owner hm hs
  refine ⟨ho, ?_, hc⟩
  cases hl : s.lock
  · have := hi.lockOwner hsh hl; rw [this] at ho; simp at ho
  · rfl

/-- **linearizability (refinement form).**  In every reachable state the ghost history — one deque operation per
linearisation step (push: its `is_in_pool := 1` store; pop / pop_many element / pop_wait: hook 26; remove: hook 27 or the
failing guard), in the order in which those steps happened — is a legal *sequential* history of the deque specification
(`specRun` of `Proofs.TQ`, the same specification the pointer-level ring refines) from the empty queue, with exactly the
recorded results, ending in the pool's current content. -/
theorem pool_linearizable {cfg : Cfg} {s : St} (hr : (machine cfg).Reachable s) :
    specRun [] s.linOps = some (s.q, s.linOuts) :=
  (inv_reachable hr).lin

/-- **a pop returns exactly what it removed at its linearisation point.**  Hook 26 appends `pop_head`/`pop_tail` with the
unit it selected (`0` = NULL, iff the queue is empty at that step) to the history and that unit to the call's result list;
`pool_op_result_recorded` says the call returns that list.  So a `pop_many` cannot report a unit it did not take. -/
theorem pool_pop_linearized {cfg : Cfg} {s s' : St} {a : Actor} {r : Nat} {hd : Bool} (hr : (machine cfg).Reachable s)
    (hs : step cfg s (.take a r hd) = some s') :
    s'.linOps = s.linOps ++ [popOp (tailOf (s.cur a))] ∧ s'.linOuts = s.linOuts ++ [.popped r] ∧
    s'.got a = s.got a ++ (if r = 0 then [] else [r]) ∧ (r = 0 ↔ s.q = []) :=
  take_linearized (inv_reachable hr) hs

/-- a push enters the history (and the content, at the end its context selects) at its last atomic step -/
theorem pool_push_linearized {cfg : Cfg} {s s' : St} {a : Actor} {u : Nat}
    (hs : step cfg s (.storeIn a u true) = some s') :
    s'.linOps = s.linOps ++ [pushOp u (headOf (s.cur a))] ∧ s'.linOuts = s.linOuts ++ [.unit] ∧
    s'.q = (if headOf (s.cur a) then u :: s.q else s.q ++ [u]) :=
  push_linearized hs

/-- a successful remove enters the history at hook 27 -/
theorem pool_remove_linearized {cfg : Cfg} {s s' : St} {a : Actor} {u : Nat} (hs : step cfg s (.unlink a u) = some s') :
    s'.linOps = s.linOps ++ [.remove u] ∧ s'.linOuts = s.linOuts ++ [.rc .success] ∧ s'.rcOk a = true ∧
    s.cur a = .remove u :=
  remove_linearized hs

/-- the value a call returns is the one its linearisation steps recorded (units taken, remove's code) -/
theorem pool_op_result_recorded {cfg : Cfg} {s s' : St} {a : Actor} {r : Res} (hs : step cfg s (.ret a r) = some s') :
    r = resultOf s a :=
  ret_recorded hs

/-- **each pushed unit is handed out at most once per push, none is invented.**  In every reachable state the multiset of
units whose push was linearised equals the multiset of units handed out by linearised pops / removes plus the current
content, and the content has no duplicates. -/
theorem pool_each_pushed_popped_once {cfg : Cfg} {s : St} (hr : (machine cfg).Reachable s) :
    (pushedOf s.linOps).Perm (leftOf s.linOps s.linOuts ++ s.q) ∧ s.q.Nodup := by
  have hl := pool_linearizable hr
  have hg : Good ([] : List Nat) := good_nil
  refine ⟨List.perm_iff_count.mpr (fun a => ?_), (specRun_good hg hl).1⟩
  have := specRun_count hg hl a
  simp only [List.count_nil, Nat.zero_add, List.count_append] at this ⊢
  exact this

/-- **FIFO order under concurrency.**  If only tail pushes and head pops were linearised (FIFO and FIFO_WAIT pools:
`pool_kind_ends`; RANDWS without head / tail contexts) and nothing was removed, the units handed out followed by the
current content are the pushes in linearisation order. -/
theorem pool_fifo_order {cfg : Cfg} {s : St} (hr : (machine cfg).Reachable s) (hf : ∀ op ∈ s.linOps, FifoOp op) :
    leftOf s.linOps s.linOuts ++ s.q = pushedOf s.linOps := by
  have := specRun_fifo good_nil hf (pool_linearizable hr)
  simpa using this.symm

/-- **a pop returns nothing only if the pool was empty at some instant during the call.**  Whenever, after any run
`tr`, a pop-like call of actor `a` is about to return fewer units than it asked for (pop / pop_wait / pop_timedwait:
nothing; pop_many: fewer than `max`), the run has a prefix ending in a state whose content is empty and in which that
very call is already in progress (`a` starts no call in the remainder of the run).  This covers the lock-free
`is_empty` pre-checks (which may be stale by the time the caller acts on them) as well as the locked paths. -/
theorem pool_pop_empty_only_if_empty_instant {cfg : Cfg} {tr : List Ev} {s : St} {a : Actor}
    (hrun : (machine cfg).run init tr = some s) (hpc : s.pc a = .retp ∨ s.pc a = .wIdle)
    (hpl : isPopLike (s.cur a) = true) (hlt : (s.got a).length < wants (s.cur a)) :
    EmptyInstant cfg tr a := by
  have hi := inv_run hrun
  have hidle : s.pc a ≠ .idle := by cases hpc with
    | inl e => simp [e]
    | inr e => simp [e]
  have hcg := hi.cntGot a hpl hidle
  have hse := hi.emptySeen a hpl (by cases hpc with
    | inl e => exact Or.inl e
    | inr e => exact Or.inr (Or.inr e))
  cases hse with
  | inl h0 => omega
  | inr h1 => exact sawEmpty_witness tr hrun h1

/-- **remove fails only if the unit was not in the pool** at the observation that made it fail (the lock-free
`is_empty` / `is_in_pool` pre-checks of FIFO_WAIT, or the guards under the lock), within the call. -/
theorem pool_remove_fails_only_if_absent {cfg : Cfg} {s : St} {a : Actor} (hr : (machine cfg).Reachable s)
    (hpc : s.pc a = .retp) (hrm : isRemove (s.cur a) = true) : s.rcOk a = true ∨ s.sawAbsent a = true :=
  (inv_reachable hr).rmSeen a hrm (Or.inl hpc)

/-- **emptiness is exact whenever the pool is quiescent**: when no call is in progress, `is_empty` is 1 iff the pool has
no unit, and every unit in the pool has `is_in_pool = 1`. -/
theorem pool_quiescent_exact {cfg : Cfg} {s : St} (hr : (machine cfg).Reachable s) (hq : ∀ a, s.pc a = .idle) :
    (s.flag = true ↔ s.q = []) ∧ ∀ u ∈ s.q, s.inPool u = true := by
  have hi := inv_reachable hr
  refine ⟨⟨hi.flagQ, fun he => ?_⟩, hi.inQ⟩
  cases hf : s.flag
  · have := hi.lagQ hf he
    cases hl : s.lagF with
    | none => exact absurd hl this
    | some a => have := hi.lagPc a hl; simp [hq a] at this
  · rfl

/-! ### non-vacuity and rejected traces -/

/-- a real interleaving on a shared spinlock pool: actor 2's pop reads `is_empty = 1` *after* actor 1 has linked unit 5
but before it published `is_empty = 0` (stale pre-check: returns nothing); then a second pop spins on the held lock,
gets it after the release and takes unit 5 -/
def demoTrace : List Ev :=
  [.call 1 (.push 5 false), .tas 1 false, .link 1 5 false, .call 2 (.pop false), .loadEmpty 2 true, .ret 2 (.popped []),
   .storeEmpty 1 false, .call 2 (.pop false), .loadEmpty 2 false, .tas 2 true, .loadEmpty 2 false, .loadLock 2 true,
   .storeIn 1 5 true, .clear 1, .loadEmpty 2 false, .loadLock 2 false, .tas 2 false, .ret 1 .unit, .take 2 5 true,
   .storeEmpty 2 true, .storeIn 2 5 false, .clear 2, .ret 2 (.popped [5])]

example : ((machine ⟨.spin, true⟩).run init demoTrace).map (fun s => (s.q, s.flag, s.lock, s.linOps, s.linOuts)) =
    some ([], true, false, [.pushTail 5, .popHead], [.unit, .popped 5]) := by decide

/-- `pool_mutual_exclusion` / `pool_mutation_requires_lock` talk about states that exist: after its successful
test-and-set and the link step, actor 1 is inside the critical section, owns the set lock, and its next step is a mutation -/
example : ∃ s, (machine ⟨.spin, true⟩).run init (demoTrace.take 3) = some s ∧ InCS (s.pc 1) ∧ s.owner = some 1 ∧
    s.lock = true ∧ (step ⟨.spin, true⟩ s (.storeEmpty 1 false)).isSome = true :=
  ⟨_, rfl, by decide, by decide, by decide, by decide⟩

/-- `pool_quiescent_exact`: a quiescent state with a unit in the pool (flag 0, `is_in_pool` 1) -/
example : ((machine ⟨.spin, true⟩).run init
    [.call 1 (.push 5 false), .tas 1 false, .link 1 5 false, .storeEmpty 1 false, .storeIn 1 5 true, .clear 1, .ret 1 .unit]).map
      (fun s => (s.q, s.flag, s.inPool 5, s.pc 1 == .idle)) = some ([5], false, true, true) := by decide

/-- the hypotheses of `pool_pop_empty_only_if_empty_instant` are satisfiable (the empty-handed pop of `demoTrace`) -/
example : ∃ s, (machine ⟨.spin, true⟩).run init (demoTrace.take 5) = some s ∧ s.pc 2 = .retp ∧
    isPopLike (s.cur 2) = true ∧ (s.got 2).length < wants (s.cur 2) :=
  ⟨_, rfl, by decide, by decide, by decide⟩

/-- FIFO_WAIT: push_many of two units under the mutex, a pop_wait that finds the pool empty, waits and is woken,
a pop_many(3) that comes back with the two units and an observed-empty third attempt -/
example : ((machine ⟨.mutex, true⟩).run init
    [.call 2 (.popWait false), .mlock 2, .loadEmpty 2 true, .condWait 2, .call 1 (.pushMany [7, 8] false), .cbPushMany 1 2, .mlock 1,
     .link 1 7 false, .storeEmpty 1 false, .storeIn 1 7 true, .link 1 8 false, .storeIn 1 8 true, .signal 1, .wake 2,
     .munlock 1, .ret 1 .unit, .mlock 2, .take 2 7 true, .storeIn 2 7 false, .munlock 2, .ret 2 (.popped [7]),
     .call 2 (.popMany 3 false), .loadEmpty 2 false, .mlock 2, .take 2 8 true, .storeEmpty 2 true, .storeIn 2 8 false,
     .take 2 0 true, .munlock 2, .ret 2 (.popped [8])]).map (fun s => (s.q, s.linOuts, s.sawEmpty 2)) =
    some ([], [.unit, .unit, .popped 7, .popped 8, .popped 0], true) := by decide

/-- **rejected**: linking a unit without owning the lock is not a run of the model (shared callbacks) … -/
example : (machine ⟨.spin, true⟩).run init [.call 1 (.push 5 false), .link 1 5 false] = none := rfl

/-- … nor is taking a unit while somebody else holds the lock … -/
example : (machine ⟨.spin, true⟩).run init
    [.call 1 (.push 5 false), .tas 1 false, .link 1 5 false, .storeEmpty 1 false, .storeIn 1 5 true,
     .call 2 (.pop false), .loadEmpty 2 false, .take 2 5 true] = none := rfl

/-- … nor a pop_many that reports a unit it did not take (two slots, one unit popped) … -/
example : (machine ⟨.mutex, true⟩).run init
    [.call 1 (.push 5 false), .mlock 1, .link 1 5 false, .storeEmpty 1 false, .storeIn 1 5 true, .signal 1, .munlock 1,
     .ret 1 .unit, .call 2 (.popMany 2 false), .loadEmpty 2 false, .mlock 2, .take 2 5 true, .storeEmpty 2 true,
     .storeIn 2 5 false, .take 2 0 true, .munlock 2, .ret 2 (.popped [5, 0])] = none := rfl

/-- … nor overlapping calls on a private pool (ABT_POOL_ACCESS_PRIV contract) -/
example : (machine ⟨.spin, false⟩).run init [.call 1 (.push 5 false), .call 2 (.pop false)] = none := rfl

/-- private callbacks, one caller: push then pop without any lock operation is a run -/
example : ((machine ⟨.spin, false⟩).run init
    [.call 1 (.push 5 true), .link 1 5 true, .storeEmpty 1 false, .storeIn 1 5 true, .ret 1 .unit,
     .call 1 (.pop true), .take 1 5 false, .storeEmpty 1 true, .storeIn 1 5 false, .ret 1 (.popped [5])]).map
      (fun s => (s.q, s.linOps)) = some ([], [.pushHead 5, .popTail]) := by decide

/-! ### one API-level push_many / pop_many is one atomic multi-unit operation -/

/-- **`ABT_pool_push_threads(_ex)` hands the whole batch to the pool in one callback invocation.**  The only step that
leaves the wrapper (`pmCb`, reached by every push_many call with a non-empty batch) is hook 23 with the count of *all*
units of the call; afterwards the call is inside the callback and never comes back to the wrapper, so the callback is
invoked exactly once per API call, with the full batch. -/
theorem pool_push_many_single_callback {cfg : Cfg} {s s' : St} {a : Actor} {n : Nat} (hr : (machine cfg).Reachable s)
    (hs : step cfg s (.cbPushMany a n) = some s') :
    s.pc a = .pmCb ∧ n = (unitsOf (s.cur a)).length ∧ isPushLike (s.cur a) = true ∧ s'.pc a ≠ .pmCb ∧
    s'.todo a = unitsOf (s.cur a) := by
  have hi := inv_reachable hr
  have h2 := inv2_reachable hr
  simp only [step, stepCbPushMany] at hs
  split at hs
  · simp at hs
  next hg =>
  simp only [Option.some.injEq] at hs; subst hs
  have hpc : s.pc a = .pmCb := by simp_all
  have hn : n = (s.todo a).length := by simp_all
  obtain ⟨hnp, hnr⟩ := (hi.typed a).1 (by simp [hpc, PushPc])
  have hp := pushlike_of_not hnp hnr
  obtain ⟨_, ht⟩ := h2.pre a hp (by simp [hpc, PrePush])
  refine ⟨hpc, by rw [hn, ht], hp, ?_, by simpa [setPc] using ht⟩
  simpa [setPc, upd] using bodyPc_ne_pmCb cfg (s.cur a)

/-- **one push_many is one atomic multi-push, whatever its length.**  When a push / push_many call has pushed its last
unit and is about to signal / release the lock (or, lock-free callbacks, to return), *every* unit of the call has been
pushed in this one critical section (`done = us`, nothing left to do) … -/
theorem pool_push_many_complete {cfg : Cfg} {s : St} {a : Actor} (hr : (machine cfg).Reachable s)
    (hp : isPushLike (s.cur a) = true) (hpc : s.pc a = .sig ∨ s.pc a = .rel ∨ s.pc a = .retp) :
    s.done a = unitsOf (s.cur a) ∧ s.todo a = [] := by
  have h2 := inv2_reachable hr
  have ht := h2.fin a hp hpc
  have hb := h2.batch a hp (by rcases hpc with e | e | e <;> simp [e])
  have : pending s a = [] := by rcases hpc with e | e | e <;> simp [pending, e]
  rw [this, ht] at hb
  exact ⟨by simpa using hb.symm, ht⟩

/-- … and while the call is inside that critical section the pool's content is exactly what the call found when it took the
lock plus, contiguously and in array order at the end its context selects (head pushes: reversed, in front), the units
it has pushed so far.  With `pool_mutual_exclusion` nobody else touches the ring in between: no other operation can
observe a strict prefix of the batch, and no other producer's unit can land inside it. -/
theorem pool_push_many_contiguous {cfg : Cfg} {s : St} {a : Actor} (hr : (machine cfg).Reachable s)
    (hcs : InCS (s.pc a)) (hp : isPushLike (s.cur a) = true) :
    s.q = if headOf (s.cur a) then (s.done a).reverse ++ s.base a else s.base a ++ s.done a :=
  (inv2_reachable hr).contig a hcs hp

/-- **one pop_many is one atomic multi-pop.**  While a pop-like call is inside its critical section, what it found when it
took the lock is what it has taken so far followed by what is left (tail pops: what is left followed by the taken units,
last first): it takes a contiguous run from one end, in queue order, within one lock hold. -/
theorem pool_pop_many_contiguous {cfg : Cfg} {s : St} {a : Actor} (hr : (machine cfg).Reachable s)
    (hcs : InCS (s.pc a)) (hp : isPopLike (s.cur a) = true) :
    s.base a = if tailOf (s.cur a) then s.q ++ (s.got a).reverse else s.got a ++ s.q :=
  (inv2_reachable hr).taken a hcs hp

/-- non-vacuity: a three-unit push_many on a pool holding unit 9, just before the release: everything pushed, contiguous -/
example : ((machine ⟨.spin, true⟩).run init
    [.call 1 (.push 9 false), .tas 1 false, .link 1 9 false, .storeEmpty 1 false, .storeIn 1 9 true, .clear 1, .ret 1 .unit,
     .call 2 (.pushMany [4, 5, 6] false), .cbPushMany 2 3, .tas 2 false, .link 2 4 false, .storeIn 2 4 true,
     .link 2 5 false, .storeIn 2 5 true, .link 2 6 false, .storeIn 2 6 true]).map
      (fun s => (s.pc 2 == .rel, s.q, s.base 2, s.done 2, s.todo 2)) = some (true, [9, 4, 5, 6], [9], [4, 5, 6], []) := by decide

/-- **rejected**: the wrapper handing over only a part of the batch (hook 23 with 2 of 3 units) is not a run … -/
example : (machine ⟨.spin, true⟩).run init [.call 2 (.pushMany [4, 5, 6] false), .cbPushMany 2 2] = none := rfl

/-- … nor a second callback invocation / a second lock acquisition inside one push_many call -/
example : (machine ⟨.spin, true⟩).run init
    [.call 2 (.pushMany [4, 5] false), .cbPushMany 2 2, .tas 2 false, .link 2 4 false, .storeEmpty 2 false, .storeIn 2 4 true,
     .link 2 5 false, .storeIn 2 5 true, .clear 2, .cbPushMany 2 1] = none ∧
    (machine ⟨.spin, true⟩).run init
    [.call 2 (.pushMany [4, 5] false), .cbPushMany 2 2, .tas 2 false, .link 2 4 false, .storeEmpty 2 false, .storeIn 2 4 true,
     .clear 2] = none := ⟨rfl, rfl⟩

/-! ### the lock discipline of the generated table -/

open ArgoVerif.Gen.PoolEnds in
/-- **every queue call of a callback installed for a shared access mode is made under the pool's lock.**  Over the table
regenerated from fifo.c / fifo_wait.c / randws.c on every run (tools/poolgen.py: per call site, whether it lies between
`ABTD_spinlock_acquire` / a successful `thread_queue_acquire_spinlock_if_not_empty` / `pthread_mutex_lock` and the
release): for every access mode but PRIV, for FIFO_WAIT in every mode, and for pop_wait / pop_timedwait in every mode, each
`thread_queue_push_* / pop_* / remove` call site is locked.  Installing a lock-free callback for SPSC / MPSC / SPMC / MPMC,
or moving a queue call out of the critical section, makes this fail. -/
theorem table_lock_discipline : ∀ e ∈ table,
    (e.access ≠ .priv ∨ e.kind = .fifoWait ∨ e.slot = .popWait ∨ e.slot = .popTimedwait) →
    e.locked.length = e.sites.length ∧ e.locked.all id = true := by decide

/-- the configuration of `Model.PoolConc` the property demands for a pool kind × access mode -/
def specCfg (k : Kind) (a : Access) : Cfg :=
  ⟨if k = .fifoWait then .mutex else .spin, k = .fifoWait || a != .priv⟩

open ArgoVerif.Gen.PoolEnds in
/-- do the push / pop / push_many / pop_many / remove callbacks the table installs for `k × a` take the lock? -/
def tableShared (k : Kind) (a : Access) : Bool :=
  [Slot.push, .pop, .pushMany, .popMany, .remove].all fun sl =>
    (lookup table k a sl).any fun e => e.locked.all id && e.locked.length == e.sites.length

/-- **the code's dispatch is the model's configuration**: for every kind × access mode the callbacks installed by
`ABTI_pool_get_*_def` are lock-taking exactly when `Model.PoolConc` is instantiated with `shared = true` for it, i.e. the
trace validation of T3 (which uses `specCfg`) and the theorems above talk about the configuration the code really uses -/
theorem table_matches_model_cfg : ∀ k ∈ Kind.all, ∀ a ∈ Access.all, tableShared k a = (specCfg k a).shared := by decide

example : specCfg .fifo .spsc = ⟨.spin, true⟩ ∧ specCfg .randws .priv = ⟨.spin, false⟩ ∧ specCfg .fifoWait .priv = ⟨.mutex, true⟩ := by
  decide

end ArgoVerif.Props.C07
