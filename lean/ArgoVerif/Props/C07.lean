import ArgoVerif.Proofs.TQ
import ArgoVerif.Gen.PoolEnds
import ArgoVerif.Gen.Consts
/-
Props.C07 — built-in pools are queues (sequential / data-structure half).

`thread_queue_t` (src/pool/thread_queue.h) is the only state under FIFO, FIFO_WAIT and RANDWS
pools; every pool function is "take the pool's lock, call thread_queue_*, release".  This file
proves that the pointer-level queue code is a double-ended queue of distinct units
(`tq_refines_deque` and corollaries) and that each pool function calls the end its kind
documents (`pool_kind_ends`, over the table generated from the C sources).  The concurrent
half (lock discipline, linearisation points, pop_wait) is `Model.PoolConc`; it uses
`tq_step_refines` / the `*_spec` lemmas of `Proofs.TQ` as "one critical section = one deque
operation".
-/
namespace ArgoVerif.Props.C07
open ArgoVerif ArgoVerif.Heap ArgoVerif.Model.TQ ArgoVerif.Model.Pool

/-! ## thread_queue refines a deque -/

/-- **one queue operation = one deque operation.**  In any state satisfying the invariant
(`Circ` well-formedness of the `p_prev`/`p_next` ring from `p_head`/`p_tail`, `num_threads` =
length, `is_empty` = 1 iff empty, `is_in_pool u` = 1 iff `u` is queued, units outside the queue
unlinked), each of push_head / push_tail / pop_head / pop_tail / remove / get_size / is_empty

* is defined (no NULL dereference, contract respected) exactly when the deque operation is:
  push of a non-NULL unit not already queued; remove of a non-NULL unit (or any unit when the
  queue is empty — the first coded guard returns before touching it);
* returns the deque's result (pop: the unit at that end, NULL iff empty; remove: `ABT_SUCCESS`
  iff the unit was queued, else `ABT_ERR_POOL` with *nothing* changed);
* re-establishes the invariant, and the new abstract content is the deque's.

This is the lemma the concurrent pool model applies to the body of each critical section. -/
theorem tq_step_refines {s : St} (hi : Inv s) (op : Op) :
    match specStep (abs s) op with
    | none => step s op = none
    | some (xs', o) => ∃ s', step s op = some (s', o) ∧ Inv s' ∧ abs s' = xs' :=
  step_refines hi op

/-- **C07 (sequential): every operation sequence.**  Starting from `thread_queue_init` on units
as `ABTI_unit_init_builtin` leaves them, *every* sequence of queue operations is defined exactly
when the same sequence on a deque of distinct units is, produces the same outputs, and ends in a
well-formed ring representing the deque's final content (so nothing is lost, duplicated or
reordered by the pointer manipulation, including remove from head / middle / tail and the
one-element special cases). -/
theorem tq_refines_deque (ops : List Op) {s : St} (hc : Clean s) :
    match specRun [] ops with
    | none => runOps (init s) ops = none
    | some (xs', os) => ∃ s', runOps (init s) ops = some (s', os) ∧ Inv s' ∧ abs s' = xs' := by
  have h := run_refines ops (init_inv hc).1
  rw [(init_inv hc).2] at h
  exact h

/-- the same from any state satisfying the invariant (e.g. in the middle of a run) -/
theorem tq_refines_deque_from (ops : List Op) {s : St} (hi : Inv s) :
    match specRun (abs s) ops with
    | none => runOps s ops = none
    | some (xs', os) => ∃ s', runOps s ops = some (s', os) ∧ Inv s' ∧ abs s' = xs' :=
  run_refines ops hi

/-- **each pushed unit leaves exactly once.**  After any defined run from an empty queue, the
multiset of pushed units equals the multiset of units handed out (non-NULL pop results and
successfully removed units) plus the units still queued, and no unit is queued twice.  (A unit
may be pushed again after it was handed out; multiset equality counts every round.) -/
theorem tq_each_pushed_popped_once {ops : List Op} {s s' : St} {os : List Out} (hc : Clean s)
    (h : runOps (init s) ops = some (s', os)) :
    (pushedOf ops).Perm (leftOf ops os ++ abs s') ∧ (abs s').Nodup := by
  obtain ⟨hs, hi'⟩ := run_refines_some (init_inv hc).1 h
  rw [(init_inv hc).2] at hs
  have hg : Good ([] : List Nat) := ⟨by simp, by simp⟩
  refine ⟨List.perm_iff_count.mpr (fun a => ?_), hi'.wf.nodup⟩
  have := specRun_count hg hs a
  simp only [List.count_nil, Nat.zero_add, List.count_append] at this ⊢
  exact this

/-- **FIFO order.**  If units only enter by push_tail and leave by pop_head (what FIFO and
FIFO_WAIT pools do, see `pool_kind_ends`), the sequence of popped units followed by the units still
queued *is* the sequence of pushes: units leave in the order they entered. -/
theorem tq_fifo_order {ops : List Op} {s s' : St} {os : List Out} (hc : Clean s)
    (hf : ∀ op ∈ ops, FifoOp op) (h : runOps (init s) ops = some (s', os)) :
    leftOf ops os ++ abs s' = pushedOf ops := by
  obtain ⟨hs, _⟩ := run_refines_some (init_inv hc).1 h
  rw [(init_inv hc).2] at hs
  have := specRun_fifo ⟨by simp, by simp⟩ hf hs
  simpa using this.symm

/-- **size and emptiness are exact** in every state a run can reach (sequentially: whenever the
pool is quiescent): `get_size` is the number of queued units, `is_empty` is true iff there is none,
and a unit's `is_in_pool` flag is 1 iff it is queued. -/
theorem tq_size_exact {ops : List Op} {s s' : St} {os : List Out} (hc : Clean s)
    (h : runOps (init s) ops = some (s', os)) :
    getSize s' = (abs s').length ∧ (isEmptyQ s' = true ↔ abs s' = []) ∧ ∀ u, s'.inPool u = 1 ↔ u ∈ abs s' := by
  obtain ⟨_, hi'⟩ := run_refines_some (init_inv hc).1 h
  refine ⟨hi'.wf.num, ?_, hi'.inPool_iff⟩
  simp only [isEmptyQ, hi'.wf.empty]
  cases abs s' <;> simp

/-- the dumps the differential driver prints are determined by the abstract content: forward
walk = content, backward walk = reversed content -/
theorem tq_dump_exact {s : St} (hi : Inv s) : members s = abs s ∧ membersBack s = (abs s).reverse :=
  ⟨rfl, hi.wf.membersBack_eq⟩

/-- **the body of one critical section** (no closed-world assumption).  For a queue whose pointer
structure represents `xs`, an operation is defined exactly when its contract holds (push: valid unit
with `is_in_pool = 0`; remove from a non-empty queue: valid unit which, if flagged, is in this queue);
then it returns the deque's result, the structure represents the deque's new content, it wrote only
fields of this queue's units and of the pushed unit, and a unit that left is unlinked with
`is_in_pool = 0`.  This is the lemma `Model.PoolConc` instantiates per lock-protected call. -/
theorem tq_critical_section {s : St} {xs : List Nat} (h : WFrel s xs) (op : Op) :
    (Contract s xs op → ∃ s' xs' o, step s op = some (s', o) ∧ specStep xs op = some (xs', o) ∧ LocalEffect s s' xs xs' op) ∧
    (¬ Contract s xs op → step s op = none) :=
  step_local h op

/-- **queues over one set of units do not disturb each other.**  In a process state where every queue
is well formed, no unit is in two queues, `is_in_pool` is 1 exactly for queued units and unqueued
units are unlinked: an operation on queue `i` is defined exactly under the contract (which here reads:
a pushed unit is in *no* queue; a unit removed from a non-empty queue is not in *another* queue — the
guard `is_in_pool == 1` of `thread_queue_remove` cannot tell, the flag is per unit), acts on queue `i`
as the deque operation, leaves every other queue's content unchanged and preserves all of the above. -/
theorem tq_queues_independent {w : World} (hi : WInv w) (i : Nat) (op : Op) :
    (Contract (w.get i) (w.abs i) op →
      ∃ w' o, w.step i op = some (w', o) ∧ WInv w' ∧ specStep (w.abs i) op = some (w'.abs i, o) ∧
        ∀ j, j ≠ i → w'.abs j = w.abs j) ∧
    (¬ Contract (w.get i) (w.abs i) op → w.step i op = none) :=
  world_step hi i op

/-- every defined run over any number of queues, from all queues empty, is a run of independent
deques (one per queue) with the same outputs; units may move between queues (pop here, push there) -/
theorem tq_world_refines (ops : List (Nat × Op)) {w' : World} {os : List Out}
    (h : World.initial.run ops = some (w', os)) :
    WInv w' ∧ specWorldRun (fun _ => []) ops = some (w'.abs, os) := by
  have := world_run_refines ops World.initial_inv h
  exact ⟨this.1, this.2⟩

/-! ### non-vacuity -/

/-- a concrete heap: push 3 units at the tail, one at the head, remove from the middle, pop both ends -/
example :
    (runOps (init St.fresh) [.pushTail 1, .pushTail 2, .pushTail 3, .pushHead 4, .remove 2, .size,
        .popHead, .popTail, .remove 9, .popHead, .popHead, .isEmpty]).map (·.2)
      = some [.unit, .unit, .unit, .unit, .rc .success, .size 3,
        .popped 4, .popped 3, .rc .errPool, .popped 1, .popped 0, .empty true] := by decide

/-- the invariant's structural part holds on a 4-unit ring and describes it (head 4, tail 3) -/
example : ∃ s', runOps (init St.fresh) [.pushTail 1, .pushTail 2, .pushTail 3, .pushHead 4] = some (s', [.unit, .unit, .unit, .unit])
    ∧ Circ s'.prev s'.next s'.head s'.tail [4, 1, 2, 3] ∧ members s' = [4, 1, 2, 3] ∧ membersBack s' = [3, 2, 1, 4] :=
  ⟨_, rfl, by decide, by decide, by decide⟩

/-- hypotheses of the run theorems are satisfiable: the fresh state is clean, so `init` establishes `Inv` -/
example : Inv (init St.fresh) := (init_inv fresh_clean).1

/-- contract violations are undefined in the model, not silently totalised: pushing a queued unit,
pushing NULL, removing NULL from a non-empty queue -/
example : runOps (init St.fresh) [.pushTail 1, .pushHead 1] = none ∧ runOps (init St.fresh) [.pushTail 0] = none
    ∧ runOps (init St.fresh) [.pushTail 1, .remove 0] = none := by decide

/-- two queues sharing units: a unit popped from queue 0 is pushed to queue 1; removing from queue 1 a
unit that sits in queue 0 is outside the contract (undefined), removing a free unit is `ABT_ERR_POOL` -/
example :
    (World.initial.run [(0, .pushTail 1), (0, .pushTail 2), (1, .pushTail 3), (0, .popHead), (1, .pushHead 1),
        (1, .remove 5), (1, .popTail), (1, .popTail), (0, .size)]).map (·.2)
      = some [.unit, .unit, .unit, .popped 1, .unit, .rc .errPool, .popped 3, .popped 1, .size 1] ∧
    World.initial.run [(0, .pushTail 1), (1, .pushTail 3), (1, .remove 1)] = none := by decide

/-! ## which end each pool function uses (generated table) -/

open ArgoVerif.Gen.PoolEnds ArgoVerif.Gen

/-- abt.h: "if one of CREATE, CREATE_TO, REVIVE, REVIVE_TO is set, a work unit is pushed to the head" -/
def docPushHeadMask : Nat :=
  Consts.ctxOpCreate.toNat ||| Consts.ctxOpCreateTo.toNat ||| Consts.ctxOpRevive.toNat ||| Consts.ctxOpReviveTo.toNat

/-- abt.h: "if ABT_POOL_CONTEXT_OWNER_SECONDARY is set, a work unit is popped from the tail" -/
def docPopTailMask : Nat := Consts.ctxOwnerSecondary.toNat

/-- the documented discipline: which queue function a pool operation must call under context `ctx` -/
def specCall (k : Kind) (sl : Slot) (ctx : Nat) : Call := specCallM docPushHeadMask docPopTailMask k sl ctx

/-- the same as a table shape: context tests and callee per call site -/
def expectedShape (k : Kind) (sl : Slot) : List (List Cond × Call) := expectedShapeM docPushHeadMask docPopTailMask k sl

/-- the generated table, site by site, has the documented shape for every kind × access × slot
(kernel evaluation over the 105 generated entries) -/
theorem table_shape : ∀ k ∈ Kind.all, ∀ a ∈ Access.all, ∀ sl ∈ Slot.all,
    (lookup table k a sl).map (fun e => e.sites.map shape) = some (expectedShape k sl) := by decide

/-- **which end each pool operation uses.**  For every pool kind, every access mode and every
way a unit enters or leaves a built-in pool (push, push_many, pop, pop_many, pop_wait,
pop_timedwait, remove), the C function installed in that slot makes exactly one kind of
`thread_queue_*` call under every context word:
FIFO and FIFO_WAIT enqueue at the tail and dequeue at the head whatever the context; RANDWS pushes
at the head iff the context has CREATE / CREATE_TO / REVIVE / REVIVE_TO and pops at the tail iff it
has OWNER_SECONDARY (pop_timedwait, which has no context, pops at the head); remove is
`thread_queue_remove`.  The table is regenerated from fifo.c / fifo_wait.c / randws.c on every run
(tools/poolgen.py): using another end, another mask or another test changes it and this fails. -/
theorem pool_kind_ends (k : Kind) (a : Access) (sl : Slot) :
    ∃ e, lookup table k a sl = some e ∧ ∀ ctx, enabled e.sites ctx = [specCall k sl ctx] := by
  have hk : k ∈ Kind.all := by cases k <;> simp [Kind.all]
  have ha : a ∈ Access.all := by cases a <;> simp [Access.all]
  have hs : sl ∈ Slot.all := by cases sl <;> simp [Slot.all]
  have h := table_shape k hk a ha sl hs
  cases hl : lookup table k a sl with
  | none => simp [hl] at h
  | some e =>
    refine ⟨e, rfl, fun ctx => ?_⟩
    simp only [hl, Option.map_some, Option.some.injEq] at h
    rw [enabled_eq_shape, h]; exact enabledShape_expected _ _ k sl ctx

/-- the model's pool functions resolve, through the generated table, to exactly the documented queue call -/
theorem pool_call_resolved (k : Kind) (a : Access) (sl : Slot) (ctx : Nat) :
    theCall table k a sl ctx = some (specCall k sl ctx) := by
  obtain ⟨e, hl, he⟩ := pool_kind_ends k a sl
  simp [theCall, hl, he ctx]

/-- **push_many keeps array order.**  On a well-formed pool of any kind and access mode, pushing distinct
free units `us` with one `push_many` call puts them at the end the context selects, in array order: a tail
push (FIFO, FIFO_WAIT, RANDWS without a create/revive flag) appends `us`; a RANDWS head push leaves them
in front, last unit first (each goes in front of the previous one) — exactly as the same pushes one by one. -/
theorem pool_push_many_order (k : Kind) (a : Access) (ctx : Nat) {s : St} (hi : Inv s) (us : List Nat)
    (hnd : us.Nodup) (hfree : ∀ u ∈ us, u ≠ 0 ∧ u ∉ abs s) :
    ∃ s', poolPushMany table k a s us ctx = some s' ∧ Inv s' ∧
      abs s' = (if specCall k .pushMany ctx = .pushHead then us.reverse ++ abs s else abs s ++ us) := by
  have hc := pool_call_resolved k a .pushMany ctx
  simp only [poolPushMany, hc, Option.bind_some]
  by_cases hh : k = .randws ∧ ctx &&& docPushHeadMask ≠ 0
  · have : specCall k .pushMany ctx = .pushHead := by simp [specCall, specCallM, hh]
    rw [this]; simpa using pushHead_many hi us hnd hfree
  · have : specCall k .pushMany ctx = .pushTail := by simp [specCall, specCallM, hh]
    rw [this]; simpa using pushTail_many hi us hnd hfree

/-- **pop_many hands out a contiguous run from one end.**  `pop_many` with room for `max` units returns the
first `max` units in queue order (FIFO, FIFO_WAIT, RANDWS owner) or the last `max` units, last first (RANDWS
with OWNER_SECONDARY), fewer only if the pool runs empty, and leaves exactly the others, in order. -/
theorem pool_pop_many_order (k : Kind) (a : Access) (ctx max : Nat) {s : St} (hi : Inv s) :
    ∃ s' got, poolPopMany table k a s max ctx = some (s', got) ∧ Inv s' ∧
      (if specCall k .popMany ctx = .popTail
        then got = (abs s).reverse.take max ∧ abs s' = ((abs s).reverse.drop max).reverse
        else got = (abs s).take max ∧ abs s' = (abs s).drop max) := by
  have hc := pool_call_resolved k a .popMany ctx
  simp only [poolPopMany, hc, Option.bind_some]
  by_cases hh : k = .randws ∧ ctx &&& docPopTailMask ≠ 0
  · have : specCall k .popMany ctx = .popTail := by simp [specCall, specCallM, hh]
    rw [this]
    obtain ⟨s', hl, hi', ha⟩ := popLoop_tail max hi []
    exact ⟨s', _, hl, hi', by simp [ha]⟩
  · have : specCall k .popMany ctx = .popHead := by simp [specCall, specCallM, hh]
    rw [this]
    obtain ⟨s', hl, hi', ha⟩ := popLoop_head max hi []
    exact ⟨s', _, hl, hi', by simp [ha]⟩

/-- non-vacuity: a RANDWS create-push_many of 1,2,3 leaves 3,2,1 (head first); a thief's pop_many(2) then
takes 1 and 2 from the tail; on FIFO the same calls append 1,2,3 and take 1,2 from the head -/
example :
    ((poolPushMany table .randws .mpmc (init St.fresh) [1, 2, 3] 0x1000).map abs = some [3, 2, 1]) ∧
    ((poolPushMany table .randws .mpmc (init St.fresh) [1, 2, 3] 0x1000).bind
        (fun s => (poolPopMany table .randws .mpmc s 2 0x200).map (fun p => (p.2, abs p.1))) = some ([1, 2], [3])) ∧
    ((poolPushMany table .fifo .priv (init St.fresh) [1, 2, 3] 0x1000).bind
        (fun s => (poolPopMany table .fifo .priv s 2 0x200).map (fun p => (p.2, abs p.1))) = some ([1, 2], [3])) := by decide

/-- the `_many` functions (and only the multi-unit or retrying ones) make their queue call inside a
loop — one `thread_queue_*` call per unit; single push / pop / remove make it once, outside any loop -/
theorem pool_many_loops : ∀ e ∈ table,
    ((e.slot = .pushMany ∨ e.slot = .popMany) → e.sites.all (·.inLoop) = true) ∧
    ((e.slot = .push ∨ e.slot = .pop ∨ e.slot = .remove) → e.sites.all (! ·.inLoop) = true) := by decide

/-- non-vacuity: concrete context words.  A RANDWS create-push goes to the head, a yield-push to the
tail; the owner pops the head, a thief (OWNER_SECONDARY) the tail; FIFO ignores all of it. -/
example :
    specCall .randws .push Consts.ctxOpCreate.toNat = .pushHead ∧
    specCall .randws .push Consts.ctxOpYield.toNat = .pushTail ∧
    specCall .randws .pop Consts.ctxOwnerPrimary.toNat = .popHead ∧
    specCall .randws .pop Consts.ctxOwnerSecondary.toNat = .popTail ∧
    specCall .fifo .push Consts.ctxOpCreate.toNat = .pushTail ∧
    specCall .fifoWait .pop Consts.ctxOwnerSecondary.toNat = .popHead := by decide

example : (lookup table .randws .mpmc .push).map (·.fn) = some "pool_push_shared" ∧
    (lookup table .randws .priv .popMany).map (fun e => enabled e.sites 0x200) = some [.popTail] := by decide

end ArgoVerif.Props.C07
