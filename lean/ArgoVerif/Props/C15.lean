import ArgoVerif.Proofs.MemPoolPlace
import ArgoVerif.Proofs.StackGeom
import ArgoVerif.Proofs.SyncLifo
import ArgoVerif.Model.MemOwner
import ArgoVerif.Proofs.MemPoolConcX
/-
Props.C15 — descriptors and stacks: exclusive, conserved, any size.

  "Memory handed out for a work unit's descriptor or stack never overlaps that of another live
   work unit, is suitably aligned, and every block is returned exactly once so that ABT_finalize
   releases everything, across any interleaving of creations and frees on any execution streams
   or external threads and any memory-pool configuration.  A ULT may be created with any positive
   stack size or any 8-byte-aligned user-supplied stack, gets at least that much usable stack,
   and can be freed without corrupting the allocator."

Three models carry the statement:
  * Model.MemPool  — the pool allocator (header chains, local pools, global pool);
                     `mempool_*` theorems: all operation sequences, all parameters, all budgets of
                     page allocations (failure injection);
  * Model.StackGeom — where stack and descriptor sit for each provenance; `stack_geom_*`: all sizes,
                     all 8-byte aligned user stacks;
  * Model.SyncLifo — the lock-free LIFO the global pool is built on; `lifo_*`: all interleavings of
                     any number of threads;
  * Model.MemPoolConc — the global pool used by several callers at once (slow paths of take_bucket,
                     return_bucket, the partial bucket, page allocation and its failure) and its
                     tear-down; `mempool_conc_*`, `mempool_destroy_frees_all_pages`: all interleavings
                     of any number of actors at the granularity of the atomic steps.
Property theorems only; lemmas are in Proofs/.
-/
namespace ArgoVerif.Props.C15
open ArgoVerif ArgoVerif.Model

/-! ## memory pool -/
section MemPool
open ArgoVerif.Model.MemPool

/- Vocabulary (defined in Proofs/MemPoolPlace.lean):
  `Place` = `out` (handed out: a live descriptor / stack) | `loc i j` (`buckets[j]` of local pool `i`) |
            `lifo b` (the bucket on the global `bucket_lifo` whose first header is `b`) | `part` (`partial_bucket`);
  `At P s w h`: header `h` is at place `w`, read off the *real* state — chains are followed along `p_next`
            for as many steps as the count stored in the first header says (`per_bucket` steps for a bucket on
            the LIFO, whose count field is overwritten by the LIFO link);
  `ChainOK s b n`: the first `n` headers from `b` exist, are pairwise distinct, and the `n`-th one's `p_next` is NULL. -/

/-- **C15, partition / conservation / returned-once.**  In every state reachable by ANY sequence of
`init_local_pool`, `alloc`, `free` (of a handed-out block), `destroy_local_pool` on any number of
local pools sharing the global pool, with page allocations failing at arbitrary points, for all
parameters the C code accepts:
  1. a header is carved iff it is at some place, and it is at exactly one place — so a block that
     is handed out is in no free chain (it cannot be handed out a second time), a freed block is in
     exactly one chain (returned exactly once), and no carved header is ever lost;
  2. every chain stores its true length, is NULL-terminated and repetition-free: full buckets below
     `bucket_index` and on the LIFO hold `per_bucket` headers, the current bucket between 1 and
     `per_bucket`, the partial bucket between 1 and `per_bucket - 1` (this is where F4 failed);
  3. `bucket_index` stays inside `buckets[]`;
  4. no block is handed out twice at the same time. -/
theorem mempool_partition (P : Params) (hP : P.OK) (budget : Nat) (s : St)
    (hr : (machine P budget).Reachable s) :
    (∀ h, h ∈ s.carved ↔ ∃ w, At P s w h) ∧
    (∀ h w w', At P s w h → At P s w' h → w = w') ∧
    (∀ i lp j, s.lp i = some lp → j ≤ lp.bidx →
        ChainOK s (lp.buckets j) (s.cnt (lp.buckets j)) ∧ 1 ≤ s.cnt (lp.buckets j) ∧
        s.cnt (lp.buckets j) ≤ P.perBucket ∧ (j < lp.bidx → s.cnt (lp.buckets j) = P.perBucket)) ∧
    (∀ b, b ∈ s.lifo → ChainOK s b P.perBucket) ∧ s.lifo.Nodup ∧
    (∀ p, s.part = some p → ChainOK s p (s.cnt p) ∧ 1 ≤ s.cnt p ∧ s.cnt p < P.perBucket) ∧
    (∀ i lp, s.lp i = some lp → lp.bidx < P.maxLocal) ∧
    s.out.Nodup ∧ s.carved.Nodup := by
  have h := reachable_inv hP budget s hr
  refine ⟨?_, ?_, ?_, ?_, h.lifoNd, ?_, h.lpBidx, h.outNd, h.carvedNd⟩
  · intro x
    rw [h.carvedOwn]
    constructor
    · intro hx
      cases ho : s.own x with
      | unused => exact absurd ho hx
      | out => exact ⟨.out, (h.outOwn x).mpr ho⟩
      | loc i j =>
        obtain ⟨lp, h1, _, h3⟩ := h.locOwn x i j ho
        exact ⟨.loc i j, lp, h1, h3, ((bucket_walk (h.lpB i lp j h1 (Nat.zero_le _) h3).1).1 x).mpr ho⟩
      | lifo b =>
        have hb := h.lifoOwn x b ho
        exact ⟨.lifo b, hb, ((bucket_walk (h.lifoB b hb)).1 x).mpr ho⟩
      | part =>
        cases hp : s.part with
        | none => exact absurd ho (h.partOwn hp x)
        | some p => exact ⟨.part, p, hp, ((bucket_walk (h.partB p hp).1).1 x).mpr ho⟩
      | tmp => exact absurd ho (h.tmpOwn rfl x)
    · rintro ⟨w, hw⟩ e
      have := at_own h hw
      rw [e] at this; cases this
  · intro x w w' h1 h2
    have a := at_own h h1
    have b := at_own h h2
    rw [a] at b; exact Option.some.inj b
  · intro i lp j h1 h2
    obtain ⟨k1, k2, k3, k4⟩ := h.lpB i lp j h1 (Nat.zero_le _) h2
    exact ⟨(bucket_walk k1).2, k2, k3, k4⟩
  · intro b hb; exact (bucket_walk (h.lifoB b hb)).2
  · intro p hp
    obtain ⟨k1, k2, k3⟩ := h.partB p hp
    exact ⟨(bucket_walk k1).2, k2, k3⟩

/-- **C15, no overlap, inside the page.**  Header `(p, off)` occupies bytes `[off, off + header_size)`
of page `p`.  In every reachable state every carved header lies inside the usable part of an
allocated page (below the `ABTI_mem_pool_page` descriptor at the page's end) at a multiple of
`header_size`, and two distinct carved headers of one page are at least `header_size` apart: the
memory of two blocks — handed out or free — never overlaps. -/
theorem mempool_no_overlap (P : Params) (hP : P.OK) (budget : Nat) (s : St)
    (hr : (machine P budget).Reachable s) :
    (∀ x, x ∈ s.carved → x.1 < s.npages ∧ x.2 + P.headerSize ≤ P.pageSize - P.pageStruct ∧ P.headerSize ∣ x.2) ∧
    (∀ x y, x ∈ s.carved → y ∈ s.carved → x ≠ y →
        x.1 ≠ y.1 ∨ x.2 + P.headerSize ≤ y.2 ∨ y.2 + P.headerSize ≤ x.2) := by
  have h := reachable_inv hP budget s hr
  constructor
  · intro x hx
    have hu := (h.carvedOwn x).mp hx
    have h1 := h.geo.pgIn x hu
    have h2 := h.geo.pgSum x.1 h1.1
    exact ⟨h1.1, by omega, h.geo.offDvd x hu⟩
  · intro x y hx hy hne
    by_cases e : x.1 = y.1
    · exact Or.inr (h.geo.sep x y ((h.carvedOwn x).mp hx) ((h.carvedOwn y).mp hy) e hne)
    · exact Or.inl e

/-- the same in address space: if the pages obtained from the OS are pairwise disjoint
(`base p` = address of page `p`, `page_size` bytes each — the `posix_memalign`/`mmap` contract),
the byte ranges of two distinct carved headers are disjoint; and if pages and `header_size` are
64-byte aligned (`ABTU_malloc`ed or `mmap`ed pages; descriptor elements are 128 bytes, stack
elements a multiple of 64) every block is 64-byte aligned. -/
theorem mempool_blocks_disjoint_aligned (P : Params) (hP : P.OK) (budget : Nat) (s : St)
    (hr : (machine P budget).Reachable s) (base : Nat → Nat)
    (hbase : ∀ p q, p ≠ q → base p + P.pageSize ≤ base q ∨ base q + P.pageSize ≤ base p) :
    (∀ x y, x ∈ s.carved → y ∈ s.carved → x ≠ y →
        base x.1 + x.2 + P.headerSize ≤ base y.1 + y.2 ∨ base y.1 + y.2 + P.headerSize ≤ base x.1 + x.2) ∧
    ((∀ p, base p % 64 = 0) → 64 ∣ P.headerSize → ∀ x, x ∈ s.carved → (base x.1 + x.2) % 64 = 0) := by
  obtain ⟨h1, h2⟩ := mempool_no_overlap P hP budget s hr
  constructor
  · intro x y hx hy hne
    have a := h1 x hx
    have b := h1 y hy
    rcases h2 x y hx hy hne with e | e | e
    · rcases hbase x.1 y.1 e with k | k <;> omega
    · by_cases e' : x.1 = y.1
      · rw [e']; omega
      · rcases hbase x.1 y.1 e' with k | k <;> omega
    · by_cases e' : x.1 = y.1
      · rw [e']; omega
      · rcases hbase x.1 y.1 e' with k | k <;> omega
  · intro hb hd x hx
    obtain ⟨k, hk⟩ := Nat.dvd_trans hd (h1 x hx).2.2
    have := hb x.1
    omega

/-- **C15, alloc is fresh.**  A block returned by `ABTI_mem_pool_alloc` in any reachable state was
not handed out at that moment (it was in a bucket of the caller's local pool), is a carved header,
and is handed out afterwards; `ABT_ERR_MEM` hands out nothing. -/
theorem mempool_alloc_fresh (P : Params) (hP : P.OK) (budget : Nat) (s s' : St) (i : Nat) (r : Option Hdr)
    (hr : (machine P budget).Reachable s) (hs : stepO P s (.alloc i) = some (s', .mem r)) :
    match r with
    | some c => c ∉ s.out ∧ (∃ j, At P s (.loc i j) c) ∧ c ∈ s.carved ∧ s'.out = c :: s.out
    | none => s'.out = s.out := by
  have h := reachable_inv hP budget s hr
  simp only [stepO, Option.map_eq_some_iff] at hs
  obtain ⟨⟨s1, r1⟩, h1, h2⟩ := hs
  simp only [Prod.mk.injEq, Res.mem.injEq] at h2
  obtain ⟨rfl, rfl⟩ := h2
  obtain ⟨_, _, _, h4⟩ := alloc_inv hP h h1
  cases r1 with
  | none => exact h4
  | some c =>
    obtain ⟨⟨j, hj⟩, ho⟩ := h4
    simp only
    refine ⟨?_, ?_, ?_, ho⟩
    · intro hm; rw [(h.outOwn c).mp hm] at hj; cases hj
    · obtain ⟨lp, q1, _, q3⟩ := h.locOwn c i j hj
      exact ⟨j, lp, q1, q3, ((bucket_walk (h.lpB i lp j q1 (Nat.zero_le _) q3).1).1 c).mpr hj⟩
    · rw [h.carvedOwn, hj]; simp

/-- **C15, free returns the block, once.**  `free` of a handed-out block removes exactly that block
from the handed-out set and keeps the set of carved headers; by `mempool_partition` the block is
then in exactly one chain. -/
theorem mempool_free_returns (P : Params) (hP : P.OK) (budget : Nat) (s s' : St) (i : Nat) (h : Hdr)
    (hr : (machine P budget).Reachable s) (hs : stepO P s (.free i h) = some (s', .unit)) :
    h ∈ s.out ∧ (∀ x, x ∈ s'.out ↔ x ≠ h ∧ x ∈ s.out) ∧ s'.carved = s.carved := by
  have hi := reachable_inv hP budget s hr
  simp only [stepO, Option.map_eq_some_iff] at hs
  obtain ⟨s1, h1, h2⟩ := hs
  simp only [Prod.mk.injEq, and_true] at h2
  subst h2
  obtain ⟨_, a, b, c, _⟩ := free_inv hP hi h1
  exact ⟨c, b, a⟩

/-- **The precondition of `free`, stated explicitly.**  `ABTI_mem_pool_free` performs no check; in
the model a `free` of a pointer that is not currently handed out (double free, foreign pointer) is
not a transition.  All theorems above are about callers that respect this. -/
theorem mempool_free_precondition (P : Params) (s : St) (i : Nat) (h : Hdr) (hn : h ∉ s.out) :
    stepO P s (.free i h) = none := by
  simp [stepO, free, hn]

/-- **C15, no assertion fires, no NULL link is followed.**  In every reachable state `alloc` on an
initialised pool and `init_local_pool` on a free slot are defined: `ABTI_ASSERT(num_headers >= 1)`,
`ABTI_ASSERT(num_provided != 0)` hold and `cur_bucket->p_next` is non-NULL whenever it is used. -/
theorem mempool_no_assert (P : Params) (hP : P.OK) (budget : Nat) (s : St) (i : Nat)
    (hr : (machine P budget).Reachable s) :
    (s.lp i ≠ none → ∃ r, stepO P s (.alloc i) = some r) ∧
    (s.lp i = none → ∃ r, stepO P s (.initLocal i) = some r) := by
  have h := reachable_inv hP budget s hr
  constructor
  · intro hne
    cases hlp : s.lp i with
    | none => exact absurd hlp hne
    | some lp =>
      obtain ⟨r, hr'⟩ := alloc_progress hP h hlp
      exact ⟨(r.1, .mem r.2), by simp [stepO, hr']⟩
  · intro hlp
    obtain ⟨r, hr'⟩ := initLocal_progress hP h hlp
    exact ⟨(r.1, .ok r.2), by simp [stepO, hr']⟩

/-- **C15, finalize releases everything.**  Once every local pool has been destroyed and nothing
is handed out, every header ever carved is in the global pool (a full bucket on the LIFO or the
partial bucket) and lies in a page the global pool knows; `ABTI_mem_pool_destroy_global_pool`
frees exactly those pages. -/
theorem mempool_destroy_returns_all (P : Params) (hP : P.OK) (budget : Nat) (s : St)
    (hr : (machine P budget).Reachable s) (hlp : ∀ i, s.lp i = none) (hout : s.out = []) :
    ∀ h, h ∈ s.carved → ((∃ b, At P s (.lifo b) h) ∨ At P s .part h) ∧ h.1 < s.npages := by
  obtain ⟨p1, _⟩ := mempool_partition P hP budget s hr
  obtain ⟨g1, _⟩ := mempool_no_overlap P hP budget s hr
  intro h hh
  refine ⟨?_, (g1 h hh).1⟩
  obtain ⟨w, hw⟩ := (p1 h).mp hh
  cases w with
  | out => simp [At, hout] at hw
  | loc i j => obtain ⟨lp, q, _⟩ := hw; rw [hlp i] at q; cases q
  | lifo b => exact Or.inl ⟨b, hw⟩
  | part => exact Or.inr hw

/-- `destroy_local_pool` keeps every handed-out block handed out and every carved header carved,
and empties the slot (so "every local pool destroyed" is reachable from any state) -/
theorem mempool_destroy_local (P : Params) (hP : P.OK) (budget : Nat) (s s' : St) (i : Nat)
    (hr : (machine P budget).Reachable s) (hs : stepO P s (.destroyLocal i) = some (s', .unit)) :
    s'.out = s.out ∧ s'.carved = s.carved ∧ s'.lp i = none ∧ ∀ k, k ≠ i → s'.lp k = s.lp k := by
  have hi := reachable_inv hP budget s hr
  simp only [stepO, Option.map_eq_some_iff] at hs
  obtain ⟨s1, h1, h2⟩ := hs
  simp only [Prod.mk.injEq, and_true] at h2
  subst h2
  exact (destroyLocal_inv hP hi h1).2

/-! non-vacuity: parameters as in the white-box harness (3 headers per bucket, 4 headers per page) -/
private def P0 : Params := ⟨3, 64, 56 + 64 * 4, 56, 2⟩

private def runOps (P : Params) (s : St) : List Op → Option (St × List Res)
  | [] => some (s, [])
  | op :: ops => match stepO P s op with
    | none => none
    | some (s', r) => (runOps P s' ops).map fun x => (x.1, r :: x.2)

example : P0.OK := by decide

/-- a history with two local pools, hand-over of a bucket through the global LIFO, a partial
bucket and a failed page allocation: the results -/
example :
    (runOps P0 (init 100)
      [.initLocal 0, .alloc 0, .alloc 0, .alloc 0, .alloc 0, .initLocal 1, .free 1 (0, 128), .free 1 (0, 64),
       .free 1 (0, 0), .free 1 (1, 64), .destroyLocal 1, .budget 0, .alloc 0, .alloc 0]).map (·.2)
      = some [.ok true, .mem (some (0, 128)), .mem (some (0, 64)), .mem (some (0, 0)), .mem (some (1, 64)), .ok true,
              .unit, .unit, .unit, .unit, .unit, .unit, .mem (some (1, 0)), .mem (some (0, 192))] := by decide

/-- the hypotheses of the theorems are satisfiable on that history: it is a run of the machine -/
example : ∃ s, (machine P0 100).Reachable s ∧ s.lifo.length = 2 ∧ s.part ≠ none ∧ s.out.length = 1 :=
  ⟨_, ⟨[.initLocal 0, .alloc 0, .alloc 0, .alloc 0, .alloc 0, .initLocal 1, .free 1 (0, 128), .free 1 (0, 64),
        .free 1 (0, 0), .free 1 (1, 64), .destroyLocal 1, .budget 0, .alloc 0], rfl⟩, by decide, by decide, by decide⟩

/-- teeth of the precondition: the unchecked C function applied to a block that is *not* handed
out (a double free) makes the pool hand out the same block twice -/
example :
    ((runOps P0 (init 100) [.initLocal 0, .alloc 0, .free 0 (0, 128)]).bind fun r1 =>
      (freeRaw P0 r1.1 0 (0, 128)).bind fun s2 => (runOps P0 s2 [.alloc 0, .alloc 0]).map (·.2))
      = some [.mem (some (0, 128)), .mem (some (0, 128))] := by decide

end MemPool

/-! ## stack and descriptor geometry -/
section StackGeom
open ArgoVerif.Model.StackGeom

/-- **C15, "gets at least that much usable stack".**
(1) Runtime-allocated stack of ANY positive size `S` (`ABT_thread_attr_set_stacksize`, not the default
size): with `p` the 64-byte aligned pointer `ABTU_malloc` returned, the stack region
`[p_stacktop - roundup(S,64), p_stacktop)` starts at `p`, has at least `S` bytes, its top is
16-byte aligned so nothing is lost to the ABI alignment, and it lies — together with the descriptor
placed directly above it — inside the `posix_memalign` block; the recorded `stacksize` is `S` and the
`S` bytes below `p_stacktop` that `ABT_thread_get_attr` reports are inside the block too.
(2) Default size from the stack pool: the pool hands out `q = segment + S`; the stack is the
`S` bytes below `q` and the descriptor the `sizeof(ABTI_ythread)` bytes above, both inside the
pool element of `stackPoolHeaderSize S` bytes.
(3) User-supplied stack `[a, a + S)` with `a` 8-byte aligned and `S ≥ 24`: the runtime cannot give
more than it was given; "at least that much" is read as: the initial stack pointer
`(a + S rounded down to 16) - 8` lies inside `[a, a + S)`, the ULT's frames grow downwards from there
inside the region, and at most 15 bytes at the top are lost to the x86-64 ABI's 16-byte alignment
(none when `a + S` is 16-byte aligned). -/
theorem stack_geom_size :
    (∀ (S p : Int), 0 < S → p % 64 = 0 →
      let y := (allocMallocDescStack p S).1
      let src := (allocMallocDescStack p S).2
      src = .malloc p (roundup S CL + YT) ∧
      y.stacktop - roundup S CL = p ∧ S ≤ roundup S CL ∧ usableTop y.stacktop = y.stacktop ∧
      y.stacksize = S ∧ p ≤ y.stacktop - S ∧
      y.desc = y.stacktop ∧ y.desc + YT ≤ p + mallocBytes (roundup S CL + YT)) ∧
    (∀ (S seg : Int), 0 < S → S % 64 = 0 → seg % 64 = 0 →
      let y := (allocPoolDescStack (seg + S) S).1
      y.stacktop - S = seg ∧ usableTop y.stacktop = y.stacktop ∧ y.stacksize = S ∧
      y.desc = y.stacktop ∧ y.desc + YT ≤ seg + stackPoolHeaderSize S ∧ stackPoolHeaderSize S % 64 = 0) ∧
    (∀ (S a d : Int), 24 ≤ S → a % 8 = 0 → a ≠ 0 →
      let y := (allocPoolDesc d a S).1
      y.stacktop = a + S ∧ y.stacksize = S ∧
      a ≤ initialRsp y.stacktop ∧ initialRsp y.stacktop + 8 ≤ a + S ∧
      y.stacktop - usableTop y.stacktop ≤ 15 ∧ usableTop y.stacktop ≤ a + S ∧
      ((a + S) % 16 = 0 → usableTop y.stacktop = a + S) ∧ (initialRsp y.stacktop + 8) % 16 = 0) := by
  refine ⟨?_, ?_, ?_⟩
  · intro S p hS hp
    have r := roundup64 S
    have r2 := roundup64 (roundup S CL + 128)
    simp only [allocMallocDescStack, ctxInit, usableTop, mallocBytes, YT_eq]
    and_intros <;> first | trivial | omega
  · intro S seg hS hS64 hseg
    have r := roundup64 (S + 128)
    simp only [allocPoolDescStack, ctxInit, usableTop, stackPoolHeaderSize]
    by_cases hc : roundup (S + YT) CL % (2 * CL) = 0
    · simp only [if_pos hc]; simp only [YT_eq, CL_eq] at hc r ⊢; and_intros <;> first | trivial | omega
    · simp only [if_neg hc]; simp only [YT_eq, CL_eq] at hc r ⊢; and_intros <;> first | trivial | omega
  · intro S a d hS ha hne
    have u := usableTop_spec (a + S)
    have i := initialRsp_spec (a + S)
    simp only [allocPoolDesc, ctxInit, hne, if_false]
    refine ⟨trivial, trivial, by omega, i.2.1, u.2.1, u.1, ?_, i.2.2.2⟩
    intro h16; simp only [usableTop]; omega

/-- **C15, free is the inverse of allocation — for EVERY size (F1).**  Whatever attribute
`ythread_create` is given (no attribute, any stack size `S` — not only multiples of 64 —, any user
stack), on an execution stream or on an external thread, `ABTI_mem_free_thread` hands back to the
same allocator exactly the pointer that allocator returned: `free()` gets the `posix_memalign`
pointer, `ABTI_mem_pool_free` gets the pool element. -/
theorem stack_geom_free_inverse (attr : Option (Int × Int)) (defS : Int) (onES : Bool) (ptr : Int) :
    (freeThread (create attr defS onES ptr).1).matches (create attr defS onES ptr).2 := by
  unfold create
  cases attr with
  | none => cases onES <;> simp [allocPoolDescStack, allocMallocDescStack, ctxInit, freeThread, Release.matches]
  | some as =>
    obtain ⟨a, S⟩ := as
    simp only
    split
    · split
      · cases onES <;> simp [allocPoolDescStack, allocMallocDescStack, ctxInit, freeThread, Release.matches]
      · split
        · simp [allocMallocDescStack, ctxInit, freeThread, Release.matches]
        · cases onES <;> simp [allocPoolDesc, allocMallocDesc, ctxInit, freeThread, Release.matches]
    · cases onES <;> simp [allocPoolDesc, allocMallocDesc, ctxInit, freeThread, Release.matches]

/-- the statement has teeth: the formula before the repair (`p_stacktop - stacksize`) returns the
allocator's pointer iff the size is a multiple of 64 … -/
theorem stack_geom_old_formula_wrong (S p : Int) :
    (freeThreadOld (allocMallocDescStack p S).1).matches (allocMallocDescStack p S).2 ↔ S % 64 = 0 := by
  have := roundup64_fix_iff S
  simp only [allocMallocDescStack, ctxInit, freeThreadOld, Release.matches]
  constructor
  · intro h; apply this.mp; omega
  · intro h; have := this.mpr h; omega

/-- … e.g. for 16400 bytes it passes `p + 48` to `free()` (`free(): invalid pointer`) -/
example : freeThreadOld (allocMallocDescStack 0 16400).1 = .free 48 := by decide
example : freeThread (allocMallocDescStack 0 16400).1 = .free 0 := by decide
example : (create (some (0, 16400)) 16384 true 0).1.type = .mallocDescStack := by decide

/-- **C15, stack and descriptor of one unit do not overlap, units do not overlap each other.**
For a runtime-allocated ULT the stack `[p, p + roundup S)` and the descriptor
`[p + roundup S, p + roundup S + sizeof(ABTI_ythread))` are disjoint parts of its block
`[p, p + mallocBytes(..))`; hence two units whose blocks are disjoint (allocator contract;
for pool elements `mempool_blocks_disjoint_aligned`) have disjoint stacks and descriptors.
Same for pool elements of `stackPoolHeaderSize S` bytes. -/
theorem stack_geom_disjoint (S1 p1 S2 p2 : Int) (h1 : 0 < S1) (h2 : 0 < S2)
    (hblocks : p1 + mallocBytes (roundup S1 CL + YT) ≤ p2 ∨ p2 + mallocBytes (roundup S2 CL + YT) ≤ p1) :
    let y1 := (allocMallocDescStack p1 S1).1
    let y2 := (allocMallocDescStack p2 S2).1
    -- inside one unit: stack below descriptor
    y1.stacktop ≤ y1.desc ∧
    -- across units: [p, desc + YT) ranges are disjoint
    (y1.desc + YT ≤ p2 ∨ y2.desc + YT ≤ p1) ∧
    -- pool elements: stack + descriptor fit into the element
    (∀ S seg : Int, 0 < S → seg + S + YT ≤ seg + stackPoolHeaderSize S) := by
  have a := roundup64 S1
  have b := roundup64 S2
  have c := roundup64 (roundup S1 CL + YT)
  have d := roundup64 (roundup S2 CL + YT)
  simp only [allocMallocDescStack, ctxInit, mallocBytes, YT_eq] at *
  refine ⟨by omega, by omega, ?_⟩
  intro S seg hS
  have r := roundup64 (S + 128)
  simp only [stackPoolHeaderSize]
  by_cases hc : roundup (S + YT) CL % (2 * CL) = 0
  · simp only [if_pos hc]; simp only [YT_eq, CL_eq] at hc r ⊢; omega
  · simp only [if_neg hc]; simp only [YT_eq, CL_eq] at hc r ⊢; omega

/-- **C15, "suitably aligned".**  The descriptor of a runtime-allocated ULT is 64-byte aligned for
every stack size (so are its `p_stacktop` — 16-byte alignment is what the ABI needs — and the
stack base); a descriptor `ABTU_malloc`ed on an external thread is 64-byte aligned; pool elements
are 64-byte aligned by `mempool_blocks_disjoint_aligned`, and with them the default-size stack top
`segment + S` (`S % 64 = 0` is asserted by `ABTI_mem_init`). -/
theorem stack_geom_align (S p : Int) (hp : p % 64 = 0) :
    (allocMallocDescStack p S).1.desc % 64 = 0 ∧ (allocMallocDescStack p S).1.stacktop % 16 = 0 ∧
    (∀ a S', (allocMallocDesc p a S').1.desc % 64 = 0) ∧
    (∀ seg Sd : Int, seg % 64 = 0 → Sd % 64 = 0 → (allocPoolDescStack (seg + Sd) Sd).1.desc % 64 = 0) := by
  have r := roundup64 S
  simp only [allocMallocDescStack, allocMallocDesc, allocPoolDescStack, ctxInit]
  refine ⟨by omega, by omega, fun _ _ => hp, fun seg Sd h1 h2 => by omega⟩

/-- non-vacuity: the three provenances on concrete numbers -/
example : (allocMallocDescStack 4096 20000).1 = ⟨4096 + 20032, 4096 + 20032, 20000, .mallocDescStack⟩ := by decide
example : initialRsp (1000008 + 16385) = 1016376 ∧ 1000008 ≤ (1016376 : Int) := by decide
example : stackPoolHeaderSize 16384 = 16576 := by decide

end StackGeom

/-! ## the lock-free LIFO under the global pool -/
section SyncLifo
open ArgoVerif.Model.SyncLifo

/-- **C15, the global pool's LIFO is linearizable** (128-bit-CAS branch of `abti_sync_lifo.h`, the one
this build compiles).  For EVERY finite execution of any number of threads interleaved at the
granularity of the atomic primitives (load of `(top, tag)`, store of `p_elem->p_next`, read of
`cur_top->p_next`, weak CAS that may fail spuriously), including owners overwriting the link field of
elements they have popped (the memory pool does: `num_headers` shares storage with the link) and
pushing them again: the sequence of linearization points (successful CAS of a push / of a pop, a
pop's load of NULL — each a step of the calling thread between its call and its return) is a legal
history of a sequential stack with exactly the responses the implementation returned, and the chain
from `p_top` is that stack.  This is what justifies `List` for `bucket_lifo` / `mem_page_lifo` in
Model.MemPool. -/
theorem lifo_linearizable {tr : List Ev} {s : SyncLifo.St} (h : Star Step SyncLifo.init tr s) :
    Spec.run [] (lin tr) = some s.stk ∧ SyncLifo.Seg s.next s.top s.stk none ∧ s.log = lin tr :=
  SyncLifo.lifo_linearizable h

/-- **C15, no ABA.**  If thread `t` loads `(top, tag)` (event `ld`) and its next CAS succeeds (event
`cas`, with no other load by `t` in between), then no successful update of the LIFO by anybody
happened in between — although the *pointer* may well have been popped and pushed back meanwhile,
the tag, which every successful update increments, cannot recur.  Assumption: the tag does not wrap
(`size_t`, 2^64 successful operations between one thread's load and its CAS). -/
theorem lifo_no_aba {tr1 tr2 : List Ev} {ld cas : Ev} {t : Tid} {s0 s : SyncLifo.St}
    (h : Star Step s0 (tr1 ++ [ld] ++ tr2 ++ [cas]) s)
    (hld : ld.isLoadOf t = true) (hcas : cas.isCasOkOf t = true)
    (hlast : ∀ ev ∈ tr2, ev.isLoadOf t = false) :
    ∀ ev ∈ tr2, ev.isUpdate = false :=
  SyncLifo.lifo_no_aba h hld hcas hlast

/-- what a successful CAS therefore knows: the values it read are still current — for a pop, `cur_top`
is still the top of the stack and the `p_next` it read is still the link to the rest of the stack
(nobody scribbled over it: a linked element has no owner) -/
theorem lifo_cas_sees_current {tr : List Ev} {s : SyncLifo.St} (h : Star Step SyncLifo.init tr s) :
    (∀ t e ct cg, s.pc t = .pushStored e ct cg → s.tag = cg →
        s.top = ct ∧ s.next e = ct ∧ e ∉ s.stk ∧ SyncLifo.Seg s.next (s.next e) s.stk none) ∧
    (∀ t c cg n, s.pc t = .popRead c cg n → s.tag = cg →
        s.top = some c ∧ s.next c = n ∧ ∃ rest, s.stk = c :: rest ∧ SyncLifo.Seg s.next n rest none) :=
  SyncLifo.lifo_cas_sees_current h

/-- the tag counts the successful updates -/
theorem lifo_tag_counts {tr : List Ev} {s : SyncLifo.St} (h : Star Step SyncLifo.init tr s) :
    s.tag = tr.countP Ev.isUpdate :=
  SyncLifo.lifo_tag_counts h

/-- the model is of the branch this build compiles: `ABTD_ATOMIC_SUPPORT_TAGGED_PTR` is 1 -/
example : Gen.Consts.taggedPtrCas = 1 := by decide

/-- non-vacuity and teeth: the classic A-B-A interleaving is a behaviour of the model up to the
stale CAS, which is then disabled; with a pointer-only CAS the same trace is accepted and leaves a
corrupted stack (examples in Proofs/SyncLifo.lean, re-checked here) -/
example : machine.run SyncLifo.init (abaTrace ++ [.popCasOk 1 10]) = none := by decide
example : (machine.run SyncLifo.init abaTrace).isSome = true := by decide
example : (machineNoTag.run SyncLifo.init (abaTrace ++ [.popCasOk 1 10])).isSome = true := by decide

end SyncLifo

/-! ## who may use a local pool (the atomicity assumption of Model.MemPool, checked on traces) -/
section MemOwner
open ArgoVerif.Model.MemOwner

/-- the discipline on one reported use -/
def useOk : MemOwner.Ev → Prop
  | .use x b alive => b = some x ∨ alive = false
  | .useExt locked => locked = true

/-- **C15, exclusive use of a local pool.**  In every trace accepted by Model.MemOwner (T3 validates every
controlled-scheduler trace of the work-unit scenarios: joins and frees by ULTs that block inside `ABT_thread_free` and
come back on another execution stream, migration, stream creation and join), each alloc/free on the local pool of
stream `x` is performed by the thread running as `x`, or while no thread runs as `x`; the external pools are used under
their lock.  Hence operations on one local pool never overlap and the atomic steps of Model.MemPool
(`mempool_no_overlap`, `mempool_alloc_fresh`) describe the C code. -/
theorem local_pool_used_by_owner (tr : List MemOwner.Ev) (s s' : MemOwner.St)
    (h : MemOwner.machine.run s tr = some s') : ∀ ev ∈ tr, useOk ev := by
  induction tr generalizing s with
  | nil => intro ev hm; cases hm
  | cons e es ih =>
    intro ev hm
    simp only [Machine.run] at h
    cases hst : MemOwner.machine.step s e with
    | none => simp [hst] at h
    | some s1 =>
      simp only [hst] at h
      cases hm with
      | head =>
        cases e with
        | use x b alive =>
          simp only [MemOwner.machine, MemOwner.step] at hst
          by_cases hb : b = some x
          · exact Or.inl hb
          · by_cases ha : alive = false
            · exact Or.inr ha
            · simp [hb, ha] at hst
        | useExt l =>
          simp only [MemOwner.machine, MemOwner.step] at hst
          cases l <;> simp_all [useOk]
      | tail _ hm' => exact ih s1 h ev hm'

/-- two uses of the same local pool while its stream's thread is alive come from that one thread -/
theorem local_pool_single_user (tr : List MemOwner.Ev) (s s' : MemOwner.St)
    (h : MemOwner.machine.run s tr = some s') (x : MemOwner.ES) (b1 b2 : Option MemOwner.ES)
    (h1 : MemOwner.Ev.use x b1 true ∈ tr) (h2 : MemOwner.Ev.use x b2 true ∈ tr) : b1 = b2 := by
  have a1 := local_pool_used_by_owner tr s s' h _ h1
  have a2 := local_pool_used_by_owner tr s s' h _ h2
  simp only [useOk] at a1 a2
  cases a1 with
  | inl e1 => cases a2 with
    | inl e2 => rw [e1, e2]
    | inr e2 => cases e2
  | inr e1 => cases e1

/-- non-vacuity: the creator of stream 1 (running as 0) allocates stream 1's root ULT from stream 1's pool before its
thread exists, stream 1 then uses its own pool; a free into stream 0's pool by a thread that has moved to stream 1 (the
stale-handle pattern) is rejected -/
example : (MemOwner.machine.run MemOwner.init [.use 1 (some 0) false, .use 1 (some 1) true, .useExt true]).isSome = true := by decide
example : MemOwner.machine.run MemOwner.init [.use 0 (some 0) true, .use 0 (some 1) true] = none := by decide

end MemOwner

/-! ## the global pool under concurrent callers, and its tear-down -/
section MemPoolConc
open ArgoVerif.Model.MemPoolConc

/- Vocabulary (Model/MemPoolConc.lean, Proofs/MemPoolConc*.lean): a run is `Star (Step P) init tr s` — any number of
actors, each inside `init_local_pool / alloc / free / destroy_local_pool`, interleaved at every atomic step of
`ABTI_mem_pool_take_bucket` (pop of `bucket_lifo`; pop of `mem_page_lifo`; `ABTU_alloc_largepage` succeeding or failing;
carving and the push of the page back on `mem_page_lifo` or on the empty-page list), `ABTI_mem_pool_return_bucket`,
`mem_pool_return_partial_bucket` (lock, push of a completed bucket, unlock), followed by
`ABTI_mem_pool_destroy_global_pool`.  `Carved s h`: `p_mem_extra` of `h`'s page has moved past `h`. -/

/- `CPlace` / `CAt s w h` (where a carved header is: a bucket on `bucket_lifo`, `partial_bucket`, the local pool of an
actor, in flight inside a call of an actor, handed out) and `GPlace` / `PgAt s w p` (where a page is: `mem_page_lifo`, the
empty-page list, held by a caller, released) are read off the real state, not the ghost fields
(Proofs/MemPoolConcX.lean). -/

/-- **C15, concurrent partition.**  In every state reachable by ANY interleaving of any number of callers inside the
global pool's take / return / partial-bucket / page-allocation paths (allocation may fail at any call):
  1. a header is carved iff it is at some place — a bucket on `bucket_lifo`, `partial_bucket`, a local pool, in flight
     inside exactly one caller, or handed out — and it is at exactly one place: two callers that are in the slow path of
     `take_bucket` at the same time never obtain the same header, a block handed out is in no free chain, nothing carved
     is ever lost; a header that is not carved is the not-yet-used part of its own page only (ids are `(page, slot)`);
  2. no place holds a header twice;
  3. every carved header lies inside its page (`slot < slots`), so blocks of one page do not overlap
     (`mempool_no_overlap` gives the byte-level statement for the same carving arithmetic). -/
theorem mempool_conc_partition (P : MemPoolConc.Params) (hP : P.OK) {tr : List MemPoolConc.Ev} {s : MemPoolConc.St}
    (hr : Star (MemPoolConc.Step P) MemPoolConc.init tr s) :
    (∀ h, Carved s h ↔ ∃ w, CAt s w h) ∧
    (∀ h w w', CAt s w h → CAt s w' h → w = w') ∧
    (s.bucketLifo.flatten.Nodup ∧ s.part.Nodup ∧ s.out.Nodup ∧
      (∀ a l, s.loc a = some l → (l.full.flatten ++ l.cur).Nodup) ∧ ∀ a, (heldHdrs (s.pc a)).Nodup) ∧
    (∀ h, Carved s h → h.2 < P.slots) := by
  have hi := inv_star P hP hr (inv_init P hP)
  refine ⟨fun h => ?_, fun h w w' h1 h2 => ?_, ⟨hi.h.lifoNd, hi.h.partNd, hi.h.outNd, fun a l hl => ?_, hi.h.heldNd⟩, fun h hc => ?_⟩
  · have hu := hi.h.unc h
    constructor
    · intro hc
      have hne : s.own h ≠ .uncarved := fun e => (hu.mp e) hc
      cases ho : s.own h with
      | uncarved => exact absurd ho hne
      | lifo => exact ⟨.lifo, (cat_own hi .lifo h).mpr ho⟩
      | part => exact ⟨.part, (cat_own hi .part h).mpr ho⟩
      | loc a => exact ⟨.loc a, (cat_own hi (.loc a) h).mpr ho⟩
      | held a => exact ⟨.held a, (cat_own hi (.held a) h).mpr ho⟩
      | out => exact ⟨.out, (cat_own hi .out h).mpr ho⟩
    · rintro ⟨w, hw⟩
      have ho := (cat_own hi w h).mp hw
      refine Classical.byContradiction fun hn => ?_
      have := hu.mpr hn
      rw [this] at ho
      cases w <;> cases ho
  · have a := (cat_own hi w h).mp h1
    have b := (cat_own hi w' h).mp h2
    rw [a] at b
    cases w <;> cases w' <;> simp_all
  · have := hi.h.locNd a
    rw [hl] at this
    exact this
  · obtain ⟨h1, h2⟩ := hc
    have hne : s.pown h.1 ≠ .unalloc := fun e => Nat.not_le.mpr h1 ((hi.p.unalloc h.1).mp e)
    cases hp : s.pown h.1 with
    | unalloc => exact absurd hp hne
    | lifo => have := hi.p.lifoRoom _ hp; omega
    | empty => have := hi.p.emptyFull _ hp; omega
    | held a => have := hi.p.heldRoom a _ hp; omega
    | released => have := hi.p.usedLe h.1; omega

/-- **C15, pages.**  In every reachable state every page obtained from `ABTU_alloc_largepage` (ids `0 .. npages-1`,
pairwise distinct by the allocator's contract) is at exactly one place: on `mem_page_lifo` *with room for at least one
more header*, on the empty-page list *completely carved*, popped / freshly allocated and held by exactly one caller
(which is what lets it update `p_mem_extra` with plain stores), or released by the tear-down; no list holds a page twice.
`mem_page_lifo` may hold ANY number of pages (see the two-caller example below). -/
theorem mempool_conc_pages (P : MemPoolConc.Params) (hP : P.OK) {tr : List MemPoolConc.Ev} {s : MemPoolConc.St}
    (hr : Star (MemPoolConc.Step P) MemPoolConc.init tr s) :
    (∀ p, p < s.npages ↔ ∃ w, PgAt s w p) ∧
    (∀ p w w', PgAt s w p → PgAt s w' p → w = w') ∧
    (s.pageLifo.Nodup ∧ s.emptyPages.Nodup ∧ s.released.Nodup) ∧
    (∀ p, p ∈ s.pageLifo → s.used p < P.slots) ∧ (∀ p, p ∈ s.emptyPages → s.used p = P.slots) ∧
    (∀ a p, heldPage (s.pc a) = some p → s.used p < P.slots) := by
  have hi := inv_star P hP hr (inv_init P hP)
  have key : ∀ w p, PgAt s w p ↔ s.pown p = (match w with
      | .lifo => PPlace.lifo | .empty => PPlace.empty | .held a => PPlace.held a | .released => PPlace.released) := by
    intro w p
    cases w with
    | lifo => exact hi.p.lifo p
    | empty => exact hi.p.empty p
    | held a => exact hi.p.held a p
    | released => exact hi.p.rel p
  refine ⟨fun p => ?_, fun p w w' h1 h2 => ?_, ⟨hi.p.lifoNd, hi.p.emptyNd, hi.p.relNd⟩,
    fun p hp => hi.p.lifoRoom p ((hi.p.lifo p).mp hp), fun p hp => hi.p.emptyFull p ((hi.p.empty p).mp hp),
    fun a p hp => hi.p.heldRoom a p ((hi.p.held a p).mp hp)⟩
  · have hu := hi.p.unalloc p
    constructor
    · intro hlt
      have hne : s.pown p ≠ .unalloc := fun e => Nat.not_le.mpr hlt (hu.mp e)
      cases ho : s.pown p with
      | unalloc => exact absurd ho hne
      | lifo => exact ⟨.lifo, (key .lifo p).mpr ho⟩
      | empty => exact ⟨.empty, (key .empty p).mpr ho⟩
      | held a => exact ⟨.held a, (key (.held a) p).mpr ho⟩
      | released => exact ⟨.released, (key .released p).mpr ho⟩
    · rintro ⟨w, hw⟩
      have ho := (key w p).mp hw
      refine Nat.lt_of_not_le fun hn => ?_
      rw [hu.mpr hn] at ho
      cases w <;> cases ho
  · have a := (key w p).mp h1
    have b := (key w' p).mp h2
    rw [a] at b
    cases w <;> cases w' <;> simp_all

/-- **C15, `mempool_conc_conserved`: concurrent take / return neither loses nor duplicates a header.**  Along any
continuation of any run, a header that is carved stays carved and is again at exactly one place (`CAt`), whatever the
other callers did in between — in particular across two overlapping slow paths of `take_bucket`, across a bucket
completed from `partial_bucket` while others push and pop `bucket_lifo`, and across failed page allocations that hand
their partly built bucket to `partial_bucket`. -/
theorem mempool_conc_conserved (P : MemPoolConc.Params) (hP : P.OK) {tr tr' : List MemPoolConc.Ev} {s s' : MemPoolConc.St}
    (hr : Star (MemPoolConc.Step P) MemPoolConc.init tr s) (hr' : Star (MemPoolConc.Step P) s tr' s') (h : MemPoolConc.Hdr)
    (hc : Carved s h) :
    Carved s' h ∧ ∃ w, CAt s' w h ∧ ∀ w', CAt s' w' h → w' = w := by
  have hi := inv_star P hP hr (inv_init P hP)
  have hc' := carved_mono_star P hP hr' hi h hc
  have hrr : Star (MemPoolConc.Step P) MemPoolConc.init (tr ++ tr') s' := star_append hr hr'
  obtain ⟨p1, p2, _⟩ := mempool_conc_partition P hP hrr
  obtain ⟨w, hw⟩ := (p1 h).mp hc'
  exact ⟨hc', w, hw, fun w' hw' => p2 h w' w hw' hw⟩

/-- **C15, `mempool_destroy_frees_all_pages`: tear-down releases every page exactly once.**  Once
`ABTI_mem_pool_destroy_global_pool` has returned (it may only be called when every local pool has been destroyed and
nobody is inside the pool), every page ever obtained from `ABTU_alloc_largepage` has been given to
`ABTU_free_largepage` exactly once — however many pages `mem_page_lifo` held when tear-down began — and nothing else
was released; if in addition every block was returned, every header ever carved sits in the global pool
(`bucket_lifo` or `partial_bucket`), i.e. inside released pages only. -/
theorem mempool_destroy_frees_all_pages (P : MemPoolConc.Params) (hP : P.OK) {tr : List MemPoolConc.Ev} {s : MemPoolConc.St}
    (hr : Star (MemPoolConc.Step P) MemPoolConc.init tr s) (hd : s.phase = .dead) :
    (∀ p, p ∈ s.released ↔ p < s.npages) ∧ s.released.Nodup ∧ s.released.length = s.npages ∧
    s.pageLifo = [] ∧ s.emptyPages = [] ∧ (∀ a, s.pc a = .idle ∧ s.loc a = none) ∧
    (s.out = [] → ∀ h, Carved s h → CAt s .lifo h ∨ CAt s .part h) := by
  have hi := inv_star P hP hr (inv_init P hP)
  have hne : s.phase ≠ .live := by rw [hd]; simp
  have hidle := hi.d.idle hne
  have hloc := hi.d.noLoc hne
  have hl := hi.d.walkLifo (Or.inr hd)
  have he := hi.d.deadEmpty hd
  have hmem : ∀ p, p ∈ s.released ↔ p < s.npages := by
    intro p
    obtain ⟨q1, _⟩ := mempool_conc_pages P hP hr
    constructor
    · intro hp; exact (q1 p).mpr ⟨.released, hp⟩
    · intro hp
      obtain ⟨w, hw⟩ := (q1 p).mp hp
      cases w with
      | lifo => simp [PgAt, hl] at hw
      | empty => simp [PgAt, he] at hw
      | held a => simp [PgAt, hidle a, heldPage] at hw
      | released => exact hw
  refine ⟨hmem, hi.p.relNd, ?_, hl, he, fun a => ⟨hidle a, hloc a⟩, fun hout h hc => ?_⟩
  · have hperm : s.released.Perm (List.range s.npages) :=
      (List.perm_ext_iff_of_nodup hi.p.relNd List.nodup_range).mpr (fun p => by rw [hmem p, List.mem_range])
    rw [hperm.length_eq, List.length_range]
  · obtain ⟨p1, _⟩ := mempool_conc_partition P hP hr
    obtain ⟨w, hw⟩ := (p1 h).mp hc
    cases w with
    | lifo => exact Or.inl hw
    | part => exact Or.inr hw
    | loc a => obtain ⟨l, hl', _⟩ := hw; rw [hloc a] at hl'; cases hl'
    | held a => simp [CAt, hidle a, heldHdrs] at hw
    | out => simp [CAt, hout] at hw

/-- the premise of tear-down, and what it leaves behind at every moment: `destroy_global_pool` runs only when every
actor is outside the pool and has no local pool; while it runs, a page is either still on one of the two lists or
released — never both, never twice -/
theorem mempool_destroy_progress (P : MemPoolConc.Params) (hP : P.OK) {tr : List MemPoolConc.Ev} {s : MemPoolConc.St}
    (hr : Star (MemPoolConc.Step P) MemPoolConc.init tr s) (hd : s.phase ≠ .live) :
    (∀ a, s.pc a = .idle ∧ s.loc a = none) ∧
    (∀ p, p < s.npages → (p ∈ s.pageLifo ∨ p ∈ s.emptyPages ∨ p ∈ s.released)) ∧
    (∀ p, p ∈ s.released → p ∉ s.pageLifo ∧ p ∉ s.emptyPages) := by
  have hi := inv_star P hP hr (inv_init P hP)
  have hidle := hi.d.idle hd
  obtain ⟨q1, q2, _⟩ := mempool_conc_pages P hP hr
  refine ⟨fun a => ⟨hidle a, hi.d.noLoc hd a⟩, fun p hp => ?_, fun p hp => ⟨fun h1 => ?_, fun h1 => ?_⟩⟩
  · obtain ⟨w, hw⟩ := (q1 p).mp hp
    cases w with
    | lifo => exact Or.inl hw
    | empty => exact Or.inr (Or.inl hw)
    | held a => simp [PgAt, hidle a, heldPage] at hw
    | released => exact Or.inr (Or.inr hw)
  · have := q2 p .released .lifo hp h1; cases this
  · have := q2 p .released .empty hp h1; cases this

/-- **C15, no assertion fires in the concurrent slow path.**  Whoever holds a page (popped from `mem_page_lifo` or fresh)
can carve at least one header from it: `ABTI_ASSERT(num_provided != 0)` holds in every interleaving (a page on
`mem_page_lifo` always has room; the loop runs only while the bucket is incomplete); and the spinlock of
`partial_bucket` is held by exactly the one actor that is inside its critical section. -/
theorem mempool_conc_no_assert (P : MemPoolConc.Params) (hP : P.OK) {tr : List MemPoolConc.Ev} {s : MemPoolConc.St}
    (hr : Star (MemPoolConc.Step P) MemPoolConc.init tr s) :
    (∀ a pu acc p, s.pc a = .havePage pu acc p → numProvided P s p acc ≠ 0 ∧ s.used p + numProvided P s p acc ≤ P.slots ∧
        (numProvided P s p acc + acc.length ≤ P.perBucket)) ∧
    (∀ a, inCS (s.pc a) = true ↔ s.partLock = some a) ∧
    (∀ a a', inCS (s.pc a) = true → inCS (s.pc a') = true → a = a') := by
  have hi := inv_star P hP hr (inv_init P hP)
  refine ⟨fun a pu acc p hpc => ?_, hi.d.lock, fun a a' h1 h2 => ?_⟩
  · have h1 := hi.p.heldRoom a p ((hi.p.held a p).mp (by rw [hpc]; rfl))
    have h2 := hi.z.pc a
    rw [hpc] at h2
    simp only [pcSizes] at h2
    simp only [numProvided]
    omega
  · have := (hi.d.lock a).mp h1
    have := (hi.d.lock a').mp h2
    simp_all

/-- every trace the executable model (`driver mempoolconc`, which validates the controlled-scheduler traces of
`harness/sc_mempool.c`) accepts is a run of the relational system, so the theorems above apply to it -/
theorem mempool_conc_exec_sound (P : MemPoolConc.Params) (hP : P.OK) (tr : List MemPoolConc.Ev) (s : MemPoolConc.St)
    (h : (MemPoolConc.machine P).run MemPoolConc.init tr = some s) : Star (MemPoolConc.Step P) MemPoolConc.init tr s :=
  run_star P hP tr _ _ (inv_init P hP) h

/-! non-vacuity: 2 headers per bucket, 3 headers per page (as small as the white-box scenario's settings) -/
private def PC : MemPoolConc.Params := ⟨2, 3, 2⟩
example : PC.OK := ⟨by decide, by decide, by decide⟩

/-- two callers in the slow path of `take_bucket` at the same time: both find `bucket_lifo` and `mem_page_lifo` empty,
both allocate a page, both push the rest of their page — `mem_page_lifo` ends up with TWO pages -/
private def twoPages : List MemPoolConc.Ev :=
  [.callInit 0, .popBucket 0 none, .popPage 0 none, .callInit 1, .popBucket 1 none, .popPage 1 none,
   .allocPage 0 true, .allocPage 1 true, .pushPage 0 0, .pushPage 1 1, .retInit 0 true, .retInit 1 true]

example : ((MemPoolConc.machine PC).run MemPoolConc.init twoPages).map (fun s => (s.pageLifo, s.npages, s.emptyPages))
    = some ([1, 0], 2, []) := by decide

/-- the complete tear-down after that run: both local pools destroyed, then `destroy_global_pool` pops BOTH pages -/
private def tearDown : List MemPoolConc.Ev :=
  [.callDestroy 0, .pushBucket 0 (some (0, 1)), .retDestroy 0, .callDestroy 1, .pushBucket 1 (some (1, 1)), .retDestroy 1,
   .destroyStart, .relLifo 1, .relLifo 0, .lifoEmpty, .destroyEnd]

example : ((MemPoolConc.machine PC).run MemPoolConc.init (twoPages ++ tearDown)).map
    (fun s => (s.released, s.npages, decide (s.phase = .dead))) = some ([0, 1], 2, true) := by decide

/-- the hypotheses of `mempool_destroy_frees_all_pages` are satisfiable: that trace is a run ending in `dead` -/
example : ∃ s, Star (MemPoolConc.Step PC) MemPoolConc.init (twoPages ++ tearDown) s ∧ s.phase = .dead := by
  have h : ∃ s, (MemPoolConc.machine PC).run MemPoolConc.init (twoPages ++ tearDown) = some s ∧ s.phase = .dead := by
    cases hr : (MemPoolConc.machine PC).run MemPoolConc.init (twoPages ++ tearDown) with
    | none => exact absurd hr (by decide)
    | some s =>
      refine ⟨s, rfl, ?_⟩
      have : ((MemPoolConc.machine PC).run MemPoolConc.init (twoPages ++ tearDown)).map (fun s => decide (s.phase = .dead))
          = some true := by decide
      rw [hr] at this
      simpa using this
  obtain ⟨s, h1, h2⟩ := h
  exact ⟨s, mempool_conc_exec_sound PC ⟨by decide, by decide, by decide⟩ _ _ h1, h2⟩

/-- teeth: a tear-down that pops only ONE page of `mem_page_lifo` and goes on to the empty-page list is not a run — the
model refuses `lifoEmpty` while a page is still on the LIFO (this is the behaviour of a `destroy_global_pool` whose
`while` became an `if`) … -/
example : (MemPoolConc.machine PC).run MemPoolConc.init
    (twoPages ++ [.callDestroy 0, .pushBucket 0 (some (0, 1)), .retDestroy 0, .callDestroy 1, .pushBucket 1 (some (1, 1)),
      .retDestroy 1, .destroyStart, .relLifo 1, .lifoEmpty]) = none := by decide

/-- … and right before that step the ledger is not balanced: page 0 is obtained, not released, still on the LIFO -/
example : ((MemPoolConc.machine PC).run MemPoolConc.init
    (twoPages ++ [.callDestroy 0, .pushBucket 0 (some (0, 1)), .retDestroy 0, .callDestroy 1, .pushBucket 1 (some (1, 1)),
      .retDestroy 1, .destroyStart, .relLifo 1])).map (fun s => (s.released, s.pageLifo, s.npages)) = some ([1], [0], 2) := by
  decide

/-- a failed page allocation in the middle of a bucket hands the carved headers to `partial_bucket`; another caller's
remainder completes a bucket under the lock -/
example : ((MemPoolConc.machine ⟨3, 2, 2⟩).run MemPoolConc.init
    [.callInit 0, .popBucket 0 none, .popPage 0 none, .allocPage 0 true, .pushEmpty 0 0, .popPage 0 none,
     .allocPage 0 false, .lockPart 0, .unlockPart 0, .retInit 0 false,
     .callInit 1, .popBucket 1 none, .popPage 1 none, .allocPage 1 true, .pushEmpty 1 1, .popPage 1 none,
     .allocPage 1 false, .lockPart 1, .pushBucket 1 (some (0, 1)), .unlockPart 1, .retInit 1 false]).map
    (fun s => (s.bucketLifo, s.part, s.emptyPages)) = some ([[(0, 1), (1, 1), (1, 0)]], [(0, 0)], [1, 0]) := by decide

end MemPoolConc

end ArgoVerif.Props.C15
