import ArgoVerif.Proofs.Cond2
import ArgoVerif.Proofs.Cond3
import ArgoVerif.Proofs.Cond4
import ArgoVerif.Proofs.Cond5
import ArgoVerif.Proofs.FutexGen
import ArgoVerif.Gen.Consts
/-
Props.C05 — condition variables: atomic release-and-wait, exact wake-ups, no spurious wake-up.
Theorems hold for every trace of Model.Cond: any number of ULT / non-ULT callers of wait, timedwait,
signal and broadcast, every interleaving of their atomic steps.
-/
namespace ArgoVerif.Props.C05
open ArgoVerif ArgoVerif.Model ArgoVerif.Model.Cond

theorem cinv_step (s s' : St) (e : Ev) (h : CInv s) (hs : step s e = some s') : CInv s' := by
  cases e with
  | call a op => exact cinv_stepCall s s' a op h hs
  | ret a rc => exact cinv_stepRet s s' a rc h hs
  | mutexUnlock a m => exact cinv_stepMutexUnlock s s' a m h hs
  | mutexLock a m => exact cinv_stepMutexLock s s' a m h hs
  | wl e =>
    simp only [step] at hs
    cases e with
    | begin a => exact cinv_wl_begin s s' a h hs
    | tasL a o => exact cinv_wl_tasL s s' a o h hs
    | clearL a => exact cinv_wl_clearL s s' a h hs
    | obsL v =>
      simp only [stepWl, WaitList.step] at hs
      by_cases hv : v = s.wl.l
      · simp only [hv, if_true, Option.map_some, Option.some.injEq] at hs; subst hs
        exact ⟨h.wlInv, h.idleLink, h.acqLink, h.csLink, h.sigLink, h.waitLink, h.untimedLink, h.timedLink, h.holdM,
          h.wokenReady, h.timedOutNotReady⟩
      · simp [hv] at hs
    | enq a t => exact cinv_wl_enq s s' a t h hs
    | storeBlocked a => exact cinv_wl_storeBlocked s s' a h hs
    | loadState a r => exact cinv_wl_loadState s s' a r h hs
    | deq a n => exact cinv_wl_deq s s' a n h hs
    | storeReady a n => exact cinv_wl_storeReady s s' a n h hs
    | timeCheck a x => exact cinv_wl_timeCheck s s' a x h hs
    | rm a => exact cinv_wl_rm s s' a h hs

theorem cinv_reachable (u : Actor → Bool) (s : St) (h : (machine u).Reachable s) : CInv s :=
  Machine.invariant_reachable (machine u) CInv (cinv_init u) (fun s e s' hi hs => cinv_step s s' e hi hs) s h

/-- **atomic release-and-wait**: from the moment a waiter has released the user mutex inside `wait` until it is
enqueued, it holds the condition variable's lock; a signaller or broadcaster needs that lock to touch the
wait-list, so no signal can fall between the release and the enqueue -/
theorem cond_atomic_release_wait (u : Actor → Bool) (s : St) (h : (machine u).Reachable s) (a : Actor)
    (ha : s.cpc a = .wEnq ∨ s.cpc a = .wUnlock) :
    s.wl.lOwner = some a ∧ ∀ b n, b ≠ a → WaitList.stepDeq s.wl b n = none := by
  have hi := cinv_reachable u s h
  have hpc : s.wl.pc a = .inCs := hi.csLink a (by rcases ha with h1 | h1 <;> simp [h1])
  have hown : s.wl.lOwner = some a := (hi.wlInv.lIff a).mpr (by rw [hpc]; trivial)
  refine ⟨hown, ?_⟩
  intro b n hne
  unfold WaitList.stepDeq
  split
  · rename_i hb _
    have : s.wl.lOwner = some b := (hi.wlInv.lIff b).mpr (by rw [hb]; trivial)
    rw [hown] at this; exact absurd (Option.some.inj this).symm hne
  · rfl

/-- **no lost signal**: a waiter that has released the mutex, is inside its (untimed or timed) wait and has not been
made READY is in the wait-list or is the node a waker is waking right now -/
theorem cond_waiter_queued_until_woken (u : Actor → Bool) (s : St) (h : (machine u).Reachable s) (a : Actor)
    (ha : s.cpc a = .wWaiting) (hr : s.wl.ready a = false) (hn : s.wl.pc a ≠ .tmoRel) :
    a ∈ s.wl.q ∨ s.wl.pending = some a := by
  have hi := cinv_reachable u s h
  have hw := hi.waitLink a ha
  rcases hw with hw | hw
  · by_cases hp : s.wl.pending = some a
    · exact Or.inr hp
    · left
      cases hpc : s.wl.pc a <;> rw [hpc] at hw <;> simp only [WaitList.Waiting] at hw
      · exact hi.wlInv.suspInQ a (Or.inl hpc)
      · exact hi.wlInv.suspInQ a (Or.inr hpc)
      · rcases hi.wlInv.ultWait a hpc with h1 | h1
        · exact h1
        · exact absurd h1 hp
      all_goals first
        | exact hi.wlInv.timedInQ a (by rw [hpc]; trivial) hr hp
        | (have := hi.wlInv.readyPc a (by simp [hpc]); rw [hr] at this; cases this)
  · exact absurd hw hn

/-- **no spurious wake-up**: `wait` returns SUCCESS only after a signal/broadcast stored READY into the caller's node;
`timedwait` returns SUCCESS only in that case too, and ERR_COND_TIMEDOUT only if the node was never made READY -/
theorem cond_no_spurious (u : Actor → Bool) (s s' : St) (h : (machine u).Reachable s) (a : Actor) (rc : Rc)
    (hs : step s (.ret a rc) = some s') (hw : s.cpc a = .wDone) :
    (rc = .ok → s.wl.ready a = true) ∧ (rc = .timedout → s.wl.ready a = false ∧ isTimed (s.op a) = true) := by
  have hi := cinv_reachable u s h
  simp only [step, stepRet, hw] at hs
  constructor
  · intro hrc; subst hrc
    simp only at hs
    split at hs
    · rename_i hc; exact hi.wokenReady a (Or.inr hw) hc
    · cases hs
  · intro hrc; subst hrc
    simp only at hs
    split at hs
    · rename_i hc; exact ⟨hi.timedOutNotReady a (Or.inr hw) hc.2 hc.1, hc.2⟩
    · cases hs

/-- **returns holding the mutex**: whenever a wait or timedwait returns (any result) the caller holds the mutex again -/
theorem cond_returns_holding_mutex (u : Actor → Bool) (s s' : St) (h : (machine u).Reachable s) (a : Actor) (rc : Rc)
    (hs : step s (.ret a rc) = some s') (hw : s.cpc a = .wDone ∨ s.cpc a = .wBad) :
    s.mholder (opMutex (s.op a)) = some a := by
  have hi := cinv_reachable u s h
  exact hi.holdM a (by rcases hw with h1 | h1 <;> simp [h1])

/-- **signal wakes at most one, the head; broadcast wakes everybody**: a signal's critical section dequeues at most
one node and ends only when it has done so or the list is empty; a broadcast's ends only with an empty list -/
theorem cond_signal_broadcast_exact (s s' : St) (a : Actor) (hc : s.cpc a = .sCs)
    (hs : step s (.wl (.clearL a)) = some s') :
    s.wl.q = [] ∨ (s.op a = .signal ∧ s.sigDone a = true) := by
  simp only [step, stepWl, hc, if_true] at hs
  split at hs
  · rename_i h; exact h
  · cases hs

theorem cond_signal_at_most_one (s s' : St) (a n : Actor) (hs : step s (.wl (.deq a n)) = some s') :
    s.cpc a = .sCs ∧ (s.op a = .broadcast ∨ s.sigDone a = false) ∧ s'.sigDone a = true ∧ s.wl.q.head? = some n := by
  simp only [step, stepWl] at hs
  split at hs
  · rename_i h
    obtain ⟨w, hw, rfl⟩ := map_some hs
    refine ⟨h.1, h.2, by simp [upd], ?_⟩
    simp only [WaitList.step, WaitList.stepDeq] at hw
    split at hw
    · rename_i hd tl _ hq
      split at hw
      · rename_i he; subst he; simp [hq]
      · cases hw
    · cases hw
  · cases hs

/-- **wrong mutex rejected**: if the condition variable is already bound to another mutex, the call takes the error
branch and touches neither the wait-list nor any mutex -/
theorem cond_wrong_mutex_rejected (s s' : St) (a : Actor) (w : MutexId) (hc : s.cpc a = .wAcq)
    (hb : s.waiterMutex = some w) (hne : w ≠ opMutex (s.op a))
    (hs : step s (.wl (.tasL a false)) = some s') :
    s'.cpc a = .wBadRel ∧ s'.wl.q = s.wl.q ∧ s'.mholder = s.mholder ∧ s'.waiterMutex = s.waiterMutex := by
  simp only [step, stepWl, hc, if_true] at hs
  obtain ⟨w', hw, rfl⟩ := map_some hs
  simp only [WaitList.step, WaitList.stepTasL] at hw
  split at hw
  · cases hw
  · split at hw <;> (try cases hw) <;>
      simp [afterAcquire, hb, hne, upd, WaitList.takeL, WaitList.setPc, Ne.symm hne]

/-- non-vacuity: ULT 1 holds mutex 7 and waits; external thread 2 locks 7, signals, unlocks; 1 wakes and re-locks -/
example :
    ((machine (fun a => a = 1)).run (init (fun a => a = 1))
      [.mutexLock 1 7, .call 1 (.wait 7), .wl (.begin 1), .wl (.tasL 1 false), .mutexUnlock 1 7, .wl (.enq 1 false),
       .mutexLock 2 7, .wl (.storeBlocked 1), .wl (.clearL 1),
       .call 2 .signal, .wl (.begin 2), .wl (.tasL 2 false), .wl (.deq 2 1), .wl (.storeReady 2 1), .wl (.clearL 2),
       .ret 2 .ok, .mutexUnlock 2 7, .mutexLock 1 7, .ret 1 .ok]).map
        (fun s => decide (s.cpc 1 = .idle ∧ s.cpc 2 = .idle ∧ s.mholder 7 = some 1 ∧ s.wl.q = [] ∧ s.waiterMutex = some 7))
      = some true := by decide


/-! ## the generation word of the wait-list futex (non-yieldable waiters: external threads, tasklets) -/
/-- the width of the word, generated from the header on every run -/
def futexBits : Nat := (8 * ArgoVerif.Gen.Consts.bytesFutexVal).toNat

/-- **no lost wake-up of a sleeping caller**: a waiter that sampled the word under the wait-list lock and is then delayed
for `k` broadcasts (any `0 < k < 2^bits`) before the kernel compares the word — or before it re-reads the word after a
wake-up — finds it changed: it does not go (back) to sleep after the broadcast that took it off the wait list -/
theorem futex_no_lost_wake (v k : Nat) (hv : v < 2 ^ futexBits) (hk : 0 < k) (hk2 : k < 2 ^ futexBits) :
    ArgoVerif.Model.FutexGen.lostWake futexBits v k = false := by
  cases h : ArgoVerif.Model.FutexGen.lostWake futexBits v k with
  | false => rfl
  | true => have := (ArgoVerif.Model.FutexGen.lostWake_iff futexBits v k hv hk2).1 h; omega

/-- (`lostWake` compares the sample with the word after `k` single broadcasts `val := val + 1` on that width) -/
theorem futex_after_is_k_broadcasts (v k : Nat) (hv : v < 2 ^ futexBits) :
    ArgoVerif.Model.FutexGen.after futexBits v k = ArgoVerif.Model.FutexGen.iter futexBits v k :=
  ArgoVerif.Model.FutexGen.after_eq_iter futexBits v k hv

/-- ... and it sleeps when nothing has been broadcast since its sample (it is still on the wait list) -/
theorem futex_sleeps_without_broadcast (v : Nat) (hv : v < 2 ^ futexBits) :
    ArgoVerif.Model.FutexGen.lostWake futexBits v 0 = true :=
  (ArgoVerif.Model.FutexGen.lostWake_iff futexBits v 0 hv (Nat.two_pow_pos _)).2 rfl

/-- non-vacuity / why the width matters: on a 3-bit word the 8th broadcast restores the sampled value -/
example : ArgoVerif.Model.FutexGen.lostWake 3 5 8 = true ∧ ArgoVerif.Model.FutexGen.lostWake 3 5 7 = false := by decide
example : futexBits = 32 := by decide

end ArgoVerif.Props.C05
