import ArgoVerif.Proofs.Rank
import ArgoVerif.Gen.Consts
import ArgoVerif.Proofs.XsCtx
import ArgoVerif.Proofs.Replace
import ArgoVerif.Proofs.RankConc5
import ArgoVerif.Proofs.XsLife5
/-
Props.C17 — ranks of live execution streams are pairwise distinct; stream life cycle.
Property theorems only; helper lemmas live in Proofs/Rank.lean and Proofs/XsCtx.lean.

Part 1 (Model.Rank): the pointer-level global stream list of src/stream.c.
Part 2 (Model.XsCtx): the native-thread state machine of src/arch/abtd_stream.c.
Part 3 (Model.Replace): replacing the main scheduler of the running stream (partial: see F7).
Part 4 (Model.RankConc): the lock scope of rank allocation — concurrent callers at the granularity
  of the spinlock / scan / update steps; the atomicity Part 1 relies on is a theorem here.
Part 5 (Model.XsLife): the join / cancel / exit / revive / free life cycle as stream.c and thread.c drive it on top of
  Part 2's context: public state, scheduler request bits, the root thread publishing TERMINATED, any number of
  sequential life-cycle callers; what Part 2 assumes about its callers is a theorem here.
-/
namespace ArgoVerif.Props.C17
open ArgoVerif ArgoVerif.Model.Rank

/-! ## Part 1 — ranks -/

/-- states reachable from `ABT_init` by any sequence of API calls (any interleaving of
callers: each call is atomic under `xstream_list_lock` — a theorem, see Part 4,
`Conc.conc_refines_atomic`) -/
def Reach (s : St) : Prop := ∃ ops outs, runOps init ops = some (s, outs)

/-- what a call may report, given the map before the call -/
def specOut (m : Spec) : Op → Out → Prop
  | .create _, o => ∃ r, o = .okRank r ∧ 0 ≤ r ∧ ¬ used m r ∧ ∀ k, 0 ≤ k → k < r → used m k
  | .createWithRank _ r, o => (o = .okRank r ∧ 0 ≤ r ∧ ¬ used m r) ∨ (o = .errRank ∧ (r < 0 ∨ used m r))
  | .setRank p r, o =>
    if p = 0 ∨ p = primaryId then o = .errXstream
    else if r < 0 then o = .errRank
    else (o = .ok ∧ (m p = some r ∨ ¬ used m r)) ∨ (o = .errRank ∧ used m r ∧ m p ≠ some r)
  | .free p, o => if p = 0 ∨ p = primaryId then o = .errXstream else o = .ok
  | .getRank p, o => if p = 0 then o = .errXstream else ∃ r, m p = some r ∧ o = .okRank r
  | .getNum, o => ∃ l : List Ptr, l.Nodup ∧ (∀ q, q ∈ l ↔ (m q).isSome) ∧ o = .okNum l.length
  | .join p, o => if p = 0 ∨ p = primaryId then o = .errXstream else o = .ok
  | .revive p, o => o = .ok ∨ o = .errXstream

/-- the map after the call -/
def specStep (m : Spec) : Op → Out → Spec
  | .create p, .okRank r => fun q => if q = p then some r else m q
  | .createWithRank p _, .okRank r => fun q => if q = p then some r else m q
  | .setRank p r, .ok => fun q => if q = p then some r else m q
  | .free p, .ok => fun q => if q = p then none else m q
  | _, _ => m

/-- **one call refines the partial map**: from a well-formed list, a call that is a legal
behaviour of the C code leaves the list well formed, reports what the map allows, and the
list afterwards denotes the updated map. -/
theorem rank_step_refines (s s' : St) (op : Op) (o : Out) (hw : WF s) (hs : step s op = some (s', o)) :
    WF s' ∧ specOut (absMap s) op o ∧ absMap s' = specStep (absMap s) op o := by
  unfold step at hs
  by_cases hpre : Pre s op = true
  · simp only [hpre, if_true] at hs
    cases op with
    | create p =>
      simp only [Pre, Bool.and_eq_true, decide_eq_true_eq, Bool.not_eq_true', List.contains_eq_mem,
        decide_eq_false_iff_not] at hpre
      obtain ⟨s1, r, he, hc, h0, hnin, hall⟩ := create_spec s p hw hpre.1 hpre.2
      rw [he] at hs
      simp only [Option.some.injEq, Prod.mk.injEq] at hs
      obtain ⟨rfl, rfl⟩ := hs
      refine ⟨hc.wf, ⟨r, rfl, h0, fun hu => hnin (used_abs.mp hu), fun k hk1 hk2 => used_abs.mpr (hall k hk1 hk2)⟩, ?_⟩
      funext q
      simp only [absMap, specStep, hc.mem q, hc.rank, upd]
      by_cases hq : q = p
      · simp [hq]
      · simp [hq]
    | createWithRank p r =>
      simp only [Pre, Bool.and_eq_true, decide_eq_true_eq, Bool.not_eq_true', List.contains_eq_mem,
        decide_eq_false_iff_not] at hpre
      by_cases hr : r < 0
      · simp only [apiStep, hr, if_true, Option.some.injEq, Prod.mk.injEq] at hs
        obtain ⟨rfl, rfl⟩ := hs
        exact ⟨hw, Or.inr ⟨rfl, Or.inl hr⟩, rfl⟩
      · have hx := createw_spec s p r hw hpre.1 hpre.2 (by omega)
        by_cases hin : r ∈ ranks s
        · obtain ⟨s1, he, hl, hrk, hnum, htm, hwf⟩ := hx.1 hin
          rw [he] at hs
          simp only [Option.some.injEq, Prod.mk.injEq] at hs
          obtain ⟨rfl, rfl⟩ := hs
          refine ⟨hwf, Or.inr ⟨rfl, Or.inr (used_abs.mpr hin)⟩, ?_⟩
          funext q
          simp [absMap, specStep, hl, hrk]
        · obtain ⟨s1, he, hc⟩ := hx.2 hin
          rw [he] at hs
          simp only [Option.some.injEq, Prod.mk.injEq] at hs
          obtain ⟨rfl, rfl⟩ := hs
          refine ⟨hc.wf, Or.inl ⟨rfl, by omega, fun hu => hin (used_abs.mp hu)⟩, ?_⟩
          funext q
          simp only [absMap, specStep, hc.mem q, hc.rank, upd]
          by_cases hq : q = p
          · simp [hq]
          · simp [hq]
    | setRank p r =>
      simp only [Pre, Bool.or_eq_true, decide_eq_true_eq, List.contains_eq_mem] at hpre
      by_cases hp0 : p = 0
      · simp only [apiStep, hp0, if_true, Option.some.injEq, Prod.mk.injEq] at hs
        obtain ⟨rfl, rfl⟩ := hs
        exact ⟨hw, by simp [specOut, hp0], rfl⟩
      · by_cases hpp : p = primaryId
        · simp only [apiStep, hp0, if_false, hpp, if_true, Option.some.injEq, Prod.mk.injEq] at hs
          obtain ⟨rfl, rfl⟩ := hs
          exact ⟨hw, by simp [specOut, hpp], rfl⟩
        · by_cases hr : r < 0
          · simp only [apiStep, hp0, if_false, hpp, hr, if_true, Option.some.injEq, Prod.mk.injEq] at hs
            obtain ⟨rfl, rfl⟩ := hs
            exact ⟨hw, by simp [specOut, hp0, hpp, hr], rfl⟩
          · have hpl : p ∈ live s := by
              rcases hpre with h | h
              · exact absurd h hp0
              · simpa using h
            have hx := setrank_spec s p r hw hpl hpp (by omega)
            have hmp : absMap s p = some (s.rank p) := by simp [absMap, hpl]
            by_cases he : s.rank p = r
            · rw [hx.1 he] at hs
              simp only [Option.some.injEq, Prod.mk.injEq] at hs
              obtain ⟨rfl, rfl⟩ := hs
              refine ⟨hw, ?_, ?_⟩
              · simp only [specOut, hp0, hpp, or_self, if_false, hr]
                exact Or.inl ⟨trivial, Or.inl (by rw [hmp, he])⟩
              · funext q
                simp only [specStep]
                by_cases hq : q = p
                · simp [hq, hmp, he]
                · simp [hq]
            · by_cases hin : r ∈ ranks s
              · rw [hx.2.1 he hin] at hs
                simp only [Option.some.injEq, Prod.mk.injEq] at hs
                obtain ⟨rfl, rfl⟩ := hs
                refine ⟨hw, ?_, rfl⟩
                simp only [specOut, hp0, hpp, or_self, if_false, hr]
                exact Or.inr ⟨trivial, used_abs.mpr hin, by rw [hmp]; simpa using he⟩
              · obtain ⟨s1, he1, hwf, hmem, hrk, hlen, htm⟩ := hx.2.2 he hin
                rw [he1] at hs
                simp only [Option.some.injEq, Prod.mk.injEq] at hs
                obtain ⟨rfl, rfl⟩ := hs
                refine ⟨hwf, ?_, ?_⟩
                · simp only [specOut, hp0, hpp, or_self, if_false, hr]
                  exact Or.inl ⟨trivial, Or.inr (fun hu => hin (used_abs.mp hu))⟩
                · funext q
                  simp only [absMap, specStep, hmem q, hrk, upd]
                  by_cases hq : q = p
                  · simp [hq, hpl]
                  · simp [hq]
    | free p =>
      simp only [Pre, Bool.or_eq_true, decide_eq_true_eq, List.contains_eq_mem] at hpre
      by_cases hp0 : p = 0
      · simp only [apiStep, hp0, if_true, Option.some.injEq, Prod.mk.injEq] at hs
        obtain ⟨rfl, rfl⟩ := hs
        exact ⟨hw, by simp [specOut, hp0], rfl⟩
      · by_cases hpp : p = primaryId
        · simp only [apiStep, hp0, if_false, hpp, if_true, Option.some.injEq, Prod.mk.injEq] at hs
          obtain ⟨rfl, rfl⟩ := hs
          exact ⟨hw, by simp [specOut, hpp], rfl⟩
        · have hpl : p ∈ live s := by
            rcases hpre with h | h
            · exact absurd h hp0
            · simpa using h
          obtain ⟨s1, he, hwf, hmem, hrk, hlen⟩ := free_spec s p hw hpl hpp
          rw [he] at hs
          simp only [Option.some.injEq, Prod.mk.injEq] at hs
          obtain ⟨rfl, rfl⟩ := hs
          refine ⟨hwf, by simp [specOut, hp0, hpp], ?_⟩
          funext q
          simp only [absMap, specStep, hmem q, hrk]
          by_cases hq : q = p
          · simp [hq]
          · simp [hq]
    | join p =>
      have hR : R s (live s) := hw
      by_cases hp0 : p = 0
      · simp only [apiStep, hp0, if_true, Option.some.injEq, Prod.mk.injEq] at hs
        obtain ⟨rfl, rfl⟩ := hs
        exact ⟨hw, by simp [specOut, hp0], rfl⟩
      · by_cases hpp : p = primaryId
        · simp only [apiStep, hp0, if_false, hpp, if_true, Option.some.injEq, Prod.mk.injEq] at hs
          obtain ⟨rfl, rfl⟩ := hs
          exact ⟨hw, by simp [specOut, hpp], rfl⟩
        · simp only [apiStep, hp0, if_false, hpp, Option.some.injEq, Prod.mk.injEq] at hs
          obtain ⟨rfl, rfl⟩ := hs
          exact ⟨(hR.term_irrel _).wf, by simp [specOut, hp0, hpp], rfl⟩
    | revive p =>
      have hR : R s (live s) := hw
      by_cases hp0 : p = 0
      · simp only [apiStep, hp0, if_true, Option.some.injEq, Prod.mk.injEq] at hs
        obtain ⟨rfl, rfl⟩ := hs
        exact ⟨hw, Or.inr rfl, rfl⟩
      · by_cases ht : s.term p = true
        · simp only [apiStep, hp0, if_false, ht, Bool.not_true, Bool.false_eq_true, Option.some.injEq,
            Prod.mk.injEq] at hs
          obtain ⟨rfl, rfl⟩ := hs
          exact ⟨(hR.term_irrel _).wf, Or.inl rfl, rfl⟩
        · simp only [apiStep, hp0, if_false, ht, Bool.not_false, if_true, Option.some.injEq,
            Prod.mk.injEq] at hs
          obtain ⟨rfl, rfl⟩ := hs
          exact ⟨hw, Or.inr rfl, rfl⟩
    | getRank p =>
      simp only [Pre, Bool.or_eq_true, decide_eq_true_eq, List.contains_eq_mem] at hpre
      by_cases hp0 : p = 0
      · simp only [apiStep, hp0, if_true, Option.some.injEq, Prod.mk.injEq] at hs
        obtain ⟨rfl, rfl⟩ := hs
        exact ⟨hw, by simp [specOut, hp0], rfl⟩
      · have hpl : p ∈ live s := by
          rcases hpre with h | h
          · exact absurd h hp0
          · simpa using h
        simp only [apiStep, hp0, if_false, Option.some.injEq, Prod.mk.injEq] at hs
        obtain ⟨rfl, rfl⟩ := hs
        refine ⟨hw, ?_, rfl⟩
        simp only [specOut, hp0, if_false]
        exact ⟨s.rank p, by simp [absMap, hpl], rfl⟩
    | getNum =>
      have hR : R s (live s) := hw
      simp only [apiStep, Option.some.injEq, Prod.mk.injEq] at hs
      obtain ⟨rfl, rfl⟩ := hs
      refine ⟨hw, ⟨live s, hR.sorted.nodup, ?_, by rw [hR.num]⟩, rfl⟩
      intro q
      by_cases hq : q ∈ live s <;> simp [absMap, hq]
  · simp [hpre] at hs

theorem runOps_wf : ∀ (ops : List Op) (s s' : St) (outs : List Out), WF s → runOps s ops = some (s', outs) → WF s' := by
  intro ops
  induction ops with
  | nil => intro s s' outs hw h; simp only [runOps, Option.some.injEq, Prod.mk.injEq] at h; rw [← h.1]; exact hw
  | cons op ops ih =>
    intro s s' outs hw h
    simp only [runOps] at h
    cases hs : step s op with
    | none => simp [hs] at h
    | some r =>
      obtain ⟨s1, o⟩ := r
      simp only [hs] at h
      cases hr : runOps s1 ops with
      | none => simp [hr] at h
      | some r2 =>
        obtain ⟨s2, os⟩ := r2
        simp only [hr, Option.some.injEq, Prod.mk.injEq] at h
        rw [← h.1]
        exact ih s1 s2 os (rank_step_refines s s1 op o hw hs).1 hr

theorem reach_wf {s : St} (h : Reach s) : WF s := by
  obtain ⟨ops, outs, hr⟩ := h
  exact runOps_wf ops init s outs init_wf hr

/-- outputs of a run against the abstract map, call by call -/
def specRun (m : Spec) : List Op → List Out → Prop
  | [], [] => True
  | op :: ops, o :: os => specOut m op o ∧ specRun (specStep m op o) ops os
  | _, _ => False

/-- **C17, ranks (refinement)**: every sequence of create / create_with_rank / set_rank /
join / revive / free / get_rank / get_num that is a behaviour of the C code from a
well-formed list reports exactly what a partial map "live stream ↦ rank" allows: a
rank-less creation gets the least unused non-negative rank, an explicit rank is granted
iff no live stream has it, get_num is the number of live streams. -/
theorem rank_refines_spec (ops : List Op) (s s' : St) (outs : List Out) (hw : WF s)
    (hr : runOps s ops = some (s', outs)) : specRun (absMap s) ops outs ∧ WF s' := by
  induction ops generalizing s s' outs with
  | nil =>
    simp only [runOps, Option.some.injEq, Prod.mk.injEq] at hr
    rw [← hr.1, ← hr.2]; exact ⟨trivial, hw⟩
  | cons op ops ih =>
    simp only [runOps] at hr
    cases hs : step s op with
    | none => simp [hs] at hr
    | some r =>
      obtain ⟨s1, o⟩ := r
      simp only [hs] at hr
      cases hr2 : runOps s1 ops with
      | none => simp [hr2] at hr
      | some r2 =>
        obtain ⟨s2, os⟩ := r2
        simp only [hr2, Option.some.injEq, Prod.mk.injEq] at hr
        obtain ⟨rfl, rfl⟩ := hr
        have h1 := rank_step_refines s s1 op o hw hs
        have h2 := ih s1 s2 os h1.1 hr2
        simp only [specRun]
        refine ⟨⟨h1.2.1, ?_⟩, h2.2⟩
        rw [← h1.2.2]; exact h2.1

/-- **ranks of live streams are pairwise distinct**, in every reachable state: the list is
strictly sorted by rank (hence no two live streams share a rank and no stream is linked
twice), `p_next` from the head and `p_prev` from the tail visit the same nodes in opposite
order ending in NULL, and the head is the primary stream with rank 0. -/
theorem rank_sorted_distinct (s : St) (h : Reach s) :
    (ranks s).Pairwise (· < ·) ∧ (ranks s).Nodup ∧ (live s).Nodup ∧
    Seg s.next s.head (live s) 0 ∧ Seg s.prev ((live s).getLastD 0) (live s).reverse 0 ∧
    liveBack s = (live s).reverse ∧
    (live s).head? = some primaryId ∧ s.rank primaryId = 0 := by
  have hR : R s (live s) := reach_wf h
  have hp := hR.ranks_pairwise
  refine ⟨hp, ?_, hR.sorted.nodup, hR.dl.fwd, hR.dl.bwd, ?_, hR.prim, hR.prim0⟩
  · unfold List.Nodup
    exact hp.imp (fun hab => by omega)
  · unfold liveBack
    have hb := hR.dl.bwd
    cases hl : (live s).getLast? with
    | none =>
      have : live s = [] := List.getLast?_eq_none_iff.mp hl
      simp [this]
    | some l =>
      have hld : (live s).getLastD 0 = l := by simp [List.getLastD_eq_getLast?, hl]
      rw [hld] at hb
      simp only
      apply walk_seg _ _ _ hb
      unfold fuel; rw [hR.num]; simp

/-- **a stream created without a rank receives the smallest unused rank**: in every reachable
state, `ABT_xstream_create` returns a rank `r ≥ 0` that no live stream holds while every
`0 ≤ k < r` is held. -/
theorem rank_auto_is_mex (s s' : St) (p : Ptr) (o : Out) (h : Reach s) (hs : step s (.create p) = some (s', o)) :
    ∃ r, o = .okRank r ∧ s'.rank p = r ∧ p ∈ live s' ∧ 0 ≤ r ∧ r ∉ ranks s ∧
      ∀ k, 0 ≤ k → k < r → k ∈ ranks s := by
  have hw := reach_wf h
  unfold step at hs
  by_cases hpre : Pre s (.create p) = true
  · simp only [hpre, if_true] at hs
    simp only [Pre, Bool.and_eq_true, decide_eq_true_eq, Bool.not_eq_true', List.contains_eq_mem,
      decide_eq_false_iff_not] at hpre
    obtain ⟨s1, r, he, hc, h0, hnin, hall⟩ := create_spec s p hw hpre.1 hpre.2
    rw [he] at hs
    simp only [Option.some.injEq, Prod.mk.injEq] at hs
    obtain ⟨rfl, rfl⟩ := hs
    exact ⟨r, rfl, by rw [hc.rank]; simp [upd], (hc.mem p).mpr (Or.inl rfl), h0, hnin, hall⟩
  · simp [hpre] at hs

/-- **a requested rank is granted iff no live stream has it**; on refusal the list, the
ranks and the counter are unchanged; on success the new stream holds exactly `r` and all
other streams keep their ranks. -/
theorem rank_request_iff_free (s s' : St) (p : Ptr) (r : Int) (o : Out) (h : Reach s)
    (hs : step s (.createWithRank p r) = some (s', o)) :
    (o = .okRank r ↔ (0 ≤ r ∧ r ∉ ranks s)) ∧ (o = .okRank r ∨ o = .errRank) ∧
    (o = .errRank → live s' = live s ∧ s'.rank = s.rank ∧ s'.num = s.num) ∧
    (o = .okRank r → s'.rank p = r ∧ (∀ q, q ∈ live s' ↔ q = p ∨ q ∈ live s) ∧
        ∀ q, q ≠ p → s'.rank q = s.rank q) := by
  have hw := reach_wf h
  unfold step at hs
  by_cases hpre : Pre s (.createWithRank p r) = true
  · simp only [hpre, if_true] at hs
    simp only [Pre, Bool.and_eq_true, decide_eq_true_eq, Bool.not_eq_true', List.contains_eq_mem,
      decide_eq_false_iff_not] at hpre
    by_cases hr : r < 0
    · simp only [apiStep, hr, if_true, Option.some.injEq, Prod.mk.injEq] at hs
      obtain ⟨rfl, rfl⟩ := hs
      refine ⟨⟨(fun e => nomatch e), fun e => by omega⟩, Or.inr rfl, fun _ => ⟨rfl, rfl, rfl⟩, (fun e => nomatch e)⟩
    · have hx := createw_spec s p r hw hpre.1 hpre.2 (by omega)
      by_cases hin : r ∈ ranks s
      · obtain ⟨s1, he, hl, hrk, hnum, htm, hwf⟩ := hx.1 hin
        rw [he] at hs
        simp only [Option.some.injEq, Prod.mk.injEq] at hs
        obtain ⟨rfl, rfl⟩ := hs
        refine ⟨⟨(fun e => nomatch e), fun e => absurd hin e.2⟩, Or.inr rfl, fun _ => ⟨hl, hrk, hnum⟩, (fun e => nomatch e)⟩
      · obtain ⟨s1, he, hc⟩ := hx.2 hin
        rw [he] at hs
        simp only [Option.some.injEq, Prod.mk.injEq] at hs
        obtain ⟨rfl, rfl⟩ := hs
        refine ⟨⟨fun _ => ⟨by omega, hin⟩, fun _ => rfl⟩, Or.inl rfl, (fun e => nomatch e), fun _ => ?_⟩
        refine ⟨by rw [hc.rank]; simp [upd], hc.mem, fun q hq => by rw [hc.rank]; simp [upd, hq]⟩
  · simp [hpre] at hs

/-- **a changed rank is granted iff no live stream has it** (asking for the rank the stream
already holds succeeds); on refusal nothing at all changes; on success exactly this stream's
rank changes and the set of live streams is the same. -/
theorem rank_change_iff_free (s s' : St) (p : Ptr) (r : Int) (o : Out) (h : Reach s)
    (hpl : p ∈ live s) (hpp : p ≠ primaryId) (hr : 0 ≤ r) (hs : step s (.setRank p r) = some (s', o)) :
    (o = .ok ↔ (s.rank p = r ∨ r ∉ ranks s)) ∧ (o = .ok ∨ o = .errRank) ∧
    (o = .errRank → s' = s) ∧
    (o = .ok → s'.rank p = r ∧ (∀ q, q ≠ p → s'.rank q = s.rank q) ∧ ∀ q, q ∈ live s' ↔ q ∈ live s) := by
  have hw := reach_wf h
  have hR : R s (live s) := hw
  have hp0 : p ≠ 0 := hR.nonzero p hpl
  unfold step at hs
  by_cases hpre : Pre s (.setRank p r) = true
  · simp only [hpre, if_true] at hs
    have hx := setrank_spec s p r hw hpl hpp hr
    by_cases he : s.rank p = r
    · rw [hx.1 he] at hs
      simp only [Option.some.injEq, Prod.mk.injEq] at hs
      obtain ⟨rfl, rfl⟩ := hs
      exact ⟨⟨fun _ => Or.inl he, fun _ => rfl⟩, Or.inl rfl, (fun e => nomatch e),
        fun _ => ⟨he, fun _ _ => rfl, fun _ => Iff.rfl⟩⟩
    · by_cases hin : r ∈ ranks s
      · rw [hx.2.1 he hin] at hs
        simp only [Option.some.injEq, Prod.mk.injEq] at hs
        obtain ⟨rfl, rfl⟩ := hs
        refine ⟨⟨(fun e => nomatch e), fun e => ?_⟩, Or.inr rfl, fun _ => rfl, (fun e => nomatch e)⟩
        rcases e with e | e
        · exact absurd e he
        · exact absurd hin e
      · obtain ⟨s1, he1, hwf, hmem, hrk, hlen, htm⟩ := hx.2.2 he hin
        rw [he1] at hs
        simp only [Option.some.injEq, Prod.mk.injEq] at hs
        obtain ⟨rfl, rfl⟩ := hs
        refine ⟨⟨fun _ => Or.inr hin, fun _ => rfl⟩, Or.inl rfl, (fun e => nomatch e), fun _ => ?_⟩
        exact ⟨by rw [hrk]; simp [upd], fun q hq => by rw [hrk]; simp [upd, hq], hmem⟩
  · simp [hpre] at hs

/-- **a freed stream's rank becomes reusable**: after `ABT_xstream_free` of a live stream,
a creation that asks for its rank succeeds, and a rank-less creation gets a rank no larger. -/
theorem rank_reusable_after_free (s s1 : St) (p : Ptr) (o : Out) (h : Reach s) (hpl : p ∈ live s)
    (hpp : p ≠ primaryId) (hs : step s (.free p) = some (s1, o)) :
    o = .ok ∧ p ∉ live s1 ∧ s.rank p ∉ ranks s1 ∧ s1.num = s.num - 1 ∧
    (∀ q s2 o2, step s1 (.createWithRank q (s.rank p)) = some (s2, o2) → o2 = .okRank (s.rank p)) ∧
    (∀ q s2 o2, step s1 (.create q) = some (s2, o2) → ∃ r, o2 = .okRank r ∧ r ≤ s.rank p) := by
  have hw := reach_wf h
  have hR : R s (live s) := hw
  have hp0 : p ≠ 0 := hR.nonzero p hpl
  have hreach1 : Reach s1 := by
    obtain ⟨ops, outs, hr⟩ := h
    refine ⟨ops ++ [.free p], outs ++ [o], ?_⟩
    have : ∀ (ops : List Op) (a b : St) (os : List Out), runOps a ops = some (b, os) →
        runOps a (ops ++ [.free p]) = (step b (.free p)).map fun r => (r.1, os ++ [r.2]) := by
      intro ops
      induction ops with
      | nil =>
        intro a b os hab
        simp only [runOps, Option.some.injEq, Prod.mk.injEq] at hab
        obtain ⟨rfl, rfl⟩ := hab
        simp only [List.nil_append, runOps]
        cases step a (.free p) with
        | none => rfl
        | some r => obtain ⟨x, y⟩ := r; rfl
      | cons op ops ih =>
        intro a b os hab
        simp only [runOps, List.cons_append] at hab ⊢
        cases hst : step a op with
        | none => simp [hst] at hab
        | some r =>
          obtain ⟨a1, o1⟩ := r
          simp only [hst] at hab ⊢
          cases hr2 : runOps a1 ops with
          | none => simp [hr2] at hab
          | some r2 =>
            obtain ⟨a2, os2⟩ := r2
            simp only [hr2, Option.some.injEq, Prod.mk.injEq] at hab
            obtain ⟨rfl, rfl⟩ := hab
            rw [ih a1 a2 os2 hr2]
            cases step a2 (.free p) with
            | none => rfl
            | some r => obtain ⟨x, y⟩ := r; rfl
    rw [this ops init s outs hr, hs]; rfl
  unfold step at hs
  by_cases hpre : Pre s (.free p) = true
  · simp only [hpre, if_true] at hs
    obtain ⟨s', he, hwf, hmem, hrk, hlen⟩ := free_spec s p hw hpl hpp
    rw [he] at hs
    simp only [Option.some.injEq, Prod.mk.injEq] at hs
    obtain ⟨rfl, rfl⟩ := hs
    have hR' : R s' (live s') := hwf
    have hnot : s.rank p ∉ ranks s' := by
      intro hin
      unfold ranks at hin
      rw [List.mem_map] at hin
      obtain ⟨q, hq, hqr⟩ := hin
      have hq' := (hmem q).mp hq
      rw [hrk] at hqr
      -- two distinct live streams of s with equal rank contradict strict sortedness
      have hnd := hR.ranks_pairwise
      have : q = p := by
        apply Classical.byContradiction
        intro hne
        have hinj : ∀ (l : List Ptr), l.Pairwise (fun a b => s.rank a < s.rank b) → q ∈ l → p ∈ l → False := by
          intro l hl hq1 hp1
          induction l with
          | nil => simp at hq1
          | cons a l ih =>
            rw [List.pairwise_cons] at hl
            simp only [List.mem_cons] at hq1 hp1
            rcases hq1 with hq1 | hq1 <;> rcases hp1 with hp1 | hp1
            · exact hne (hq1.trans hp1.symm)
            · subst hq1; have := hl.1 p hp1; omega
            · subst hp1; have := hl.1 q hq1; omega
            · exact ih hl.2 hq1 hp1
        exact hinj (live s) hR.sorted hq'.1 hpl
      exact hq'.2 this
    refine ⟨rfl, fun hm => ((hmem p).mp hm).2 rfl, hnot, ?_, ?_, ?_⟩
    · rw [hR'.num, hR.num]; omega
    · intro q s2 o2 hs2
      have := (rank_request_iff_free s' s2 q (s.rank p) o2 hreach1 hs2).1
      exact this.mpr ⟨hR.rank_nonneg p hpl, hnot⟩
    · intro q s2 o2 hs2
      obtain ⟨r, ho, _, _, h0, hnin, hall⟩ := rank_auto_is_mex s' s2 q o2 hreach1 hs2
      refine ⟨r, ho, ?_⟩
      apply Classical.byContradiction
      intro hgt
      exact hnot (hall (s.rank p) (hR.rank_nonneg p hpl) (by omega))
  · simp [hpre] at hs

/-- **`ABT_xstream_get_num` equals the number of live streams**, in every reachable state -/
theorem num_eq_length (s : St) (h : Reach s) :
    s.num = (live s).length ∧ step s .getNum = some (s, .okNum ((live s).length)) := by
  have hR : R s (live s) := reach_wf h
  refine ⟨hR.num, ?_⟩
  simp [step, Pre, apiStep, hR.num]

/-- **the C code never trips an assertion and never loops** on the list: from every reachable
state every call whose API preconditions hold (handles NULL or live, fresh descriptor address)
is executed to completion by the model — no `ABTI_ASSERT` in add/remove fails, every walk ends
within `num_xstreams + 1` nodes. -/
theorem rank_never_faults (s : St) (op : Op) (h : Reach s) (hpre : Pre s op = true) :
    ∃ s' o, step s op = some (s', o) := by
  have hw := reach_wf h
  have hR : R s (live s) := hw
  unfold step
  simp only [hpre, if_true]
  cases op with
  | create p =>
    simp only [Pre, Bool.and_eq_true, decide_eq_true_eq, Bool.not_eq_true', List.contains_eq_mem,
      decide_eq_false_iff_not] at hpre
    obtain ⟨s1, r, he, _⟩ := create_spec s p hw hpre.1 hpre.2
    exact ⟨_, _, he⟩
  | createWithRank p r =>
    simp only [Pre, Bool.and_eq_true, decide_eq_true_eq, Bool.not_eq_true', List.contains_eq_mem,
      decide_eq_false_iff_not] at hpre
    by_cases hr : r < 0
    · exact ⟨s, .errRank, by simp [apiStep, hr]⟩
    · have hx := createw_spec s p r hw hpre.1 hpre.2 (by omega)
      by_cases hin : r ∈ ranks s
      · obtain ⟨s1, he, _⟩ := hx.1 hin; exact ⟨_, _, he⟩
      · obtain ⟨s1, he, _⟩ := hx.2 hin; exact ⟨_, _, he⟩
  | setRank p r =>
    simp only [Pre, Bool.or_eq_true, decide_eq_true_eq, List.contains_eq_mem] at hpre
    by_cases hp0 : p = 0
    · exact ⟨s, .errXstream, by simp [apiStep, hp0]⟩
    · by_cases hpp : p = primaryId
      · exact ⟨s, .errXstream, by simp [apiStep, hp0, hpp]⟩
      · by_cases hr : r < 0
        · exact ⟨s, .errRank, by simp [apiStep, hp0, hpp, hr]⟩
        · have hpl : p ∈ live s := by
            rcases hpre with h | h
            · exact absurd h hp0
            · simpa using h
          have hx := setrank_spec s p r hw hpl hpp (by omega)
          by_cases he : s.rank p = r
          · exact ⟨_, _, hx.1 he⟩
          · by_cases hin : r ∈ ranks s
            · exact ⟨_, _, hx.2.1 he hin⟩
            · obtain ⟨s1, he1, _⟩ := hx.2.2 he hin; exact ⟨_, _, he1⟩
  | free p =>
    simp only [Pre, Bool.or_eq_true, decide_eq_true_eq, List.contains_eq_mem] at hpre
    by_cases hp0 : p = 0
    · exact ⟨s, .errXstream, by simp [apiStep, hp0]⟩
    · by_cases hpp : p = primaryId
      · exact ⟨s, .errXstream, by simp [apiStep, hp0, hpp]⟩
      · have hpl : p ∈ live s := by
          rcases hpre with h | h
          · exact absurd h hp0
          · simpa using h
        obtain ⟨s1, he, _⟩ := free_spec s p hw hpl hpp
        exact ⟨_, _, he⟩
  | join p =>
    by_cases hp0 : p = 0
    · exact ⟨s, .errXstream, by simp [apiStep, hp0]⟩
    · by_cases hpp : p = primaryId
      · exact ⟨s, .errXstream, by simp [apiStep, hp0, hpp]⟩
      · exact ⟨{ s with term := upd s.term p true }, .ok, by simp [apiStep, hp0, hpp]⟩
  | revive p =>
    by_cases hp0 : p = 0
    · exact ⟨s, .errXstream, by simp [apiStep, hp0]⟩
    · by_cases ht : s.term p = true
      · exact ⟨{ s with term := upd s.term p false }, .ok, by simp [apiStep, hp0, ht]⟩
      · exact ⟨s, .errXstream, by simp [apiStep, hp0, ht]⟩
  | getRank p =>
    by_cases hp0 : p = 0
    · exact ⟨s, .errXstream, by simp [apiStep, hp0]⟩
    · exact ⟨s, .okRank (s.rank p), by simp [apiStep, hp0]⟩
  | getNum => exact ⟨s, .okNum s.num, by simp [apiStep]⟩

/-- **the head-insertion branch of `xstream_add_xstream_list` after a rank change is
unreachable**: that branch does not write `p_newxstream->p_prev`, which `xstream_change_rank`
leaves stale — but in every reachable state the head is the primary stream holding rank 0
(it can be neither re-ranked nor freed), every other live stream has a rank > 0 and requests
are ≥ 0, so no stream is ever inserted in front of the head. -/
theorem rank_head_is_primary (s : St) (h : Reach s) :
    s.head = primaryId ∧ s.rank primaryId = 0 ∧ s.prev primaryId = 0 ∧
    ∀ q ∈ live s, q ≠ primaryId → 0 < s.rank q := by
  have hR : R s (live s) := reach_wf h
  have hp := hR.prim
  refine ⟨?_, hR.prim0, ?_, hR.rank_pos⟩
  · have := seg_start hR.dl.fwd
    rw [this, List.headD_eq_head?_getD, hp]; rfl
  · obtain ⟨l1, l2, e⟩ := List.append_of_mem hR.prim_mem
    have hdl := hR.dl
    rw [e] at hdl hp
    have := dl_prev_of_split hdl
    cases l1 with
    | nil => simpa using this
    | cons a l1 =>
      -- primary would occur twice
      exfalso
      simp only [List.cons_append, List.head?_cons, Option.some.injEq] at hp
      have hnd := hR.sorted.nodup
      rw [e, hp] at hnd
      simp at hnd

/-- **what the stale `p_prev` does when the hypothesis "primary holds rank 0" is dropped**
(a state no API sequence reaches): list `[2 (rank 3), 3 (rank 5)]`; `xstream_change_rank`
moves stream 3 to rank 1, i.e. in front of the head; its `p_prev` still points to stream 2,
so the backward walk from the tail never reaches NULL at the head. -/
theorem change_rank_head_insert_stale_prev :
    let s0 : St := { head := 2, num := 2, rank := fun q => if q = 2 then 3 else if q = 3 then 5 else 0,
                     prev := fun q => if q = 3 then 2 else 0, next := fun q => if q = 2 then 3 else 0,
                     term := fun _ => false }
    (changeRank s0 3 1).map (fun r => (r.2, r.1.head, r.1.prev 3, r.1.next 3, r.1.prev 2, r.1.next 2))
      = some (true, 3, 2, 2, 3, 0) := by decide

/-- life-cycle flags at the API level: a joined stream can be joined again, revived, joined
and freed; each call reports success, ranks of other streams are untouched, and after the free
the stream is gone and its rank unused. (The native-thread protocol underneath is Part 2.) -/
theorem rank_lifecycle_cycle (s : St) (p : Ptr) (h : Reach s) (hpl : p ∈ live s) (hpp : p ≠ primaryId) :
    ∃ s', runOps s [.join p, .join p, .revive p, .join p, .free p] = some (s', [.ok, .ok, .ok, .ok, .ok]) ∧
      p ∉ live s' ∧ s'.rank = s.rank ∧ ∀ q, q ∈ live s' ↔ q ∈ live s ∧ q ≠ p := by
  have hw := reach_wf h
  have hR : R s (live s) := hw
  have hp0 : p ≠ 0 := hR.nonzero p hpl
  -- the four flag-only calls
  let s4 : St := { s with term := upd (upd (upd (upd s.term p true) p true) p false) p true }
  have hR4 : R s4 (live s) := hR.term_irrel _
  have hl4 : live s4 = live s := hR4.live_eq
  obtain ⟨s', he, hwf, hmem, hrk, hlen⟩ := free_spec s4 p hR4.wf (hl4 ▸ hpl) hpp
  refine ⟨s', ?_, fun hm => ((hmem p).mp hm).2 rfl, hrk, fun q => by rw [hmem q, hl4]⟩
  have hc : (live s).contains p = true := by simpa using hpl
  have e1 : step s (.join p) = some ({ s with term := upd s.term p true }, .ok) := by
    simp [step, Pre, apiStep, hp0, hpp, hc, hpl]
  have hl1 : live { s with term := upd s.term p true } = live s := rfl
  have e2 : step { s with term := upd s.term p true } (.join p) =
      some ({ s with term := upd (upd s.term p true) p true }, .ok) := by
    simp [step, Pre, apiStep, hp0, hpp, hl1, hc, hpl]
  have e3 : step { s with term := upd (upd s.term p true) p true } (.revive p) =
      some ({ s with term := upd (upd (upd s.term p true) p true) p false }, .ok) := by
    have : live { s with term := upd (upd s.term p true) p true } = live s := rfl
    simp [step, Pre, apiStep, hp0, this, hc, upd, hpl]
  have e4 : step { s with term := upd (upd (upd s.term p true) p true) p false } (.join p) = some (s4, .ok) := by
    have : live { s with term := upd (upd (upd s.term p true) p true) p false } = live s := rfl
    simp [step, Pre, apiStep, hp0, hpp, this, hc, s4, hpl]
  have e5 : step s4 (.free p) = some (s', .ok) := by
    have : (live s4).contains p = true := by rw [hl4]; exact hc
    simp only [step, Pre, this, Bool.or_true, if_true]
    exact he
  simp only [runOps, e1, e2, e3, e4, e5]

/-! non-vacuity: concrete histories from `ABT_init` (primary = descriptor 1, rank 0) -/

/-- auto ranks fill holes; an occupied rank (also the tail's) is refused; a freed rank is reused -/
example :
    (runOps init [.create 2, .create 3, .createWithRank 4 7, .createWithRank 5 7, .setRank 3 7, .setRank 3 5,
        .setRank 3 5, .free 2, .getNum, .create 6, .createWithRank 7 0, .setRank 1 4, .free 1, .getRank 4]).map (·.2)
      = some [.okRank 1, .okRank 2, .okRank 7, .errRank, .errRank, .ok, .ok, .ok, .okNum 3, .okRank 1, .errRank,
          .errXstream, .errXstream, .okRank 7] := by decide

/-- the hypotheses of the step theorems are satisfiable: a reachable state with four live streams -/
example : ∃ s, Reach s ∧ ranks s = [0, 1, 5, 7] ∧ s.num = 4 :=
  ⟨_, ⟨[.create 2, .create 3, .createWithRank 4 7, .setRank 3 5], _, rfl⟩, by decide, by decide⟩

/-! ## Part 2 — the native thread behind a stream (abtd_stream.c) -/

namespace Xs
open ArgoVerif.Model.XsCtx

/-- states reachable by any interleaving of the native thread and the caller, any number of
join / revive cycles, any spurious wake-ups -/
def Reach (s : Model.XsCtx.St) : Prop := ∃ tr, machine.run Model.XsCtx.init tr = some s

/-- **join returns only after the thread reached WAITING**: from the moment
`ABTD_xstream_context_join` has passed its final check until the caller's next store
(revive or terminate), the context state is WAITING, the native thread has returned from
`thread_f`, stored WAITING and sits in its `pthread_cond_wait` loop, no restart is pending,
and `thread_f` has been entered exactly once per (re)start request. Holds for a second join
of an already joined stream as well. -/
theorem xs_join_only_waiting (s : Model.XsCtx.St) (h : Reach s) (hj : cJoined s.c = true) :
    s.c.st = .waiting ∧ tInWaitLoop s.c = true ∧ s.c.owed = false ∧ s.runs = s.revives + 1 := by
  obtain ⟨tr, hr⟩ := h
  have hall := all_reach chk_all tr s hr
  have hinv := inv_run tr s hr
  simp only [Bool.and_eq_true] at hall
  have hjn := hall.1.1.1.1.1.1.1.2
  unfold chkJoined at hjn
  simp only [hj, Bool.not_true, Bool.false_or, Bool.and_eq_true, decide_eq_true_eq, Bool.not_eq_true'] at hjn
  have hc := hinv.2
  rw [hjn.2] at hc
  exact ⟨hjn.1.1, hjn.1.2, hjn.2, by simpa using hc⟩

/-- **revive restarts the thread exactly once**: `thread_f` is never entered more often than
once for the creation plus once per revive request; whenever it is running nothing is owed
(the count is exact); and a restart happens only on request (`fault` would record a restart
without a pending request or a second revive store before the first took effect). -/
theorem xs_revive_exactly_once (s : Model.XsCtx.St) (h : Reach s) :
    s.runs + (if s.c.owed then 1 else 0) = s.revives + 1 ∧ s.runs ≤ s.revives + 1 ∧
    (s.c.tpc = .run → s.runs = s.revives + 1 ∧ (s.c.st = .running ∨ s.c.st = .reqJoin)) := by
  obtain ⟨tr, hr⟩ := h
  have hall := all_reach chk_all tr s hr
  have hinv := inv_run tr s hr
  simp only [Bool.and_eq_true] at hall
  have hrun := hall.1.2
  refine ⟨hinv.2, by have := hinv.2; omega, fun ht => ?_⟩
  unfold chkRunning at hrun
  simp only [ht, decide_true, Bool.not_true, Bool.false_or, Bool.and_eq_true, Bool.not_eq_true',
    Bool.or_eq_true, decide_eq_true_eq] at hrun
  have hc := hinv.2
  rw [hrun.1] at hc
  exact ⟨by simpa using hc, hrun.2⟩

/-- **no lost wake-up**: (a) the thread sleeps in `pthread_cond_wait` with a state other than
WAITING only while the caller that stored the new state still holds the mutex and is about to
signal; (b) a joiner sleeps only while the state is REQ_JOIN and the thread has yet to reach
its `if (state == REQ_JOIN) signal` test — including the case where REQ_JOIN was stored
between a revive's signal and the thread's re-acquisition of the mutex; (c) they never sleep
both; (d) whenever the caller is inside join / revive / free, some step other than a spurious
wake-up is enabled. -/
theorem xs_no_lost_wakeup (s : Model.XsCtx.St) (h : Reach s) :
    (s.c.tpc = .blocked → s.c.st ≠ .waiting → (s.c.cpc = .rSig ∨ s.c.cpc = .fSig) ∧ s.c.owner = some .C) ∧
    (s.c.cpc = .jBlocked → s.c.st = .reqJoin ∧
        (s.c.tpc = .run ∨ s.c.tpc = .lock ∨ s.c.tpc = .chk ∨ s.c.tpc = .woken ∨ s.c.tpc = .loop ∨
          s.c.tpc = .unlock true)) ∧
    ¬ (s.c.tpc = .blocked ∧ s.c.cpc = .jBlocked) ∧
    ((∀ b, s.c.cpc ≠ .idle b) → s.c.cpc ≠ .freed →
        ∃ e, isSpurOrCall e = false ∧ (Model.XsCtx.step s e).isSome = true) := by
  obtain ⟨tr, hr⟩ := h
  have hall := all_reach chk_all tr s hr
  simp only [Bool.and_eq_true] at hall
  have ha := hall.1.1.1.1.1.1.2
  have hb := hall.1.1.1.1.1.2
  have hc := hall.1.1.1.1.2
  have hp := hall.2
  refine ⟨?_, ?_, ?_, ?_⟩
  · intro h1 h2
    unfold chkTNoLostWake at ha
    simp only [h1, decide_true, Bool.true_and, Bool.or_eq_true, Bool.not_eq_true', Bool.and_eq_true,
      decide_eq_true_eq, bne_eq_false_iff_eq] at ha
    rcases ha with ha | ha
    · exact absurd ha h2
    · exact ha
  · intro h1
    unfold chkCNoLostWake at hb
    simpa [h1, or_assoc] using hb
  · intro hh
    unfold chkNotBothBlocked at hc
    simp [hh.1, hh.2] at hc
  · intro hi hf
    unfold chkProgress at hp
    have : cOutside s.c.cpc = false := by
      cases hcp : s.c.cpc with
      | idle b => exact absurd hcp (hi b)
      | freed => exact absurd hcp hf
      | _ => rfl
    rw [this, Bool.false_or, List.any_eq_true] at hp
    obtain ⟨e, _, he⟩ := hp
    simp only [Bool.and_eq_true, Bool.not_eq_true', Option.isSome_iff_exists] at he
    obtain ⟨hsp, r, hr2⟩ := he
    obtain ⟨c', eff⟩ := r
    refine ⟨e, hsp, ?_⟩
    unfold Model.XsCtx.step
    rw [hr2]
    cases eff <;> rfl

/-- **no `ABTI_ASSERT` of abtd_stream.c can fail** (state RUNNING at thread start; RUNNING when a
join request is stored; WAITING after join, before revive and before terminate; RUNNING or
REQ_JOIN on restart), the mutex is held exactly in the critical sections of its owner, and
`ABTD_xstream_context_free` returns only after the native thread returned, which it does only
on REQ_TERMINATE. -/
theorem xs_asserts_mutex_free (s : Model.XsCtx.St) (h : Reach s) :
    s.c.fault = false ∧
    (tCrit s.c = true ↔ s.c.owner = some .T) ∧ (cCrit s.c = true ↔ s.c.owner = some .C) ∧
    (s.c.cpc = .freed → s.c.tpc = .done) ∧ (s.c.tpc = .done → s.c.st = .reqTerminate) := by
  obtain ⟨tr, hr⟩ := h
  have hall := all_reach chk_all tr s hr
  simp only [Bool.and_eq_true] at hall
  have hf := hall.1.1.1.1.1.1.1.1
  have hm := hall.1.1.1.2
  have hfr := hall.1.1.2
  unfold chkNoFault at hf
  unfold chkMutex at hm
  unfold chkFreed at hfr
  simp only [Bool.and_eq_true, beq_iff_eq, Bool.or_eq_true, Bool.not_eq_true', decide_eq_true_eq,
    decide_eq_false_iff_not] at hm hfr
  refine ⟨by simpa using hf, ?_, ?_, ?_, ?_⟩
  · rw [hm.1]; simp
  · rw [hm.2]; simp
  · intro hc; rcases hfr.1 with h1 | h1
    · exact absurd hc h1
    · exact h1
  · intro hc; rcases hfr.2 with h1 | h1
    · exact absurd hc h1
    · exact h1

/-- non-vacuity: create → thread_f returns → join → revive → (join issued before the woken thread
re-acquired the mutex: REQ_JOIN seen at wake-up) → join returns → free → thread gone -/
example :
    (machine.run Model.XsCtx.init
      [.tau .T, .ret, .lock .T, .tau .T, .store .T .waiting, .wait .T,
       .call .join, .lock .C, .tau .C, .tau .C, .unlock .C,
       .call .revive, .lock .C, .store .C .running, .signal .C (some .T), .unlock .C,
       .call .join, .lock .C, .tau .C, .store .C .reqJoin, .wait .C,
       .relock .T, .tau .T, .unlock .T, .ret, .lock .T, .signal .T (some .C), .store .T .waiting, .wait .T,
       .relock .C, .tau .C, .tau .C, .unlock .C,
       .call .free, .lock .C, .store .C .reqTerminate, .signal .C (some .T), .unlock .C,
       .relock .T, .tau .T, .unlock .T, .pjoin]).map
      (fun s => (s.c.cpc, s.c.tpc, s.c.st, s.runs, s.revives, s.c.fault))
      = some (.freed, .done, .reqTerminate, 2, 1, false) := by decide

/-- non-vacuity: a spurious wake-up of the joiner does not let join return early -/
example :
    (machine.run Model.XsCtx.init
      [.tau .T, .call .join, .lock .C, .tau .C, .store .C .reqJoin, .wait .C, .spur .C, .relock .C, .tau .C]).map
      (fun s => (s.c.cpc, s.c.st)) = some (.jWait, .reqJoin) := by decide

end Xs

/-! ## Part 3 — replacing the main scheduler of the stream the caller runs on -/

namespace Rp
open ArgoVerif.Model.Replace

/-- **replacement keeps the stream and the calling ULT running — PARTIAL**: proved only under
the hypothesis that no replacement is requested while another one is pending (`runNO`; one
caller at a time, each replacement completed before the next request).  Then, after any
sequence of request / run / yield / finish / replace events on a stream with any set of ULTs:
no work unit is ever pushed to a freed pool; the current main scheduler is alive; a caller that
is suspended inside `ABT_xstream_set_main_sched[_basic]` is exactly the registered waiter of the
pending replacement, associated with the pool of the pending (alive) scheduler, so the `replace`
step resumes it into the new main scheduler's pool; every ready or running ULT is associated
with the pool of the current main scheduler or of the pending one, i.e. nothing is stranded.
What is missing for the full statement: the overlapping case, which the code gets wrong
(`replace_overlap_strands_first_caller`, finding F7). -/
theorem replace_keeps_caller_running_partial (ults : List RId) (automatic : Bool) (tr : List Ev) (s : Model.Replace.St)
    (hr : runNO (Model.Replace.init ults automatic) tr = some s) :
    s.uaf = false ∧ s.freed s.cur = false ∧
    (∀ u ∈ s.ults, s.ustat u = .blocked →
        s.rwaiter s.cur = some u ∧ s.rsched s.cur = some (s.upool u) ∧ s.freed (s.upool u) = false) ∧
    (∀ u ∈ s.ults, (s.ustat u = .ready ∨ s.ustat u = .running) →
        s.upool u = s.cur ∨ (s.rsched s.cur = some (s.upool u) ∧ s.freed (s.upool u) = false)) := by
  have h := inv_runNO tr _ s (inv_init ults automatic) hr
  refine ⟨h.uaf, h.curAlive, ?_, ?_⟩
  · intro u hu hb
    have := h.blocked u hu hb
    exact ⟨this.1, this.2, (h.pend _ this.2).1⟩
  · intro u hu hst
    rcases h.active u hu hst with e | e
    · exact Or.inl e
    · exact Or.inr ⟨e, (h.pend _ e).1⟩

/-- the step after which the caller continues: when the main scheduler performs the pending
replacement (non-overlapping history), the waiter becomes ready in the pool of the *new current*
main scheduler, which is alive -/
theorem replace_resumes_caller_partial (ults : List RId) (automatic : Bool) (tr : List Ev) (s s' : Model.Replace.St) (w : RId)
    (hr : runNO (Model.Replace.init ults automatic) tr = some s) (hw : s.rwaiter s.cur = some w)
    (hs : Model.Replace.step s .replace = some s') :
    s'.ustat w = .ready ∧ s'.upool w = s'.cur ∧ s'.freed s'.cur = false ∧ s'.uaf = false := by
  have h := inv_runNO tr _ s (inv_init ults automatic) hr
  have h' := inv_replace s s' h hs
  have hwm := h.waiter w hw
  have hwb := h.blocked w hwm.1 hwm.2
  simp only [Model.Replace.step] at hs
  split at hs
  · rw [hwb.2, hw] at hs
    simp only [Option.some.injEq] at hs
    subst hs
    exact ⟨by simp [resumePush, upd], by simp [resumePush], h'.curAlive, h'.uaf⟩
  · cases hs

/-- **counter-example for overlapping replacements (finding F7), user pools**: ULT 0 requests
scheduler 10 and suspends; the old scheduler still has ULT 1 in its pool and runs it; ULT 1
requests scheduler 11: scheduler 10 is discarded and ULT 0 is pushed to pool 10; the replacement
installs scheduler 11.  Final state: ULT 0 is ready in pool 10, whose scheduler is freed and is
neither the current nor a pending one — it is never scheduled again (the first caller never
returns), while ULT 1 continues in pool 11. -/
theorem replace_overlap_strands_first_caller :
    let r := Model.Replace.run (Model.Replace.init [0, 1] false) [.request 0 10, .run 1, .request 1 11, .replace]
    r.map (fun s => (s.cur, s.ustat 0, s.upool 0, s.freed 10)) = some (11, .ready, 10, true) ∧
    r.map (fun s => (s.rsched s.cur, s.ustat 1, s.upool 1, s.uaf)) = some (none, .ready, 11, false) := by
  decide

/-- same history with automatic pools (`num_pools = 0`): the push of ULT 0 goes to the pool of
the scheduler that was just freed — use after free -/
theorem replace_overlap_automatic_pools_uaf :
    (Model.Replace.run (Model.Replace.init [0, 1] true) [.request 0 10, .run 1, .request 1 11]).map (fun s => s.uaf)
      = some true := by decide

/-- non-vacuity of the partial theorem: three consecutive, non-overlapping replacements with other
ULTs pending; the caller continues under each new scheduler -/
example :
    (runNO (Model.Replace.init [0, 1, 2] false)
      [.request 0 10, .run 1, .finish 1, .run 2, .yield 2, .run 2, .finish 2, .replace, .run 0,
       .request 0 11, .replace, .run 0, .request 0 12, .replace, .run 0]).map
      (fun s => (s.cur, s.ustat 0, s.upool 0, s.uaf, s.freed 10, s.freed 12))
      = some (12, .running, 12, false, true, false) := by decide

end Rp

/-! ## Part 4 — concurrent callers: the lock scope of rank allocation (Model.RankConc) -/

namespace Conc
open ArgoVerif.Model.RankConc

abbrev CSt := Model.RankConc.St

/-- states reachable by any interleaving of any number of callers (external threads, ULTs on
different execution streams) of create / create_with_rank / set_rank / free / get_num, at the
granularity spinlock test_and_set / scan / list update / release / return -/
def Reach (s : CSt) : Prop := ∃ tr, machine.run Model.RankConc.init tr = some s

/-- **the list lock is a lock**: `xstream_list_lock` is set exactly while one actor is between
its successful test_and_set and its release, and two actors are never there together. -/
theorem conc_mutual_exclusion (s : CSt) (h : Reach s) :
    (∀ a, s.lock = some a ↔ inCrit (s.pc a) = true) ∧
    (∀ a b, inCrit (s.pc a) = true → inCrit (s.pc b) = true → a = b) := by
  have hi := inv_reachable _ h
  refine ⟨hi.own, fun a b ha hb => ?_⟩
  have h1 := (hi.own a).mpr ha
  have h2 := (hi.own b).mpr hb
  rw [h1] at h2
  exact Option.some.inj h2

/-- **C17 for concurrent callers — refinement; discharges the atomicity assumption of Part 1**:
in every state reachable by any interleaving, the calls that have taken effect so far (`hist`, in
the order of their linearisation steps), executed one after the other as whole atomic calls by
`Model.Rank`, produce exactly the present shared list and exactly the results the callers got.
For the C code: `xstream_set_new_rank`, `xstream_change_rank`, `xstream_return_rank` behave as if
each ran alone, in the order in which they performed their update under `xstream_list_lock`. -/
theorem conc_refines_atomic (s : CSt) (h : Reach s) :
    runOps Model.Rank.init (s.hist.map Prod.fst) = some (s.g, s.hist.map Prod.snd) ∧
    ArgoVerif.Props.C17.Reach s.g :=
  ⟨(inv_reachable _ h).hist, ⟨_, _, (inv_reachable _ h).hist⟩⟩

/-- **forward simulation, step by step**: every step of every actor either leaves the shared list
and the history alone, or is exactly ONE atomic `Model.Rank` call — the acting actor's own call,
taking effect once (its pc moves from "not yet" to "done"), with the result the actor will return —
performed while that actor holds the list lock, or by a call that never writes (argument errors,
set_rank to the rank already held, get_num). -/
theorem conc_step_simulates (s s' : CSt) (e : Ev) (h : Reach s) (hs : Model.RankConc.step s e = some s') :
    (s'.g = s.g ∧ s'.hist = s.hist) ∨
    ∃ a o, preLin (s.pc a) = true ∧ postLin (s'.pc a) = true ∧
      Model.Rank.step s.g (s.op a) = some (s'.g, o) ∧ s'.hist = s.hist ++ [(s.op a, o)] ∧ s'.res a = o ∧
      (s.lock = some a ∨ (lockFree s.g (s.op a) = true ∧ s'.g = s.g)) := by
  cases (inv_step s s' e (inv_reachable _ h) hs).2 with
  | stutter hg hh => exact Or.inl ⟨hg, hh⟩
  | lin a o h1 h2 h3 h4 h5 h6 => exact Or.inr ⟨a, o, h1, h2, h3, h4, h5, h6⟩

/-- **a caller is told what took effect**: the value returned by a call is the result recorded
at its linearisation step. -/
theorem conc_ret_is_linearized (s s' : CSt) (a : Actor) (o : Out) (h : Reach s)
    (hs : Model.RankConc.step s (.ret a o) = some s') : (s.op a, o) ∈ s.hist := by
  have hi := inv_reachable _ h
  simp only [Model.RankConc.step, stepRet] at hs
  split at hs
  · rename_i hc
    have := hi.lin a (by rw [hc.1]; rfl)
    rw [hc.2] at this
    exact this
  · simp at hs

/-- **ranks of live streams are pairwise distinct under every interleaving**, at every step
(also while somebody is inside the critical section): the list is strictly sorted by rank, no
stream is linked twice, and `num_xstreams` (what `ABT_xstream_get_num` reads without the lock) is
the number of live streams. -/
theorem conc_ranks_distinct (s : CSt) (h : Reach s) :
    (ranks s.g).Pairwise (· < ·) ∧ (ranks s.g).Nodup ∧ (live s.g).Nodup ∧
    s.g.num = (live s.g).length ∧ (live s.g).head? = some primaryId := by
  have hr := (conc_refines_atomic s h).2
  have h1 := rank_sorted_distinct s.g hr
  exact ⟨h1.1, h1.2.1, h1.2.2.1, (num_eq_length s.g hr).1, h1.2.2.2.2.2.2.1⟩

/-- **a requested rank is granted iff no live stream has it at the linearisation point**, which is
inside the caller's lock hold: whenever a `create_with_rank(r)` takes effect (any interleaving),
it reports success iff `r ≥ 0` and no stream in the list holds `r` in the state in which it takes
effect; on success the caller holds `xstream_list_lock`, the new stream is in the list with
exactly rank `r`, everybody else keeps their rank; on refusal the list is unchanged. -/
theorem conc_request_iff_free (s s' : CSt) (e : Ev) (p : Ptr) (r : Int) (o : Out) (h : Reach s)
    (hs : Model.RankConc.step s e = some s') (hh : s'.hist = s.hist ++ [(.createWithRank p r, o)]) :
    (o = .okRank r ↔ (0 ≤ r ∧ r ∉ ranks s.g)) ∧ (o = .okRank r ∨ o = .errRank) ∧
    (o = .errRank → live s'.g = live s.g ∧ s'.g.rank = s.g.rank ∧ s'.g.num = s.g.num) ∧
    (o = .okRank r → (∃ a, s.lock = some a ∧ s.op a = .createWithRank p r) ∧ s'.g.rank p = r ∧
        (∀ q, q ∈ live s'.g ↔ q = p ∨ q ∈ live s.g) ∧ ∀ q, q ≠ p → s'.g.rank q = s.g.rank q) := by
  rcases conc_step_simulates s s' e h hs with ⟨-, h2⟩ | ⟨a, o', -, -, hst, hh', -, hlk⟩
  · rw [h2] at hh; simp at hh
  · rw [hh'] at hh
    have := List.append_cancel_left hh
    simp only [List.cons.injEq, Prod.mk.injEq, and_true] at this
    obtain ⟨hop, rfl⟩ := this
    rw [hop] at hst hlk
    have hx := rank_request_iff_free s.g s'.g p r o' (conc_refines_atomic s h).2 hst
    refine ⟨hx.1, hx.2.1, hx.2.2.1, fun hok => ⟨?_, hx.2.2.2 hok⟩⟩
    rcases hlk with hl | ⟨hlf, -⟩
    · exact ⟨a, hl, hop⟩
    · exfalso
      have h0 := (hx.1.mp hok).1
      simp only [lockFree, decide_eq_true_eq] at hlf
      omega

/-- **rank −1 gets the smallest unused rank at the linearisation point**: whenever a
`create` without a rank takes effect, the caller holds the list lock and the new stream gets the
least non-negative rank that no stream in the list holds in that state. -/
theorem conc_auto_is_mex (s s' : CSt) (e : Ev) (p : Ptr) (o : Out) (h : Reach s)
    (hs : Model.RankConc.step s e = some s') (hh : s'.hist = s.hist ++ [(.create p, o)]) :
    (∃ a, s.lock = some a ∧ s.op a = .create p) ∧
    ∃ r, o = .okRank r ∧ s'.g.rank p = r ∧ p ∈ live s'.g ∧ 0 ≤ r ∧ r ∉ ranks s.g ∧
      ∀ k, 0 ≤ k → k < r → k ∈ ranks s.g := by
  rcases conc_step_simulates s s' e h hs with ⟨-, h2⟩ | ⟨a, o', -, -, hst, hh', -, hlk⟩
  · rw [h2] at hh; simp at hh
  · rw [hh'] at hh
    have := List.append_cancel_left hh
    simp only [List.cons.injEq, Prod.mk.injEq, and_true] at this
    obtain ⟨hop, rfl⟩ := this
    rw [hop] at hst hlk
    refine ⟨?_, rank_auto_is_mex s.g s'.g p o' (conc_refines_atomic s h).2 hst⟩
    rcases hlk with hl | ⟨hlf, -⟩
    · exact ⟨a, hl, hop⟩
    · simp [lockFree] at hlf

/-- **set_rank under concurrency**: whenever a `set_rank(p, r)` on a live secondary stream with
`r ≥ 0` takes effect, it succeeds iff the stream already holds `r` or no stream in the list holds
`r` in that state; on refusal nothing changes, on success exactly this stream's rank changes. -/
theorem conc_change_iff_free (s s' : CSt) (e : Ev) (p : Ptr) (r : Int) (o : Out) (h : Reach s)
    (hs : Model.RankConc.step s e = some s') (hh : s'.hist = s.hist ++ [(.setRank p r, o)])
    (hpl : p ∈ live s.g) (hpp : p ≠ primaryId) (hr : 0 ≤ r) :
    (o = .ok ↔ (s.g.rank p = r ∨ r ∉ ranks s.g)) ∧ (o = .ok ∨ o = .errRank) ∧
    (o = .errRank → s'.g = s.g) ∧
    (o = .ok → s'.g.rank p = r ∧ (∀ q, q ≠ p → s'.g.rank q = s.g.rank q) ∧
      ∀ q, q ∈ live s'.g ↔ q ∈ live s.g) := by
  rcases conc_step_simulates s s' e h hs with ⟨-, h2⟩ | ⟨a, o', -, -, hst, hh', -, -⟩
  · rw [h2] at hh; simp at hh
  · rw [hh'] at hh
    have := List.append_cancel_left hh
    simp only [List.cons.injEq, Prod.mk.injEq, and_true] at this
    obtain ⟨hop, rfl⟩ := this
    rw [hop] at hst
    exact rank_change_iff_free s.g s'.g p r o' (conc_refines_atomic s h).2 hpl hpp hr hst

/-- **the scan stays valid until the update (no time-of-check/time-of-use window)**: in every
reachable state, an actor that has scanned the list and not yet updated it holds the lock, and
what it found is true of the list *now*: the explicit rank it asked for is held by no live stream
/ the rank it computed for `-1` is the least unused one.  This is the fact that fails as soon as
check and insertion are not in the same critical section. -/
theorem conc_scan_valid_at_update (s : CSt) (a : Actor) (h : Reach s) (hpc : s.pc a = .chkOk) :
    s.lock = some a ∧
    (∀ p r, s.op a = .createWithRank p r → r ∉ ranks s.g ∧ s.loc a = r ∧ p ∉ live s.g) ∧
    (∀ p, s.op a = .create p → 0 ≤ s.loc a ∧ s.loc a ∉ ranks s.g ∧ p ∉ live s.g ∧
        ∀ k, 0 ≤ k → k < s.loc a → k ∈ ranks s.g) ∧
    (∀ p r, s.op a = .setRank p r → r ∉ ranks s.g ∧ p ∈ live s.g) := by
  have hi := inv_reachable _ h
  have hc := hi.chk a hpc
  have hp := hi.pre a (by rw [hpc]; rfl)
  have hn := hi.need a (by rw [hpc]; rfl)
  refine ⟨(hi.own a).mpr (by rw [hpc]; rfl), ?_, ?_, ?_⟩
  · intro p r hop
    rw [hop] at hc hp
    have hx := chk_createw hi.wf (pre_createw hp).2 hc
    exact ⟨hx.1, hx.2, (pre_createw hp).2⟩
  · intro p hop
    rw [hop] at hc hp
    have hx := chk_create hi.wf (pre_create hp).2 hc
    exact ⟨hx.1, hx.2.1, (pre_create hp).2, hx.2.2⟩
  · intro p r hop
    rw [hop] at hc hp hn
    refine ⟨chk_setrank hi.wf hc, ?_⟩
    simp only [lockFree, Bool.or_eq_false_iff, decide_eq_false_iff_not] at hn
    simp only [Pre, Bool.or_eq_true, decide_eq_true_eq, List.contains_eq_mem] at hp
    rcases hp with h0 | h0
    · exact absurd h0 hn.1.1.1
    · simpa using h0

/-- **no assertion of the list code can fail under any interleaving**: an actor inside the
critical section can always take its next step — the scan terminates within the list, the update
after a successful scan passes `ABTI_ASSERT(p_xstream->rank != rank)` and the head assertions of
`xstream_add_xstream_list` / `xstream_remove_xstream_list`, and the lock is then released. -/
theorem conc_critical_section_progress (s : CSt) (a : Actor) (h : Reach s) (hc : inCrit (s.pc a) = true) :
    ∃ e, (Model.RankConc.step s e).isSome = true ∧
      (e = .check a ∨ e = .insert a ∨ e = .move a ∨ e = .remove a ∨ e = .clear a) := by
  have hi := inv_reachable _ h
  have hlk := (hi.own a).mpr hc
  cases hpc : s.pc a with
  | idle => rw [hpc] at hc; simp [inCrit] at hc
  | start => rw [hpc] at hc; simp [inCrit] at hc
  | want => rw [hpc] at hc; simp [inCrit] at hc
  | spin => rw [hpc] at hc; simp [inCrit] at hc
  | joining => rw [hpc] at hc; simp [inCrit] at hc
  | done => rw [hpc] at hc; simp [inCrit] at hc
  | chkFail =>
    exact ⟨.clear a, by simp [Model.RankConc.step, stepClear, hpc, hlk], by simp⟩
  | mutated =>
    exact ⟨.clear a, by simp [Model.RankConc.step, stepClear, hpc, hlk], by simp⟩
  | locked =>
    have hp := hi.pre a (by rw [hpc]; rfl)
    have hn := hi.need a (by rw [hpc]; rfl)
    have hal := hi.alw a (by rw [hpc]; simp)
    cases hop : s.op a with
    | create p =>
      rw [hop] at hp
      obtain ⟨r, hm, -⟩ := mexLoop_privInit s.g p hi.wf (pre_create hp).2
      exact ⟨.check a, by simp [Model.RankConc.step, stepCheck, hpc, hlk, hop, hm], by simp⟩
    | createWithRank p r =>
      rw [hop] at hp
      have hm := findLoop_privInit s.g p r hi.wf (pre_createw hp).2
      by_cases hin : r ∈ ranks s.g
      · simp only [hin, decide_true] at hm
        exact ⟨.check a, by simp [Model.RankConc.step, stepCheck, hpc, hlk, hop, hm], by simp⟩
      · simp only [hin, decide_false] at hm
        exact ⟨.check a, by simp [Model.RankConc.step, stepCheck, hpc, hlk, hop, hm], by simp⟩
    | setRank p r =>
      have hm := findLoop_wf s.g r hi.wf
      by_cases hin : r ∈ ranks s.g
      · simp only [hin, decide_true] at hm
        exact ⟨.check a, by simp [Model.RankConc.step, stepCheck, hpc, hlk, hop, hm], by simp⟩
      · simp only [hin, decide_false] at hm
        exact ⟨.check a, by simp [Model.RankConc.step, stepCheck, hpc, hlk, hop, hm], by simp⟩
    | free p =>
      rw [hop] at hp hn
      obtain ⟨g', hg⟩ := remove_enabled s.g p hi.wf hp hn
      exact ⟨.remove a, by simp [Model.RankConc.step, stepRemove, hpc, hlk, hop, hg], by simp⟩
    | getNum => rw [hop] at hn; simp [lockFree] at hn
    | join p => rw [hop] at hal; simp [allowed] at hal
    | revive p => rw [hop] at hal; simp [allowed] at hal
    | getRank p => rw [hop] at hal; simp [allowed] at hal
  | chkOk =>
    have hp := hi.pre a (by rw [hpc]; rfl)
    have hn := hi.need a (by rw [hpc]; rfl)
    have hk := hi.chk a hpc
    cases hop : s.op a with
    | create p =>
      rw [hop] at hp hk
      obtain ⟨g', hg⟩ := insert_enabled_create s.g p _ hi.wf hp hk
      exact ⟨.insert a, by simp [Model.RankConc.step, stepInsert, hpc, hlk, hop, hg], by simp⟩
    | createWithRank p r =>
      rw [hop] at hp hk hn
      have hr : ¬ r < 0 := by simpa [lockFree] using hn
      obtain ⟨g', hg⟩ := insert_enabled_createw s.g p r _ hi.wf hp hr hk
      exact ⟨.insert a, by simp [Model.RankConc.step, stepInsert, hpc, hlk, hop, hg], by simp⟩
    | setRank p r =>
      rw [hop] at hp hk hn
      obtain ⟨g', hg⟩ := move_enabled s.g p r _ hi.wf hp hn hk
      exact ⟨.move a, by simp [Model.RankConc.step, stepMove, hpc, hlk, hop, hg], by simp⟩
    | free p => rw [hop] at hk; simp [ChkFact] at hk
    | getNum => rw [hop] at hk; simp [ChkFact] at hk
    | join p => rw [hop] at hk; simp [ChkFact] at hk
    | revive p => rw [hop] at hk; simp [ChkFact] at hk
    | getRank p => rw [hop] at hk; simp [ChkFact] at hk

/-! ### non-vacuity and rejected traces -/

/-- what the examples look at: ranks in list order, `num_xstreams`, results in linearisation order -/
def view (s : CSt) : List Int × Int × List Out := (ranks s.g, s.g.num, s.hist.map Prod.snd)

/-- two creators race for the same free rank 3 (actor 0 from an external thread, actor 1 from a
ULT, say): both are past their argument checks, actor 1 spins while actor 0 is inside; actor 0
wins, actor 1's scan — done under its own lock hold, after actor 0's insertion — refuses. -/
example :
    (machine.run Model.RankConc.init
      [.call 0 (.createWithRank 2 3), .call 1 (.createWithRank 3 3), .pre 0, .pre 1,
       .tas 0 false, .tas 1 true, .spinLoad 1 true, .check 0, .spinLoad 1 true, .insert 0, .clear 0,
       .spinLoad 1 false, .tas 1 false, .check 1, .clear 1, .ret 1 .errRank, .ret 0 (.okRank 3)]).map view
      = some ([0, 3], 2, [.okRank 3, .errRank]) := by decide

/-- the other order of the same race: the ULT wins -/
example :
    (machine.run Model.RankConc.init
      [.call 0 (.createWithRank 2 3), .call 1 (.createWithRank 3 3), .pre 0, .pre 1,
       .tas 1 false, .tas 0 true, .check 1, .insert 1, .clear 1, .spinLoad 0 false, .tas 0 false,
       .check 0, .clear 0, .ret 1 (.okRank 3), .ret 0 .errRank]).map view
      = some ([0, 3], 2, [.okRank 3, .errRank]) := by decide

/-- a longer interleaving with four actors: different free ranks, `-1` filling the hole, a rank
change refused and one granted, a free making a rank reusable, get_num read while another actor is
inside the critical section, a negative rank refused without the lock -/
example :
    (machine.run Model.RankConc.init
      [.call 0 (.createWithRank 2 2), .call 1 (.create 3), .call 2 (.createWithRank 4 5), .call 3 .getNum,
       .pre 0, .pre 1, .pre 2, .tas 1 false, .tas 0 true, .check 1, .pre 3, .insert 1, .ret 3 (.okNum 1),
       .tas 2 true, .clear 1, .ret 1 (.okRank 1), .spinLoad 2 false, .tas 2 false, .spinLoad 0 true,
       .check 2, .insert 2, .clear 2, .spinLoad 0 false, .tas 0 false, .check 0, .call 3 .getNum, .pre 3,
       .ret 3 (.okNum 3), .insert 0, .clear 0, .ret 0 (.okRank 2), .ret 2 (.okRank 5),
       .call 0 (.setRank 3 5), .call 1 (.setRank 4 7), .call 2 (.createWithRank 5 (-2)), .pre 2,
       .ret 2 .errRank, .pre 0, .pre 1, .tas 0 false, .check 0, .clear 0, .ret 0 .errRank, .tas 1 false,
       .check 1, .move 1, .clear 1, .ret 1 .ok, .call 0 (.free 2), .pre 0, .joined 0, .tas 0 false, .remove 0,
       .clear 0, .ret 0 .ok, .call 2 (.createWithRank 2 2), .pre 2, .tas 2 false, .check 2, .insert 2,
       .clear 2, .ret 2 (.okRank 2), .call 1 (.setRank 3 1), .pre 1, .ret 1 .ok]).map view
      = some ([0, 1, 2, 7], 4,
          [.okNum 1, .okRank 1, .okRank 5, .okNum 3, .okRank 2, .errRank, .errRank, .ok, .ok, .okRank 2, .ok]) := by
  decide

/-- the hypotheses of the step theorems are satisfiable: a reachable state in which actor 0 has
scanned and not yet inserted while actors 1 and 2 wait for the lock -/
example : ∃ s, Reach s ∧ s.pc 0 = .chkOk ∧ s.pc 1 = .spin ∧ s.pc 2 = .want ∧ s.lock = some 0 :=
  ⟨_, ⟨[.call 0 (.createWithRank 2 3), .call 1 (.createWithRank 3 3), .call 2 (.create 4), .pre 0, .pre 1,
        .pre 2, .tas 0 false, .tas 1 true, .check 0], rfl⟩, by decide, by decide, by decide, by decide⟩

/-- **rejected: check and insertion in different critical sections (check/act split)**.  Both
actors validate rank 3 in a critical section of its own (scan says "free"), release the lock, and
insert in a second critical section without scanning again — the two creators would both be
granted rank 3.  The first release after a successful scan is already not a step of the model. -/
theorem conc_rejects_check_act_split :
    machine.run Model.RankConc.init
      [.call 0 (.createWithRank 2 3), .call 1 (.createWithRank 3 3), .pre 0, .pre 1,
       .tas 0 false, .check 0, .clear 0] = none ∧
    -- … and an insertion in a critical section that did not perform the scan is not one either
    machine.run Model.RankConc.init
      [.call 0 (.createWithRank 2 3), .pre 0, .tas 0 false, .insert 0] = none ∧
    -- … nor is an insertion after a scan that found the rank taken
    machine.run Model.RankConc.init
      [.call 0 (.createWithRank 2 0), .pre 0, .tas 0 false, .check 0, .insert 0] = none ∧
    -- … nor a second holder of the lock, nor an update without the lock
    machine.run Model.RankConc.init
      [.call 0 (.create 2), .call 1 (.create 3), .pre 0, .pre 1, .tas 0 false, .tas 1 false] = none ∧
    machine.run Model.RankConc.init
      [.call 0 (.create 2), .pre 0, .check 0] = none := by decide

/-- rejected: a caller told "granted" although its scan found the rank taken -/
example :
    machine.run Model.RankConc.init
      [.call 0 (.createWithRank 2 0), .pre 0, .tas 0 false, .check 0, .clear 0, .ret 0 (.okRank 0)] = none := by
  decide

/-- **a stream keeps its rank, and is counted, until it has stopped** (any interleaving, every
instant): a stream that is running or being joined — from its insertion until the join part of its
`ABT_xstream_free` completed (main scheduler terminated, state TERMINATED, native thread parked) —
is linked in the global list.  Hence two such streams never hold the same rank, no creator or
`set_rank` can be granted the rank of one of them (`conc_request_iff_free`: granted only if no
stream *in the list* holds it), and `num_xstreams` — what `ABT_xstream_get_num` reads — is at least
the number of such streams.  A free that is on its way to, or inside, its removing critical section
acts on a stream that has stopped: `xstream_return_rank` comes after `xstream_join`. -/
theorem conc_running_streams_distinct_and_counted (s : CSt) (h : Reach s) :
    (∀ p, s.running p = true → p ∈ live s.g) ∧
    (∀ p q, s.running p = true → s.running q = true → p ≠ q → s.g.rank p ≠ s.g.rank q) ∧
    (∀ L : List Ptr, L.Nodup → (∀ p ∈ L, s.running p = true) → (L.length : Int) ≤ s.g.num) ∧
    (∀ a p, s.op a = .free p → afterJoin (s.pc a) = true → s.running p = false) := by
  obtain ⟨hi, hr⟩ := invR_reachable s h
  have hd := conc_ranks_distinct s h
  refine ⟨hr.inlist, ?_, ?_, hr.stopped⟩
  · intro p q hp hq hne e
    exact hne (nodup_map_inj s.g.rank (live s.g) hd.2.1 p (hr.inlist p hp) q (hr.inlist q hq) e)
  · intro L hn hall
    have := nodup_subset_length L (live s.g) hn (fun x hx => hr.inlist x (hall x hx))
    rw [hd.2.2.2.1]
    exact_mod_cast this

/-- the view of the examples below plus who is still running -/
def viewR (s : CSt) : List Int × Int × List Out × List Bool :=
  (ranks s.g, s.g.num, s.hist.map Prod.snd, [s.running 1, s.running 2, s.running 3])

/-- a free blocked in its join (the stream is busy) while others call create_with_rank for its rank,
create without a rank and get_num: the busy stream keeps rank 1 and is counted (the request for rank 1
is refused, `-1` gives 2, get_num = 2 then 3); only after `joined` does the free take the lock and
unlink it, and rank 1 becomes reusable -/
example :
    (machine.run Model.RankConc.init
      [.call 0 (.create 2), .pre 0, .tas 0 false, .check 0, .insert 0, .clear 0, .ret 0 (.okRank 1),
       .call 0 (.free 2), .pre 0,
       .call 1 (.createWithRank 3 1), .pre 1, .tas 1 false, .check 1, .clear 1, .ret 1 .errRank,
       .call 2 .getNum, .pre 2, .ret 2 (.okNum 2),
       .call 1 (.create 3), .pre 1, .tas 1 false, .check 1, .insert 1, .clear 1, .ret 1 (.okRank 2),
       .call 2 .getNum, .pre 2, .ret 2 (.okNum 3),
       .joined 0, .tas 0 false, .remove 0, .clear 0, .ret 0 .ok,
       .call 2 (.createWithRank 4 1), .pre 2, .tas 2 false, .check 2, .insert 2, .clear 2, .ret 2 (.okRank 1)]).map viewR
      = some ([0, 1, 2], 3, [.okRank 1, .errRank, .okNum 2, .okRank 2, .okNum 3, .ok, .okRank 1],
          [true, false, true]) := by decide

/-- the hypotheses are satisfiable: a reachable state with a running primary, a running secondary
stream whose free is blocked in the join, and a second running secondary stream -/
example : ∃ s, Reach s ∧ s.pc 0 = .joining ∧ s.running 2 = true ∧ s.running 3 = true ∧ ranks s.g = [0, 1, 2] :=
  ⟨_, ⟨[.call 0 (.create 2), .pre 0, .tas 0 false, .check 0, .insert 0, .clear 0, .ret 0 (.okRank 1),
        .call 0 (.free 2), .pre 0, .call 1 (.create 3), .pre 1, .tas 1 false, .check 1, .insert 1, .clear 1], rfl⟩,
    by decide, by decide, by decide, by decide⟩

/-- **rejected: the rank is returned before the join** (`xstream_return_rank` at the beginning of
`ABT_xstream_free`): a free that goes for the list lock while its target stream has not stopped is not
a run of the model — neither the test_and_set, nor (had it the lock) the removal. -/
theorem conc_rejects_remove_before_join :
    machine.run Model.RankConc.init
      [.call 0 (.create 2), .pre 0, .tas 0 false, .check 0, .insert 0, .clear 0, .ret 0 (.okRank 1),
       .call 0 (.free 2), .pre 0, .tas 0 false] = none ∧
    machine.run Model.RankConc.init
      [.call 0 (.create 2), .pre 0, .tas 0 false, .check 0, .insert 0, .clear 0, .ret 0 (.okRank 1),
       .call 0 (.free 2), .pre 0, .remove 0] = none ∧
    -- with the join completed first the same history is a run
    (machine.run Model.RankConc.init
      [.call 0 (.create 2), .pre 0, .tas 0 false, .check 0, .insert 0, .clear 0, .ret 0 (.okRank 1),
       .call 0 (.free 2), .pre 0, .joined 0, .tas 0 false, .remove 0, .clear 0, .ret 0 .ok]).isSome = true := by
  decide

end Conc

/-! ## Part 5 — the life cycle of a secondary stream in stream.c / thread.c (over Part 2's context) -/

namespace Life
open ArgoVerif.Model.XsCtx ArgoVerif.Model.XsLife

/-- states reachable by any interleaving of the native thread, the life-cycle callers (ABT_xstream_join / revive / free,
one call at a time, by any ULT or external thread), cancel / get_state / push from anybody, exit by a ULT of the stream;
any number of lives -/
def Reach (s : Model.XsLife.St) : Prop := ∃ tr, Model.XsLife.machine.run Model.XsLife.init tr = some s

/-- **ABT_xstream_join returns only when the native thread has parked**: when `xstream_join` returns (also the join
inside ABT_xstream_free, also a second join of an already joined stream), and as long as no revive has started, the
context state is WAITING, the native thread has left `thread_f` for good (it sits in the wait loop of
xstream_context_thread_func, no restart pending), the public state is TERMINATED and the main scheduler's ULT is
TERMINATED.  In particular a join cannot return on the strength of the public state alone: `thread_root_func`
publishes TERMINATED while the context is still RUNNING. -/
theorem join_returns_only_when_parked (s s' : Model.XsLife.St) (h : Reach s)
    (hs : Model.XsLife.step s (.ret .join) = some s') :
    s'.x.st = .waiting ∧ tInWaitLoop s'.x = true ∧ s'.x.owed = false ∧ s'.pub = true ∧ s'.mterm = true ∧
    s'.npc = .out ∧ s'.x.cpc = .idle true ∧ s'.lpc = .idle := by
  obtain ⟨tr, hr⟩ := h
  have hi := inv_run tr s hr
  have hi' := inv_step s _ s' hi hs
  simp only [Model.XsLife.step] at hs
  split at hs <;> simp only [Option.some.injEq, reduceCtorEq] at hs
  rename_i hl
  have hrel := hi.rel
  rw [hl] at hrel
  have hc : s.x.cpc = .idle true := by
    cases hp : s.x.cpc with
    | idle b => cases b <;> simp_all [rel, ccl]
    | _ => simp_all [rel, ccl]
  subst hs
  have hj := joined_facts (s := { s with lpc := .idle }) hi' hc (Or.inl rfl)
  exact ⟨hj.1, hj.2.1, hj.2.2.1, hj.2.2.2.1, hj.2.2.2.2.1, hj.2.2.2.2.2, hc, rfl⟩

/-- the same as a state invariant: between a completed join and the next revive / free (`x.cpc = idle true` is
Part 2's "the last context call was a join that returned") nothing moves -/
theorem joined_stream_is_parked (s : Model.XsLife.St) (h : Reach s) (hl : s.lpc = .idle) (hc : s.x.cpc = .idle true) :
    s.x.st = .waiting ∧ tInWaitLoop s.x = true ∧ s.pub = true ∧ s.mterm = true ∧ s.npc = .out := by
  obtain ⟨tr, hr⟩ := h
  have hj := joined_facts (inv_run tr s hr) hc (Or.inl hl)
  exact ⟨hj.1, hj.2.1, hj.2.2.2.1, hj.2.2.2.2.1, hj.2.2.2.2.2⟩

/-- **the context join is reached and can be entered**: when `xstream_join` gets to ABTD_xstream_context_join the main
scheduler's ULT is TERMINATED and the native thread has passed its start-up assertion — the hypothesis Part 2 makes about
its caller. -/
theorem join_reaches_context_join (s : Model.XsLife.St) (h : Reach s) (hl : s.lpc = .jCtx)
    (hc : ∃ b, s.x.cpc = .idle b) :
    s.mterm = true ∧ s.x.tpc ≠ .start ∧ (Model.XsLife.step s (.ctx (.call .join))).isSome = true := by
  obtain ⟨tr, hr⟩ := h
  have hi := inv_run tr s hr
  have hm : s.mterm = true := by simpa [joinOk, hl] using hi.join
  have hst : s.x.tpc ≠ .start := by
    intro hst
    have hp := hi.pre
    simp [preOk, nph, hst, hm] at hp
  obtain ⟨b, hb⟩ := hc
  refine ⟨hm, hst, ?_⟩
  simp [Model.XsLife.step, ctxGuard, hl, cstep, actorOf, stepC, hb, hst]

/-- **revive finds a parked context, however the stream terminated** (join request, ABT_xstream_cancel, a ULT calling
ABT_xstream_exit — the theorem quantifies over all runs): after any completed join ABT_xstream_revive can be called;
its check "main scheduler TERMINATED" passes (no ABT_ERR_INV_XSTREAM); when ABTD_xstream_context_revive, holding
state_lock, is about to store RUNNING the state is WAITING and the native thread sleeps in (or is re-acquiring the
mutex after a spurious wake-up from) pthread_cond_wait, so the signal that follows is not lost; the same holds for
ABTD_xstream_context_free; and no ABTI_ASSERT of stream.c / thread.c / abtd_stream.c fails anywhere. -/
theorem revive_finds_parked_context (s : Model.XsLife.St) (h : Reach s) :
    (s.lpc = .idle → s.x.cpc = .idle true → (Model.XsLife.step s (.call .revive)).isSome = true) ∧
    (s.lpc = .rChk → s.mterm = true) ∧
    (s.x.cpc = .rStore ∨ s.x.cpc = .fStore →
      s.x.st = .waiting ∧ s.x.owner = some .C ∧ (s.x.tpc = .blocked ∨ s.x.tpc = .woken) ∧ s.x.owed = false) ∧
    s.fault = false ∧ s.x.fault = false := by
  obtain ⟨tr, hr⟩ := h
  have hi := inv_run tr s hr
  have hx := ctx_facts hi
  refine ⟨?_, ?_, ?_, hi.nofault, hx.1⟩
  · intro hl hc
    simp [Model.XsLife.step, hl, hc]
  · intro hl
    have hrel := hi.rel
    rw [hl] at hrel
    have hc : s.x.cpc = .idle true := by
      cases hp : s.x.cpc with
      | idle b => cases b <;> simp_all [rel, ccl]
      | _ => simp_all [rel, ccl]
    exact (joined_facts hi hc (Or.inr (Or.inr (Or.inr (Or.inl hl))))).2.2.2.2.1
  · intro hc
    have hj := hx.2.1 (by rcases hc with hc | hc <;> simp [cJoined, hc])
    have hown : s.x.owner = some .C := hx.2.2.mp (by rcases hc with hc | hc <;> simp [cCrit, hc])
    -- the thread cannot be inside its own critical section while the caller owns the mutex
    have hm := (List.all_eq_true.mp chk_all) s.x hi.reach
    simp only [Bool.and_eq_true] at hm
    have hmu := hm.1.1.1.2
    unfold chkMutex at hmu
    simp only [Bool.and_eq_true, beq_iff_eq] at hmu
    have ht : tCrit s.x = false := by
      rw [hmu.1, hown]
      decide
    refine ⟨hj.1, hown, ?_, hj.2.2⟩
    have hw := hj.2.1
    unfold tInWaitLoop at hw
    unfold tCrit at ht
    cases hp : s.x.tpc <;> simp_all

/-- **a revived stream runs, part 1 — nothing stale survives a revive**: from the moment ABT_xstream_revive publishes
RUNNING (and likewise after creation) until somebody joins / cancels / exits the stream again, no FINISH or EXIT request
is set on the main scheduler, no JOIN or CANCEL request on its ULT, the public state is RUNNING, the main scheduler's
ULT is not TERMINATED, and the native thread is in (or on its way into) the scheduler loop — whatever happened in the
previous lives (join; join again; cancel; exit; requests posted late by ABTI_xstream_check_events). -/
theorem revived_stream_has_no_stale_request (s : Model.XsLife.St) (h : Reach s) (hq : s.cause = false) :
    s.fin = false ∧ s.ext = false ∧ s.jreq = false ∧ s.creq = false ∧ s.pub = false ∧ s.mterm = false ∧
    (s.npc = .out ∨ s.npc = .root ∨ s.npc = .sched) ∧
    (Model.XsLife.step s .nStop = none) := by
  obtain ⟨tr, hr⟩ := h
  have hi := inv_run tr s hr
  have hqq := hi.quiet
  simp only [quietOk, hq, Bool.false_or, Bool.and_eq_true, Bool.not_eq_true', Bool.or_eq_true, decide_eq_true_eq] at hqq
  obtain ⟨⟨⟨⟨⟨⟨⟨h1, h2⟩, h3⟩, h4⟩, h5⟩, h6⟩, _⟩, h8⟩ := hqq
  refine ⟨h1, h2, h3, h4, h5, h6, by simpa [or_assoc] using h8, ?_⟩
  simp [Model.XsLife.step, h1, h2]

/-- `rPub` (the store of RUNNING in ABT_xstream_revive) is where that period starts -/
theorem revive_starts_quiet_period (s s' : Model.XsLife.St) (hs : Model.XsLife.step s .rPub = some s') :
    s'.cause = false ∧ s'.pub = false := by
  simp only [Model.XsLife.step] at hs
  split at hs <;> simp only [Option.some.injEq, reduceCtorEq] at hs
  subst hs
  exact ⟨rfl, rfl⟩

/-- **a revived stream runs, part 2 — it pops work pushed later**: in that period, with no life-cycle call in progress
and a unit in the pool (pushed at any time, e.g. long after the revive), steps of the native thread alone lead to the
unit being run: finish the wake-up in xstream_context_thread_func, enter thread_f, start the main scheduler, pop.  No
step of anybody else is needed and no step of the native thread on the way can end the scheduler. -/
theorem revived_stream_runs (s : Model.XsLife.St) (h : Reach s) (hq : s.cause = false) (hl : s.lpc = .idle)
    (hp : 0 < s.pending) :
    ∃ tr s', (∀ e ∈ tr, isNative e = true) ∧ Model.XsLife.machine.run s tr = some s' ∧ s'.ran = s.ran + 1 := by
  obtain ⟨tr, hr⟩ := h
  exact native_runs_unit _ s (inv_run tr s hr) hq hl hp (Nat.le_refl _)

/-- **ABT_xstream_get_state reports the life cycle**: the value read is the public state; it is TERMINATED only if
somebody joined / cancelled / exited the stream in this life and the native thread is past its scheduler (about to
return from, or outside, thread_f) — never while the scheduler can still run a unit; it is RUNNING whenever nobody
joined / cancelled / exited the stream since create / revive, and while the scheduler is active; after a completed join
and until the revive it is TERMINATED. -/
theorem state_reports (s s' : Model.XsLife.St) (t : Bool) (h : Reach s)
    (hs : Model.XsLife.step s (.getState t) = some s') :
    s' = s ∧ t = s.pub ∧
    (t = true → s.cause = true ∧ (s.npc = .out ∨ s.npc = .fin) ∧ Model.XsLife.step s .nRun = none) ∧
    (s.cause = false → t = false) ∧
    (s.npc ≠ .out → s.npc ≠ .fin → t = false) ∧
    (s.lpc = .idle → s.x.cpc = .idle true → t = true) := by
  obtain ⟨tr, hr⟩ := h
  have hi := inv_run tr s hr
  simp only [Model.XsLife.step] at hs
  split at hs <;> simp only [Option.some.injEq, reduceCtorEq] at hs
  rename_i hg
  have hq := hi.quiet
  have hn := hi.npc
  refine ⟨hs.symm, hg.1, ?_, ?_, ?_, ?_⟩
  · intro ht
    have hp : s.pub = true := by rw [← hg.1]; exact ht
    refine ⟨?_, ?_, ?_⟩
    · cases hc : s.cause <;> simp_all [quietOk]
    · cases hq2 : s.npc <;> simp_all [npcOk]
    · cases hq2 : s.npc <;> simp_all [npcOk, Model.XsLife.step]
  · intro hc
    rw [hg.1]
    simp_all [quietOk]
  · intro h1 h2
    rw [hg.1]
    cases hq2 : s.npc <;> simp_all [npcOk]
  · intro hl hc
    rw [hg.1]
    exact (joined_facts hi hc (Or.inl hl)).2.2.2.1

/-- non-vacuity (cancel): a unit runs, ABT_xstream_cancel, the scheduler posts EXIT and stops, TERMINATED is published
and seen by get_state; a join issued in that window stores REQ_JOIN and sleeps until the native thread has parked;
revive; the restarted scheduler runs a unit pushed after the revive; nothing is stale, no assertion failed -/
example :
    let tr : List Model.XsLife.Ev :=
      [.ctx (.tau .T), .nRoot false, .push, .nRun, .cancel, .nLoadReq false true, .nSetExit, .nStop, .nMsf true, .nMTerm, .nPubTerm,
       .getState true,
       .call .join, .jFin, .jLoadM true,
       .ctx (.call .join), .ctx (.lock .C), .ctx (.tau .C), .ctx (.store .C .reqJoin), .ctx (.wait .C),
       .ctx .ret, .ctx (.lock .T), .ctx (.signal .T (some .C)), .ctx (.store .T .waiting), .ctx (.wait .T),
       .ctx (.relock .C), .ctx (.tau .C), .ctx (.tau .C), .ctx (.unlock .C), .jPub, .ret .join,
       .call .revive, .rLoadM true, .rReset, .rReady, .rClear, .rPush, .rPub,
       .ctx (.call .revive), .ctx (.lock .C), .ctx (.store .C .running), .ctx (.signal .C (some .T)), .ctx (.unlock .C),
       .ret .revive, .getState false,
       .ctx (.relock .T), .ctx (.tau .T), .ctx (.unlock .T), .nRoot false, .nLoadReq false false, .push, .nRun]
    (Model.XsLife.machine.run Model.XsLife.init tr).map (fun s => (s.ran, s.pub, s.cause, s.npc, s.lpc))
      = some (2, false, false, .sched, .idle) ∧
    (Model.XsLife.machine.run Model.XsLife.init tr).map (fun s => (s.fin, s.ext, s.jreq, s.creq, s.fault, s.x.fault))
      = some (false, false, false, false, false, false) := by
  intro tr
  constructor <;> decide

/-- non-vacuity (exit by a ULT, join again, join request, free): a ULT calls ABT_xstream_exit with another unit still in
the pool; the native thread parks before anybody joins (fast path of the context join); the stream is joined twice
(the second join posts a FINISH request on the finished scheduler); revive; the left-over unit runs; ABT_xstream_free of
the running stream: join request, FINISH posted by ABTI_xstream_check_events, termination, context join, context free,
the native thread exits -/
example :
    let tr : List Model.XsLife.Ev :=
      [.ctx (.tau .T), .nRoot false, .push, .push, .nRunExit, .nLoadReq false true, .nSetExit, .nStop, .nMsf true, .nMTerm,
       .nPubTerm, .ctx .ret, .ctx (.lock .T), .ctx (.tau .T), .ctx (.store .T .waiting), .ctx (.wait .T),
       .call .join, .jFin, .jLoadM true, .ctx (.call .join), .ctx (.lock .C), .ctx (.tau .C), .ctx (.tau .C),
       .ctx (.unlock .C), .jPub, .ret .join,
       .call .join, .jFin, .jLoadM true, .ctx (.call .join), .ctx (.lock .C), .ctx (.tau .C), .ctx (.tau .C),
       .ctx (.unlock .C), .jPub, .ret .join, .getState true,
       .call .revive, .rLoadM true, .rReset, .rReady, .rClear, .rPush, .rPub,
       .ctx (.call .revive), .ctx (.lock .C), .ctx (.store .C .running), .ctx (.signal .C (some .T)), .ctx (.unlock .C),
       .ret .revive,
       .ctx (.relock .T), .ctx (.tau .T), .ctx (.unlock .T), .nRoot false, .nRun,
       .call .free, .jFin, .jLoadM false, .jSetJ, .nLoadReq true false, .nSetFin, .nStop, .nMsf true, .nMTerm, .jLoadM true,
       .nPubTerm, .ctx .ret, .ctx (.lock .T), .ctx (.tau .T), .ctx (.store .T .waiting), .ctx (.wait .T),
       .ctx (.call .join), .ctx (.lock .C), .ctx (.tau .C), .ctx (.tau .C), .ctx (.unlock .C), .jPub,
       .ctx (.call .free), .ctx (.lock .C), .ctx (.store .C .reqTerminate), .ctx (.signal .C (some .T)), .ctx (.unlock .C),
       .ctx (.relock .T), .ctx (.tau .T), .ctx (.unlock .T), .ctx .pjoin, .ret .free]
    (Model.XsLife.machine.run Model.XsLife.init tr).map (fun s => (s.ran, s.pending, s.pub, s.npc))
      = some (2, 0, true, .out) ∧
    (Model.XsLife.machine.run Model.XsLife.init tr).map (fun s => (s.lpc, s.x.tpc, s.fault, s.x.fault))
      = some (.freed, .done, false, false) := by
  intro tr
  constructor <;> decide

/-- the hypotheses of `revived_stream_runs` are met by a reachable state in which the revived thread has not even
re-acquired its mutex yet -/
example : ∃ s, Reach s ∧ s.cause = false ∧ s.lpc = .idle ∧ 0 < s.pending ∧ s.npc = .out ∧ s.x.tpc = .woken :=
  ⟨_, ⟨[.ctx (.tau .T), .nRoot false, .cancel, .nLoadReq false true, .nSetExit, .nStop, .nMsf true, .nMTerm, .nPubTerm,
        .ctx .ret, .ctx (.lock .T), .ctx (.tau .T), .ctx (.store .T .waiting), .ctx (.wait .T),
        .call .join, .jFin, .jLoadM true, .ctx (.call .join), .ctx (.lock .C), .ctx (.tau .C), .ctx (.tau .C),
        .ctx (.unlock .C), .jPub, .ret .join,
        .call .revive, .rLoadM true, .rReset, .rReady, .rClear, .rPush, .rPub,
        .ctx (.call .revive), .ctx (.lock .C), .ctx (.store .C .running), .ctx (.signal .C (some .T)), .ctx (.unlock .C),
        .ret .revive, .push], rfl⟩, by decide⟩

/-- **rejected: the early-return join**.  After cancel, with TERMINATED published and visible but the native thread
still inside thread_f (context RUNNING), a join that has seen the main scheduler TERMINATED cannot return: it is at the
context join.  Neither `ret join` nor a revive is a step there — the history "join returns at once because the public
state is TERMINATED; revive" is not a run of the model. -/
theorem early_return_join_rejected :
    let pre : List Model.XsLife.Ev :=
      [.ctx (.tau .T), .nRoot false, .cancel, .nLoadReq false true, .nSetExit, .nStop, .nMsf true, .nMTerm, .nPubTerm,
       .getState true, .call .join, .jFin, .jLoadM true]
    (Model.XsLife.machine.run Model.XsLife.init pre).map (fun s => (s.pub, s.x.st, s.x.tpc, s.lpc))
        = some (true, .running, .run, .jCtx) ∧
    Model.XsLife.machine.run Model.XsLife.init (pre ++ [.ret .join]) = none ∧
    Model.XsLife.machine.run Model.XsLife.init (pre ++ [.call .revive]) = none ∧
    Model.XsLife.machine.run Model.XsLife.init (pre ++ [.ret .join, .call .revive]) = none := by
  intro pre
  decide

/-- **rejected: a stale FINISH after revive**.  A revive that skips the reset of the scheduler's requests (`rReset`) is
not a run: after "join; join again" the FINISH bit posted by the second join on the finished scheduler is still set
when `rReady` would be next. -/
theorem revive_without_reset_rejected :
    let pre : List Model.XsLife.Ev :=
      [.ctx (.tau .T), .nRoot false, .cancel, .nLoadReq false true, .nSetExit, .nStop, .nMsf true, .nMTerm, .nPubTerm,
       .ctx .ret, .ctx (.lock .T), .ctx (.tau .T), .ctx (.store .T .waiting), .ctx (.wait .T),
       .call .join, .jFin, .jLoadM true, .ctx (.call .join), .ctx (.lock .C), .ctx (.tau .C), .ctx (.tau .C),
       .ctx (.unlock .C), .jPub, .ret .join, .call .revive, .rLoadM true]
    (Model.XsLife.machine.run Model.XsLife.init pre).map (fun s => (s.fin, s.ext, s.lpc)) = some (true, true, .rReset) ∧
    Model.XsLife.machine.run Model.XsLife.init (pre ++ [.rReady]) = none := by
  intro pre
  decide

end Life


/-! ## widths of the counters modelled as unbounded numbers (generated from the headers on every run) -/
/-- the rank of an execution stream is 4 bytes wide in this tree: the unbounded model agrees with the C field below 2^31 -/
example : ArgoVerif.Gen.Consts.bytesXstreamRank = 4 := by decide

end ArgoVerif.Props.C17
