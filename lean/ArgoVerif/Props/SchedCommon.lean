import ArgoVerif.Proofs.Sched3
/- Shared helper facts about Model.Sched used by Props C01 C03 C06 C11 C12 C13 (frame facts by case analysis). -/
namespace ArgoVerif.Model.Sched
open ArgoVerif

/-- which unit an event acts on -/
def Ev.unit : Ev → UnitId
  | .create u _ | .push _ u | .pop _ _ u | .setSt u _ | .run _ u | .userStart u | .userEnd u | .cb _ u _
  | .incB u _ | .decB u _ | .resume u | .finish _ u | .terminate u | .free u | .reqSet u _ | .reqClr u _
  | .migrate u _ | .joinRet _ u => u
  | .xferB _ t => t

/-- frame: an event changes the location / state / pool / counters of its own unit only -/
theorem frame (s s' : St) (e : Ev) (hs : step s e = some s') (v : UnitId) (hv : v ≠ e.unit) :
    s'.loc v = s.loc v ∧ s'.st v = s.st v ∧ s'.pool v = s.pool v ∧ s'.starts v = s.starts v ∧
    s'.resumed v = s.resumed v := by
  cases e <;> simp only [Ev.unit] at hv <;>
    simp only [step, stepCreate, stepPush, stepPop, stepSetSt, stepRun, stepUserStart, stepUserEnd, stepCb, stepIncB,
      stepDecB, stepResume, stepFinish, stepTerminate, stepFree, stepReqSet, stepReqClr, stepMigrate, stepJoinRet, stepXferB] at hs <;>
    (repeat' (split at hs)) <;> (try cases hs) <;> simp_all [setLoc, upd]

end ArgoVerif.Model.Sched
