import ArgoVerif.Proofs.HTable
import ArgoVerif.Proofs.Env
import ArgoVerif.Proofs.AffinitySpec
import ArgoVerif.Proofs.AffinityBounds
import ArgoVerif.Proofs.Config
/-
Props.C20 — configuration objects are exact maps (hashtable part).
Property theorems only; helper lemmas live in Proofs/.
-/
namespace ArgoVerif.Props.C20
open ArgoVerif.Model.HTable

/-- the abstract specification: a finite map from integer keys to values -/
abbrev Spec := Int → Option Val

def specStep (m : Spec) : Op → Spec
  | .set k v => fun x => if x = k then some v else m x
  | .get _ => m
  | .del k => fun x => if x = k then none else m x

/-- what an operation may report, given the abstract map before the operation.
`delR none` (out-parameter left untouched) is allowed only when the key is absent. -/
def specOut (m : Spec) : Op → Out → Prop
  | .set k _, .setR o => o = (m k).isSome
  | .get k, .getR r => r = m k
  | .del k, .delR r => r = some (m k).isSome ∨ (r = none ∧ m k = none)
  | _, _ => False

def specRun (m : Spec) : List Op → List Out → Prop
  | [], [] => True
  | op :: ops, o :: os => specOut m op o ∧ specRun (specStep m op) ops os
  | _, _ => False

/-- one step: the table stays well formed, reports what the map says, and its
lookup function afterwards is the updated map -/
theorem htable_step_refines (h : HT) (op : Op) (hw : WF h) :
    WF (step h op).1 ∧ specOut (get h) op (step h op).2 ∧
    ∀ k, get (step h op).1 k = specStep (get h) op k := by
  cases op with
  | set k v =>
    have := set_spec h k v hw
    simp only [step, specOut, specStep]
    exact ⟨this.1, this.2.1, this.2.2⟩
  | get k => simp [step, specOut, specStep, hw]
  | del k =>
    have := delete_spec h k hw
    simp only [step, specOut, specStep]
    exact ⟨this.1, this.2.1, this.2.2⟩

/-- **C20 (config objects are exact maps)**: from any well-formed table, *every*
sequence of set/get/delete — negative keys, keys colliding in a bucket, deletes of
the inline head with and without successor included — reports exactly what a map
`Int → Option Val` reports, for every bucket count `n > 0`. -/
theorem htable_refines_map (ops : List Op) (h : HT) (hw : WF h) :
    specRun (get h) ops (runOps h ops).2 ∧ WF (runOps h ops).1 := by
  induction ops generalizing h with
  | nil => simp [runOps, specRun, hw]
  | cons op ops ih =>
    have hs := htable_step_refines h op hw
    have ih' := ih (step h op).1 hs.1
    simp only [runOps, specRun]
    have heq : get (step h op).1 = specStep (get h) op := funext hs.2.2
    rw [heq] at ih'
    exact ⟨⟨hs.2.1, ih'.1⟩, ih'.2⟩

/-- a freshly created table (any positive size) is the empty map -/
theorem htable_create_empty (n : Nat) (hn : 0 < n) :
    WF (create n) ∧ ∀ k, get (create n) k = none :=
  ⟨create_wf n hn, create_get n⟩

/-- bucket index is always inside the table (no out-of-bounds bucket access), for
every `int` key including negative ones -/
theorem htable_index_in_bounds (n : Nat) (hn : 0 < n) (k : Int) : idx n k < n := idx_lt n hn k

/-- non-vacuity: a concrete history with a collision chain, head deletion with a
successor, and a negative key, run on a 4-bucket table -/
example :
    (runOps (create 4) [.set 1 10, .set 5 50, .set (-3) 30, .del 1, .get 5, .get (-3), .del 9, .get 1]).2
      = [.setR false, .setR false, .setR false, .delR (some true), .getR (some 50),
         .getR (some 30), .delR (some false), .getR none] := by decide

/-! ## Textual settings: numbers (atoi.c), environment (abtd_env.c), ABT_SET_AFFINITY
(abtd_affinity_parser.c).  Specification vocabulary: Props/C20Spec.lean. -/

namespace Atoi
open ArgoVerif.Model.Atoi ArgoVerif.Gen.EnvTable
open ArgoVerif.Props.C20Spec (expected numberOf)

/-- what the specification demands, in the model's result type:
`expected lo hi s = none` ↦ `ABT_ERR_INV_ARG`, `some (v, flag)` ↦ success -/
def want (lo hi : Int) (s : List UInt8) : Res :=
  match expected lo hi s with
  | none => .err errInvArg
  | some (v, f) => .ok v f

/-- **C20 (numeric strings)**: for EVERY NUL-terminated byte string, each of
`ABTU_atoi / ABTU_atoui32 / ABTU_atoui64 / ABTU_atosz` returns the mathematical
decimal value of the first digit run after the optional leading blanks and the
sign run (`C20Spec.numberOf`, computed over ℕ/ℤ, independent of the code),
**saturated** — never wrapped — at the limits of its type (`[INT_MIN, INT_MAX]`,
`[0, UINT32_MAX]`, `[0, UINT64_MAX]`, `[0, SIZE_MAX]`), with the overflow flag set
exactly when the mathematical value lies outside these limits (so `"-0"` is not an
overflow for the unsigned types), and returns `ABT_ERR_INV_ARG` iff there is no
digit.  Covers any number of signs, leading zeros, junk suffixes and digit runs of
any length (the 64-bit accumulator's overflow test is shown exact). -/
theorem atoi_spec (s : List UInt8) (h0 : (0 : UInt8) ∈ s) :
    abtuAtoi s = want cIntMin cIntMax s ∧ abtuAtoui32 s = want 0 cUint32Max s ∧
    abtuAtoui64 s = want 0 cUint64Max s ∧ abtuAtosz s = want 0 cSizeMax s := by
  refine ⟨?_, ?_, ?_, ?_⟩
  · rw [Proofs.Atoi.abtuAtoi_eq s h0]; unfold want Proofs.Atoi.ofExpected; split <;> simp_all
  · rw [Proofs.Atoi.abtuAtoui32_eq s h0]; unfold want Proofs.Atoi.ofExpected; split <;> simp_all
  · rw [Proofs.Atoi.abtuAtoui64_eq s h0]; unfold want Proofs.Atoi.ofExpected; split <;> simp_all
  · rw [Proofs.Atoi.abtuAtosz_eq s h0]; unfold want Proofs.Atoi.ofExpected; split <;> simp_all

/-- the error case spelled out: `ABT_ERR_INV_ARG` iff the string has no digit run -/
theorem atoi_error_iff_no_digit (s : List UInt8) (h0 : (0 : UInt8) ∈ s) :
    abtuAtoi s = .err errInvArg ↔ numberOf s = none := by
  rw [(atoi_spec s h0).1]; unfold want expected
  cases numberOf s <;> simp

/-- **C20 (no out-of-bounds read in atoi.c)**: `atoi_impl` never reads behind the
terminating NUL: started anywhere (any loop state) in an object that ends right
after its first NUL it does not fault, and in a larger object the bytes after the
NUL do not influence the result (i.e. they are not read). -/
theorem atoi_reads_in_bounds (pre post : List UInt8) :
    atoiImpl (pre ++ [0]) ≠ .oob ∧ atoiImpl (pre ++ 0 :: post) = atoiImpl (pre ++ [0]) :=
  ⟨Proofs.Atoi.loop_no_oob pre 0 false false false, Proofs.Atoi.loop_prefix_only pre post 0 false false false⟩

/-- C string for the examples: the characters followed by the terminating NUL -/
def cstr (l : List Char) : List UInt8 := l.map (fun c => UInt8.ofNat c.toNat) ++ [0]

example : abtuAtoi (cstr [' ', '-', '-', '+', '-', '2', '1', '4', '7', '4', '8', '3', '6', '4', '9', 'j', 'u', 'n', 'k']) = .ok (-2147483648) true := by decide
example : abtuAtoi (cstr ['-', '2', '1', '4', '7', '4', '8', '3', '6', '4', '8']) = .ok (-2147483648) false := by decide
example : abtuAtoui64 (cstr ['1', '8', '4', '4', '6', '7', '4', '4', '0', '7', '3', '7', '0', '9', '5', '5', '1', '6', '1', '6']) = .ok 18446744073709551615 true := by decide
example : abtuAtoui32 (cstr ['-', '0']) = .ok 0 false := by decide
example : abtuAtoi (cstr ['+', ' ', '2']) = .err 53 := by decide
example : (0 : UInt8) ∈ cstr ['1', '3', 'a', 'b', 'c'] := by decide
end Atoi

namespace Env
open ArgoVerif.Model.Env ArgoVerif.Model.Atoi ArgoVerif.Gen.EnvTable
open ArgoVerif.Props.C20Spec (RndChain RndPost numberOf)

/-- **C20 (environment settings are clamped and rounded)**: for EVERY row of the
table generated from abtd_env.c (`Gen.EnvTable.table`) whose bounds are constants of
the tree (all rows but one, see `env_clamped_dyn_min_partial`), every environment
(any strings, set under either name) and every value of the run-dependent
quantities (`ρ`: number of cores, page size, … — they only occur as defaults):
the value returned by the row's `load_env_*` call lies in the row's `[min, max]`,
and the setting is obtained from it by the row's rounding wrappers, each delivering
what it documents (`pow2`: the smallest power of two ≥ its input; `multiple m`: the
smallest multiple of `m` ≥ its input — m = 64 for the cache-line rows), without
wrap-around in the C type.  The numeric side conditions (min ≤ max ≤ TYPE_MAX/2,
default inside, wrappers cannot overflow on `[min, max]`) are decided on the table's
parameters (`Proofs.Env.table_rows_ok`), not on strings. -/
theorem env_clamped (e : Entry) (he : e ∈ table) (hconst : ∀ x, e.min ≠ .dyn x) (E : Environ)
    (ρ : String → Int) :
    valGet ρ e.min ≤ rawOf e E ρ ∧ rawOf e E ρ ≤ valGet ρ e.max ∧
    RndChain e.rnd (rawOf e E ρ) (settingOf e E ρ) :=
  Proofs.Env.row_clamped e (Proofs.Env.table_rows_ok e he) E ρ (fun x hx => absurd hx (hconst x))

/-- the rows `env_clamped` does not cover: exactly `MEM_STACK_PAGE_SIZE` -/
theorem env_dyn_min_rows : (table.filter fun e => match e.min with | .dyn _ => true | .const _ => false).map (·.suffix) =
    ["MEM_STACK_PAGE_SIZE"] := by decide

/-- **PARTIAL** — the row with a run-dependent minimum (`MEM_STACK_PAGE_SIZE`, minimum
`p_global->thread_stacksize * 4`): the same conclusion holds under the hypothesis
that this minimum is itself ≤ the row's maximum.  What is missing: abtd_env.c computes
`thread_stacksize * 4` in `size_t` without a check, and `thread_stacksize` may be as
large as SIZE_MAX/2, so the hypothesis can fail on the real code:
`ABT_THREAD_STACKSIZE=2305843009213694016` (2^61+64) gives
`mem_sp_size = 2^63+256 > ABTD_ENV_SIZE_MAX`, and `ABT_THREAD_STACKSIZE=4611686018427387904`
(2^62) makes the product wrap to 0 so that `mem_sp_size` stays 8 MiB, below
4·thread_stacksize (both confirmed with harness/wb_env.c; reported as a finding). -/
theorem env_clamped_dyn_min_partial (e : Entry) (he : e ∈ table) (E : Environ) (ρ : String → Int)
    (hdyn : ∀ x, e.min = .dyn x → 0 ≤ ρ x ∧ ρ x ≤ valGet ρ e.max) :
    valGet ρ e.min ≤ rawOf e E ρ ∧ rawOf e E ρ ≤ valGet ρ e.max ∧
    RndChain e.rnd (rawOf e E ρ) (settingOf e E ρ) :=
  Proofs.Env.row_clamped e (Proofs.Env.table_rows_ok e he) E ρ hdyn

/-- readable corollary for rows with a single wrapper: a `pow2` row is a power of two
≥ the clamped value (and < twice it); a `multiple 64` row is a multiple of 64 in
`[clamped, clamped + 64)` -/
theorem env_rounded (e : Entry) (he : e ∈ table) (E : Environ) (ρ : String → Int)
    (hdyn : ∀ x, e.min = .dyn x → 0 ≤ ρ x ∧ ρ x ≤ valGet ρ e.max) :
    (e.rnd = [.pow2] → (∃ k : Nat, settingOf e E ρ = 2 ^ k) ∧ rawOf e E ρ ≤ settingOf e E ρ ∧
        settingOf e E ρ < 2 * rawOf e E ρ) ∧
    (∀ m, e.rnd = [.multiple m] → settingOf e E ρ % (m : Int) = 0 ∧ rawOf e E ρ ≤ settingOf e E ρ ∧
        settingOf e E ρ < rawOf e E ρ + m) := by
  have h := (env_clamped_dyn_min_partial e he E ρ hdyn).2.2
  constructor
  · intro hr; rw [hr] at h
    obtain ⟨b, hb, hc⟩ := h
    simp only [RndChain] at hc; subst hc; exact hb
  · intro m hr; rw [hr] at h
    obtain ⟨b, hb, hc⟩ := h
    simp only [RndChain] at hc; subst hc; exact hb

/-- **C20 (unparsable ⇒ default)**: a numeric variable that is unset, or set to a
string without a digit run (`numberOf = none`), yields the row's default clamped to
`[min, max]`; and for every row whose default and bounds are constants of the tree
that is the default itself. -/
theorem env_unparsable_default (e : Entry) (he : e ∈ table) (E : Environ) (ρ : String → Int)
    (hk : e.kind ≠ .bool)
    (hun : getAbtEnv E e.names = none ∨
      ∃ s, getAbtEnv E e.names = some s ∧ (0 : UInt8) ∈ s ∧ numberOf s = none) :
    rawOf e E ρ = clamp (valGet ρ e.min) (valGet ρ e.max) (valGet ρ e.dflt) ∧
    ∀ d mn, e.dflt = .const d → e.min = .const mn → rawOf e E ρ = d := by
  have h1 : rawOf e E ρ = clamp (valGet ρ e.min) (valGet ρ e.max) (valGet ρ e.dflt) := by
    apply Proofs.Env.row_default e E ρ hk
    rcases hun with h | ⟨s, hs, h0, hn⟩
    · exact Or.inl h
    · exact Or.inr ⟨s, errInvArg, hs, Proofs.Env.conv_err_of_unparsable e.kind s h0 hn⟩
  refine ⟨h1, fun d mn hd hmn => ?_⟩
  rw [h1]
  exact Proofs.Env.row_default_const e (Proofs.Env.table_rows_ok e he) ρ hk d mn hd hmn

/- non-vacuity: the table is not empty, and a concrete environment -/
example : table.length = 18 := by decide
set_option maxRecDepth 20000 in
example : (envInit [("ABT_ENV_KEY_TABLE_SIZE", Atoi.cstr ['5']), ("ABT_THREAD_STACKSIZE", Atoi.cstr ['1', '0', '0', '0', 'x'])] 16 4096).filter
    (fun kv => kv.1 == "KEY_TABLE_SIZE" || kv.1 == "THREAD_STACKSIZE") =
    [("KEY_TABLE_SIZE", 8), ("THREAD_STACKSIZE", 1024)] := by decide
end Env

namespace Affinity
open ArgoVerif.Model.Affinity ArgoVerif.Gen.EnvTable
open ArgoVerif.Props.C20Spec (Tok Lex GList Interval expandList wrapInt32)

/-- **C20 (ABT_SET_AFFINITY is accepted exactly when it matches the grammar)**: for
EVERY NUL-terminated byte string `b`, `parse_list` succeeds iff `b` lexes
(`C20Spec.Lex`: white space = space/TAB/CR/LF between tokens only;
`<integer> = sign* digit+`, longest match) into a token sequence derivable from
`<list>` of the documented BNF (`C20Spec.GList`, formalised production by production,
left-recursive as in the header comment of abtd_affinity.c) whose values respect
the parser's two limits.  Otherwise it returns `ABT_ERR_OTHER`; no other outcome
exists (no fault, no overflow, no divergence).

Where the accepted language is *narrower or more precise than the documented
grammar* (all made explicit in `C20Spec`, none silently copied):
 1. an integer literal whose magnitude exceeds INT_MAX is rejected — hence
    `-2147483648` (INT_MIN) cannot be written although it fits in `int`;
 2. `<num>` ≥ MAX_NUM_ELEMS (2^20) is rejected ("the input should be wrong");
 3. `<integer>` admits any number of leading signs, each `-` flipping the sign
    (`--3` = 3, `+-+-1` = 1); the documentation only says "<integer>";
 4. `<positive integer>` means an integer literal with positive *value* (`--3` is fine);
 5. white space is space, TAB, CR, LF only (not VT/FF) and is not allowed between
    the signs and the digits of an integer (`+ 1` is rejected);
 6. the string ends at the first NUL. -/
theorem aff_accept_iff_grammar (b : List UInt8) (h0 : (0 : UInt8) ∈ b) :
    ((∃ L rest, parseList b = .ok L rest) ↔
      ∃ ts ast, Lex b ts ∧ GList ts ast ∧ ∀ x ∈ ast, x.ok) ∧
    (parseList b = .fail ∨ ∃ L rest, parseList b = .ok L rest) := by
  obtain ⟨hout, hs⟩ := Proofs.AffinitySpec.parse_sound b h0
  refine ⟨⟨?_, ?_⟩, hout⟩
  · rintro ⟨L, rest, h⟩
    obtain ⟨ts, ast, hl, hg, hok, _⟩ := hs L rest h
    exact ⟨ts, ast, hl, hg, hok⟩
  · rintro ⟨ts, ast, hl, hg, hok⟩
    obtain ⟨rest, h⟩ := Proofs.AffinitySpec.parse_complete b ts ast hl hg hok
    exact ⟨_, rest, h⟩

/-- **C20 (… and then expands to the documented CPU-id lists)**: whenever `b` is a
string of the grammar with abstract syntax `ast`, the lists `parse_list` returns are
the documented expansion (`C20Spec.expandList`: id-interval
`id, id+stride, …, id+stride*(num-1)`; interval = the es-id-list, then the same list
shifted by `stride*k`, k < num; omitted num/stride = 1), computed in ℤ and then
converted to `int` (`wrapInt32`: the C code computes `id + stride*i` in `unsigned`
and stores it in an `int`, so values outside `int` wrap — implementation-defined,
not UB).  When every documented id fits in `int` the result is the documented
lists themselves.  Conversely every accepted string arises this way. -/
theorem aff_expand_spec (b : List UInt8) (h0 : (0 : UInt8) ∈ b) :
    (∀ ts ast, Lex b ts → GList ts ast → (∀ x ∈ ast, x.ok) →
      (∃ rest, parseList b = .ok ((expandList ast).map (List.map wrapInt32)) rest) ∧
      ((∀ l ∈ expandList ast, ∀ v ∈ l, -2147483648 ≤ v ∧ v ≤ 2147483647) →
        ∃ rest, parseList b = .ok (expandList ast) rest)) ∧
    (∀ L rest, parseList b = .ok L rest →
      ∃ ts ast, Lex b ts ∧ GList ts ast ∧ (∀ x ∈ ast, x.ok) ∧ L = (expandList ast).map (List.map wrapInt32)) := by
  refine ⟨fun ts ast hl hg hok => ?_, (Proofs.AffinitySpec.parse_sound b h0).2⟩
  have h := Proofs.AffinitySpec.parse_complete b ts ast hl hg hok
  refine ⟨h, fun hr => ?_⟩
  rw [Proofs.AffinitySpec.map_wrap_id _ hr] at h
  exact h

/-- **C20 (the affinity parser never reads behind the terminating NUL)**: with a NUL
anywhere in the object, `parse_list` and the token-level functions never fault,
and appending arbitrary bytes `post` behind an object that already contains a NUL
changes nothing but the unread remainder (`ext post`) — for every fuel, every
accumulator and every position the functions are entered at.  In particular in an
object that ends right after its first NUL every index read is ≤ the NUL's. -/
theorem aff_reads_in_bounds (b post : List UInt8) (h0 : (0 : UInt8) ∈ b) :
    parseList b ≠ .oob ∧ consumeInt b ≠ .oob ∧ (∀ c, consumeSymbol c b ≠ .oob) ∧
    consumeInt (b ++ post) = Proofs.AffinityBounds.ext post (consumeInt b) ∧
    (∀ c, consumeSymbol c (b ++ post) = Proofs.AffinityBounds.ext post (consumeSymbol c b)) ∧
    (∀ f l, b.length < f →
      parseIntervals f (b ++ post) l = Proofs.AffinityBounds.ext post (parseIntervals f b l)) := by
  refine ⟨?_, (Proofs.AffinityLex.consumeInt_outcomes b h0).2.1,
    fun c => Proofs.AffinityLex.consumeSymbol_no_oob c b h0,
    Proofs.AffinityBounds.int_ext b post h0, fun c => Proofs.AffinityBounds.sym_ext c b post h0,
    fun f l hf => Proofs.AffinityBounds.list_ext f b post l h0 hf⟩
  rcases (Proofs.AffinitySpec.parse_sound b h0).1 with h | ⟨L, rest, h⟩ <;> rw [h] <;> simp

/-- **C20 (no signed overflow in consume_int)**: on EVERY byte sequence (NUL-terminated
or not, digit runs of any length) every `int` operation of `consume_int` —
`val * 10`, `val * 10 + digit`, `-val_sign`, `val * val_sign` — has its mathematical
result in `[INT_MIN, INT_MAX]` (the model turns any other result into `ub`); in
particular the accumulator never exceeds INT_MAX.  This is what the guard
`val > (INT_MAX - digit) / 10 ⇒ return 0` established; and no parser function
built on it can overflow either. -/
theorem aff_no_int_overflow (b : List UInt8) :
    consumeInt b ≠ .ub ∧ consumePint b ≠ .ub ∧ ((0 : UInt8) ∈ b → parseList b ≠ .ub) := by
  have h := Proofs.AffinityLex.consumeInt_no_ub b
  refine ⟨h, ?_, fun h0 => ?_⟩
  · unfold consumePint R.bind
    cases hc : consumeInt b with
    | ub => exact absurd hc h
    | ok v r => simp only; split <;> simp
    | _ => simp
  · rcases (Proofs.AffinitySpec.parse_sound b h0).1 with h | ⟨L, rest, h⟩ <;> rw [h] <;> simp

/- non-vacuity: strings of the header comment and of the parser's own test list -/
set_option maxRecDepth 20000 in
example : parseList (Atoi.cstr ['{', '1', ':', '2', ':', '3', '}', ':', '3', ':', '-', '2', ',', '1']) = .ok [[1, 4], [-1, 2], [-3, 0], [1]] [] := by decide +kernel
set_option maxRecDepth 20000 in
example : parseList (Atoi.cstr [' ', '1', ' ', ':', ' ', ' ', '+', '2', ' ', ',', ' ', '{', ' ', '-', '1', ' ', ':', ' ', '\r', ' ', '2', '\n', ':', '2', '}', '\n']) = .ok [[1], [2], [-1, 1]] [] := by decide
set_option maxRecDepth 20000 in
example : parseList (Atoi.cstr ['1', ':', '0']) = .fail := by decide
set_option maxRecDepth 20000 in
example : parseList (Atoi.cstr ['9', '9', '9', '9', '9', '9', '9', '9', '9', '9', '9', '9', '9', '9']) = .fail := by decide
set_option maxRecDepth 20000 in
example : parseList (Atoi.cstr ['2', '1', '4', '7', '4', '8', '3', '6', '4', '7', ':', '2', ':', '1']) = .ok [[2147483647], [-2147483648]] [] := by decide
example : Lex (Atoi.cstr ['7']) [.int 7] :=
  Lex.int [] [] [55] [0] [] (by simp) (by simp) (by simp) (by decide) (by intro c r h; cases h; decide)
    (Lex.eos [] [] (by simp))
end Affinity

namespace Config
open ArgoVerif.Model ArgoVerif.Model.Config
open ArgoVerif.Gen.EnvTable (errSuccess errInvArg schedConfigVarEndIdx)

/-- the abstract object: a finite map from integer keys to typed values -/
abbrev TMap := Int → Option Elem

/-- `ABT_*_config_set` on a typed map: `val = NULL` removes the key (always
succeeds); a valid type tag stores (type, value) under the key, replacing whatever
was there; any other tag is `ABT_ERR_INV_ARG` and changes nothing -/
def tset (k : Config.Kind) (m : TMap) (idx tag : Int) (val : Option Nat) : TMap × Int :=
  match val with
  | none => (fun x => if x = idx then none else m x, errSuccess)
  | some bits =>
    match tyOfTag k tag with
    | none => (m, errInvArg)
    | some ty => (fun x => if x = idx then some ⟨ty, bits⟩ else m x, errSuccess)

/-- one operation on a typed map: new map and what the caller observes -/
def tstep (k : Config.Kind) (m : TMap) : Config.Op → TMap × Config.Out
  | .set idx tag val => ((tset k m idx tag val).1, .err (tset k m idx tag val).2)
  | .get idx => (m, .got (m idx))
  | .read ptrs => (m, .readR (ptrs.zipIdx.map fun (nonNull, i) => if nonNull then m (i : Int) else none))

def trun (k : Config.Kind) (m : TMap) : List Config.Op → List Config.Out
  | [] => []
  | op :: ops => (tstep k m op).2 :: trun k (tstep k m op).1 ops

/-- **C20 (config objects are typed maps)**: from any configuration object with a
well-formed table (in particular a freshly created one, `config_create_empty`,
`config_sched_create`), EVERY sequence of `ABT_*_config_set` (typed store, delete by
NULL value, invalid type tags), `ABT_*_config_get` / `ABTI_*_config_read` and
`ABT_sched_config_read` (any number of pointers, NULL or not) — over any `int`
keys: negative (the predefined variables), colliding modulo the table size,
INT_MIN/INT_MAX — observes exactly what the typed finite map `Int → Option (type ×
value)` yields: a get returns the type and the value bits of the last store to that
key (stores of a different type replace), `ABT_ERR_INV_ARG` iff the key is absent;
a store with an unknown type tag fails and changes nothing. -/
theorem config_typed_map (ops : List Config.Op) (c : Config.Config) (hw : HTable.WF c.table) :
    (Config.runOps c ops).2 = trun c.kind (Config.get c) ops ∧ HTable.WF (Config.runOps c ops).1.table ∧
      (Config.runOps c ops).1.kind = c.kind := by
  induction ops generalizing c with
  | nil => exact ⟨rfl, hw, rfl⟩
  | cons op ops ih =>
    cases op with
    | set idx tag val =>
      obtain ⟨h1, h2, h3, h4⟩ := Proofs.Config.set_refines c idx tag val hw
      obtain ⟨i1, i2, i3⟩ := ih (Config.set c idx tag val).1 h1
      simp only [Config.runOps, Config.step, trun, tstep]
      refine ⟨?_, i2, by rw [i3, h2]⟩
      rw [i1, h2, h3]
      have e : Config.get (Config.set c idx tag val).1 = (tset c.kind (Config.get c) idx tag val).1 := h4
      rw [e]; rfl
    | get idx =>
      obtain ⟨i1, i2, i3⟩ := ih c hw
      simp only [Config.runOps, Config.step, trun, tstep]
      exact ⟨by rw [i1], i2, i3⟩
    | read ptrs =>
      obtain ⟨i1, i2, i3⟩ := ih c hw
      simp only [Config.runOps, Config.step, trun, tstep]
      exact ⟨by rw [i1]; rfl, i2, i3⟩

/-- a fresh `ABT_pool_config_create` / `ABT_sched_config_create(&c, ABT_sched_config_var_end)`
object is the empty map (with the table sizes of the tree) -/
theorem config_create_empty (k : Config.Kind) :
    HTable.WF (createEmpty k).table ∧ ∀ x, Config.get (createEmpty k) x = none :=
  Proofs.Config.createEmpty_spec k

/-- the varargs list of `ABT_sched_config_create` as typed-map stores: pairs are
stored in order until the first variable whose index is that of
`ABT_sched_config_var_end`; a variable with an invalid type makes the call fail -/
def tcreate (m : TMap) : List (Int × Int × Nat) → Option TMap
  | [] => some m
  | (idx, tag, bits) :: rest =>
    if idx = schedConfigVarEndIdx then some m
    else match tyOfTag .sched tag with
      | none => none
      | some ty => tcreate (fun x => if x = idx then some ⟨ty, bits⟩ else m x) rest

/-- `ABT_sched_config_create` with any list of (variable, value) pairs builds exactly
the typed map of the pairs before the end marker (later pairs win), or fails iff one
of them has an invalid type -/
theorem config_sched_create (args : List (Int × Int × Nat)) :
    match schedCreate args, tcreate (fun _ => none) args with
    | some c, some m => HTable.WF c.table ∧ c.kind = .sched ∧ Config.get c = m
    | none, none => True
    | _, _ => False := by
  have h := Proofs.Config.createLoop_refines args (createEmpty .sched) (Proofs.Config.createEmpty_spec .sched).1
  have e0 : Proofs.Config.absMap (createEmpty .sched) = fun _ => none :=
    funext (Proofs.Config.createEmpty_spec .sched).2
  have e1 : ∀ m a, Proofs.Config.specCreate m a = tcreate m a := by
    intro m a
    induction a generalizing m with
    | nil => rfl
    | cons x r ih =>
      obtain ⟨i, t, b⟩ := x
      simp only [Proofs.Config.specCreate, tcreate]
      by_cases he : i = schedConfigVarEndIdx
      · simp only [he, if_true]
      · simp only [he, if_false]
        cases ht : tyOfTag .sched t with
        | none => rfl
        | some ty => exact ih _
  rw [e0, e1] at h
  exact h

/- non-vacuity: predefined negative key, collision modulo 8, retyping, delete, invalid tag -/
example : (Config.runOps (createEmpty .sched)
    [.set (-4) 0 (some 50), .set 4 1 (some 7), .set 4 2 (some 9), .get 4, .get (-4), .set (-4) 0 none,
     .get (-4), .set 1 7 (some 3), .read [true, true, false, true, true]]).2 =
    [.err 0, .err 0, .err 0, .got (some ⟨.ptr, 9⟩), .got (some ⟨.int, 50⟩), .err 0, .got none, .err 53,
     .readR [none, none, none, none, some ⟨.ptr, 9⟩]] := by decide
end Config

end ArgoVerif.Props.C20
