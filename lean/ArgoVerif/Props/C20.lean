import ArgoVerif.Proofs.HTable
/-
Props.C20 — configuration objects are exact maps (hashtable part).
Property theorems only; helper lemmas live in Proofs/.
-/
namespace ArgoVerif.Props.C20
open ArgoVerif.Model.HTable

/-- the abstract specification: a finite map from integer keys to values -/
abbrev Spec := Int → Option Val

def specStep (m : Spec) : Op → Spec
  | .set k v => fun x => if x = k then some v else m x
  | .get _ => m
  | .del k => fun x => if x = k then none else m x

/-- what an operation may report, given the abstract map before the operation.
`delR none` (out-parameter left untouched) is allowed only when the key is absent. -/
def specOut (m : Spec) : Op → Out → Prop
  | .set k _, .setR o => o = (m k).isSome
  | .get k, .getR r => r = m k
  | .del k, .delR r => r = some (m k).isSome ∨ (r = none ∧ m k = none)
  | _, _ => False

def specRun (m : Spec) : List Op → List Out → Prop
  | [], [] => True
  | op :: ops, o :: os => specOut m op o ∧ specRun (specStep m op) ops os
  | _, _ => False

/-- one step: the table stays well formed, reports what the map says, and its
lookup function afterwards is the updated map -/
theorem htable_step_refines (h : HT) (op : Op) (hw : WF h) :
    WF (step h op).1 ∧ specOut (get h) op (step h op).2 ∧
    ∀ k, get (step h op).1 k = specStep (get h) op k := by
  cases op with
  | set k v =>
    have := set_spec h k v hw
    simp only [step, specOut, specStep]
    exact ⟨this.1, this.2.1, this.2.2⟩
  | get k => simp [step, specOut, specStep, hw]
  | del k =>
    have := delete_spec h k hw
    simp only [step, specOut, specStep]
    exact ⟨this.1, this.2.1, this.2.2⟩

/-- **C20 (config objects are exact maps)**: from any well-formed table, *every*
sequence of set/get/delete — negative keys, keys colliding in a bucket, deletes of
the inline head with and without successor included — reports exactly what a map
`Int → Option Val` reports, for every bucket count `n > 0`. -/
theorem htable_refines_map (ops : List Op) (h : HT) (hw : WF h) :
    specRun (get h) ops (runOps h ops).2 ∧ WF (runOps h ops).1 := by
  induction ops generalizing h with
  | nil => simp [runOps, specRun, hw]
  | cons op ops ih =>
    have hs := htable_step_refines h op hw
    have ih' := ih (step h op).1 hs.1
    simp only [runOps, specRun]
    have heq : get (step h op).1 = specStep (get h) op := funext hs.2.2
    rw [heq] at ih'
    exact ⟨⟨hs.2.1, ih'.1⟩, ih'.2⟩

/-- a freshly created table (any positive size) is the empty map -/
theorem htable_create_empty (n : Nat) (hn : 0 < n) :
    WF (create n) ∧ ∀ k, get (create n) k = none :=
  ⟨create_wf n hn, create_get n⟩

/-- bucket index is always inside the table (no out-of-bounds bucket access), for
every `int` key including negative ones -/
theorem htable_index_in_bounds (n : Nat) (hn : 0 < n) (k : Int) : idx n k < n := idx_lt n hn k

/-- non-vacuity: a concrete history with a collision chain, head deletion with a
successor, and a negative key, run on a 4-bucket table -/
example :
    (runOps (create 4) [.set 1 10, .set 5 50, .set (-3) 30, .del 1, .get 5, .get (-3), .del 9, .get 1]).2
      = [.setR false, .setR false, .setR false, .delR (some true), .getR (some 50),
         .getR (some 30), .delR (some false), .getR none] := by decide

end ArgoVerif.Props.C20
