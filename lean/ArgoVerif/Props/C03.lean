import ArgoVerif.Props.SchedCommon
/-
Props.C03 — join/free return after, and only after, the target has terminated (unit-level part: the return is
conditioned on the TERMINATED store; the joiner/target hand-shake on the request word and `p_link` is tied by T1
skeletons and explored under the controlled scheduler, where a joiner that is never woken is a detected deadlock).
-/
namespace ArgoVerif.Props.C03
open ArgoVerif ArgoVerif.Model.Sched

/-- **join returns only after termination**: the return of join / free to its caller is enabled only when the target's
state is TERMINATED and the target is out of every pool and off every stream -/
theorem join_ret_after_term (s s' : St) (j u : UnitId) (hs : step s (.joinRet j u) = some s') :
    s.st u = .terminated ∧ (s.loc u = .done ∨ s.loc u = .freed) := by
  simp only [step, stepJoinRet] at hs
  split at hs
  · rename_i h; exact h
  · cases hs

/-- TERMINATED is stored only as the last step of the unit's own termination path: after ABTI_thread_terminate was
entered, from the exit callback (the unit has switched away for good), from the scheduler that ran a tasklet to
completion, or from the scheduler that honoured a cancellation -/
theorem term_store_is_last (s s' : St) (u : UnitId) (hs : step s (.setSt u .terminated) = some s') :
    s.terminating u = true ∧ ((∃ e, s.loc u = .cb e) ∨ (∃ e, s.loc u = .held e) ∨ (∃ e, s.loc u = .running e)) ∧
    s'.loc u = .done := by
  simp only [step, stepSetSt] at hs
  cases hl : s.loc u <;> simp only [hl] at hs <;> (repeat' (split at hs)) <;> (try cases hs) <;> simp_all [upd]

/-- **the target's work is over when join returns**: unless cancelled, its function was entered exactly once and has
nothing left to run (sequentially consistent: every event of the target precedes the TERMINATED store in the trace) -/
theorem join_sees_completed_target (s s' : St) (h : machine.Reachable s) (j u : UnitId)
    (hs : step s (.joinRet j u) = some s') : s.cancelled u = true ∨ s.starts u = 1 := by
  have hi := inv_reachable s h
  have hj := join_ret_after_term s s' j u hs
  exact hi.termRan u (hi.doneTerm u hj.2)

/-- **free releases the unit exactly once**: free is enabled only for a terminated, not yet freed unit -/
theorem free_once (s s' : St) (u : UnitId) (hs : step s (.free u) = some s') :
    s.loc u = .done ∧ step s' (.free u) = none := by
  simp only [step, stepFree] at hs
  split at hs
  · rename_i h; cases hs; simp [h, step, stepFree, setLoc, upd]
  · cases hs

/-- a join that returns before the TERMINATED store is rejected -/
example : (machine.run init
      [.create 1 0, .push 0 1, .pop 7 0 1, .setSt 1 .running, .run 7 1, .userStart 1, .userEnd 1, .finish 7 1,
       .cb 7 1 .exit, .terminate 1, .joinRet 9 1]).isNone = true := by decide

end ArgoVerif.Props.C03
