import ArgoVerif.Props.SchedCommon
import ArgoVerif.Proofs.Join
/-
Props.C03 — join/free return after, and only after, the target has terminated (unit-level part: the return is
conditioned on the TERMINATED store; the joiner/target hand-shake on the request word and `p_link` is tied by T1
skeletons and explored under the controlled scheduler, where a joiner that is never woken is a detected deadlock).
-/
namespace ArgoVerif.Props.C03

section unitLevel
open ArgoVerif ArgoVerif.Model.Sched

/-- **join returns only after termination**: the return of join / free to its caller is enabled only when the target's
state is TERMINATED and the target is out of every pool and off every stream -/
theorem join_ret_after_term (s s' : St) (j u : UnitId) (hs : step s (.joinRet j u) = some s') :
    s.st u = .terminated ∧ (s.loc u = .done ∨ s.loc u = .freed) := by
  simp only [step, stepJoinRet] at hs
  split at hs
  · rename_i h; exact h
  · cases hs

/-- TERMINATED is stored only as the last step of the unit's own termination path: after ABTI_thread_terminate was
entered, from the exit callback (the unit has switched away for good), from the scheduler that ran a tasklet to
completion, or from the scheduler that honoured a cancellation -/
theorem term_store_is_last (s s' : St) (u : UnitId) (hs : step s (.setSt u .terminated) = some s') :
    s.terminating u = true ∧ ((∃ e, s.loc u = .cb e) ∨ (∃ e, s.loc u = .held e) ∨ (∃ e, s.loc u = .running e)) ∧
    s'.loc u = .done := by
  simp only [step, stepSetSt] at hs
  cases hl : s.loc u <;> simp only [hl] at hs <;> (repeat' (split at hs)) <;> (try cases hs) <;> simp_all [upd]

/-- **the target's work is over when join returns**: unless cancelled, its function was entered exactly once and has
nothing left to run (sequentially consistent: every event of the target precedes the TERMINATED store in the trace) -/
theorem join_sees_completed_target (s s' : St) (h : machine.Reachable s) (j u : UnitId)
    (hs : step s (.joinRet j u) = some s') : s.cancelled u = true ∨ s.starts u = 1 := by
  have hi := inv_reachable s h
  have hj := join_ret_after_term s s' j u hs
  exact hi.termRan u (hi.doneTerm u hj.2)

/-- **free releases the unit exactly once**: free is enabled only for a terminated, not yet freed unit -/
theorem free_once (s s' : St) (u : UnitId) (hs : step s (.free u) = some s') :
    s.loc u = .done ∧ step s' (.free u) = none := by
  simp only [step, stepFree] at hs
  split at hs
  · rename_i h; cases hs; simp [h, step, stepFree, setLoc, upd]
  · cases hs

/-- a join that returns before the TERMINATED store is rejected -/
example : (machine.run init
      [.create 1 0, .push 0 1, .pop 7 0 1, .setSt 1 .running, .run 7 1, .userStart 1, .userEnd 1, .finish 7 1,
       .cb 7 1 .exit, .terminate 1, .joinRet 9 1]).isNone = true := by decide

end unitLevel

/-! ## The atomic hand-shake (Model.Join): request word, link, BLOCKED store, resume — all interleavings -/

namespace Hs
open ArgoVerif ArgoVerif.Model.Join

/-- **join returns only after TERMINATED** (atomic level): the joiner's return is enabled only after it has read
TERMINATED, which only the last step of the target's exit path stores -/
theorem join_ret_after_term (s : St) (h : machine.Reachable s) (hd : s.jpc = .done) : s.term = true ∧ s.tpc = .done := by
  have hi := inv_reachable s h
  exact ⟨hi.doneTerm hd, hi.termIff.mp (hi.doneTerm hd)⟩

/-- **no lost wake-up**: while the joiner is suspended (BLOCKED with the link published, or asleep on its futex) and has
not been resumed, the target has not passed the point where it looks for its joiner: it is still before, or in, the
joiner look-up (it will read the link, or spin until the link appears), or about to resume the joiner -/
theorem join_no_lost_wakeup_safety (s : St) (h : machine.Reachable s) (hj : s.jpc = .blocked ∨ s.jpc = .xsleep) :
    s.link = true ∧ s.resumes = 0 ∧
    (s.tpc = .run ∨ s.tpc = .ldl ∨ s.tpc = .fo ∨ s.tpc = .spin ∨ s.tpc = .res) := by
  have hi := inv_reachable s h
  have hs := hi.suspended (by rcases hj with h1 | h1 <;> rw [h1] <;> trivial)
  refine ⟨hs.2.1, hs.2.2.2.1, ?_⟩
  have ht := hs.2.2.2.2
  cases htp : s.tpc <;> rw [htp] at ht <;> simp_all [TBefore]

/-- **single resume**: the target resumes its joiner at most once, and only a joiner that is completely suspended
(BLOCKED stored before the link was published) — never both a jump and a push, never twice -/
theorem join_single_resume (s s' : St) (h : machine.Reachable s) (hs : step s .tResume = some s') :
    s.resumes = 0 ∧ s'.resumes = 1 ∧ s.jBlocked = true ∧ (s.jpc = .blocked ∨ s.jpc = .xsleep) := by
  have hi := inv_reachable s h
  simp only [step] at hs
  split at hs
  · rename_i hg
    cases hs
    have hsu := hi.suspended (by rcases hg.2.2 with h1 | h1 <;> rw [h1] <;> trivial)
    exact ⟨hsu.2.2.2.1, by simp [hsu.2.2.2.1], hg.2.1, hg.2.2⟩
  · cases hs

/-- the link is published only after the joiner's BLOCKED store (its context is saved), so the target can only ever find
a fully suspended joiner; and whoever wins the fetch_or decides the path: both cannot win -/
theorem join_link_after_blocked (s : St) (h : machine.Reachable s) :
    (s.jpc = .lnk → s.jBlocked = true) ∧ (s.tpc = .res → s.link = true ∧ (s.jpc = .blocked ∨ s.jpc = .xsleep)) ∧
    ¬ (s.jWon = true ∧ s.tWon = true) := by
  have hi := inv_reachable s h
  refine ⟨hi.blkFlag, ?_, hi.wonExcl⟩
  intro hr
  have := hi.resFound hr
  refine ⟨this.1, ?_⟩
  cases hj : s.jpc <;> simp_all [JSusp]

/-- **deadlock freedom**: in every reachable state in which a join is in progress or the target has not finished, some
step other than an unsuccessful poll is enabled: nobody waits for an event that cannot happen -/
theorem join_deadlock_free (s : St) (h : machine.Reachable s) (hbusy : s.jpc ≠ .idle ∨ s.tpc ≠ .done) :
    canProgress s = true ∨ s.tpc = .run := by
  have hi := inv_reachable s h
  have h4 := hi.suspended; have h10 := hi.termIff; have h3 := hi.publishing
  unfold canProgress
  cases hj : s.jpc <;> cases ht : s.tpc <;> simp_all [JSusp, JPublishing, TBefore]

/-- **a target in its exit path waits only for a joiner that is committed**: when the exiting unit finds the JOIN bit
already set and waits for `p_link`, the joiner has won the hand-shake and is either between its `fetch_or` and the store of
the link (it cannot turn back: no step of the joiner leaves that segment except the store) or has published it already —
so the wait ends and the unit does terminate once its function has returned -/
theorem exit_waits_only_for_committed_joiner (s : St) (h : machine.Reachable s) (hs : s.tpc = .spin) :
    s.link = true ∨ s.jpc = .blk ∨ s.jpc = .lnk ∨ s.jpc = .xlnk := by
  have hi := inv_reachable s h
  have hw := hi.spinWon hs
  have hr := hi.tBeforeResumes (by simp [TBefore, hs])
  have hn := hi.notStarted
  have hp := hi.pastWon
  have ht := hi.termIff
  have hsus := hi.suspended
  cases hj : s.jpc <;> simp_all [JSusp]

/-- non-vacuity: the three orders of the two fetch_or's and the link store are all accepted -/
example : (machine.run init [.jCall true, .jLoadState false, .jFetchOr false, .jStoreBlocked, .tExit, .tLoadLink false,
      .tFetchOr true, .tLoadLink false, .jStoreLink, .tLoadLink true, .tResume, .jLoadState false, .tStoreTerminated,
      .jLoadState true, .jRet]).map (fun s => decide (s.resumes = 1 ∧ s.jpc = .idle ∧ s.term = true)) = some true := by decide
example : (machine.run init [.tExit, .tLoadLink false, .jCall true, .jLoadState false, .tFetchOr false, .jFetchOr true,
      .jLoadState false, .tStoreTerminated, .jLoadState true, .jRet]).map
        (fun s => decide (s.resumes = 0 ∧ s.tWon = true ∧ s.jWon = false)) = some true := by decide
/-- publishing the link before the BLOCKED store is rejected, and so is a return before TERMINATED -/
example : (machine.run init [.jCall true, .jLoadState false, .jFetchOr false, .jStoreLink]).isNone = true := by decide
example : (machine.run init [.jCall true, .jLoadState false, .jFetchOr false, .jStoreBlocked, .jStoreLink, .tExit,
      .tLoadLink true, .tResume, .jRet]).isNone = true := by decide

end Hs

end ArgoVerif.Props.C03
