import ArgoVerif.Proofs.Ledger
import ArgoVerif.Proofs.LedgerRuns
import ArgoVerif.Proofs.LedgerRuns2
/-
Props.C18 — a failed allocation fails cleanly.

Every theorem is about a program of `Gen.Ladders`, i.e. about the text that tools/laddergen.py
produced from the *current* C source of the routine (no ladder is copied by hand anywhere), executed
by the interpreter `Model.Ledger.exec` under an arbitrary `Oracle`:
  * `o.failAt = some k`: the k-th fallible acquisition executed by the routine fails — **every k**,
    including k beyond the last acquisition (then nothing fails and the success clauses apply);
  * `o.env`: every valuation of the conditions the ledger does not interpret (arguments, configuration,
    `pools[p] == ABT_POOL_NULL`, which `switch` case, …);
  * `o.param`: the loop bound (`num_pools`) — only up to 2 for the four routines with a loop, which is
    why those theorems are called `…_partial` (missing: induction over the number of pools).
Four statements per routine:
  `ledger_fail_balanced_R`            an injected failure ends with an error code and with the multiset of live
                                      resources equal to the one on entry (no leak), without double release or
                                      release of a never-assigned pointer;
  `ledger_success_exact_R`            without failure: success leaves exactly one of the documented resource
                                      multisets, an error return (argument check, user callback) leaves nothing;
  `ledger_handle_null_or_untouched_R` on error every output handle is untouched or NULL, on success it designates a
                                      live resource;
  `ledger_preexisting_untouched_R`    no resource that existed before the call is released, and fields of
                                      pre-existing objects written by the routine (`p_sched->used`) have their old
                                      value again when an error is returned.
Callees enter through the summaries of tools/laddergen.py CALLEES ("fails ⇒ ledger unchanged, succeeds ⇒ adds
exactly one resource of kind K"); for callees that are translated themselves the summary is the conjunction of
their own four theorems below, the remaining ones are assumptions cross-checked by the fault enumeration.
-/
namespace ArgoVerif.Props.C18
open ArgoVerif.Model.Ledger ArgoVerif.Gen.Ladders ArgoVerif.Proofs.LedgerRuns


/-- **C18 / no leak, error code** for the FAILED ladder of `xstream_create` (stream.c): `init_stage` rungs for rank slot, local memory pools, root ULT, root pool, main-scheduler ULT and OS thread context. -/
theorem ledger_fail_balanced_xstream_create (o : Oracle) :
    failBalanced (exec xstream_create 400 o) = true :=
  (and4 (all_runs_exec_noparam xstream_create 400 check_xstream_create rfl runs_xstream_create o)).1

/-- **C18 / exact success** for the FAILED ladder of `xstream_create` (stream.c): `init_stage` rungs for rank slot, local memory pools, root ULT, root pool, main-scheduler ULT and OS thread context. -/
theorem ledger_success_exact_xstream_create (o : Oracle) :
    successExact allowed_xstream_create (exec xstream_create 400 o) = true :=
  (and4 (all_runs_exec_noparam xstream_create 400 check_xstream_create rfl runs_xstream_create o)).2.1

/-- **C18 / no dangling handle** for the FAILED ladder of `xstream_create` (stream.c): `init_stage` rungs for rank slot, local memory pools, root ULT, root pool, main-scheduler ULT and OS thread context. -/
theorem ledger_handle_null_or_untouched_xstream_create (o : Oracle) :
    handleOk xstream_create (exec xstream_create 400 o) = true :=
  (and4 (all_runs_exec_noparam xstream_create 400 check_xstream_create rfl runs_xstream_create o)).2.2.1

/-- **C18 / pre-existing objects untouched** for the FAILED ladder of `xstream_create` (stream.c): `init_stage` rungs for rank slot, local memory pools, root ULT, root pool, main-scheduler ULT and OS thread context. -/
theorem ledger_preexisting_untouched_xstream_create (o : Oracle) :
    preUntouched xstream_create (exec xstream_create 400 o) = true :=
  (and4 (all_runs_exec_noparam xstream_create 400 check_xstream_create rfl runs_xstream_create o)).2.2.2

example : 0 < injectedRuns xstream_create 400 0 := nonvacuous_xstream_create

/-- **C18 / no leak, error code** for `ABT_xstream_create(ABT_SCHED_NULL, …)`: the default scheduler created for the stream is freed again when `xstream_create` fails. -/
theorem ledger_fail_balanced_ABT_xstream_create (o : Oracle) :
    failBalanced (exec ABT_xstream_create 400 o) = true :=
  (and4 (all_runs_exec_noparam ABT_xstream_create 400 check_ABT_xstream_create rfl runs_ABT_xstream_create o)).1

/-- **C18 / exact success** for `ABT_xstream_create(ABT_SCHED_NULL, …)`: the default scheduler created for the stream is freed again when `xstream_create` fails. -/
theorem ledger_success_exact_ABT_xstream_create (o : Oracle) :
    successExact allowed_ABT_xstream_create (exec ABT_xstream_create 400 o) = true :=
  (and4 (all_runs_exec_noparam ABT_xstream_create 400 check_ABT_xstream_create rfl runs_ABT_xstream_create o)).2.1

/-- **C18 / no dangling handle** for `ABT_xstream_create(ABT_SCHED_NULL, …)`: the default scheduler created for the stream is freed again when `xstream_create` fails. -/
theorem ledger_handle_null_or_untouched_ABT_xstream_create (o : Oracle) :
    handleOk ABT_xstream_create (exec ABT_xstream_create 400 o) = true :=
  (and4 (all_runs_exec_noparam ABT_xstream_create 400 check_ABT_xstream_create rfl runs_ABT_xstream_create o)).2.2.1

/-- **C18 / pre-existing objects untouched** for `ABT_xstream_create(ABT_SCHED_NULL, …)`: the default scheduler created for the stream is freed again when `xstream_create` fails. -/
theorem ledger_preexisting_untouched_ABT_xstream_create (o : Oracle) :
    preUntouched ABT_xstream_create (exec ABT_xstream_create 400 o) = true :=
  (and4 (all_runs_exec_noparam ABT_xstream_create 400 check_ABT_xstream_create rfl runs_ABT_xstream_create o)).2.2.2

example : 0 < injectedRuns ABT_xstream_create 400 0 := nonvacuous_ABT_xstream_create

/-- **C18 / no leak, error code** for `ABT_xstream_create(sched, …)` with a caller-owned scheduler: the scheduler is neither freed nor left marked as used. -/
theorem ledger_fail_balanced_ABT_xstream_create_given (o : Oracle) :
    failBalanced (exec ABT_xstream_create_given 400 o) = true :=
  (and4 (all_runs_exec_noparam ABT_xstream_create_given 400 check_ABT_xstream_create_given rfl runs_ABT_xstream_create_given o)).1

/-- **C18 / exact success** for `ABT_xstream_create(sched, …)` with a caller-owned scheduler: the scheduler is neither freed nor left marked as used. -/
theorem ledger_success_exact_ABT_xstream_create_given (o : Oracle) :
    successExact allowed_ABT_xstream_create_given (exec ABT_xstream_create_given 400 o) = true :=
  (and4 (all_runs_exec_noparam ABT_xstream_create_given 400 check_ABT_xstream_create_given rfl runs_ABT_xstream_create_given o)).2.1

/-- **C18 / no dangling handle** for `ABT_xstream_create(sched, …)` with a caller-owned scheduler: the scheduler is neither freed nor left marked as used. -/
theorem ledger_handle_null_or_untouched_ABT_xstream_create_given (o : Oracle) :
    handleOk ABT_xstream_create_given (exec ABT_xstream_create_given 400 o) = true :=
  (and4 (all_runs_exec_noparam ABT_xstream_create_given 400 check_ABT_xstream_create_given rfl runs_ABT_xstream_create_given o)).2.2.1

/-- **C18 / pre-existing objects untouched** for `ABT_xstream_create(sched, …)` with a caller-owned scheduler: the scheduler is neither freed nor left marked as used. -/
theorem ledger_preexisting_untouched_ABT_xstream_create_given (o : Oracle) :
    preUntouched ABT_xstream_create_given (exec ABT_xstream_create_given 400 o) = true :=
  (and4 (all_runs_exec_noparam ABT_xstream_create_given 400 check_ABT_xstream_create_given rfl runs_ABT_xstream_create_given o)).2.2.2

example : 0 < injectedRuns ABT_xstream_create_given 400 0 := nonvacuous_ABT_xstream_create_given

/-- **C18 / no leak, error code** for `ABT_xstream_create_with_rank(ABT_SCHED_NULL, rank, …)`. -/
theorem ledger_fail_balanced_ABT_xstream_create_with_rank (o : Oracle) :
    failBalanced (exec ABT_xstream_create_with_rank 400 o) = true :=
  (and4 (all_runs_exec_noparam ABT_xstream_create_with_rank 400 check_ABT_xstream_create_with_rank rfl runs_ABT_xstream_create_with_rank o)).1

/-- **C18 / exact success** for `ABT_xstream_create_with_rank(ABT_SCHED_NULL, rank, …)`. -/
theorem ledger_success_exact_ABT_xstream_create_with_rank (o : Oracle) :
    successExact allowed_ABT_xstream_create_with_rank (exec ABT_xstream_create_with_rank 400 o) = true :=
  (and4 (all_runs_exec_noparam ABT_xstream_create_with_rank 400 check_ABT_xstream_create_with_rank rfl runs_ABT_xstream_create_with_rank o)).2.1

/-- **C18 / no dangling handle** for `ABT_xstream_create_with_rank(ABT_SCHED_NULL, rank, …)`. -/
theorem ledger_handle_null_or_untouched_ABT_xstream_create_with_rank (o : Oracle) :
    handleOk ABT_xstream_create_with_rank (exec ABT_xstream_create_with_rank 400 o) = true :=
  (and4 (all_runs_exec_noparam ABT_xstream_create_with_rank 400 check_ABT_xstream_create_with_rank rfl runs_ABT_xstream_create_with_rank o)).2.2.1

/-- **C18 / pre-existing objects untouched** for `ABT_xstream_create_with_rank(ABT_SCHED_NULL, rank, …)`. -/
theorem ledger_preexisting_untouched_ABT_xstream_create_with_rank (o : Oracle) :
    preUntouched ABT_xstream_create_with_rank (exec ABT_xstream_create_with_rank 400 o) = true :=
  (and4 (all_runs_exec_noparam ABT_xstream_create_with_rank 400 check_ABT_xstream_create_with_rank rfl runs_ABT_xstream_create_with_rank o)).2.2.2

example : 0 < injectedRuns ABT_xstream_create_with_rank 400 0 := nonvacuous_ABT_xstream_create_with_rank

/-- **C18 / no leak, error code** for `ABT_xstream_create_with_rank(sched, rank, …)` with a caller-owned scheduler. -/
theorem ledger_fail_balanced_ABT_xstream_create_with_rank_given (o : Oracle) :
    failBalanced (exec ABT_xstream_create_with_rank_given 400 o) = true :=
  (and4 (all_runs_exec_noparam ABT_xstream_create_with_rank_given 400 check_ABT_xstream_create_with_rank_given rfl runs_ABT_xstream_create_with_rank_given o)).1

/-- **C18 / exact success** for `ABT_xstream_create_with_rank(sched, rank, …)` with a caller-owned scheduler. -/
theorem ledger_success_exact_ABT_xstream_create_with_rank_given (o : Oracle) :
    successExact allowed_ABT_xstream_create_with_rank_given (exec ABT_xstream_create_with_rank_given 400 o) = true :=
  (and4 (all_runs_exec_noparam ABT_xstream_create_with_rank_given 400 check_ABT_xstream_create_with_rank_given rfl runs_ABT_xstream_create_with_rank_given o)).2.1

/-- **C18 / no dangling handle** for `ABT_xstream_create_with_rank(sched, rank, …)` with a caller-owned scheduler. -/
theorem ledger_handle_null_or_untouched_ABT_xstream_create_with_rank_given (o : Oracle) :
    handleOk ABT_xstream_create_with_rank_given (exec ABT_xstream_create_with_rank_given 400 o) = true :=
  (and4 (all_runs_exec_noparam ABT_xstream_create_with_rank_given 400 check_ABT_xstream_create_with_rank_given rfl runs_ABT_xstream_create_with_rank_given o)).2.2.1

/-- **C18 / pre-existing objects untouched** for `ABT_xstream_create_with_rank(sched, rank, …)` with a caller-owned scheduler. -/
theorem ledger_preexisting_untouched_ABT_xstream_create_with_rank_given (o : Oracle) :
    preUntouched ABT_xstream_create_with_rank_given (exec ABT_xstream_create_with_rank_given 400 o) = true :=
  (and4 (all_runs_exec_noparam ABT_xstream_create_with_rank_given 400 check_ABT_xstream_create_with_rank_given rfl runs_ABT_xstream_create_with_rank_given o)).2.2.2

example : 0 < injectedRuns ABT_xstream_create_with_rank_given 400 0 := nonvacuous_ABT_xstream_create_with_rank_given

/-- **C18 / no leak, error code** for `ABT_xstream_create_basic`: scheduler built from the pool list, released pool by pool when the stream cannot be created (`num_pools ≤ 2`; missing for the full statement: induction over the loop). -/
theorem ledger_fail_balanced_ABT_xstream_create_basic_partial (o : Oracle) (hb : o.param ≤ 2) :
    failBalanced (exec ABT_xstream_create_basic 600 o) = true :=
  (and4 (all_runs_exec ABT_xstream_create_basic 600 2 check_ABT_xstream_create_basic runs_ABT_xstream_create_basic o hb)).1

/-- **C18 / exact success** for `ABT_xstream_create_basic`: scheduler built from the pool list, released pool by pool when the stream cannot be created (`num_pools ≤ 2`; missing for the full statement: induction over the loop). -/
theorem ledger_success_exact_ABT_xstream_create_basic_partial (o : Oracle) (hb : o.param ≤ 2) :
    successExact allowed_ABT_xstream_create_basic (exec ABT_xstream_create_basic 600 o) = true :=
  (and4 (all_runs_exec ABT_xstream_create_basic 600 2 check_ABT_xstream_create_basic runs_ABT_xstream_create_basic o hb)).2.1

/-- **C18 / no dangling handle** for `ABT_xstream_create_basic`: scheduler built from the pool list, released pool by pool when the stream cannot be created (`num_pools ≤ 2`; missing for the full statement: induction over the loop). -/
theorem ledger_handle_null_or_untouched_ABT_xstream_create_basic_partial (o : Oracle) (hb : o.param ≤ 2) :
    handleOk ABT_xstream_create_basic (exec ABT_xstream_create_basic 600 o) = true :=
  (and4 (all_runs_exec ABT_xstream_create_basic 600 2 check_ABT_xstream_create_basic runs_ABT_xstream_create_basic o hb)).2.2.1

/-- **C18 / pre-existing objects untouched** for `ABT_xstream_create_basic`: scheduler built from the pool list, released pool by pool when the stream cannot be created (`num_pools ≤ 2`; missing for the full statement: induction over the loop). -/
theorem ledger_preexisting_untouched_ABT_xstream_create_basic_partial (o : Oracle) (hb : o.param ≤ 2) :
    preUntouched ABT_xstream_create_basic (exec ABT_xstream_create_basic 600 o) = true :=
  (and4 (all_runs_exec ABT_xstream_create_basic 600 2 check_ABT_xstream_create_basic runs_ABT_xstream_create_basic o hb)).2.2.2

example : 0 < injectedRuns ABT_xstream_create_basic 600 2 := nonvacuous_ABT_xstream_create_basic

/-- **C18 / no leak, error code** for `ABTI_xstream_create_primary` (called by `ABT_init`). -/
theorem ledger_fail_balanced_ABTI_xstream_create_primary (o : Oracle) :
    failBalanced (exec ABTI_xstream_create_primary 400 o) = true :=
  (and4 (all_runs_exec_noparam ABTI_xstream_create_primary 400 check_ABTI_xstream_create_primary rfl runs_ABTI_xstream_create_primary o)).1

/-- **C18 / exact success** for `ABTI_xstream_create_primary` (called by `ABT_init`). -/
theorem ledger_success_exact_ABTI_xstream_create_primary (o : Oracle) :
    successExact allowed_ABTI_xstream_create_primary (exec ABTI_xstream_create_primary 400 o) = true :=
  (and4 (all_runs_exec_noparam ABTI_xstream_create_primary 400 check_ABTI_xstream_create_primary rfl runs_ABTI_xstream_create_primary o)).2.1

/-- **C18 / no dangling handle** for `ABTI_xstream_create_primary` (called by `ABT_init`). -/
theorem ledger_handle_null_or_untouched_ABTI_xstream_create_primary (o : Oracle) :
    handleOk ABTI_xstream_create_primary (exec ABTI_xstream_create_primary 400 o) = true :=
  (and4 (all_runs_exec_noparam ABTI_xstream_create_primary 400 check_ABTI_xstream_create_primary rfl runs_ABTI_xstream_create_primary o)).2.2.1

/-- **C18 / pre-existing objects untouched** for `ABTI_xstream_create_primary` (called by `ABT_init`). -/
theorem ledger_preexisting_untouched_ABTI_xstream_create_primary (o : Oracle) :
    preUntouched ABTI_xstream_create_primary (exec ABTI_xstream_create_primary 400 o) = true :=
  (and4 (all_runs_exec_noparam ABTI_xstream_create_primary 400 check_ABTI_xstream_create_primary rfl runs_ABTI_xstream_create_primary o)).2.2.2

example : 0 < injectedRuns ABTI_xstream_create_primary 400 0 := nonvacuous_ABTI_xstream_create_primary

/-- **C18 / no leak, error code** for the FAILED ladder of `init_library` (global.c), i.e. `ABT_init` itself: global descriptor, global memory pools, primary stream, primary ULT. -/
theorem ledger_fail_balanced_init_library (o : Oracle) :
    failBalanced (exec init_library 400 o) = true :=
  (and4 (all_runs_exec_noparam init_library 400 check_init_library rfl runs_init_library o)).1

/-- **C18 / exact success** for the FAILED ladder of `init_library` (global.c), i.e. `ABT_init` itself: global descriptor, global memory pools, primary stream, primary ULT. -/
theorem ledger_success_exact_init_library (o : Oracle) :
    successExact allowed_init_library (exec init_library 400 o) = true :=
  (and4 (all_runs_exec_noparam init_library 400 check_init_library rfl runs_init_library o)).2.1

/-- **C18 / no dangling handle** for the FAILED ladder of `init_library` (global.c), i.e. `ABT_init` itself: global descriptor, global memory pools, primary stream, primary ULT. -/
theorem ledger_handle_null_or_untouched_init_library (o : Oracle) :
    handleOk init_library (exec init_library 400 o) = true :=
  (and4 (all_runs_exec_noparam init_library 400 check_init_library rfl runs_init_library o)).2.2.1

/-- **C18 / pre-existing objects untouched** for the FAILED ladder of `init_library` (global.c), i.e. `ABT_init` itself: global descriptor, global memory pools, primary stream, primary ULT. -/
theorem ledger_preexisting_untouched_init_library (o : Oracle) :
    preUntouched init_library (exec init_library 400 o) = true :=
  (and4 (all_runs_exec_noparam init_library 400 check_init_library rfl runs_init_library o)).2.2.2

example : 0 < injectedRuns init_library 400 0 := nonvacuous_init_library

/-- **C18 / no leak, error code** for `ABTD_xstream_context_create` (arch/abtd_stream.c): pthread mutex, condition variable and thread with its own `init_stage` ladder. -/
theorem ledger_fail_balanced_ABTD_xstream_context_create (o : Oracle) :
    failBalanced (exec ABTD_xstream_context_create 400 o) = true :=
  (and4 (all_runs_exec_noparam ABTD_xstream_context_create 400 check_ABTD_xstream_context_create rfl runs_ABTD_xstream_context_create o)).1

/-- **C18 / exact success** for `ABTD_xstream_context_create` (arch/abtd_stream.c): pthread mutex, condition variable and thread with its own `init_stage` ladder. -/
theorem ledger_success_exact_ABTD_xstream_context_create (o : Oracle) :
    successExact allowed_ABTD_xstream_context_create (exec ABTD_xstream_context_create 400 o) = true :=
  (and4 (all_runs_exec_noparam ABTD_xstream_context_create 400 check_ABTD_xstream_context_create rfl runs_ABTD_xstream_context_create o)).2.1

/-- **C18 / no dangling handle** for `ABTD_xstream_context_create` (arch/abtd_stream.c): pthread mutex, condition variable and thread with its own `init_stage` ladder. -/
theorem ledger_handle_null_or_untouched_ABTD_xstream_context_create (o : Oracle) :
    handleOk ABTD_xstream_context_create (exec ABTD_xstream_context_create 400 o) = true :=
  (and4 (all_runs_exec_noparam ABTD_xstream_context_create 400 check_ABTD_xstream_context_create rfl runs_ABTD_xstream_context_create o)).2.2.1

/-- **C18 / pre-existing objects untouched** for `ABTD_xstream_context_create` (arch/abtd_stream.c): pthread mutex, condition variable and thread with its own `init_stage` ladder. -/
theorem ledger_preexisting_untouched_ABTD_xstream_context_create (o : Oracle) :
    preUntouched ABTD_xstream_context_create (exec ABTD_xstream_context_create 400 o) = true :=
  (and4 (all_runs_exec_noparam ABTD_xstream_context_create 400 check_ABTD_xstream_context_create rfl runs_ABTD_xstream_context_create o)).2.2.2

example : 0 < injectedRuns ABTD_xstream_context_create 400 0 := nonvacuous_ABTD_xstream_context_create

/-- **C18 / no leak, error code** for `ABTI_mem_init_local`: the stack pool is destroyed again when the descriptor pool cannot be set up. -/
theorem ledger_fail_balanced_ABTI_mem_init_local (o : Oracle) :
    failBalanced (exec ABTI_mem_init_local 400 o) = true :=
  (and4 (all_runs_exec_noparam ABTI_mem_init_local 400 check_ABTI_mem_init_local rfl runs_ABTI_mem_init_local o)).1

/-- **C18 / exact success** for `ABTI_mem_init_local`: the stack pool is destroyed again when the descriptor pool cannot be set up. -/
theorem ledger_success_exact_ABTI_mem_init_local (o : Oracle) :
    successExact allowed_ABTI_mem_init_local (exec ABTI_mem_init_local 400 o) = true :=
  (and4 (all_runs_exec_noparam ABTI_mem_init_local 400 check_ABTI_mem_init_local rfl runs_ABTI_mem_init_local o)).2.1

/-- **C18 / no dangling handle** for `ABTI_mem_init_local`: the stack pool is destroyed again when the descriptor pool cannot be set up. -/
theorem ledger_handle_null_or_untouched_ABTI_mem_init_local (o : Oracle) :
    handleOk ABTI_mem_init_local (exec ABTI_mem_init_local 400 o) = true :=
  (and4 (all_runs_exec_noparam ABTI_mem_init_local 400 check_ABTI_mem_init_local rfl runs_ABTI_mem_init_local o)).2.2.1

/-- **C18 / pre-existing objects untouched** for `ABTI_mem_init_local`: the stack pool is destroyed again when the descriptor pool cannot be set up. -/
theorem ledger_preexisting_untouched_ABTI_mem_init_local (o : Oracle) :
    preUntouched ABTI_mem_init_local (exec ABTI_mem_init_local 400 o) = true :=
  (and4 (all_runs_exec_noparam ABTI_mem_init_local 400 check_ABTI_mem_init_local rfl runs_ABTI_mem_init_local o)).2.2.2

example : 0 < injectedRuns ABTI_mem_init_local 400 0 := nonvacuous_ABTI_mem_init_local

/-- **C18 / no leak, error code** for `ABTI_mem_init`: both external-thread local pools on top of the two global pools. -/
theorem ledger_fail_balanced_ABTI_mem_init (o : Oracle) :
    failBalanced (exec ABTI_mem_init 400 o) = true :=
  (and4 (all_runs_exec_noparam ABTI_mem_init 400 check_ABTI_mem_init rfl runs_ABTI_mem_init o)).1

/-- **C18 / exact success** for `ABTI_mem_init`: both external-thread local pools on top of the two global pools. -/
theorem ledger_success_exact_ABTI_mem_init (o : Oracle) :
    successExact allowed_ABTI_mem_init (exec ABTI_mem_init 400 o) = true :=
  (and4 (all_runs_exec_noparam ABTI_mem_init 400 check_ABTI_mem_init rfl runs_ABTI_mem_init o)).2.1

/-- **C18 / no dangling handle** for `ABTI_mem_init`: both external-thread local pools on top of the two global pools. -/
theorem ledger_handle_null_or_untouched_ABTI_mem_init (o : Oracle) :
    handleOk ABTI_mem_init (exec ABTI_mem_init 400 o) = true :=
  (and4 (all_runs_exec_noparam ABTI_mem_init 400 check_ABTI_mem_init rfl runs_ABTI_mem_init o)).2.2.1

/-- **C18 / pre-existing objects untouched** for `ABTI_mem_init`: both external-thread local pools on top of the two global pools. -/
theorem ledger_preexisting_untouched_ABTI_mem_init (o : Oracle) :
    preUntouched ABTI_mem_init (exec ABTI_mem_init 400 o) = true :=
  (and4 (all_runs_exec_noparam ABTI_mem_init 400 check_ABTI_mem_init rfl runs_ABTI_mem_init o)).2.2.2

example : 0 < injectedRuns ABTI_mem_init 400 0 := nonvacuous_ABTI_mem_init

/-- **C18 / no leak, error code** for `ythread_create` (thread.c) without stackable scheduler: four stack provenances, optional migration data and key table, unit creation. -/
theorem ledger_fail_balanced_ythread_create (o : Oracle) :
    failBalanced (exec ythread_create 400 o) = true :=
  (and4 (all_runs_exec_noparam ythread_create 400 check_ythread_create rfl runs_ythread_create o)).1

/-- **C18 / exact success** for `ythread_create` (thread.c) without stackable scheduler: four stack provenances, optional migration data and key table, unit creation. -/
theorem ledger_success_exact_ythread_create (o : Oracle) :
    successExact allowed_ythread_create (exec ythread_create 400 o) = true :=
  (and4 (all_runs_exec_noparam ythread_create 400 check_ythread_create rfl runs_ythread_create o)).2.1

/-- **C18 / no dangling handle** for `ythread_create` (thread.c) without stackable scheduler: four stack provenances, optional migration data and key table, unit creation. -/
theorem ledger_handle_null_or_untouched_ythread_create (o : Oracle) :
    handleOk ythread_create (exec ythread_create 400 o) = true :=
  (and4 (all_runs_exec_noparam ythread_create 400 check_ythread_create rfl runs_ythread_create o)).2.2.1

/-- **C18 / pre-existing objects untouched** for `ythread_create` (thread.c) without stackable scheduler: four stack provenances, optional migration data and key table, unit creation. -/
theorem ledger_preexisting_untouched_ythread_create (o : Oracle) :
    preUntouched ythread_create (exec ythread_create 400 o) = true :=
  (and4 (all_runs_exec_noparam ythread_create 400 check_ythread_create rfl runs_ythread_create o)).2.2.2

example : 0 < injectedRuns ythread_create 400 0 := nonvacuous_ythread_create

/-- **C18 / no leak, error code** for `ythread_create` for a stackable scheduler (`ABT_pool_add_sched`): additionally registers the scheduler under `g_thread_sched_key`. -/
theorem ledger_fail_balanced_ythread_create_with_sched (o : Oracle) :
    failBalanced (exec ythread_create_with_sched 400 o) = true :=
  (and4 (all_runs_exec_noparam ythread_create_with_sched 400 check_ythread_create_with_sched rfl runs_ythread_create_with_sched o)).1

/-- **C18 / exact success** for `ythread_create` for a stackable scheduler (`ABT_pool_add_sched`): additionally registers the scheduler under `g_thread_sched_key`. -/
theorem ledger_success_exact_ythread_create_with_sched (o : Oracle) :
    successExact allowed_ythread_create_with_sched (exec ythread_create_with_sched 400 o) = true :=
  (and4 (all_runs_exec_noparam ythread_create_with_sched 400 check_ythread_create_with_sched rfl runs_ythread_create_with_sched o)).2.1

/-- **C18 / no dangling handle** for `ythread_create` for a stackable scheduler (`ABT_pool_add_sched`): additionally registers the scheduler under `g_thread_sched_key`. -/
theorem ledger_handle_null_or_untouched_ythread_create_with_sched (o : Oracle) :
    handleOk ythread_create_with_sched (exec ythread_create_with_sched 400 o) = true :=
  (and4 (all_runs_exec_noparam ythread_create_with_sched 400 check_ythread_create_with_sched rfl runs_ythread_create_with_sched o)).2.2.1

/-- **C18 / pre-existing objects untouched, PARTIAL** for `ythread_create` for a stackable scheduler (`ABT_pool_add_sched`): additionally registers the scheduler under `g_thread_sched_key`: holds for every run except those in which an error occurs after a key-table entry has been registered.  What is missing is exactly finding C18-A (the failure branch calls `ABTI_ktable_free`, whose destructor for `g_thread_sched_key` frees the caller's automatic scheduler); the full statement is `Props/C18Strict.lean`. -/
theorem ledger_preexisting_untouched_ythread_create_with_sched_partial (o : Oracle) :
    preUntouchedBeforeKey (exec ythread_create_with_sched 400 o) = true :=
  (and4 (all_runs_exec_noparam ythread_create_with_sched 400 check_ythread_create_with_sched rfl runs_ythread_create_with_sched o)).2.2.2

example : 0 < injectedRuns ythread_create_with_sched 400 0 := nonvacuous_ythread_create_with_sched

/-- **C18 / no leak, error code** for `task_create` (task.c). -/
theorem ledger_fail_balanced_task_create (o : Oracle) :
    failBalanced (exec task_create 400 o) = true :=
  (and4 (all_runs_exec_noparam task_create 400 check_task_create rfl runs_task_create o)).1

/-- **C18 / exact success** for `task_create` (task.c). -/
theorem ledger_success_exact_task_create (o : Oracle) :
    successExact allowed_task_create (exec task_create 400 o) = true :=
  (and4 (all_runs_exec_noparam task_create 400 check_task_create rfl runs_task_create o)).2.1

/-- **C18 / no dangling handle** for `task_create` (task.c). -/
theorem ledger_handle_null_or_untouched_task_create (o : Oracle) :
    handleOk task_create (exec task_create 400 o) = true :=
  (and4 (all_runs_exec_noparam task_create 400 check_task_create rfl runs_task_create o)).2.2.1

/-- **C18 / pre-existing objects untouched** for `task_create` (task.c). -/
theorem ledger_preexisting_untouched_task_create (o : Oracle) :
    preUntouched task_create (exec task_create 400 o) = true :=
  (and4 (all_runs_exec_noparam task_create 400 check_task_create rfl runs_task_create o)).2.2.2

example : 0 < injectedRuns task_create 400 0 := nonvacuous_task_create

/-- **C18 / no leak, error code** for `ABTI_thread_get_mig_data`: migration data of an existing unit, created on first use — up to an EMPTY lazily created key table that stays attached to the pre-existing unit (freed with the unit, reused by the retry). -/
theorem ledger_fail_balanced_ABTI_thread_get_mig_data (o : Oracle) :
    failBalancedUpTo [K_lazy_ktable] (exec ABTI_thread_get_mig_data 400 o) = true :=
  (and4 (all_runs_exec_noparam ABTI_thread_get_mig_data 400 check_ABTI_thread_get_mig_data rfl runs_ABTI_thread_get_mig_data o)).1

/-- **C18 / exact success** for `ABTI_thread_get_mig_data`: migration data of an existing unit, created on first use. -/
theorem ledger_success_exact_ABTI_thread_get_mig_data (o : Oracle) :
    successExact allowed_ABTI_thread_get_mig_data (exec ABTI_thread_get_mig_data 400 o) = true :=
  (and4 (all_runs_exec_noparam ABTI_thread_get_mig_data 400 check_ABTI_thread_get_mig_data rfl runs_ABTI_thread_get_mig_data o)).2.1

/-- **C18 / no dangling handle** for `ABTI_thread_get_mig_data`: migration data of an existing unit, created on first use. -/
theorem ledger_handle_null_or_untouched_ABTI_thread_get_mig_data (o : Oracle) :
    handleOk ABTI_thread_get_mig_data (exec ABTI_thread_get_mig_data 400 o) = true :=
  (and4 (all_runs_exec_noparam ABTI_thread_get_mig_data 400 check_ABTI_thread_get_mig_data rfl runs_ABTI_thread_get_mig_data o)).2.2.1

/-- **C18 / pre-existing objects untouched** for `ABTI_thread_get_mig_data`: migration data of an existing unit, created on first use. -/
theorem ledger_preexisting_untouched_ABTI_thread_get_mig_data (o : Oracle) :
    preUntouched ABTI_thread_get_mig_data (exec ABTI_thread_get_mig_data 400 o) = true :=
  (and4 (all_runs_exec_noparam ABTI_thread_get_mig_data 400 check_ABTI_thread_get_mig_data rfl runs_ABTI_thread_get_mig_data o)).2.2.2

example : 0 < injectedRuns ABTI_thread_get_mig_data 400 0 := nonvacuous_ABTI_thread_get_mig_data

/-- **C18 / no leak, error code** for `ABTI_ythread_create_root`. -/
theorem ledger_fail_balanced_ABTI_ythread_create_root (o : Oracle) :
    failBalanced (exec ABTI_ythread_create_root 400 o) = true :=
  (and4 (all_runs_exec_noparam ABTI_ythread_create_root 400 check_ABTI_ythread_create_root rfl runs_ABTI_ythread_create_root o)).1

/-- **C18 / exact success** for `ABTI_ythread_create_root`. -/
theorem ledger_success_exact_ABTI_ythread_create_root (o : Oracle) :
    successExact allowed_ABTI_ythread_create_root (exec ABTI_ythread_create_root 400 o) = true :=
  (and4 (all_runs_exec_noparam ABTI_ythread_create_root 400 check_ABTI_ythread_create_root rfl runs_ABTI_ythread_create_root o)).2.1

/-- **C18 / no dangling handle** for `ABTI_ythread_create_root`. -/
theorem ledger_handle_null_or_untouched_ABTI_ythread_create_root (o : Oracle) :
    handleOk ABTI_ythread_create_root (exec ABTI_ythread_create_root 400 o) = true :=
  (and4 (all_runs_exec_noparam ABTI_ythread_create_root 400 check_ABTI_ythread_create_root rfl runs_ABTI_ythread_create_root o)).2.2.1

/-- **C18 / pre-existing objects untouched** for `ABTI_ythread_create_root`. -/
theorem ledger_preexisting_untouched_ABTI_ythread_create_root (o : Oracle) :
    preUntouched ABTI_ythread_create_root (exec ABTI_ythread_create_root 400 o) = true :=
  (and4 (all_runs_exec_noparam ABTI_ythread_create_root 400 check_ABTI_ythread_create_root rfl runs_ABTI_ythread_create_root o)).2.2.2

example : 0 < injectedRuns ABTI_ythread_create_root 400 0 := nonvacuous_ABTI_ythread_create_root

/-- **C18 / no leak, error code** for `ABTI_ythread_create_main_sched`. -/
theorem ledger_fail_balanced_ABTI_ythread_create_main_sched (o : Oracle) :
    failBalanced (exec ABTI_ythread_create_main_sched 400 o) = true :=
  (and4 (all_runs_exec_noparam ABTI_ythread_create_main_sched 400 check_ABTI_ythread_create_main_sched rfl runs_ABTI_ythread_create_main_sched o)).1

/-- **C18 / exact success** for `ABTI_ythread_create_main_sched`. -/
theorem ledger_success_exact_ABTI_ythread_create_main_sched (o : Oracle) :
    successExact allowed_ABTI_ythread_create_main_sched (exec ABTI_ythread_create_main_sched 400 o) = true :=
  (and4 (all_runs_exec_noparam ABTI_ythread_create_main_sched 400 check_ABTI_ythread_create_main_sched rfl runs_ABTI_ythread_create_main_sched o)).2.1

/-- **C18 / no dangling handle** for `ABTI_ythread_create_main_sched`. -/
theorem ledger_handle_null_or_untouched_ABTI_ythread_create_main_sched (o : Oracle) :
    handleOk ABTI_ythread_create_main_sched (exec ABTI_ythread_create_main_sched 400 o) = true :=
  (and4 (all_runs_exec_noparam ABTI_ythread_create_main_sched 400 check_ABTI_ythread_create_main_sched rfl runs_ABTI_ythread_create_main_sched o)).2.2.1

/-- **C18 / pre-existing objects untouched** for `ABTI_ythread_create_main_sched`. -/
theorem ledger_preexisting_untouched_ABTI_ythread_create_main_sched (o : Oracle) :
    preUntouched ABTI_ythread_create_main_sched (exec ABTI_ythread_create_main_sched 400 o) = true :=
  (and4 (all_runs_exec_noparam ABTI_ythread_create_main_sched 400 check_ABTI_ythread_create_main_sched rfl runs_ABTI_ythread_create_main_sched o)).2.2.2

example : 0 < injectedRuns ABTI_ythread_create_main_sched 400 0 := nonvacuous_ABTI_ythread_create_main_sched

/-- **C18 / no leak, error code** for `ABTI_ythread_create_sched`. -/
theorem ledger_fail_balanced_ABTI_ythread_create_sched (o : Oracle) :
    failBalanced (exec ABTI_ythread_create_sched 400 o) = true :=
  (and4 (all_runs_exec_noparam ABTI_ythread_create_sched 400 check_ABTI_ythread_create_sched rfl runs_ABTI_ythread_create_sched o)).1

/-- **C18 / exact success** for `ABTI_ythread_create_sched`. -/
theorem ledger_success_exact_ABTI_ythread_create_sched (o : Oracle) :
    successExact allowed_ABTI_ythread_create_sched (exec ABTI_ythread_create_sched 400 o) = true :=
  (and4 (all_runs_exec_noparam ABTI_ythread_create_sched 400 check_ABTI_ythread_create_sched rfl runs_ABTI_ythread_create_sched o)).2.1

/-- **C18 / no dangling handle** for `ABTI_ythread_create_sched`. -/
theorem ledger_handle_null_or_untouched_ABTI_ythread_create_sched (o : Oracle) :
    handleOk ABTI_ythread_create_sched (exec ABTI_ythread_create_sched 400 o) = true :=
  (and4 (all_runs_exec_noparam ABTI_ythread_create_sched 400 check_ABTI_ythread_create_sched rfl runs_ABTI_ythread_create_sched o)).2.2.1

/-- **C18 / pre-existing objects untouched** for `ABTI_ythread_create_sched`. -/
theorem ledger_preexisting_untouched_ABTI_ythread_create_sched (o : Oracle) :
    preUntouched ABTI_ythread_create_sched (exec ABTI_ythread_create_sched 400 o) = true :=
  (and4 (all_runs_exec_noparam ABTI_ythread_create_sched 400 check_ABTI_ythread_create_sched rfl runs_ABTI_ythread_create_sched o)).2.2.2

example : 0 < injectedRuns ABTI_ythread_create_sched 400 0 := nonvacuous_ABTI_ythread_create_sched

/-- **C18 / no leak, error code** for `sched_create` (sched/sched.c): scheduler descriptor, pool list, automatically created pools, references on user pools, user `init` (`num_pools ≤ 2`; missing for the full statement: induction over the loop). -/
theorem ledger_fail_balanced_sched_create_partial (o : Oracle) (hb : o.param ≤ 2) :
    failBalanced (exec sched_create 600 o) = true :=
  (and4 (all_runs_exec sched_create 600 2 check_sched_create runs_sched_create o hb)).1

/-- **C18 / exact success** for `sched_create` (sched/sched.c): scheduler descriptor, pool list, automatically created pools, references on user pools, user `init` (`num_pools ≤ 2`; missing for the full statement: induction over the loop). -/
theorem ledger_success_exact_sched_create_partial (o : Oracle) (hb : o.param ≤ 2) :
    successExact allowed_sched_create (exec sched_create 600 o) = true :=
  (and4 (all_runs_exec sched_create 600 2 check_sched_create runs_sched_create o hb)).2.1

/-- **C18 / no dangling handle** for `sched_create` (sched/sched.c): scheduler descriptor, pool list, automatically created pools, references on user pools, user `init` (`num_pools ≤ 2`; missing for the full statement: induction over the loop). -/
theorem ledger_handle_null_or_untouched_sched_create_partial (o : Oracle) (hb : o.param ≤ 2) :
    handleOk sched_create (exec sched_create 600 o) = true :=
  (and4 (all_runs_exec sched_create 600 2 check_sched_create runs_sched_create o hb)).2.2.1

/-- **C18 / pre-existing objects untouched** for `sched_create` (sched/sched.c): scheduler descriptor, pool list, automatically created pools, references on user pools, user `init` (`num_pools ≤ 2`; missing for the full statement: induction over the loop). -/
theorem ledger_preexisting_untouched_sched_create_partial (o : Oracle) (hb : o.param ≤ 2) :
    preUntouched sched_create (exec sched_create 600 o) = true :=
  (and4 (all_runs_exec sched_create 600 2 check_sched_create runs_sched_create o hb)).2.2.2

example : 0 < injectedRuns sched_create 600 2 := nonvacuous_sched_create

/-- **C18 / no leak, error code** for `ABTI_sched_create_basic`: temporary pool list, pools created for `ABT_POOL_NULL` entries, predefined scheduler (`num_pools ≤ 2`; missing for the full statement: induction over the loop). -/
theorem ledger_fail_balanced_ABTI_sched_create_basic_partial (o : Oracle) (hb : o.param ≤ 2) :
    failBalanced (exec ABTI_sched_create_basic 600 o) = true :=
  (and4 (all_runs_exec ABTI_sched_create_basic 600 2 check_ABTI_sched_create_basic runs_ABTI_sched_create_basic o hb)).1

/-- **C18 / exact success** for `ABTI_sched_create_basic`: temporary pool list, pools created for `ABT_POOL_NULL` entries, predefined scheduler (`num_pools ≤ 2`; missing for the full statement: induction over the loop). -/
theorem ledger_success_exact_ABTI_sched_create_basic_partial (o : Oracle) (hb : o.param ≤ 2) :
    successExact allowed_ABTI_sched_create_basic (exec ABTI_sched_create_basic 600 o) = true :=
  (and4 (all_runs_exec ABTI_sched_create_basic 600 2 check_ABTI_sched_create_basic runs_ABTI_sched_create_basic o hb)).2.1

/-- **C18 / no dangling handle** for `ABTI_sched_create_basic`: temporary pool list, pools created for `ABT_POOL_NULL` entries, predefined scheduler (`num_pools ≤ 2`; missing for the full statement: induction over the loop). -/
theorem ledger_handle_null_or_untouched_ABTI_sched_create_basic_partial (o : Oracle) (hb : o.param ≤ 2) :
    handleOk ABTI_sched_create_basic (exec ABTI_sched_create_basic 600 o) = true :=
  (and4 (all_runs_exec ABTI_sched_create_basic 600 2 check_ABTI_sched_create_basic runs_ABTI_sched_create_basic o hb)).2.2.1

/-- **C18 / pre-existing objects untouched** for `ABTI_sched_create_basic`: temporary pool list, pools created for `ABT_POOL_NULL` entries, predefined scheduler (`num_pools ≤ 2`; missing for the full statement: induction over the loop). -/
theorem ledger_preexisting_untouched_ABTI_sched_create_basic_partial (o : Oracle) (hb : o.param ≤ 2) :
    preUntouched ABTI_sched_create_basic (exec ABTI_sched_create_basic 600 o) = true :=
  (and4 (all_runs_exec ABTI_sched_create_basic 600 2 check_ABTI_sched_create_basic runs_ABTI_sched_create_basic o hb)).2.2.2

example : 0 < injectedRuns ABTI_sched_create_basic 600 2 := nonvacuous_ABTI_sched_create_basic

/-- **C18 / no leak, error code** for `pool_create` (pool/pool.c): descriptor plus the pool's own `p_init`. -/
theorem ledger_fail_balanced_pool_create (o : Oracle) :
    failBalanced (exec pool_create 400 o) = true :=
  (and4 (all_runs_exec_noparam pool_create 400 check_pool_create rfl runs_pool_create o)).1

/-- **C18 / exact success** for `pool_create` (pool/pool.c): descriptor plus the pool's own `p_init`. -/
theorem ledger_success_exact_pool_create (o : Oracle) :
    successExact allowed_pool_create (exec pool_create 400 o) = true :=
  (and4 (all_runs_exec_noparam pool_create 400 check_pool_create rfl runs_pool_create o)).2.1

/-- **C18 / no dangling handle** for `pool_create` (pool/pool.c): descriptor plus the pool's own `p_init`. -/
theorem ledger_handle_null_or_untouched_pool_create (o : Oracle) :
    handleOk pool_create (exec pool_create 400 o) = true :=
  (and4 (all_runs_exec_noparam pool_create 400 check_pool_create rfl runs_pool_create o)).2.2.1

/-- **C18 / pre-existing objects untouched** for `pool_create` (pool/pool.c): descriptor plus the pool's own `p_init`. -/
theorem ledger_preexisting_untouched_pool_create (o : Oracle) :
    preUntouched pool_create (exec pool_create 400 o) = true :=
  (and4 (all_runs_exec_noparam pool_create 400 check_pool_create rfl runs_pool_create o)).2.2.2

example : 0 < injectedRuns pool_create 400 0 := nonvacuous_pool_create

/-- **C18 / no leak, error code** for `ABT_pool_create`. -/
theorem ledger_fail_balanced_ABT_pool_create (o : Oracle) :
    failBalanced (exec ABT_pool_create 400 o) = true :=
  (and4 (all_runs_exec_noparam ABT_pool_create 400 check_ABT_pool_create rfl runs_ABT_pool_create o)).1

/-- **C18 / exact success** for `ABT_pool_create`. -/
theorem ledger_success_exact_ABT_pool_create (o : Oracle) :
    successExact allowed_ABT_pool_create (exec ABT_pool_create 400 o) = true :=
  (and4 (all_runs_exec_noparam ABT_pool_create 400 check_ABT_pool_create rfl runs_ABT_pool_create o)).2.1

/-- **C18 / no dangling handle** for `ABT_pool_create`. -/
theorem ledger_handle_null_or_untouched_ABT_pool_create (o : Oracle) :
    handleOk ABT_pool_create (exec ABT_pool_create 400 o) = true :=
  (and4 (all_runs_exec_noparam ABT_pool_create 400 check_ABT_pool_create rfl runs_ABT_pool_create o)).2.2.1

/-- **C18 / pre-existing objects untouched** for `ABT_pool_create`. -/
theorem ledger_preexisting_untouched_ABT_pool_create (o : Oracle) :
    preUntouched ABT_pool_create (exec ABT_pool_create 400 o) = true :=
  (and4 (all_runs_exec_noparam ABT_pool_create 400 check_ABT_pool_create rfl runs_ABT_pool_create o)).2.2.2

example : 0 < injectedRuns ABT_pool_create 400 0 := nonvacuous_ABT_pool_create

/-- **C18 / no leak, error code** for `ABTI_pool_create_basic`. -/
theorem ledger_fail_balanced_ABTI_pool_create_basic (o : Oracle) :
    failBalanced (exec ABTI_pool_create_basic 400 o) = true :=
  (and4 (all_runs_exec_noparam ABTI_pool_create_basic 400 check_ABTI_pool_create_basic rfl runs_ABTI_pool_create_basic o)).1

/-- **C18 / exact success** for `ABTI_pool_create_basic`. -/
theorem ledger_success_exact_ABTI_pool_create_basic (o : Oracle) :
    successExact allowed_ABTI_pool_create_basic (exec ABTI_pool_create_basic 400 o) = true :=
  (and4 (all_runs_exec_noparam ABTI_pool_create_basic 400 check_ABTI_pool_create_basic rfl runs_ABTI_pool_create_basic o)).2.1

/-- **C18 / no dangling handle** for `ABTI_pool_create_basic`. -/
theorem ledger_handle_null_or_untouched_ABTI_pool_create_basic (o : Oracle) :
    handleOk ABTI_pool_create_basic (exec ABTI_pool_create_basic 400 o) = true :=
  (and4 (all_runs_exec_noparam ABTI_pool_create_basic 400 check_ABTI_pool_create_basic rfl runs_ABTI_pool_create_basic o)).2.2.1

/-- **C18 / pre-existing objects untouched** for `ABTI_pool_create_basic`. -/
theorem ledger_preexisting_untouched_ABTI_pool_create_basic (o : Oracle) :
    preUntouched ABTI_pool_create_basic (exec ABTI_pool_create_basic 400 o) = true :=
  (and4 (all_runs_exec_noparam ABTI_pool_create_basic 400 check_ABTI_pool_create_basic rfl runs_ABTI_pool_create_basic o)).2.2.2

example : 0 < injectedRuns ABTI_pool_create_basic 400 0 := nonvacuous_ABTI_pool_create_basic

/-- **C18 / no leak, error code** for `ABT_pool_add_sched`: `sched->used` is reset when the scheduler ULT cannot be created. -/
theorem ledger_fail_balanced_ABT_pool_add_sched (o : Oracle) :
    failBalanced (exec ABT_pool_add_sched 400 o) = true :=
  (and4 (all_runs_exec_noparam ABT_pool_add_sched 400 check_ABT_pool_add_sched rfl runs_ABT_pool_add_sched o)).1

/-- **C18 / exact success** for `ABT_pool_add_sched`: `sched->used` is reset when the scheduler ULT cannot be created. -/
theorem ledger_success_exact_ABT_pool_add_sched (o : Oracle) :
    successExact allowed_ABT_pool_add_sched (exec ABT_pool_add_sched 400 o) = true :=
  (and4 (all_runs_exec_noparam ABT_pool_add_sched 400 check_ABT_pool_add_sched rfl runs_ABT_pool_add_sched o)).2.1

/-- **C18 / no dangling handle** for `ABT_pool_add_sched`: `sched->used` is reset when the scheduler ULT cannot be created. -/
theorem ledger_handle_null_or_untouched_ABT_pool_add_sched (o : Oracle) :
    handleOk ABT_pool_add_sched (exec ABT_pool_add_sched 400 o) = true :=
  (and4 (all_runs_exec_noparam ABT_pool_add_sched 400 check_ABT_pool_add_sched rfl runs_ABT_pool_add_sched o)).2.2.1

/-- **C18 / pre-existing objects untouched** for `ABT_pool_add_sched`: `sched->used` is reset when the scheduler ULT cannot be created. -/
theorem ledger_preexisting_untouched_ABT_pool_add_sched (o : Oracle) :
    preUntouched ABT_pool_add_sched (exec ABT_pool_add_sched 400 o) = true :=
  (and4 (all_runs_exec_noparam ABT_pool_add_sched 400 check_ABT_pool_add_sched rfl runs_ABT_pool_add_sched o)).2.2.2

example : 0 < injectedRuns ABT_pool_add_sched 400 0 := nonvacuous_ABT_pool_add_sched

/-- **C18 / no leak, error code** for `ABTI_thread_init_pool`: the user pool's unit is freed again when it cannot be entered into the unit map. -/
theorem ledger_fail_balanced_ABTI_thread_init_pool (o : Oracle) :
    failBalanced (exec ABTI_thread_init_pool 400 o) = true :=
  (and4 (all_runs_exec_noparam ABTI_thread_init_pool 400 check_ABTI_thread_init_pool rfl runs_ABTI_thread_init_pool o)).1

/-- **C18 / exact success** for `ABTI_thread_init_pool`: the user pool's unit is freed again when it cannot be entered into the unit map. -/
theorem ledger_success_exact_ABTI_thread_init_pool (o : Oracle) :
    successExact allowed_ABTI_thread_init_pool (exec ABTI_thread_init_pool 400 o) = true :=
  (and4 (all_runs_exec_noparam ABTI_thread_init_pool 400 check_ABTI_thread_init_pool rfl runs_ABTI_thread_init_pool o)).2.1

/-- **C18 / no dangling handle** for `ABTI_thread_init_pool`: the user pool's unit is freed again when it cannot be entered into the unit map. -/
theorem ledger_handle_null_or_untouched_ABTI_thread_init_pool (o : Oracle) :
    handleOk ABTI_thread_init_pool (exec ABTI_thread_init_pool 400 o) = true :=
  (and4 (all_runs_exec_noparam ABTI_thread_init_pool 400 check_ABTI_thread_init_pool rfl runs_ABTI_thread_init_pool o)).2.2.1

/-- **C18 / pre-existing objects untouched** for `ABTI_thread_init_pool`: the user pool's unit is freed again when it cannot be entered into the unit map. -/
theorem ledger_preexisting_untouched_ABTI_thread_init_pool (o : Oracle) :
    preUntouched ABTI_thread_init_pool (exec ABTI_thread_init_pool 400 o) = true :=
  (and4 (all_runs_exec_noparam ABTI_thread_init_pool 400 check_ABTI_thread_init_pool rfl runs_ABTI_thread_init_pool o)).2.2.2

example : 0 < injectedRuns ABTI_thread_init_pool 400 0 := nonvacuous_ABTI_thread_init_pool

/-- **C18 / no leak, error code** for `ABTI_ktable_create`. -/
theorem ledger_fail_balanced_ABTI_ktable_create (o : Oracle) :
    failBalanced (exec ABTI_ktable_create 400 o) = true :=
  (and4 (all_runs_exec_noparam ABTI_ktable_create 400 check_ABTI_ktable_create rfl runs_ABTI_ktable_create o)).1

/-- **C18 / exact success** for `ABTI_ktable_create`. -/
theorem ledger_success_exact_ABTI_ktable_create (o : Oracle) :
    successExact allowed_ABTI_ktable_create (exec ABTI_ktable_create 400 o) = true :=
  (and4 (all_runs_exec_noparam ABTI_ktable_create 400 check_ABTI_ktable_create rfl runs_ABTI_ktable_create o)).2.1

/-- **C18 / no dangling handle** for `ABTI_ktable_create`. -/
theorem ledger_handle_null_or_untouched_ABTI_ktable_create (o : Oracle) :
    handleOk ABTI_ktable_create (exec ABTI_ktable_create 400 o) = true :=
  (and4 (all_runs_exec_noparam ABTI_ktable_create 400 check_ABTI_ktable_create rfl runs_ABTI_ktable_create o)).2.2.1

/-- **C18 / pre-existing objects untouched** for `ABTI_ktable_create`. -/
theorem ledger_preexisting_untouched_ABTI_ktable_create (o : Oracle) :
    preUntouched ABTI_ktable_create (exec ABTI_ktable_create 400 o) = true :=
  (and4 (all_runs_exec_noparam ABTI_ktable_create 400 check_ABTI_ktable_create rfl runs_ABTI_ktable_create o)).2.2.2

example : 0 < injectedRuns ABTI_ktable_create 400 0 := nonvacuous_ABTI_ktable_create

/-- **C18 / no leak, error code** for `ABT_eventual_create`: descriptor and value buffer. -/
theorem ledger_fail_balanced_ABT_eventual_create (o : Oracle) :
    failBalanced (exec ABT_eventual_create 400 o) = true :=
  (and4 (all_runs_exec_noparam ABT_eventual_create 400 check_ABT_eventual_create rfl runs_ABT_eventual_create o)).1

/-- **C18 / exact success** for `ABT_eventual_create`: descriptor and value buffer. -/
theorem ledger_success_exact_ABT_eventual_create (o : Oracle) :
    successExact allowed_ABT_eventual_create (exec ABT_eventual_create 400 o) = true :=
  (and4 (all_runs_exec_noparam ABT_eventual_create 400 check_ABT_eventual_create rfl runs_ABT_eventual_create o)).2.1

/-- **C18 / no dangling handle** for `ABT_eventual_create`: descriptor and value buffer. -/
theorem ledger_handle_null_or_untouched_ABT_eventual_create (o : Oracle) :
    handleOk ABT_eventual_create (exec ABT_eventual_create 400 o) = true :=
  (and4 (all_runs_exec_noparam ABT_eventual_create 400 check_ABT_eventual_create rfl runs_ABT_eventual_create o)).2.2.1

/-- **C18 / pre-existing objects untouched** for `ABT_eventual_create`: descriptor and value buffer. -/
theorem ledger_preexisting_untouched_ABT_eventual_create (o : Oracle) :
    preUntouched ABT_eventual_create (exec ABT_eventual_create 400 o) = true :=
  (and4 (all_runs_exec_noparam ABT_eventual_create 400 check_ABT_eventual_create rfl runs_ABT_eventual_create o)).2.2.2

example : 0 < injectedRuns ABT_eventual_create 400 0 := nonvacuous_ABT_eventual_create

/-- **C18 / no leak, error code** for `ABT_future_create`: descriptor and compartment array. -/
theorem ledger_fail_balanced_ABT_future_create (o : Oracle) :
    failBalanced (exec ABT_future_create 400 o) = true :=
  (and4 (all_runs_exec_noparam ABT_future_create 400 check_ABT_future_create rfl runs_ABT_future_create o)).1

/-- **C18 / exact success** for `ABT_future_create`: descriptor and compartment array. -/
theorem ledger_success_exact_ABT_future_create (o : Oracle) :
    successExact allowed_ABT_future_create (exec ABT_future_create 400 o) = true :=
  (and4 (all_runs_exec_noparam ABT_future_create 400 check_ABT_future_create rfl runs_ABT_future_create o)).2.1

/-- **C18 / no dangling handle** for `ABT_future_create`: descriptor and compartment array. -/
theorem ledger_handle_null_or_untouched_ABT_future_create (o : Oracle) :
    handleOk ABT_future_create (exec ABT_future_create 400 o) = true :=
  (and4 (all_runs_exec_noparam ABT_future_create 400 check_ABT_future_create rfl runs_ABT_future_create o)).2.2.1

/-- **C18 / pre-existing objects untouched** for `ABT_future_create`: descriptor and compartment array. -/
theorem ledger_preexisting_untouched_ABT_future_create (o : Oracle) :
    preUntouched ABT_future_create (exec ABT_future_create 400 o) = true :=
  (and4 (all_runs_exec_noparam ABT_future_create 400 check_ABT_future_create rfl runs_ABT_future_create o)).2.2.2

example : 0 < injectedRuns ABT_future_create 400 0 := nonvacuous_ABT_future_create

/-- **C18 / no leak, error code** for `ABT_mutex_create`. -/
theorem ledger_fail_balanced_ABT_mutex_create (o : Oracle) :
    failBalanced (exec ABT_mutex_create 400 o) = true :=
  (and4 (all_runs_exec_noparam ABT_mutex_create 400 check_ABT_mutex_create rfl runs_ABT_mutex_create o)).1

/-- **C18 / exact success** for `ABT_mutex_create`. -/
theorem ledger_success_exact_ABT_mutex_create (o : Oracle) :
    successExact allowed_ABT_mutex_create (exec ABT_mutex_create 400 o) = true :=
  (and4 (all_runs_exec_noparam ABT_mutex_create 400 check_ABT_mutex_create rfl runs_ABT_mutex_create o)).2.1

/-- **C18 / no dangling handle** for `ABT_mutex_create`. -/
theorem ledger_handle_null_or_untouched_ABT_mutex_create (o : Oracle) :
    handleOk ABT_mutex_create (exec ABT_mutex_create 400 o) = true :=
  (and4 (all_runs_exec_noparam ABT_mutex_create 400 check_ABT_mutex_create rfl runs_ABT_mutex_create o)).2.2.1

/-- **C18 / pre-existing objects untouched** for `ABT_mutex_create`. -/
theorem ledger_preexisting_untouched_ABT_mutex_create (o : Oracle) :
    preUntouched ABT_mutex_create (exec ABT_mutex_create 400 o) = true :=
  (and4 (all_runs_exec_noparam ABT_mutex_create 400 check_ABT_mutex_create rfl runs_ABT_mutex_create o)).2.2.2

example : 0 < injectedRuns ABT_mutex_create 400 0 := nonvacuous_ABT_mutex_create

/-- **C18 / no leak, error code** for `ABT_cond_create`. -/
theorem ledger_fail_balanced_ABT_cond_create (o : Oracle) :
    failBalanced (exec ABT_cond_create 400 o) = true :=
  (and4 (all_runs_exec_noparam ABT_cond_create 400 check_ABT_cond_create rfl runs_ABT_cond_create o)).1

/-- **C18 / exact success** for `ABT_cond_create`. -/
theorem ledger_success_exact_ABT_cond_create (o : Oracle) :
    successExact allowed_ABT_cond_create (exec ABT_cond_create 400 o) = true :=
  (and4 (all_runs_exec_noparam ABT_cond_create 400 check_ABT_cond_create rfl runs_ABT_cond_create o)).2.1

/-- **C18 / no dangling handle** for `ABT_cond_create`. -/
theorem ledger_handle_null_or_untouched_ABT_cond_create (o : Oracle) :
    handleOk ABT_cond_create (exec ABT_cond_create 400 o) = true :=
  (and4 (all_runs_exec_noparam ABT_cond_create 400 check_ABT_cond_create rfl runs_ABT_cond_create o)).2.2.1

/-- **C18 / pre-existing objects untouched** for `ABT_cond_create`. -/
theorem ledger_preexisting_untouched_ABT_cond_create (o : Oracle) :
    preUntouched ABT_cond_create (exec ABT_cond_create 400 o) = true :=
  (and4 (all_runs_exec_noparam ABT_cond_create 400 check_ABT_cond_create rfl runs_ABT_cond_create o)).2.2.2

example : 0 < injectedRuns ABT_cond_create 400 0 := nonvacuous_ABT_cond_create

/-- **C18 / no leak, error code** for `ABT_barrier_create`. -/
theorem ledger_fail_balanced_ABT_barrier_create (o : Oracle) :
    failBalanced (exec ABT_barrier_create 400 o) = true :=
  (and4 (all_runs_exec_noparam ABT_barrier_create 400 check_ABT_barrier_create rfl runs_ABT_barrier_create o)).1

/-- **C18 / exact success** for `ABT_barrier_create`. -/
theorem ledger_success_exact_ABT_barrier_create (o : Oracle) :
    successExact allowed_ABT_barrier_create (exec ABT_barrier_create 400 o) = true :=
  (and4 (all_runs_exec_noparam ABT_barrier_create 400 check_ABT_barrier_create rfl runs_ABT_barrier_create o)).2.1

/-- **C18 / no dangling handle** for `ABT_barrier_create`. -/
theorem ledger_handle_null_or_untouched_ABT_barrier_create (o : Oracle) :
    handleOk ABT_barrier_create (exec ABT_barrier_create 400 o) = true :=
  (and4 (all_runs_exec_noparam ABT_barrier_create 400 check_ABT_barrier_create rfl runs_ABT_barrier_create o)).2.2.1

/-- **C18 / pre-existing objects untouched** for `ABT_barrier_create`. -/
theorem ledger_preexisting_untouched_ABT_barrier_create (o : Oracle) :
    preUntouched ABT_barrier_create (exec ABT_barrier_create 400 o) = true :=
  (and4 (all_runs_exec_noparam ABT_barrier_create 400 check_ABT_barrier_create rfl runs_ABT_barrier_create o)).2.2.2

example : 0 < injectedRuns ABT_barrier_create 400 0 := nonvacuous_ABT_barrier_create

/-- **C18 / no leak, error code** for `ABT_rwlock_create`. -/
theorem ledger_fail_balanced_ABT_rwlock_create (o : Oracle) :
    failBalanced (exec ABT_rwlock_create 400 o) = true :=
  (and4 (all_runs_exec_noparam ABT_rwlock_create 400 check_ABT_rwlock_create rfl runs_ABT_rwlock_create o)).1

/-- **C18 / exact success** for `ABT_rwlock_create`. -/
theorem ledger_success_exact_ABT_rwlock_create (o : Oracle) :
    successExact allowed_ABT_rwlock_create (exec ABT_rwlock_create 400 o) = true :=
  (and4 (all_runs_exec_noparam ABT_rwlock_create 400 check_ABT_rwlock_create rfl runs_ABT_rwlock_create o)).2.1

/-- **C18 / no dangling handle** for `ABT_rwlock_create`. -/
theorem ledger_handle_null_or_untouched_ABT_rwlock_create (o : Oracle) :
    handleOk ABT_rwlock_create (exec ABT_rwlock_create 400 o) = true :=
  (and4 (all_runs_exec_noparam ABT_rwlock_create 400 check_ABT_rwlock_create rfl runs_ABT_rwlock_create o)).2.2.1

/-- **C18 / pre-existing objects untouched** for `ABT_rwlock_create`. -/
theorem ledger_preexisting_untouched_ABT_rwlock_create (o : Oracle) :
    preUntouched ABT_rwlock_create (exec ABT_rwlock_create 400 o) = true :=
  (and4 (all_runs_exec_noparam ABT_rwlock_create 400 check_ABT_rwlock_create rfl runs_ABT_rwlock_create o)).2.2.2

example : 0 < injectedRuns ABT_rwlock_create 400 0 := nonvacuous_ABT_rwlock_create

/-- **C18 / no leak, error code** for `ABT_key_create`. -/
theorem ledger_fail_balanced_ABT_key_create (o : Oracle) :
    failBalanced (exec ABT_key_create 400 o) = true :=
  (and4 (all_runs_exec_noparam ABT_key_create 400 check_ABT_key_create rfl runs_ABT_key_create o)).1

/-- **C18 / exact success** for `ABT_key_create`. -/
theorem ledger_success_exact_ABT_key_create (o : Oracle) :
    successExact allowed_ABT_key_create (exec ABT_key_create 400 o) = true :=
  (and4 (all_runs_exec_noparam ABT_key_create 400 check_ABT_key_create rfl runs_ABT_key_create o)).2.1

/-- **C18 / no dangling handle** for `ABT_key_create`. -/
theorem ledger_handle_null_or_untouched_ABT_key_create (o : Oracle) :
    handleOk ABT_key_create (exec ABT_key_create 400 o) = true :=
  (and4 (all_runs_exec_noparam ABT_key_create 400 check_ABT_key_create rfl runs_ABT_key_create o)).2.2.1

/-- **C18 / pre-existing objects untouched** for `ABT_key_create`. -/
theorem ledger_preexisting_untouched_ABT_key_create (o : Oracle) :
    preUntouched ABT_key_create (exec ABT_key_create 400 o) = true :=
  (and4 (all_runs_exec_noparam ABT_key_create 400 check_ABT_key_create rfl runs_ABT_key_create o)).2.2.2

example : 0 < injectedRuns ABT_key_create 400 0 := nonvacuous_ABT_key_create

/-- **C18 / no leak, error code** for `ABT_timer_create`. -/
theorem ledger_fail_balanced_ABT_timer_create (o : Oracle) :
    failBalanced (exec ABT_timer_create 400 o) = true :=
  (and4 (all_runs_exec_noparam ABT_timer_create 400 check_ABT_timer_create rfl runs_ABT_timer_create o)).1

/-- **C18 / exact success** for `ABT_timer_create`. -/
theorem ledger_success_exact_ABT_timer_create (o : Oracle) :
    successExact allowed_ABT_timer_create (exec ABT_timer_create 400 o) = true :=
  (and4 (all_runs_exec_noparam ABT_timer_create 400 check_ABT_timer_create rfl runs_ABT_timer_create o)).2.1

/-- **C18 / no dangling handle** for `ABT_timer_create`. -/
theorem ledger_handle_null_or_untouched_ABT_timer_create (o : Oracle) :
    handleOk ABT_timer_create (exec ABT_timer_create 400 o) = true :=
  (and4 (all_runs_exec_noparam ABT_timer_create 400 check_ABT_timer_create rfl runs_ABT_timer_create o)).2.2.1

/-- **C18 / pre-existing objects untouched** for `ABT_timer_create`. -/
theorem ledger_preexisting_untouched_ABT_timer_create (o : Oracle) :
    preUntouched ABT_timer_create (exec ABT_timer_create 400 o) = true :=
  (and4 (all_runs_exec_noparam ABT_timer_create 400 check_ABT_timer_create rfl runs_ABT_timer_create o)).2.2.2

example : 0 < injectedRuns ABT_timer_create 400 0 := nonvacuous_ABT_timer_create

/-- **C18 / no leak, error code** for `timer_alloc`. -/
theorem ledger_fail_balanced_timer_alloc (o : Oracle) :
    failBalanced (exec timer_alloc 400 o) = true :=
  (and4 (all_runs_exec_noparam timer_alloc 400 check_timer_alloc rfl runs_timer_alloc o)).1

/-- **C18 / exact success** for `timer_alloc`. -/
theorem ledger_success_exact_timer_alloc (o : Oracle) :
    successExact allowed_timer_alloc (exec timer_alloc 400 o) = true :=
  (and4 (all_runs_exec_noparam timer_alloc 400 check_timer_alloc rfl runs_timer_alloc o)).2.1

/-- **C18 / no dangling handle** for `timer_alloc`. -/
theorem ledger_handle_null_or_untouched_timer_alloc (o : Oracle) :
    handleOk timer_alloc (exec timer_alloc 400 o) = true :=
  (and4 (all_runs_exec_noparam timer_alloc 400 check_timer_alloc rfl runs_timer_alloc o)).2.2.1

/-- **C18 / pre-existing objects untouched** for `timer_alloc`. -/
theorem ledger_preexisting_untouched_timer_alloc (o : Oracle) :
    preUntouched timer_alloc (exec timer_alloc 400 o) = true :=
  (and4 (all_runs_exec_noparam timer_alloc 400 check_timer_alloc rfl runs_timer_alloc o)).2.2.2

example : 0 < injectedRuns timer_alloc 400 0 := nonvacuous_timer_alloc

/-- **C18 / no leak, error code** for `ABT_xstream_barrier_create`. -/
theorem ledger_fail_balanced_ABT_xstream_barrier_create (o : Oracle) :
    failBalanced (exec ABT_xstream_barrier_create 400 o) = true :=
  (and4 (all_runs_exec_noparam ABT_xstream_barrier_create 400 check_ABT_xstream_barrier_create rfl runs_ABT_xstream_barrier_create o)).1

/-- **C18 / exact success** for `ABT_xstream_barrier_create`. -/
theorem ledger_success_exact_ABT_xstream_barrier_create (o : Oracle) :
    successExact allowed_ABT_xstream_barrier_create (exec ABT_xstream_barrier_create 400 o) = true :=
  (and4 (all_runs_exec_noparam ABT_xstream_barrier_create 400 check_ABT_xstream_barrier_create rfl runs_ABT_xstream_barrier_create o)).2.1

/-- **C18 / no dangling handle** for `ABT_xstream_barrier_create`. -/
theorem ledger_handle_null_or_untouched_ABT_xstream_barrier_create (o : Oracle) :
    handleOk ABT_xstream_barrier_create (exec ABT_xstream_barrier_create 400 o) = true :=
  (and4 (all_runs_exec_noparam ABT_xstream_barrier_create 400 check_ABT_xstream_barrier_create rfl runs_ABT_xstream_barrier_create o)).2.2.1

/-- **C18 / pre-existing objects untouched** for `ABT_xstream_barrier_create`. -/
theorem ledger_preexisting_untouched_ABT_xstream_barrier_create (o : Oracle) :
    preUntouched ABT_xstream_barrier_create (exec ABT_xstream_barrier_create 400 o) = true :=
  (and4 (all_runs_exec_noparam ABT_xstream_barrier_create 400 check_ABT_xstream_barrier_create rfl runs_ABT_xstream_barrier_create o)).2.2.2

example : 0 < injectedRuns ABT_xstream_barrier_create 400 0 := nonvacuous_ABT_xstream_barrier_create

/-- **C18 / no leak, error code** for `ABT_thread_attr_create`. -/
theorem ledger_fail_balanced_ABT_thread_attr_create (o : Oracle) :
    failBalanced (exec ABT_thread_attr_create 400 o) = true :=
  (and4 (all_runs_exec_noparam ABT_thread_attr_create 400 check_ABT_thread_attr_create rfl runs_ABT_thread_attr_create o)).1

/-- **C18 / exact success** for `ABT_thread_attr_create`. -/
theorem ledger_success_exact_ABT_thread_attr_create (o : Oracle) :
    successExact allowed_ABT_thread_attr_create (exec ABT_thread_attr_create 400 o) = true :=
  (and4 (all_runs_exec_noparam ABT_thread_attr_create 400 check_ABT_thread_attr_create rfl runs_ABT_thread_attr_create o)).2.1

/-- **C18 / no dangling handle** for `ABT_thread_attr_create`. -/
theorem ledger_handle_null_or_untouched_ABT_thread_attr_create (o : Oracle) :
    handleOk ABT_thread_attr_create (exec ABT_thread_attr_create 400 o) = true :=
  (and4 (all_runs_exec_noparam ABT_thread_attr_create 400 check_ABT_thread_attr_create rfl runs_ABT_thread_attr_create o)).2.2.1

/-- **C18 / pre-existing objects untouched** for `ABT_thread_attr_create`. -/
theorem ledger_preexisting_untouched_ABT_thread_attr_create (o : Oracle) :
    preUntouched ABT_thread_attr_create (exec ABT_thread_attr_create 400 o) = true :=
  (and4 (all_runs_exec_noparam ABT_thread_attr_create 400 check_ABT_thread_attr_create rfl runs_ABT_thread_attr_create o)).2.2.2

example : 0 < injectedRuns ABT_thread_attr_create 400 0 := nonvacuous_ABT_thread_attr_create

/-- **C18 / no leak, error code** for `ABT_mutex_attr_create`. -/
theorem ledger_fail_balanced_ABT_mutex_attr_create (o : Oracle) :
    failBalanced (exec ABT_mutex_attr_create 400 o) = true :=
  (and4 (all_runs_exec_noparam ABT_mutex_attr_create 400 check_ABT_mutex_attr_create rfl runs_ABT_mutex_attr_create o)).1

/-- **C18 / exact success** for `ABT_mutex_attr_create`. -/
theorem ledger_success_exact_ABT_mutex_attr_create (o : Oracle) :
    successExact allowed_ABT_mutex_attr_create (exec ABT_mutex_attr_create 400 o) = true :=
  (and4 (all_runs_exec_noparam ABT_mutex_attr_create 400 check_ABT_mutex_attr_create rfl runs_ABT_mutex_attr_create o)).2.1

/-- **C18 / no dangling handle** for `ABT_mutex_attr_create`. -/
theorem ledger_handle_null_or_untouched_ABT_mutex_attr_create (o : Oracle) :
    handleOk ABT_mutex_attr_create (exec ABT_mutex_attr_create 400 o) = true :=
  (and4 (all_runs_exec_noparam ABT_mutex_attr_create 400 check_ABT_mutex_attr_create rfl runs_ABT_mutex_attr_create o)).2.2.1

/-- **C18 / pre-existing objects untouched** for `ABT_mutex_attr_create`. -/
theorem ledger_preexisting_untouched_ABT_mutex_attr_create (o : Oracle) :
    preUntouched ABT_mutex_attr_create (exec ABT_mutex_attr_create 400 o) = true :=
  (and4 (all_runs_exec_noparam ABT_mutex_attr_create 400 check_ABT_mutex_attr_create rfl runs_ABT_mutex_attr_create o)).2.2.2

example : 0 < injectedRuns ABT_mutex_attr_create 400 0 := nonvacuous_ABT_mutex_attr_create


/-! ### ladders that change visible state of pre-existing objects (Proofs/LedgerRuns2)
Six statements per routine: the first three as above; `ledger_preexisting_untouched_on_error_R` (a *successful* replacement /
re-association consumes the replaced automatic scheduler / the old pool's unit by design, so "no pre-existing resource is
released" is claimed for every execution that reports an error); `ledger_no_double_release_R` (no resource is released twice,
in particular not one that another resource's destructor owns); `ledger_state_unchanged_on_error_R` (every tracked field of a
pre-existing object — `p_sched->used`, `p_xstream->p_main_sched`, `p_thread->unit` — has its entry value when an error is
returned: it was not written before the last fallible step, or it was rolled back). -/
open ArgoVerif.Proofs.LedgerRuns2

/-- **C18 / no leak, error code** for `xstream_update_main_sched` (stream.c) on a stream that already has a main scheduler: the "another (joined) stream" branch re-associates the main-scheduler ULT with the new scheduler's first pool (fallible: user-defined pool) and the "caller's stream" branch re-associates the calling ULT. -/
theorem ledger_fail_balanced_xstream_update_main_sched (o : Oracle) :
    failBalanced (exec xstream_update_main_sched 400 o) = true :=
  (and6 (all_runs_exec_noparam xstream_update_main_sched 400 (check6 xstream_update_main_sched allowed_xstream_update_main_sched) rfl runs_xstream_update_main_sched o)).1

/-- **C18 / exact success** for `xstream_update_main_sched` (stream.c) on a stream that already has a main scheduler: the "another (joined) stream" branch re-associates the main-scheduler ULT with the new scheduler's first pool (fallible: user-defined pool) and the "caller's stream" branch re-associates the calling ULT. -/
theorem ledger_success_exact_xstream_update_main_sched (o : Oracle) :
    successExact allowed_xstream_update_main_sched (exec xstream_update_main_sched 400 o) = true :=
  (and6 (all_runs_exec_noparam xstream_update_main_sched 400 (check6 xstream_update_main_sched allowed_xstream_update_main_sched) rfl runs_xstream_update_main_sched o)).2.1

/-- **C18 / no dangling handle** for `xstream_update_main_sched` (stream.c) on a stream that already has a main scheduler: the "another (joined) stream" branch re-associates the main-scheduler ULT with the new scheduler's first pool (fallible: user-defined pool) and the "caller's stream" branch re-associates the calling ULT. -/
theorem ledger_handle_null_or_untouched_xstream_update_main_sched (o : Oracle) :
    handleOk xstream_update_main_sched (exec xstream_update_main_sched 400 o) = true :=
  (and6 (all_runs_exec_noparam xstream_update_main_sched 400 (check6 xstream_update_main_sched allowed_xstream_update_main_sched) rfl runs_xstream_update_main_sched o)).2.2.1

/-- **C18 / pre-existing objects untouched when an error is reported** for `xstream_update_main_sched` (stream.c) on a stream that already has a main scheduler: the "another (joined) stream" branch re-associates the main-scheduler ULT with the new scheduler's first pool (fallible: user-defined pool) and the "caller's stream" branch re-associates the calling ULT. -/
theorem ledger_preexisting_untouched_on_error_xstream_update_main_sched (o : Oracle) :
    preUntouchedOnError xstream_update_main_sched (exec xstream_update_main_sched 400 o) = true :=
  (and6 (all_runs_exec_noparam xstream_update_main_sched 400 (check6 xstream_update_main_sched allowed_xstream_update_main_sched) rfl runs_xstream_update_main_sched o)).2.2.2.1

/-- **C18 / nothing released twice** for `xstream_update_main_sched` (stream.c) on a stream that already has a main scheduler: the "another (joined) stream" branch re-associates the main-scheduler ULT with the new scheduler's first pool (fallible: user-defined pool) and the "caller's stream" branch re-associates the calling ULT. -/
theorem ledger_no_double_release_xstream_update_main_sched (o : Oracle) :
    noBadRelease (exec xstream_update_main_sched 400 o) = true :=
  (and6 (all_runs_exec_noparam xstream_update_main_sched 400 (check6 xstream_update_main_sched allowed_xstream_update_main_sched) rfl runs_xstream_update_main_sched o)).2.2.2.2.1

/-- **C18 / visible state unchanged (or rolled back) when an error is reported** for `xstream_update_main_sched` (stream.c) on a stream that already has a main scheduler: the "another (joined) stream" branch re-associates the main-scheduler ULT with the new scheduler's first pool (fallible: user-defined pool) and the "caller's stream" branch re-associates the calling ULT. -/
theorem ledger_state_unchanged_on_error_xstream_update_main_sched (o : Oracle) :
    stateRolledBack xstream_update_main_sched (exec xstream_update_main_sched 400 o) = true :=
  (and6 (all_runs_exec_noparam xstream_update_main_sched 400 (check6 xstream_update_main_sched allowed_xstream_update_main_sched) rfl runs_xstream_update_main_sched o)).2.2.2.2.2

example : 0 < injectedRuns xstream_update_main_sched 400 0 := nonvacuous_xstream_update_main_sched

/-- **C18 / no leak, error code** for `xstream_update_main_sched` (stream.c), first installation of a main scheduler (no fallible step). -/
theorem ledger_fail_balanced_xstream_update_main_sched_first (o : Oracle) :
    failBalanced (exec xstream_update_main_sched_first 400 o) = true :=
  (and6 (all_runs_exec_noparam xstream_update_main_sched_first 400 (check6 xstream_update_main_sched_first allowed_xstream_update_main_sched_first) rfl runs_xstream_update_main_sched_first o)).1

/-- **C18 / exact success** for `xstream_update_main_sched` (stream.c), first installation of a main scheduler (no fallible step). -/
theorem ledger_success_exact_xstream_update_main_sched_first (o : Oracle) :
    successExact allowed_xstream_update_main_sched_first (exec xstream_update_main_sched_first 400 o) = true :=
  (and6 (all_runs_exec_noparam xstream_update_main_sched_first 400 (check6 xstream_update_main_sched_first allowed_xstream_update_main_sched_first) rfl runs_xstream_update_main_sched_first o)).2.1

/-- **C18 / no dangling handle** for `xstream_update_main_sched` (stream.c), first installation of a main scheduler (no fallible step). -/
theorem ledger_handle_null_or_untouched_xstream_update_main_sched_first (o : Oracle) :
    handleOk xstream_update_main_sched_first (exec xstream_update_main_sched_first 400 o) = true :=
  (and6 (all_runs_exec_noparam xstream_update_main_sched_first 400 (check6 xstream_update_main_sched_first allowed_xstream_update_main_sched_first) rfl runs_xstream_update_main_sched_first o)).2.2.1

/-- **C18 / pre-existing objects untouched when an error is reported** for `xstream_update_main_sched` (stream.c), first installation of a main scheduler (no fallible step). -/
theorem ledger_preexisting_untouched_on_error_xstream_update_main_sched_first (o : Oracle) :
    preUntouchedOnError xstream_update_main_sched_first (exec xstream_update_main_sched_first 400 o) = true :=
  (and6 (all_runs_exec_noparam xstream_update_main_sched_first 400 (check6 xstream_update_main_sched_first allowed_xstream_update_main_sched_first) rfl runs_xstream_update_main_sched_first o)).2.2.2.1

/-- **C18 / nothing released twice** for `xstream_update_main_sched` (stream.c), first installation of a main scheduler (no fallible step). -/
theorem ledger_no_double_release_xstream_update_main_sched_first (o : Oracle) :
    noBadRelease (exec xstream_update_main_sched_first 400 o) = true :=
  (and6 (all_runs_exec_noparam xstream_update_main_sched_first 400 (check6 xstream_update_main_sched_first allowed_xstream_update_main_sched_first) rfl runs_xstream_update_main_sched_first o)).2.2.2.2.1

/-- **C18 / visible state unchanged (or rolled back) when an error is reported** for `xstream_update_main_sched` (stream.c), first installation of a main scheduler (no fallible step). -/
theorem ledger_state_unchanged_on_error_xstream_update_main_sched_first (o : Oracle) :
    stateRolledBack xstream_update_main_sched_first (exec xstream_update_main_sched_first 400 o) = true :=
  (and6 (all_runs_exec_noparam xstream_update_main_sched_first 400 (check6 xstream_update_main_sched_first allowed_xstream_update_main_sched_first) rfl runs_xstream_update_main_sched_first o)).2.2.2.2.2

/-- **C18 / no leak, error code** for `ABT_xstream_set_main_sched(xstream, ABT_SCHED_NULL)`: the default scheduler created for the call is freed again when the replacement fails. -/
theorem ledger_fail_balanced_ABT_xstream_set_main_sched (o : Oracle) :
    failBalanced (exec ABT_xstream_set_main_sched 400 o) = true :=
  (and6 (all_runs_exec_noparam ABT_xstream_set_main_sched 400 (check6 ABT_xstream_set_main_sched allowed_ABT_xstream_set_main_sched) rfl runs_ABT_xstream_set_main_sched o)).1

/-- **C18 / exact success** for `ABT_xstream_set_main_sched(xstream, ABT_SCHED_NULL)`: the default scheduler created for the call is freed again when the replacement fails. -/
theorem ledger_success_exact_ABT_xstream_set_main_sched (o : Oracle) :
    successExact allowed_ABT_xstream_set_main_sched (exec ABT_xstream_set_main_sched 400 o) = true :=
  (and6 (all_runs_exec_noparam ABT_xstream_set_main_sched 400 (check6 ABT_xstream_set_main_sched allowed_ABT_xstream_set_main_sched) rfl runs_ABT_xstream_set_main_sched o)).2.1

/-- **C18 / no dangling handle** for `ABT_xstream_set_main_sched(xstream, ABT_SCHED_NULL)`: the default scheduler created for the call is freed again when the replacement fails. -/
theorem ledger_handle_null_or_untouched_ABT_xstream_set_main_sched (o : Oracle) :
    handleOk ABT_xstream_set_main_sched (exec ABT_xstream_set_main_sched 400 o) = true :=
  (and6 (all_runs_exec_noparam ABT_xstream_set_main_sched 400 (check6 ABT_xstream_set_main_sched allowed_ABT_xstream_set_main_sched) rfl runs_ABT_xstream_set_main_sched o)).2.2.1

/-- **C18 / pre-existing objects untouched when an error is reported** for `ABT_xstream_set_main_sched(xstream, ABT_SCHED_NULL)`: the default scheduler created for the call is freed again when the replacement fails. -/
theorem ledger_preexisting_untouched_on_error_ABT_xstream_set_main_sched (o : Oracle) :
    preUntouchedOnError ABT_xstream_set_main_sched (exec ABT_xstream_set_main_sched 400 o) = true :=
  (and6 (all_runs_exec_noparam ABT_xstream_set_main_sched 400 (check6 ABT_xstream_set_main_sched allowed_ABT_xstream_set_main_sched) rfl runs_ABT_xstream_set_main_sched o)).2.2.2.1

/-- **C18 / nothing released twice** for `ABT_xstream_set_main_sched(xstream, ABT_SCHED_NULL)`: the default scheduler created for the call is freed again when the replacement fails. -/
theorem ledger_no_double_release_ABT_xstream_set_main_sched (o : Oracle) :
    noBadRelease (exec ABT_xstream_set_main_sched 400 o) = true :=
  (and6 (all_runs_exec_noparam ABT_xstream_set_main_sched 400 (check6 ABT_xstream_set_main_sched allowed_ABT_xstream_set_main_sched) rfl runs_ABT_xstream_set_main_sched o)).2.2.2.2.1

/-- **C18 / visible state unchanged (or rolled back) when an error is reported** for `ABT_xstream_set_main_sched(xstream, ABT_SCHED_NULL)`: the default scheduler created for the call is freed again when the replacement fails. -/
theorem ledger_state_unchanged_on_error_ABT_xstream_set_main_sched (o : Oracle) :
    stateRolledBack ABT_xstream_set_main_sched (exec ABT_xstream_set_main_sched 400 o) = true :=
  (and6 (all_runs_exec_noparam ABT_xstream_set_main_sched 400 (check6 ABT_xstream_set_main_sched allowed_ABT_xstream_set_main_sched) rfl runs_ABT_xstream_set_main_sched o)).2.2.2.2.2

example : 0 < injectedRuns ABT_xstream_set_main_sched 400 0 := nonvacuous_ABT_xstream_set_main_sched

/-- **C18 / no leak, error code** for `ABT_xstream_set_main_sched(xstream, sched)` with a caller-owned scheduler: it is neither freed nor left marked as used when the replacement fails. -/
theorem ledger_fail_balanced_ABT_xstream_set_main_sched_given (o : Oracle) :
    failBalanced (exec ABT_xstream_set_main_sched_given 400 o) = true :=
  (and6 (all_runs_exec_noparam ABT_xstream_set_main_sched_given 400 (check6 ABT_xstream_set_main_sched_given allowed_ABT_xstream_set_main_sched_given) rfl runs_ABT_xstream_set_main_sched_given o)).1

/-- **C18 / exact success** for `ABT_xstream_set_main_sched(xstream, sched)` with a caller-owned scheduler: it is neither freed nor left marked as used when the replacement fails. -/
theorem ledger_success_exact_ABT_xstream_set_main_sched_given (o : Oracle) :
    successExact allowed_ABT_xstream_set_main_sched_given (exec ABT_xstream_set_main_sched_given 400 o) = true :=
  (and6 (all_runs_exec_noparam ABT_xstream_set_main_sched_given 400 (check6 ABT_xstream_set_main_sched_given allowed_ABT_xstream_set_main_sched_given) rfl runs_ABT_xstream_set_main_sched_given o)).2.1

/-- **C18 / no dangling handle** for `ABT_xstream_set_main_sched(xstream, sched)` with a caller-owned scheduler: it is neither freed nor left marked as used when the replacement fails. -/
theorem ledger_handle_null_or_untouched_ABT_xstream_set_main_sched_given (o : Oracle) :
    handleOk ABT_xstream_set_main_sched_given (exec ABT_xstream_set_main_sched_given 400 o) = true :=
  (and6 (all_runs_exec_noparam ABT_xstream_set_main_sched_given 400 (check6 ABT_xstream_set_main_sched_given allowed_ABT_xstream_set_main_sched_given) rfl runs_ABT_xstream_set_main_sched_given o)).2.2.1

/-- **C18 / pre-existing objects untouched when an error is reported** for `ABT_xstream_set_main_sched(xstream, sched)` with a caller-owned scheduler: it is neither freed nor left marked as used when the replacement fails. -/
theorem ledger_preexisting_untouched_on_error_ABT_xstream_set_main_sched_given (o : Oracle) :
    preUntouchedOnError ABT_xstream_set_main_sched_given (exec ABT_xstream_set_main_sched_given 400 o) = true :=
  (and6 (all_runs_exec_noparam ABT_xstream_set_main_sched_given 400 (check6 ABT_xstream_set_main_sched_given allowed_ABT_xstream_set_main_sched_given) rfl runs_ABT_xstream_set_main_sched_given o)).2.2.2.1

/-- **C18 / nothing released twice** for `ABT_xstream_set_main_sched(xstream, sched)` with a caller-owned scheduler: it is neither freed nor left marked as used when the replacement fails. -/
theorem ledger_no_double_release_ABT_xstream_set_main_sched_given (o : Oracle) :
    noBadRelease (exec ABT_xstream_set_main_sched_given 400 o) = true :=
  (and6 (all_runs_exec_noparam ABT_xstream_set_main_sched_given 400 (check6 ABT_xstream_set_main_sched_given allowed_ABT_xstream_set_main_sched_given) rfl runs_ABT_xstream_set_main_sched_given o)).2.2.2.2.1

/-- **C18 / visible state unchanged (or rolled back) when an error is reported** for `ABT_xstream_set_main_sched(xstream, sched)` with a caller-owned scheduler: it is neither freed nor left marked as used when the replacement fails. -/
theorem ledger_state_unchanged_on_error_ABT_xstream_set_main_sched_given (o : Oracle) :
    stateRolledBack ABT_xstream_set_main_sched_given (exec ABT_xstream_set_main_sched_given 400 o) = true :=
  (and6 (all_runs_exec_noparam ABT_xstream_set_main_sched_given 400 (check6 ABT_xstream_set_main_sched_given allowed_ABT_xstream_set_main_sched_given) rfl runs_ABT_xstream_set_main_sched_given o)).2.2.2.2.2

example : 0 < injectedRuns ABT_xstream_set_main_sched_given 400 0 := nonvacuous_ABT_xstream_set_main_sched_given

/-- **C18 / no leak, error code** for `ABT_xstream_set_main_sched_basic`: scheduler built from the pool list and freed (user-given pools released first) when the replacement fails (`num_pools ≤ 2`; missing for the full statement: induction over the loop). -/
theorem ledger_fail_balanced_ABT_xstream_set_main_sched_basic_partial (o : Oracle) (hb : o.param ≤ 2) :
    failBalanced (exec ABT_xstream_set_main_sched_basic 600 o) = true :=
  (and6 (all_runs_exec ABT_xstream_set_main_sched_basic 600 2 (check6 ABT_xstream_set_main_sched_basic allowed_ABT_xstream_set_main_sched_basic) runs_ABT_xstream_set_main_sched_basic o hb)).1

/-- **C18 / exact success** for `ABT_xstream_set_main_sched_basic`: scheduler built from the pool list and freed (user-given pools released first) when the replacement fails (`num_pools ≤ 2`; missing for the full statement: induction over the loop). -/
theorem ledger_success_exact_ABT_xstream_set_main_sched_basic_partial (o : Oracle) (hb : o.param ≤ 2) :
    successExact allowed_ABT_xstream_set_main_sched_basic (exec ABT_xstream_set_main_sched_basic 600 o) = true :=
  (and6 (all_runs_exec ABT_xstream_set_main_sched_basic 600 2 (check6 ABT_xstream_set_main_sched_basic allowed_ABT_xstream_set_main_sched_basic) runs_ABT_xstream_set_main_sched_basic o hb)).2.1

/-- **C18 / no dangling handle** for `ABT_xstream_set_main_sched_basic`: scheduler built from the pool list and freed (user-given pools released first) when the replacement fails (`num_pools ≤ 2`; missing for the full statement: induction over the loop). -/
theorem ledger_handle_null_or_untouched_ABT_xstream_set_main_sched_basic_partial (o : Oracle) (hb : o.param ≤ 2) :
    handleOk ABT_xstream_set_main_sched_basic (exec ABT_xstream_set_main_sched_basic 600 o) = true :=
  (and6 (all_runs_exec ABT_xstream_set_main_sched_basic 600 2 (check6 ABT_xstream_set_main_sched_basic allowed_ABT_xstream_set_main_sched_basic) runs_ABT_xstream_set_main_sched_basic o hb)).2.2.1

/-- **C18 / pre-existing objects untouched when an error is reported** for `ABT_xstream_set_main_sched_basic`: scheduler built from the pool list and freed (user-given pools released first) when the replacement fails (`num_pools ≤ 2`; missing for the full statement: induction over the loop). -/
theorem ledger_preexisting_untouched_on_error_ABT_xstream_set_main_sched_basic_partial (o : Oracle) (hb : o.param ≤ 2) :
    preUntouchedOnError ABT_xstream_set_main_sched_basic (exec ABT_xstream_set_main_sched_basic 600 o) = true :=
  (and6 (all_runs_exec ABT_xstream_set_main_sched_basic 600 2 (check6 ABT_xstream_set_main_sched_basic allowed_ABT_xstream_set_main_sched_basic) runs_ABT_xstream_set_main_sched_basic o hb)).2.2.2.1

/-- **C18 / nothing released twice** for `ABT_xstream_set_main_sched_basic`: scheduler built from the pool list and freed (user-given pools released first) when the replacement fails (`num_pools ≤ 2`; missing for the full statement: induction over the loop). -/
theorem ledger_no_double_release_ABT_xstream_set_main_sched_basic_partial (o : Oracle) (hb : o.param ≤ 2) :
    noBadRelease (exec ABT_xstream_set_main_sched_basic 600 o) = true :=
  (and6 (all_runs_exec ABT_xstream_set_main_sched_basic 600 2 (check6 ABT_xstream_set_main_sched_basic allowed_ABT_xstream_set_main_sched_basic) runs_ABT_xstream_set_main_sched_basic o hb)).2.2.2.2.1

/-- **C18 / visible state unchanged (or rolled back) when an error is reported** for `ABT_xstream_set_main_sched_basic`: scheduler built from the pool list and freed (user-given pools released first) when the replacement fails (`num_pools ≤ 2`; missing for the full statement: induction over the loop). -/
theorem ledger_state_unchanged_on_error_ABT_xstream_set_main_sched_basic_partial (o : Oracle) (hb : o.param ≤ 2) :
    stateRolledBack ABT_xstream_set_main_sched_basic (exec ABT_xstream_set_main_sched_basic 600 o) = true :=
  (and6 (all_runs_exec ABT_xstream_set_main_sched_basic 600 2 (check6 ABT_xstream_set_main_sched_basic allowed_ABT_xstream_set_main_sched_basic) runs_ABT_xstream_set_main_sched_basic o hb)).2.2.2.2.2

example : 0 < injectedRuns ABT_xstream_set_main_sched_basic 600 2 := nonvacuous_ABT_xstream_set_main_sched_basic

/-- **C18 / no leak, error code** for `ABTI_thread_set_associated_pool` (abti_unit.h; revive, push, migration, `ABT_thread_set_associated_pool`, `ABT_self_schedule`, main-scheduler ULT): the new pool's unit and its unit-map entry are created before the old unit is given up. -/
theorem ledger_fail_balanced_ABTI_thread_set_associated_pool (o : Oracle) :
    failBalanced (exec ABTI_thread_set_associated_pool 400 o) = true :=
  (and6 (all_runs_exec_noparam ABTI_thread_set_associated_pool 400 (check6 ABTI_thread_set_associated_pool allowed_ABTI_thread_set_associated_pool) rfl runs_ABTI_thread_set_associated_pool o)).1

/-- **C18 / exact success** for `ABTI_thread_set_associated_pool` (abti_unit.h; revive, push, migration, `ABT_thread_set_associated_pool`, `ABT_self_schedule`, main-scheduler ULT): the new pool's unit and its unit-map entry are created before the old unit is given up. -/
theorem ledger_success_exact_ABTI_thread_set_associated_pool (o : Oracle) :
    successExact allowed_ABTI_thread_set_associated_pool (exec ABTI_thread_set_associated_pool 400 o) = true :=
  (and6 (all_runs_exec_noparam ABTI_thread_set_associated_pool 400 (check6 ABTI_thread_set_associated_pool allowed_ABTI_thread_set_associated_pool) rfl runs_ABTI_thread_set_associated_pool o)).2.1

/-- **C18 / no dangling handle** for `ABTI_thread_set_associated_pool` (abti_unit.h; revive, push, migration, `ABT_thread_set_associated_pool`, `ABT_self_schedule`, main-scheduler ULT): the new pool's unit and its unit-map entry are created before the old unit is given up. -/
theorem ledger_handle_null_or_untouched_ABTI_thread_set_associated_pool (o : Oracle) :
    handleOk ABTI_thread_set_associated_pool (exec ABTI_thread_set_associated_pool 400 o) = true :=
  (and6 (all_runs_exec_noparam ABTI_thread_set_associated_pool 400 (check6 ABTI_thread_set_associated_pool allowed_ABTI_thread_set_associated_pool) rfl runs_ABTI_thread_set_associated_pool o)).2.2.1

/-- **C18 / pre-existing objects untouched when an error is reported** for `ABTI_thread_set_associated_pool` (abti_unit.h; revive, push, migration, `ABT_thread_set_associated_pool`, `ABT_self_schedule`, main-scheduler ULT): the new pool's unit and its unit-map entry are created before the old unit is given up. -/
theorem ledger_preexisting_untouched_on_error_ABTI_thread_set_associated_pool (o : Oracle) :
    preUntouchedOnError ABTI_thread_set_associated_pool (exec ABTI_thread_set_associated_pool 400 o) = true :=
  (and6 (all_runs_exec_noparam ABTI_thread_set_associated_pool 400 (check6 ABTI_thread_set_associated_pool allowed_ABTI_thread_set_associated_pool) rfl runs_ABTI_thread_set_associated_pool o)).2.2.2.1

/-- **C18 / nothing released twice** for `ABTI_thread_set_associated_pool` (abti_unit.h; revive, push, migration, `ABT_thread_set_associated_pool`, `ABT_self_schedule`, main-scheduler ULT): the new pool's unit and its unit-map entry are created before the old unit is given up. -/
theorem ledger_no_double_release_ABTI_thread_set_associated_pool (o : Oracle) :
    noBadRelease (exec ABTI_thread_set_associated_pool 400 o) = true :=
  (and6 (all_runs_exec_noparam ABTI_thread_set_associated_pool 400 (check6 ABTI_thread_set_associated_pool allowed_ABTI_thread_set_associated_pool) rfl runs_ABTI_thread_set_associated_pool o)).2.2.2.2.1

/-- **C18 / visible state unchanged (or rolled back) when an error is reported** for `ABTI_thread_set_associated_pool` (abti_unit.h; revive, push, migration, `ABT_thread_set_associated_pool`, `ABT_self_schedule`, main-scheduler ULT): the new pool's unit and its unit-map entry are created before the old unit is given up. -/
theorem ledger_state_unchanged_on_error_ABTI_thread_set_associated_pool (o : Oracle) :
    stateRolledBack ABTI_thread_set_associated_pool (exec ABTI_thread_set_associated_pool 400 o) = true :=
  (and6 (all_runs_exec_noparam ABTI_thread_set_associated_pool 400 (check6 ABTI_thread_set_associated_pool allowed_ABTI_thread_set_associated_pool) rfl runs_ABTI_thread_set_associated_pool o)).2.2.2.2.2

example : 0 < injectedRuns ABTI_thread_set_associated_pool 400 0 := nonvacuous_ABTI_thread_set_associated_pool

/-! ### the same two named statements for ladders of Proofs/LedgerRuns, as corollaries of their four checks -/

/-- **C18 / nothing released twice** for `ythread_create` without scheduler: the migration data handed to the key table (`ABTI_ktable_set_unsafe` under `g_thread_mig_data_key`, whose destructor frees it) is not freed again by a later rung of the error ladder. -/
theorem ledger_no_double_release_ythread_create (o : Oracle) :
    noBadRelease (exec ythread_create 400 o) = true :=
  noBad_of_checks (ledger_fail_balanced_ythread_create o) (ledger_success_exact_ythread_create o)

/-- **C18 / nothing released twice** for `ythread_create` with a stackable scheduler: neither the migration data nor anything else owned by the key table is released twice. -/
theorem ledger_no_double_release_ythread_create_with_sched (o : Oracle) :
    noBadRelease (exec ythread_create_with_sched 400 o) = true :=
  noBad_of_checks (ledger_fail_balanced_ythread_create_with_sched o) (ledger_success_exact_ythread_create_with_sched o)

/-- **C18 / nothing released twice** for `ABTI_thread_get_mig_data`: the migration data is freed by the routine only while the key table does not own it. -/
theorem ledger_no_double_release_ABTI_thread_get_mig_data (o : Oracle) :
    noBadRelease (exec ABTI_thread_get_mig_data 400 o) = true :=
  noBad_of_checks_upTo (ledger_fail_balanced_ABTI_thread_get_mig_data o) (ledger_success_exact_ABTI_thread_get_mig_data o)

/-- **C18 / nothing released twice** for `task_create`. -/
theorem ledger_no_double_release_task_create (o : Oracle) :
    noBadRelease (exec task_create 400 o) = true :=
  noBad_of_checks (ledger_fail_balanced_task_create o) (ledger_success_exact_task_create o)

/-- **C18 / nothing released twice** for `ABT_pool_add_sched`. -/
theorem ledger_no_double_release_ABT_pool_add_sched (o : Oracle) :
    noBadRelease (exec ABT_pool_add_sched 400 o) = true :=
  noBad_of_checks (ledger_fail_balanced_ABT_pool_add_sched o) (ledger_success_exact_ABT_pool_add_sched o)

/-- **C18 / nothing released twice** for `xstream_create`. -/
theorem ledger_no_double_release_xstream_create (o : Oracle) :
    noBadRelease (exec xstream_create 400 o) = true :=
  noBad_of_checks (ledger_fail_balanced_xstream_create o) (ledger_success_exact_xstream_create o)

/-- **C18 / visible state unchanged (or rolled back) when an error is reported** for `ABT_pool_add_sched`: `sched->used` is set to IN_POOL before the scheduler ULT is created and reset to NOT_USED when that fails. -/
theorem ledger_state_unchanged_on_error_ABT_pool_add_sched (o : Oracle) :
    stateRolledBack ABT_pool_add_sched (exec ABT_pool_add_sched 400 o) = true :=
  rolledBack_of_preUntouched (ledger_preexisting_untouched_ABT_pool_add_sched o)

/-- **C18 / visible state unchanged (or rolled back) when an error is reported** for `xstream_create`: `p_sched->used` is MAIN only after the last fallible rung, or reset on the FAILED ladder. -/
theorem ledger_state_unchanged_on_error_xstream_create (o : Oracle) :
    stateRolledBack xstream_create (exec xstream_create 400 o) = true :=
  rolledBack_of_preUntouched (ledger_preexisting_untouched_xstream_create o)

/-- **C18 / visible state unchanged (or rolled back) when an error is reported** for `ABT_xstream_create(sched, …)`: the caller's scheduler is not left marked as used. -/
theorem ledger_state_unchanged_on_error_ABT_xstream_create_given (o : Oracle) :
    stateRolledBack ABT_xstream_create_given (exec ABT_xstream_create_given 400 o) = true :=
  rolledBack_of_preUntouched (ledger_preexisting_untouched_ABT_xstream_create_given o)

end ArgoVerif.Props.C18
