import ArgoVerif.Proofs.Stop
/-
Props.C06Stop — the scheduler-termination decision and the pool-consumer accounting behind it
(imported by Props.C06 and Props.C01).

C06 needs three facts that Model.Sched (units, pools as bags, the blocked counter) takes for granted:
  1. a scheduler under a FINISH request stops only when *every* one of its pools is empty and every pool that only
     it consumes has no blocked unit                       (`ABTI_sched_has_to_stop`, `ABTI_sched_has_unit`);
  2. "only this scheduler consumes p" is decided by `num_scheds == 1`, so `num_scheds` has to be the number of live
     schedulers over p, whatever was created, freed, re-created and replaced before
                                                           (`sched_create`, `ABTI_sched_free`, `ABTI_pool_retain/release`);
  3. a join requested on a stream reaches whatever scheduler is the running one, also a main scheduler installed
     after the request                                     (`ABTI_xstream_check_events`, `xstream_join`,
                                                            `thread_main_sched_func`).
The models are tied to the source by T1 skeletons of these functions and by the differential / history checks of
checks/stop_common.py (harness/wb_stop.c against `driver stop`).
-/
namespace ArgoVerif.Props.C06Stop
open ArgoVerif ArgoVerif.Model.Stop ArgoVerif.Proofs.Stop

/-! ## 1. the decision -/

/-- **a scheduler stops under FINISH / REPLACE only when there is no work**: if `ABTI_sched_has_to_stop` answers
TRUE without an EXIT request, through the FINISH|REPLACE arm, then in both scans every pool of the scheduler was
empty and every pool that only this scheduler consumes (PRIV, or a shared access mode with `num_scheds == 1`) had
`num_blocked == 0`.  The statement is about ALL pools of the array: no pool behind an empty shared pool with other
consumers is skipped. -/
theorem stop_only_when_no_work (r0 r1 : SchedReq) (v1 v2 : List PoolView) (used : Used)
    (hne : r0.exit = false) (hreq : r1.finish = true ∨ r1.replace = true)
    (h : hasToStop r0 v1 r1 v2 used = true) :
    (∀ p ∈ v1, p.size = 0 ∧ (p.soleConsumer → p.numBlocked = 0)) ∧
    (∀ p ∈ v2, p.size = 0 ∧ (p.soleConsumer → p.numBlocked = 0)) := by
  rcases hasToStop_true_cases r0 r1 v1 v2 used h with he | ⟨h1, _, h2⟩ | ⟨_, hf, hr, _⟩
  · rw [hne] at he; cases he
  · exact ⟨(hasUnit_false_iff v1).1 h1, (hasUnit_false_iff v2).1 h2⟩
  · rcases hreq with h | h
    · rw [hf] at h; cases h
    · rw [hr] at h; cases h

/-- non-vacuity: a scheduler over an empty PRIV pool, an empty MPMC pool with two consumers and three blocked units
(not this scheduler's business) and an empty MPMC pool of its own does stop under FINISH -/
example : hasToStop {} [⟨0, 0, .priv, 1⟩, ⟨0, 3, .mpmc, 2⟩, ⟨0, 0, .mpmc, 1⟩] { finish := true }
    [⟨0, 0, .priv, 1⟩, ⟨0, 3, .mpmc, 2⟩, ⟨0, 0, .mpmc, 1⟩] .main = true := by decide

/-- rejected: a READY unit in the pool *behind* an empty shared pool with another consumer keeps the scheduler alive
(a scan that left the loop at the first such pool would answer "stop" here) -/
example : hasToStop {} [⟨0, 0, .mpmc, 2⟩, ⟨1, 0, .mpmc, 1⟩] { finish := true } [⟨0, 0, .mpmc, 2⟩, ⟨1, 0, .mpmc, 1⟩] .main
    = false := by decide

/-- rejected: so does a blocked unit of a pool behind it that only this scheduler consumes -/
example : hasToStop {} [⟨0, 0, .spmc, 2⟩, ⟨0, 1, .mpsc, 1⟩] { finish := true } [⟨0, 0, .spmc, 2⟩, ⟨0, 1, .mpsc, 1⟩] .main
    = false := by decide

/-- rejected: a unit that arrives between the two scans (the "check join request" re-scan) -/
example : hasToStop {} [⟨0, 0, .mpmc, 1⟩] { finish := true } [⟨1, 0, .mpmc, 1⟩] .main = false := by decide

/-- **the scan is a disjunction over all pools**: work anywhere in the array is found, wherever it is -/
theorem scan_covers_all_pools (pre post : List PoolView) :
    hasUnit (pre ++ post) = (hasUnit pre || hasUnit post) := by
  simp [hasUnit_eq_any]

/-- **what the scan reports**: TRUE iff some pool is non-empty or has blocked units that only this scheduler gets back -/
theorem has_unit_iff (ps : List PoolView) :
    hasUnit ps = true ↔ ∃ p ∈ ps, p.size ≠ 0 ∨ (p.soleConsumer ∧ p.numBlocked ≠ 0) :=
  hasUnit_true_iff ps

example : hasUnit [⟨0, 0, .mpmc, 2⟩, ⟨0, 0, .invalid, 1⟩, ⟨0, -1, .priv, 0⟩] = true := by decide
example : hasUnit [⟨0, 5, .mpmc, 2⟩, ⟨0, 5, .invalid, 1⟩, ⟨0, 5, .spsc, 0⟩] = false := by decide

/-- **no request, no stop**: a main (or unused) scheduler without any request never stops, whatever its pools hold -/
theorem no_stop_without_request (r0 r1 : SchedReq) (v1 v2 : List PoolView) (used : Used)
    (h0 : r0.exit = false) (hf : r1.finish = false) (hr : r1.replace = false) (hu : used ≠ .inPool) :
    hasToStop r0 v1 r1 v2 used = false := by
  cases used <;> simp_all [hasToStop]

example : hasToStop {} [] {} [] .main = false := by decide
/-- rejected: a *stacked* scheduler (used = IN_POOL) does stop on an empty scan without any request
("Let's finish it anyway" in the source; the stacked BASIC_WAIT case is finding F6) -/
example : hasToStop {} [⟨0, 0, .mpmc, 1⟩] {} [⟨0, 0, .mpmc, 1⟩] .inPool = true := by decide

/-- **the stop is enabled once the work is gone** (safety form of "join does return"): under FINISH, if both scans
find nothing, the answer is TRUE -/
theorem stop_enabled_when_drained (r0 r1 : SchedReq) (v1 v2 : List PoolView) (used : Used)
    (hf : r1.finish = true) (h1 : hasUnit v1 = false) (h2 : hasUnit v2 = false) :
    hasToStop r0 v1 r1 v2 used = true := by
  cases he : r0.exit <;> simp [hasToStop, he, hf, h1, h2]

/-- **EXIT stops regardless** of the pools (ABT_sched_exit / cancel: the documented loss of remaining units) -/
theorem exit_stops_regardless (r0 r1 : SchedReq) (v1 v2 : List PoolView) (used : Used) (h : r0.exit = true) :
    hasToStop r0 v1 r1 v2 used = true := by
  simp [hasToStop, h]

/-- **the stream's main loop ends only without work** (or on cancel): the test of `thread_main_sched_func` -/
theorem main_loop_breaks_only_when_no_work (ult : ThreadReq) (r : SchedReq) (v : List PoolView)
    (hc : ult.cancel = false) (h : mainLoopBreaks ult r v = true) :
    r.finish = true ∧ ∀ p ∈ v, p.size = 0 ∧ (p.soleConsumer → p.numBlocked = 0) := by
  simp only [mainLoopBreaks, hc, Bool.false_eq_true, ↓reduceIte, Bool.and_eq_true, Bool.not_eq_eq_eq_not,
    Bool.not_true] at h
  exact ⟨h.1, (hasUnit_false_iff v).1 h.2⟩

example : mainLoopBreaks {} { finish := true } [⟨0, 0, .mpmc, 1⟩] = true := by decide
example : mainLoopBreaks { join := true } { finish := true } [⟨0, 1, .mpmc, 1⟩] = false := by decide

/-! ## 2. num_scheds -/

/-- **`num_scheds` is exact**: in every state reachable by creating pools (automatic or user-owned), creating
schedulers over them, freeing schedulers, creating / freeing streams, replacing main schedulers and running stacked
schedulers, in any order, `num_scheds` of every pool equals the number of entries that name it in the pool arrays
of the live scheduler objects. -/
theorem num_scheds_exact (s : Acc) (h : amachine.Reachable s) (p : PoolId) : s.ns p = (occ s.scheds p : Int) :=
  (inv_reachable s h).count p

/-- **… which is the number of live schedulers that have the pool** (no scheduler lists a pool twice) -/
theorem num_scheds_counts_schedulers (s : Acc) (h : amachine.Reachable s) (p : PoolId)
    (hnd : ∀ r ∈ s.scheds, r.pools.Nodup) :
    s.ns p = ((s.scheds.filter (fun r => decide (p ∈ r.pools))).length : Int) := by
  rw [num_scheds_exact s h p, occ_eq_length_filter s.scheds p hnd]

/-- **`num_scheds == 1` ⇔ only this scheduler consumes the pool**: for a live scheduler r that has pool p,
`num_scheds p = 1` exactly when r lists p once and no other live scheduler object lists it — also after streams
were freed and re-created over a user-owned pool, and after replacements. -/
theorem sole_consumer_iff_num_scheds_one (s : Acc) (h : amachine.Reachable s) (r : SchedRec) (hr : r ∈ s.scheds)
    (p : PoolId) (hp : p ∈ r.pools) :
    s.ns p = 1 ↔ (r.pools.count p = 1 ∧ ∀ r' ∈ s.scheds, p ∈ r'.pools → r' = r) := by
  have hi := inv_reachable s h
  rw [hi.count p]
  constructor
  · intro h1
    have h1' : occ s.scheds p = 1 := by omega
    refine ⟨?_, fun r' hr' hp' => occ_one_unique s.scheds p h1' hi.ids r r' hr hp hr' hp'⟩
    have hdec := occ_erase s.scheds r p hr
    have := List.count_pos_iff.2 hp
    omega
  · rintro ⟨honce, hsole⟩
    rw [occ_eq_one_of_sole s.scheds p r hr hi.ids honce hsole]; rfl

/-- a pool that exists has a live object behind every scheduler entry: an automatic pool is freed only by the
release that brings `num_scheds` to 0 -/
theorem scheduler_pools_are_live (s : Acc) (h : amachine.Reachable s) (r : SchedRec) (hr : r ∈ s.scheds)
    (p : PoolId) (hp : p ∈ r.pools) : poolLive s.pools p = true :=
  (inv_reachable s h).live r hr p hp

/-- the history of the seeded defects C01-4 / C06-4: user-owned pool 7, a stream over it freed, a second stream
created over it — the count is 1 again -/
def reuseTrace : List AEv :=
  [.poolCreate 7 false, .schedCreate 1 [7] true, .streamCreate 1 1, .streamFree 1,
   .schedCreate 2 [7] true, .streamCreate 2 2]

example : ∃ s, amachine.run amachine.init reuseTrace = some s ∧ s.ns 7 = 1 ∧ poolLive s.pools 7 = true ∧
    s.scheds.map (·.id) = [2] := by
  refine ⟨_, rfl, ?_, ?_, ?_⟩ <;> decide

/-- non-vacuity with a replacement, a shared pool, an automatic pool and a non-automatic scheduler: pool 1 is
automatic and dies with its last scheduler, pool 2 is user-owned and survives with count 1, scheduler 5 (not
automatic) survives its stream unused and still counts as a consumer of pool 2 -/
def mixTrace : List AEv :=
  [.poolCreate 1 true, .poolCreate 2 false, .schedCreate 3 [1, 2] true, .streamCreate 0 3,
   .schedCreate 4 [2] true, .replace 0 4, .schedCreate 5 [2] false, .streamCreate 1 5, .streamFree 1,
   .streamFree 0]

example : ∃ s, amachine.run amachine.init mixTrace = some s ∧ s.ns 2 = 1 ∧ poolLive s.pools 1 = false ∧
    poolLive s.pools 2 = true ∧ s.scheds.map (·.id) = [5] := by
  refine ⟨_, rfl, ?_, ?_, ?_, ?_⟩ <;> decide

/-- rejected: a scheduler in use cannot be freed, a used scheduler cannot become a second main scheduler -/
example : amachine.run amachine.init [.poolCreate 1 false, .schedCreate 2 [1] false, .streamCreate 0 2, .schedFree 2]
    = none := by decide
example : amachine.run amachine.init [.poolCreate 1 false, .schedCreate 2 [1] false, .streamCreate 0 2,
    .streamCreate 1 2] = none := by decide

/-- **a blocked unit of a pool that only this scheduler consumes prevents the stop** (1 and 2 together): in a
reachable accounting state, let the scans see the true `num_scheds` of the pools of scheduler r.  If some pool p
of r is listed by no other live scheduler and has `num_blocked ≠ 0`, `ABTI_sched_has_to_stop` answers FALSE
(short of an EXIT request) — whatever schedulers and streams existed over p before. -/
theorem blocked_unit_of_sole_consumer_blocks_stop (s : Acc) (h : amachine.Reachable s)
    (r : SchedRec) (hr : r ∈ s.scheds) (view : PoolId → PoolView)
    (hv : ∀ q ∈ r.pools, (view q).numScheds = s.ns q)
    (p : PoolId) (hp : p ∈ r.pools) (honce : r.pools.count p = 1)
    (hsole : ∀ r' ∈ s.scheds, p ∈ r'.pools → r' = r)
    (hacc : (view p).access ≠ .invalid) (hb : (view p).numBlocked ≠ 0)
    (r0 r1 : SchedReq) (v2 : List PoolView) (used : Used) (he : r0.exit = false) :
    hasToStop r0 (r.pools.map view) r1 v2 used = false := by
  have hns : s.ns p = 1 := (sole_consumer_iff_num_scheds_one s h r hr p hp).2 ⟨honce, hsole⟩
  have hu : hasUnit (r.pools.map view) = true := by
    rw [hasUnit_true_iff]
    refine ⟨view p, List.mem_map.2 ⟨p, hp, rfl⟩, Or.inr ⟨?_, hb⟩⟩
    unfold PoolView.soleConsumer
    have := hv p hp
    cases hac : (view p).access <;> simp_all [Access.shared]
  simp [hasToStop, he, hu]

/-! ## 2b. request words of scheduler objects (repair of F14) -/

/-- what an attachment of scheduler k as a main scheduler is, in the accounting machine -/
def attaches (e : AEv) (k : SchedId) : Prop :=
  (∃ x, e = .streamCreate x k) ∨ (∃ x, e = .replace x k)

/-- **a freshly attached main scheduler carries no request, whatever its history**: whenever scheduler k becomes the
main scheduler of a stream — stream creation with a given (possibly reused) scheduler, set_main_sched on a joined
stream, completion of a same-stream replacement — its request word is clear afterwards: no FINISH left from a join of
the stream it served before, no REPLACE left from having been replaced, no EXIT.  No hypothesis on the state: the
word is cleared by the attachment itself (`xstream_init_main_sched`, `xstream_update_main_sched`,
`thread_main_sched_func` store 0 before `used = ABTI_SCHED_MAIN`). -/
theorem attach_clears_requests (s s' : Acc) (e : AEv) (k : SchedId) (ha : attaches e k)
    (hs : astep s e = some s') : s'.req k = {} := by
  rcases ha with ⟨x, rfl⟩ | ⟨x, rfl⟩
  · simp only [astep] at hs
    split at hs
    · split at hs
      · cases hs; simp
      · cases hs
    · cases hs
  · simp only [astep] at hs
    split at hs
    · split at hs
      · split at hs
        · rename_i ro hro
          cases hs
          simp only [Model.Stop.discard, freeSched]
          split <;> simp
        · cases hs
      · cases hs
    · cases hs

/-- … hence it does not stop by itself: until somebody requests it, `ABTI_sched_has_to_stop` of the freshly attached
main scheduler answers FALSE whatever its pools hold (before the repair a reused scheduler stopped at once) -/
theorem attached_sched_keeps_running (s s' : Acc) (e : AEv) (k : SchedId) (ha : attaches e k)
    (hs : astep s e = some s') (v1 v2 : List PoolView) :
    hasToStop (s'.req k) v1 (s'.req k) v2 .main = false := by
  rw [attach_clears_requests s s' e k ha hs]
  exact no_stop_without_request {} {} v1 v2 .main rfl rfl rfl (by decide)

/-- F14, first repro: user-owned scheduler 1 over pool 7 serves stream 1, the stream is joined and freed (scheduler 1
survives with FINISH), stream 2 is created with the same scheduler -/
def reuseFinishTrace : List AEv :=
  [.poolCreate 7 false, .schedCreate 1 [7] false, .streamCreate 1 1, .join 1, .streamFree 1, .streamCreate 2 1]

/-- the scheduler does keep FINISH after its stream is gone … -/
example : ∃ s, amachine.run amachine.init (reuseFinishTrace.take 5) = some s ∧ (s.req 1).finish = true ∧
    s.scheds.map (·.used) = [.notUsed] := ⟨_, rfl, by decide, by decide⟩

/-- … the reuse is accepted and ends in a running stream 2 whose scheduler has a clear request word -/
example : ∃ s, amachine.run amachine.init reuseFinishTrace = some s ∧ s.main? 2 = some 1 ∧ s.joined 2 = false ∧
    s.req 1 = {} ∧ s.ns 7 = 1 ∧ s.scheds.map (·.used) = [.main] :=
  ⟨_, rfl, by decide, by decide, by decide, by decide, by decide⟩

/-- F14, second repro: user-owned scheduler 1 is replaced on the running stream 1 by scheduler 2 (it survives with
REPLACE), then stream 2 is created with it -/
def reuseReplacedTrace : List AEv :=
  [.poolCreate 1 false, .poolCreate 2 false, .schedCreate 1 [1] false, .streamCreate 1 1, .schedCreate 2 [2] true,
   .replace 1 2, .streamCreate 2 1]

example : ∃ s, amachine.run amachine.init (reuseReplacedTrace.take 6) = some s ∧ (s.req 1).replace = true ∧
    s.main? 1 = some 2 := ⟨_, rfl, by decide, by decide⟩

example : ∃ s, amachine.run amachine.init reuseReplacedTrace = some s ∧ s.main? 2 = some 1 ∧ s.main? 1 = some 2 ∧
    s.joined 2 = false ∧ s.req 1 = {} ∧ s.req 2 = {} :=
  ⟨_, rfl, by decide, by decide, by decide, by decide, by decide⟩

/-- a joined stream's scheduler is changed directly (no REPLACE on the old one, which keeps its FINISH), revive
clears the word of the scheduler that is the main scheduler then -/
example : ∃ s, amachine.run amachine.init [.poolCreate 1 false, .schedCreate 1 [1] false, .streamCreate 1 1, .join 1,
      .schedCreate 2 [1] false, .replace 1 2, .join 1, .revive 1] = some s ∧
    s.req 1 = { finish := true } ∧ s.req 2 = {} ∧ s.joined 1 = false :=
  ⟨_, rfl, by decide, by decide, by decide⟩

/-- **a replacement that has been carried out is forgotten**: in every reachable state no scheduler object still
carries the `p_replace_sched` / `p_replace_waiter` of a replacement that was already executed
(`thread_main_sched_func` resets both fields of the old scheduler when it honours REPLACE, /repo 879f3ef).  A
user-owned scheduler that was replaced and is attached to a stream again therefore starts like a new one: a later
same-stream replacement is an ordinary first replacement, never the "overwrite" branch of
`xstream_update_main_sched` on dangling pointers. -/
theorem replace_done_forgets_pending (s : Acc) (h : amachine.Reachable s) (k : SchedId) : s.stale k = false :=
  stale_reachable s h k

/-- … so on a running stream any unused scheduler can replace the current one, whatever the current one did before -/
theorem replace_of_reused_sched_enabled (s : Acc) (h : amachine.Reachable s) (x : StreamId) (o k : SchedId)
    (r : SchedRec) (hm : s.main? x = some o) (hk : s.sched? k = some r) (hu : r.used = .notUsed)
    (ho : ({ s with scheds := setUsed s.scheds k .main } : Acc).sched? o ≠ none) :
    (astep s (.replace x k)).isSome = true := by
  have hst := replace_done_forgets_pending s h o
  simp only [astep, hm, hk, hu, hst]
  cases hq : ({ s with scheds := setUsed s.scheds k .main } : Acc).sched? o with
  | none => exact absurd hq ho
  | some ro =>
    simp only [Acc.sched?] at hq
    simp [Acc.sched?, hq]

/-- F14, third repro (rejected by the model before 879f3ef, accepted now): the replaced user-owned scheduler 1 runs
stream 2 and is replaced there again by scheduler 3 — an ordinary replacement: scheduler 3 runs stream 2, scheduler 2
still runs stream 1, scheduler 1 survives unused with REPLACE and nothing pending -/
example : ∃ s, amachine.run amachine.init
      (reuseReplacedTrace ++ [.poolCreate 3 false, .schedCreate 3 [3] true, .replace 2 3]) = some s ∧
    s.main? 2 = some 3 ∧ s.main? 1 = some 2 ∧ s.req 3 = {} ∧ (s.req 1).replace = true ∧ s.stale 1 = false ∧
    s.scheds.map (fun r => (r.id, r.used)) = [(3, .main), (2, .main), (1, .notUsed)] :=
  ⟨_, rfl, by decide, by decide, by decide, by decide, by decide, by decide⟩

/-! ## 3. the join request reaches the running scheduler -/

/-- **FINISH reaches every scheduler that runs after the join request**: once ABT_xstream_join / free has been
called on a stream, any scheduler k that calls `ABTI_xstream_check_events` on it afterwards — the main scheduler of
that time, a main scheduler installed later by a replacement (it carries the same main-scheduler ULT, whose request
word keeps REQ_JOIN), a stacked scheduler — has the FINISH request set when the call returns. -/
theorem finish_reaches_running_sched (m : SchedId) (req0 : SchedId → SchedReq) (s : XS)
    (h : (xmachine m req0).Reachable s) (hj : s.joinReq = true) (k : SchedId) (s' : XS)
    (hs : xstep s (.checkEvents k) = some s') : (s'.req k).finish = true := by
  have hi := xinv_reachable m req0 s h
  simp only [xstep, Option.some.injEq] at hs
  subst hs
  simp [checkEvents_finish, hi.join hj]

/-- **the request is never withdrawn**: after the join request, whatever happens on the stream (replacements,
other requests, checks) the stream stays "join requested" -/
theorem join_request_sticky (s : XS) (tr : List XEv) (s' : XS) (hj : s.joinReq = true)
    (hr : (xmachine 0 (fun _ => {})).run s tr = some s') : s'.joinReq = true :=
  Machine.invariant_run (xmachine 0 (fun _ => {})) (fun s => s.joinReq = true)
    (fun s e s' hi hs => joinReq_step s e s' hi hs) tr s s' hj hr

/-- **a joined stream's current main scheduler stops once drained**: after the join request, when the scheduler that
is the main scheduler *now* (original or replacement) has made its check_events call, `ABTI_sched_has_to_stop`
answers TRUE as soon as both scans find no work, and the loop of `thread_main_sched_func` ends. -/
theorem joined_main_sched_stops_when_drained (m : SchedId) (req0 : SchedId → SchedReq) (s : XS)
    (h : (xmachine m req0).Reachable s) (hj : s.joinReq = true) (s' : XS)
    (hs : xstep s (.checkEvents s.main) = some s') (v1 v2 : List PoolView) (used : Used)
    (h1 : hasUnit v1 = false) (h2 : hasUnit v2 = false) :
    hasToStop (s'.req s'.main) v1 (s'.req s'.main) v2 used = true ∧
    mainLoopBreaks s'.ult (s'.req s'.main) v2 = true := by
  have hf := finish_reaches_running_sched m req0 s h hj s.main s' hs
  have hm : s'.main = s.main := by
    simp only [xstep, Option.some.injEq] at hs; subst hs; rfl
  rw [hm]
  refine ⟨stop_enabled_when_drained _ _ _ _ _ hf h1 h2, ?_⟩
  simp [mainLoopBreaks, hf, h2]

/-- **CANCEL reaches it as an EXIT request** -/
theorem cancel_reaches_running_sched (m : SchedId) (req0 : SchedId → SchedReq) (s : XS)
    (h : (xmachine m req0).Reachable s) (hc : s.cancelReq = true) (k : SchedId) (s' : XS)
    (hs : xstep s (.checkEvents k) = some s') : (s'.req k).exit = true := by
  have hi := xinv_reachable m req0 s h
  simp only [xstep, Option.some.injEq] at hs
  subst hs
  simp [checkEvents_exit, hi.cancel hc]

/-- **check_events invents nothing**: without a join / cancel on the main-scheduler ULT the running scheduler's
request word is unchanged -/
theorem check_events_without_request (r : SchedReq) : checkEvents {} r = r := by
  simp [checkEvents]

/-- the history of the seeded defect C06-3: join requested while scheduler 0 is the main scheduler, then a ULT
replaces it by scheduler 1 -/
def joinThenReplace : List XEv := [.join, .setMain 1, .replace]

/-- non-vacuity: that state is reachable, join is pending, scheduler 1 is the main scheduler … -/
example : ∃ s, (xmachine 0 (fun _ => {})).run (xinit 0 (fun _ => {})) joinThenReplace = some s ∧
    s.joinReq = true ∧ s.main = 1 ∧ (s.req 1).finish = false ∧ (s.req 0).finish = true :=
  ⟨_, rfl, by decide, by decide, by decide, by decide⟩

/-- … whose request word is fresh: *before* its check_events call it would not stop (the forwarding in
check_events is what the theorem rests on; xstream_join's own ABTI_sched_finish reached scheduler 0 only) … -/
example : hasToStopQ ({} : SchedReq) [⟨0, 0, .mpmc, 1⟩] .main = false := by decide

/-- … and after it, it does -/
example : ∃ s, (xmachine 0 (fun _ => {})).run (xinit 0 (fun _ => {})) (joinThenReplace ++ [.checkEvents 1]) = some s ∧
    hasToStopQ (s.req s.main) [⟨0, 0, .mpmc, 1⟩] .main = true :=
  ⟨_, rfl, by decide⟩

/-- rejected: a replacement without a pending request, and a scheduler replacing itself, are not behaviours -/
example : (xmachine 0 (fun _ => {})).run (xinit 0 (fun _ => {})) [.replace] = none := by decide
example : (xmachine 0 (fun _ => {})).run (xinit 0 (fun _ => {})) [.setMain 0] = none := by decide

end ArgoVerif.Props.C06Stop
