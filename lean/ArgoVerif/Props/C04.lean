import ArgoVerif.Proofs.Mutex2
import ArgoVerif.Gen.Consts
import ArgoVerif.Proofs.FutexGen
/-
Props.C04 — ABT_mutex: mutual exclusion, recursion, trylock, no lost wake-up.
All theorems quantify over every trace accepted by the mutex model, i.e. over every
interleaving of the atomic steps of any number of ULT / tasklet / external callers.
-/
namespace ArgoVerif.Props.C04
open ArgoVerif ArgoVerif.Model.Mutex

/-- the invariant is inductive for the whole step function -/
theorem inv_step (s s' : St) (e : Ev) (h : Inv s) (hs : step s e = some s') : Inv s' := by
  cases e with
  | call a op => exact inv_stepCall s s' a op h hs
  | ret a op ok => exact inv_stepRet s s' a op ok h hs
  | tasLock a old => exact inv_stepTasLock s s' a old h hs
  | clearLock a => exact inv_stepClearLock s s' a h hs
  | tasW a old => cases old
                  · exact inv_stepTasW_f s s' a h hs
                  · exact inv_stepTasW_t s s' a h hs
  | clearW a =>
    simp only [step] at hs
    split at hs
    · rename_i s1 hb
      exact inv_stepClearW s1 s' a (inv_bcastDone s s1 a h hb) hs
    · exact inv_stepClearW s s' a h hs
  | enq a => exact inv_stepEnq s s' a h hs
  | storeBlocked a => exact inv_stepStoreBlocked s s' a h hs
  | loadState a r => exact inv_stepLoadState s s' a r h hs
  | deq a n => exact inv_stepDeq s s' a n h hs
  | storeReady a n => exact inv_stepStoreReady s s' a n h hs
  | obsLock v => simp only [step] at hs; split at hs <;> simp_all
  | obsW v => simp only [step] at hs; split at hs <;> simp_all

/-- every reachable state satisfies the invariant -/
theorem inv_reachable (r : Bool) (u : Actor → Bool) (s : St) (h : (machine r u).Reachable s) : Inv s :=
  Machine.invariant_reachable (machine r u) Inv (inv_init r u) (fun s e s' hi hs => inv_step s s' e hi hs) s h

/-- **mutual exclusion**: in every reachable state at most one caller holds the mutex
(`Holding` = between the successful test-and-set of the lock word and its clearing). -/
theorem mutex_excl (r : Bool) (u : Actor → Bool) (s : St) (h : (machine r u).Reachable s)
    (a b : Actor) (ha : Holding (s.pc a)) (hb : Holding (s.pc b)) : a = b := by
  have hi := inv_reachable r u s h
  have h1 := (hi.holderIff a).mpr ha
  have h2 := (hi.holderIff b).mpr hb
  rw [h1] at h2; exact Option.some.inj h2

/-- **trylock succeeds iff the mutex is free**: the test-and-set performed by any caller
returns "was clear" exactly when no caller holds the mutex. -/
theorem mutex_trylock_iff_free (r : Bool) (u : Actor → Bool) (s s' : St) (h : (machine r u).Reachable s)
    (a : Actor) (old : Bool) (hs : step s (.tasLock a old) = some s') :
    old = false ↔ ∀ b, ¬ Holding (s.pc b) := by
  have hi := inv_reachable r u s h
  have ho : old = s.lockW := (tasLock_cases s a old s' hs).1
  constructor
  · intro hf b hb
    have := (hi.holderIff b).mpr hb
    have hl := hi.lockIff.mpr (by rw [this]; simp)
    rw [← ho, hf] at hl; cases hl
  · intro hn
    cases hold : old with
    | false => rfl
    | true =>
      have hl : s.lockW = true := by rw [← ho, hold]
      have hne := hi.lockIff.mp hl
      cases hh : s.holder with
      | none => exact absurd hh hne
      | some b => exact absurd ((hi.holderIff b).mp hh) (hn b)

/-- **no lost wake-up (safety form)**: whenever a waiter is queued and nobody is inside a
critical section of the waiter lock, the mutex is held — so an unlock, which always
broadcasts, is still to come. -/
theorem mutex_no_lost_wakeup_safety (r : Bool) (u : Actor → Bool) (s : St) (h : (machine r u).Reachable s)
    (hq : s.q ≠ []) (hw : s.wl = false) : s.lockW = true ∧ ∃ b, Holding (s.pc b) := by
  have hi := inv_reachable r u s h
  have hl : s.lockW = true := by
    cases hlw : s.lockW with
    | true => rfl
    | false =>
      have hb := hi.noLost hq hlw
      have hno : s.wlOwner = none := by
        cases ho : s.wlOwner with
        | none => rfl
        | some b => have := hi.wlBool.mpr (by rw [ho]; simp); rw [hw] at this; cases this
      exact absurd hno hb.1
  refine ⟨hl, ?_⟩
  have hne := hi.lockIff.mp hl
  cases hh : s.holder with
  | none => exact absurd hh hne
  | some b => exact ⟨b, (hi.holderIff b).mp hh⟩

/-- a fully suspended ULT waiter is still in the wait-list (or is the node the broadcaster is
waking right now): it cannot have been forgotten -/
theorem mutex_blocked_is_queued (r : Bool) (u : Actor → Bool) (s : St) (h : (machine r u).Reachable s)
    (a : Actor) (ha : s.pc a = .lWait) : a ∈ s.q ∨ s.pending = some a :=
  (inv_reachable r u s h).ultWait a ha

/-- **broadcast wakes everybody**: the unlocker releases the waiter lock only with an empty wait-list -/
theorem mutex_broadcast_wakes_all (r : Bool) (u : Actor → Bool) (s s' : St) (h : (machine r u).Reachable s)
    (a : Actor) (hs : step s (.clearW a) = some s') (hp : s.pc a = .uBcast) : s.q = [] ∧ s.pending = none := by
  have hi := inv_reachable r u s h
  simp only [step, bcastDone] at hs
  by_cases hq : s.q = []
  · refine ⟨hq, ?_⟩
    cases hpd : s.pending with
    | none => rfl
    | some n =>
      have := (hi.pendIff a).mpr ⟨(hi.wlIff a).mpr (by rw [hp]; trivial), by rw [hpd]; simp⟩
      rw [hp] at this; cases this
  · simp only [hp, hq, and_false, if_false] at hs
    simp [stepClearW, hp] at hs

/-- a ULT is dequeued only after its BLOCKED state was stored and the waiter lock released by
its scheduler context (its context is saved): it is at `lWait`, never half-way -/
theorem mutex_wake_only_suspended (r : Bool) (u : Actor → Bool) (s s' : St) (h : (machine r u).Reachable s)
    (a n : Actor) (hs : step s (.deq a n) = some s') (hu : s.isUlt n = true) : s.pc n = .lWait := by
  have hi := inv_reachable r u s h
  simp only [step, stepDeq] at hs
  split at hs
  · rename_i hd tl hpc hq
    split at hs
    · rename_i hn
      subst hn
      have hmem : hd ∈ s.q := by rw [hq]; simp
      have hw := (hi.inQ hd hmem).1
      have h3 := hi.ultPc hd hu hw
      have haW : s.wlOwner = some a := (hi.wlIff a).mpr (by rw [hpc]; trivial)
      rcases h3 with h3 | h3 | h3
      · have : s.wlOwner = some hd := (hi.wlIff hd).mpr (by rw [h3]; trivial)
        rw [haW] at this; have := Option.some.inj this; subst this; rw [hpc] at h3; cases h3
      · have : s.wlOwner = some hd := (hi.wlIff hd).mpr (by rw [h3]; trivial)
        rw [haW] at this; have := Option.some.inj this; subst this; rw [hpc] at h3; cases h3
      · exact h3
    · cases hs
  · cases hs

/-- **recursion**: the lock word of a recursive mutex is cleared only when the nesting count is
zero, i.e. after as many unlocks as locks by the owner -/
theorem mutex_recursive_release_at_zero (r : Bool) (u : Actor → Bool) (s s' : St) (h : (machine r u).Reachable s)
    (a : Actor) (hs : step s (.clearLock a) = some s') : s.nest = 0 := by
  have hi := inv_reachable r u s h
  simp only [step, stepClearLock] at hs
  split at hs
  · rename_i hp; exact hi.relNest a (Or.inr hp)
  · cases hs

/-- non-vacuity: a contended history is accepted by the model and ends in the initial control state:
actor 1 (ULT) locks; actor 2 (ULT) fails twice, enqueues and blocks; 1 unlocks and wakes 2; 2 acquires. -/
example :
    ((machine false (fun _ => true)).run (init false (fun _ => true))
      [.call 1 .lock, .tasLock 1 false, .ret 1 .lock true,
       .call 2 .lock, .tasLock 2 true, .tasW 2 false, .tasLock 2 true, .enq 2, .storeBlocked 2, .clearW 2,
       .call 1 .unlock, .tasW 1 false, .clearLock 1, .deq 1 2, .storeReady 1 2, .clearW 1, .ret 1 .unlock true,
       .tasLock 2 false, .ret 2 .lock true]).map (fun s => (s.pc 1, s.pc 2, s.lockW, s.q))
      = some (.idle, .cs, true, []) := by decide


/-! ## widths of the counters modelled as unbounded numbers (generated from the headers on every run) -/
/-- `nesting_cnt` of a recursive mutex: Model.Mutex counts the depth in Nat, which describes the C code for depths below 2^31 is 4 bytes wide in this tree: the unbounded model agrees with the C field below 2^31 -/
example : ArgoVerif.Gen.Consts.bytesMutexNestingCnt = 4 := by decide
/-- the generation word of the wait-list futex is 4 bytes wide in this tree: the unbounded model agrees with the C field below 2^31 -/
example : ArgoVerif.Gen.Consts.bytesFutexVal = 4 := by decide


/-! ## the generation word of the wait-list futex (non-yieldable waiters: external threads, tasklets) -/
/-- the width of the word, generated from the header on every run -/
def futexBits : Nat := (8 * ArgoVerif.Gen.Consts.bytesFutexVal).toNat

/-- **no lost wake-up of a sleeping caller**: a waiter that sampled the word under the wait-list lock and is then delayed
for `k` broadcasts (any `0 < k < 2^bits`) before the kernel compares the word — or before it re-reads the word after a
wake-up — finds it changed: it does not go (back) to sleep after the broadcast that took it off the wait list -/
theorem futex_no_lost_wake (v k : Nat) (hv : v < 2 ^ futexBits) (hk : 0 < k) (hk2 : k < 2 ^ futexBits) :
    ArgoVerif.Model.FutexGen.lostWake futexBits v k = false := by
  cases h : ArgoVerif.Model.FutexGen.lostWake futexBits v k with
  | false => rfl
  | true => have := (ArgoVerif.Model.FutexGen.lostWake_iff futexBits v k hv hk2).1 h; omega

/-- (`lostWake` compares the sample with the word after `k` single broadcasts `val := val + 1` on that width) -/
theorem futex_after_is_k_broadcasts (v k : Nat) (hv : v < 2 ^ futexBits) :
    ArgoVerif.Model.FutexGen.after futexBits v k = ArgoVerif.Model.FutexGen.iter futexBits v k :=
  ArgoVerif.Model.FutexGen.after_eq_iter futexBits v k hv

/-- ... and it sleeps when nothing has been broadcast since its sample (it is still on the wait list) -/
theorem futex_sleeps_without_broadcast (v : Nat) (hv : v < 2 ^ futexBits) :
    ArgoVerif.Model.FutexGen.lostWake futexBits v 0 = true :=
  (ArgoVerif.Model.FutexGen.lostWake_iff futexBits v 0 hv (Nat.two_pow_pos _)).2 rfl

/-- non-vacuity / why the width matters: on a 3-bit word the 8th broadcast restores the sampled value -/
example : ArgoVerif.Model.FutexGen.lostWake 3 5 8 = true ∧ ArgoVerif.Model.FutexGen.lostWake 3 5 7 = false := by decide
example : futexBits = 32 := by decide

end ArgoVerif.Props.C04
