import ArgoVerif.Props.SchedCommon
import ArgoVerif.Model.MigRules
/-
Props.C13 — migration moves a unit to the requested pool exactly once (unit-level part; the selection of a target
stream by ABT_thread_migrate and the rejection rules are tied by T1 skeletons and checked by the scenario monitors).
-/
namespace ArgoVerif.Props.C13
open ArgoVerif ArgoVerif.Model.Sched

/-- **the next push goes to the requested pool**: a unit is only ever pushed to its associated pool, and the associated
pool changes only by handling a migration request (or creation); so after `migrate u p` every push of u goes to p until
the next migration -/
theorem mig_push_goes_to_associated (s s' : St) (p : PoolId) (u : UnitId) (hs : step s (.push p u) = some s') :
    s.pool u = p := by
  simp only [step, stepPush] at hs
  split at hs
  · rename_i h; exact h.2.2.1
  · cases hs

theorem mig_pool_changes_only_by_migration (s s' : St) (e : Ev) (hs : step s e = some s') (u : UnitId)
    (hne : s'.pool u ≠ s.pool u) : (∃ p, e = .migrate u p ∧ s'.pool u = p) ∨ (∃ p, e = .create u p) := by
  cases e <;>
    simp only [step, stepCreate, stepPush, stepPop, stepSetSt, stepRun, stepUserStart, stepUserEnd, stepCb, stepIncB,
      stepDecB, stepResume, stepFinish, stepTerminate, stepFree, stepReqSet, stepReqClr, stepMigrate, stepJoinRet, stepXferB] at hs <;>
    (repeat' (split at hs)) <;> (try cases hs) <;> simp_all [setLoc, upd] <;> grind

/-- **only on request, only at a scheduling point**: the pool changes only while a MIGRATE request is pending and the unit
is held by a scheduler or inside a context-switch callback (never while it runs, sits in a pool, or is blocked) -/
theorem mig_only_when_requested (s s' : St) (u : UnitId) (p : PoolId) (hs : step s (.migrate u p) = some s') :
    s.reqMig u = true ∧ ((∃ e, s.loc u = .held e) ∨ (∃ e, s.loc u = .cb e)) ∧ s'.pool u = p := by
  simp only [step, stepMigrate] at hs
  cases hl : s.loc u <;> simp only [hl] at hs <;> (repeat' (split at hs)) <;> (try cases hs) <;> simp_all [upd]

/-- **still exactly once**: migration does not touch the unit's location or start counter -/
theorem mig_still_once (s s' : St) (u : UnitId) (p : PoolId) (hs : step s (.migrate u p) = some s') :
    s'.loc u = s.loc u ∧ s'.starts u = s.starts u ∧ s'.st u = s.st u := by
  simp only [step, stepMigrate] at hs
  cases hl : s.loc u <;> simp only [hl] at hs <;> (repeat' (split at hs)) <;> (try cases hs) <;> simp_all

/-- non-vacuity: a self-requested migration handled in the yield callback: the re-push goes to pool 5 -/
example :
    (machine.run init
      [.create 1 0, .push 0 1, .pop 7 0 1, .setSt 1 .running, .run 7 1, .userStart 1, .reqSet 1 .migrate, .cb 7 1 .yield,
       .migrate 1 5, .reqClr 1 .migrate, .setSt 1 .ready, .push 5 1]).map (fun s => decide (s.loc 1 = .inPool 5))
      = some true := by decide

/-- pushing a migrated unit back to the old pool is rejected -/
example : (machine.run init
      [.create 1 0, .push 0 1, .pop 7 0 1, .setSt 1 .running, .run 7 1, .reqSet 1 .migrate, .cb 7 1 .yield,
       .migrate 1 5, .reqClr 1 .migrate, .setSt 1 .ready, .push 0 1]).isNone = true := by decide


/-! ## the request rules (decision logic of ABT_thread_migrate_to_pool / _to_sched / _to_xstream) -/
namespace Rules
open ArgoVerif.Model.MigRules

/-- **a request naming the unit's current pool is rejected** -/
theorem own_pool_rejected (u : WUnit) : request u (.pool u.pool) ≠ .ok := by
  obtain ⟨p, m, ms⟩ := u
  cases m <;> cases ms <;> simp [request]

/-- ... and so is a request naming a scheduler (or a stream whose main scheduler) that serves the unit's pool —
whichever position the pool has in the scheduler's list, not only the pool the request would pick -/
theorem scheduler_serving_own_pool_rejected (u : WUnit) (ps : List Nat) (h : u.pool ∈ ps) :
    request u (.sched ps) ≠ .ok := by
  obtain ⟨p, m, ms⟩ := u
  cases m <;> cases ms <;> simp_all [request]

/-- **a non-migratable unit and a main-scheduler ULT are rejected**, whatever the target -/
theorem non_migratable_rejected (u : WUnit) (t : Target) (h : u.migratable = false) : request u t = .invThread := by
  simp [request, h]
theorem main_scheduler_rejected (u : WUnit) (t : Target) (h : u.mainSched = true) : request u t = .invThread := by
  obtain ⟨p, m, ms⟩ := u
  cases m <;> simp_all [request]

/-- **exactly the other requests are accepted** -/
theorem accepted_pool_iff (u : WUnit) (p : Nat) :
    request u (.pool p) = .ok ↔ (u.migratable = true ∧ u.mainSched = false ∧ p ≠ u.pool) := by
  obtain ⟨q, m, ms⟩ := u
  cases m <;> cases ms <;> simp [request]
theorem accepted_sched_iff (u : WUnit) (ps : List Nat) :
    request u (.sched ps) = .ok ↔ (u.migratable = true ∧ u.mainSched = false ∧ u.pool ∉ ps ∧ ps ≠ []) := by
  obtain ⟨q, m, ms⟩ := u
  cases m <;> cases ms <;> simp [request]
  by_cases hq : q ∈ ps
  · simp [hq]
  · cases ps <;> simp_all

/-- ... and an accepted request names a pool that differs from the unit's -/
theorem accepted_names_another_pool (u : WUnit) (t : Target) (h : request u t = .ok) :
    ∃ p, chosen t = some p ∧ p ≠ u.pool := by
  cases t with
  | pool p => exact ⟨p, rfl, ((accepted_pool_iff u p).1 h).2.2⟩
  | sched ps =>
    have ha := (accepted_sched_iff u ps).1 h
    cases ps with
    | nil => exact absurd rfl ha.2.2.2
    | cons q rest =>
      refine ⟨q, rfl, ?_⟩
      intro hq
      exact ha.2.2.1 (by simp [hq])

example : request { pool := 7, migratable := true, mainSched := false } (.sched [3, 7]) = .migrationTarget ∧
    request { pool := 7, migratable := true, mainSched := false } (.sched [3, 4]) = .ok ∧
    request { pool := 7, migratable := false, mainSched := false } (.pool 3) = .invThread := by decide

end Rules

end ArgoVerif.Props.C13
