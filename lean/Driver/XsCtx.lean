import ArgoVerif.Model.XsCtx
import Driver.Util
/- line-protocol driver for Model.XsCtx; same protocol as harness/wb_xsctx.c:
   a schedule step lets one actor run from its current pthread primitive to its next one
   (the model's `tau` / `store` steps of that actor in between are taken eagerly). -/
namespace Driver.XsCtx
open ArgoVerif.Model.XsCtx

structure D where
  s : St
  ops : List COp        -- calls the caller still has to make
  ready : Bool          -- the `ops` line was read

def D.init : D := { s := ArgoVerif.Model.XsCtx.init, ops := [], ready := false }

def stName : CS → String
  | .running => "RUNNING" | .reqJoin => "REQ_JOIN" | .waiting => "WAITING" | .reqTerminate => "REQ_TERMINATE"

def opName : COp → String
  | .join => "join" | .revive => "revive" | .free => "free"

def aName : Actor → String
  | .T => "T" | .C => "C"

/-- the actor is at a point where only its own tests / stores come next -/
def settle1 (s : St) (a : Actor) : Option St :=
  -- never auto-run T's start-up step: it is a scheduling point of its own
  if a = .T ∧ s.c.tpc = .start then none
  else
    match step s (.tau a) with
    | some s' => some s'
    | none => allCS.findSome? fun v => step s (.store a v)

def settle (s : St) (a : Actor) : Nat → St
  | 0 => s
  | n + 1 => match settle1 s a with
    | some s' => settle s' a n
    | none => s

/-- name of the next primitive of actor `a` (after settling) -/
def nextName (d : D) : Actor → String
  | .T => match d.s.c.tpc with
    | .start => "start" | .run => "ret" | .lock => "lock" | .chk => "signal" | .set => "?set" | .wait => "wait"
    | .blocked => "blocked" | .woken => "relock" | .loop => "?loop" | .unlock _ => "unlock" | .done => "finished"
  | .C => match d.s.c.cpc with
    | .idle _ => match d.ops with | op :: _ => "call-" ++ opName op | [] => "finished"
    | .freed => match d.ops with | op :: _ => "call-" ++ opName op | [] => "finished"
    | .jLock => "lock" | .rLock => "lock" | .fLock => "lock"
    | .jWait => "wait" | .jBlocked => "blocked" | .jWoken => "relock"
    | .jUnlock => "unlock" | .rUnlock => "unlock" | .fUnlock => "unlock"
    | .rSig => "signal" | .fSig => "signal" | .fJoin => "pjoin"
    | .jChk => "?jChk" | .jStore => "?jStore" | .jLoop => "?jLoop" | .jAssert => "?jAssert"
    | .rStore => "?rStore" | .fStore => "?fStore"

def pickWake (c : Ctl) (prefer : Option Actor) : Option Actor :=
  match prefer with
  | some b => if blocked c b then some b else if tBlocked c then some .T else if cBlocked c then some .C else none
  | none => if tBlocked c then some .T else if cBlocked c then some .C else none

/-- the primitive event actor `a` would perform now, with its printed name -/
def primOf (d : D) (a : Actor) (prefer : Option Actor) : Option (Ev × String × Option (Option Actor)) :=
  match a with
  | .T => match d.s.c.tpc with
    | .start => some (.tau .T, "start", none)
    | .run => some (.ret, "ret", none)
    | .lock => some (.lock .T, "lock", none)
    | .chk => let w := pickWake d.s.c prefer; some (.signal .T w, "signal", some w)
    | .wait => some (.wait .T, "wait", none)
    | .woken => some (.relock .T, "relock", none)
    | .unlock _ => some (.unlock .T, "unlock", none)
    | _ => none
  | .C => match d.s.c.cpc with
    | .idle _ => match d.ops with
      | op :: _ => some (.call op, "call-" ++ opName op, none)
      | [] => none
    | .jLock => some (.lock .C, "lock", none)
    | .rLock => some (.lock .C, "lock", none)
    | .fLock => some (.lock .C, "lock", none)
    | .jWait => some (.wait .C, "wait", none)
    | .jWoken => some (.relock .C, "relock", none)
    | .jUnlock => some (.unlock .C, "unlock", none)
    | .rUnlock => some (.unlock .C, "unlock", none)
    | .fUnlock => some (.unlock .C, "unlock", none)
    | .rSig => let w := pickWake d.s.c prefer; some (.signal .C w, "signal", some w)
    | .fSig => let w := pickWake d.s.c prefer; some (.signal .C w, "signal", some w)
    | .fJoin => some (.pjoin, "pjoin", none)
    | _ => none

def finished (d : D) : Actor → Bool
  | .T => d.s.c.tpc = .done
  | .C => (d.s.c.cpc = .freed || (match d.s.c.cpc with | .idle _ => true | _ => false)) && d.ops.isEmpty

def stepActor (d : D) (a : Actor) (prefer : Option Actor) : D × String :=
  if finished d a then (d, aName a ++ " finished")
  else match primOf d a prefer with
    | none => (d, aName a ++ " disabled")
    | some (e, name, w) =>
      match step d.s e with
      | none => (d, aName a ++ " disabled")
      | some s1 =>
        let s2 := settle s1 a 8
        let ops' := match e with | .call _ => d.ops.drop 1 | _ => d.ops
        let d' := { d with s := s2, ops := ops' }
        let wk := match w with
          | none => ""
          | some none => " woke=none"
          | some (some b) => " woke=" ++ aName b
        -- which call returned during this step?
        let ret := match a, e, d.s.c.cpc with
          | .C, .unlock _, .jUnlock => " returned=join"
          | .C, .unlock _, .rUnlock => " returned=revive"
          | .C, .pjoin, _ => " returned=free"
          | _, _, _ => ""
        let flt := if s2.c.fault then " MODEL-FAULT" else ""
        (d', aName a ++ " " ++ name ++ wk ++ " st=" ++ stName s2.c.st ++ " next=" ++ nextName d' a ++ ret ++ flt)

def parseActor : String → Option Actor
  | "T" => some .T | "C" => some .C | _ => none

def parseOps : List String → Option (List COp)
  | [] => some []
  | "join" :: r => (parseOps r).map (COp.join :: ·)
  | "revive" :: r => (parseOps r).map (COp.revive :: ·)
  | "free" :: r => (parseOps r).map (COp.free :: ·)
  | _ => none

def step' (d : D) (ws : List String) : D × String :=
  match ws with
  | "ops" :: r =>
    if d.ready then (d, "bad-op")
    else match parseOps r with
      | some ops => ({ d with ops := ops, ready := true }, "ops ok st=" ++ stName d.s.c.st)
      | none => (d, "bad-op")
  | ["spur", a] => match parseActor a with
    | some a =>
      if !d.ready then (d, "bad-op")
      else match step d.s (.spur a) with
        | some s' => ({ d with s := s' }, aName a ++ " spur st=" ++ stName s'.c.st ++ " next=relock")
        | none => (d, aName a ++ " disabled")
    | none => (d, "bad-op")
  | [a] => match parseActor a with
    | some a => if d.ready then stepActor d a none else (d, "bad-op")
    | none => (d, "bad-op")
  | [a, b] => match parseActor a, parseActor b with
    | some a, some b => if d.ready then stepActor d a (some b) else (d, "bad-op")
    | _, _ => (d, "bad-op")
  | _ => (d, "bad-op")

def main : IO Unit := Driver.runModel D.init step'
end Driver.XsCtx
