import ArgoVerif.Model.RWLock
import Driver.Util
/- `driver rwlock`: validates a projected trace against Model.RWLock.
   first line:  init <actor kinds: u<i> (ULT) | e<i> (external thread) | t<i> (tasklet) ...>
   then one event per line:
     call <a> rdlock|wrlock|unlock      ret <a> <op> ok|err
     mutexLock <a>   mutexUnlock <a>   sleep <a>   enq <a>   wake <a> <n>   snap <reader_count> <write_flag>
   The plain-memory step `update a` has no event of its own in a trace: the driver performs it (it must be enabled)
   when the holder of the internal mutex, still at its loop test / at the if-else of unlock, goes on to `wake` or
   `mutexUnlock`.  Prints nothing for accepted events, `REJECT <n> <line> | ...` for the first rejected one (later
   lines are ignored), and `END accepted=<n> transitions=<k> [...]` at `end`. -/
namespace Driver.RWLock
open ArgoVerif.Model.RWLock

structure D where
  s : St
  known : List Nat
  n : Nat
  dead : Bool
  seen : List String   -- transitions exercised (event × pc [× branch]), for coverage

def parseOp : String → Option Op
  | "rdlock" => some .rdlock | "wrlock" => some .wrlock | "unlock" => some .unlock
  | _ => none

def parseRc : String → Option Rc
  | "ok" => some .ok | "err" => some .err
  | _ => none

def b (s : String) : Option Bool := match s with | "1" => some true | "0" => some false | _ => none

def parseEv (ws : List String) : Option (Ev × Option Nat) :=
  match ws with
  | ["call", a, op] => do let a ← a.toNat?; let op ← parseOp op; pure (.call a op, some a)
  | ["ret", a, op, rc] => do let a ← a.toNat?; let op ← parseOp op; let rc ← parseRc rc; pure (.ret a op rc, some a)
  | ["mutexLock", a] => do let a ← a.toNat?; pure (.mutexLock a, some a)
  | ["mutexUnlock", a] => do let a ← a.toNat?; pure (.mutexUnlock a, some a)
  | ["sleep", a] => do let a ← a.toNat?; pure (.sleep a, some a)
  | ["enq", a] => do let a ← a.toNat?; pure (.enq a, some a)
  | ["wake", a, n] => do let a ← a.toNat?; let n ← n.toNat?; pure (.wake a n, some a)
  | ["snap", rc, wf] => do let rc ← rc.toNat?; let wf ← b wf; pure (.snap (rc : Int) wf, none)
  | _ => none

def parseKind (w : String) : Option (Nat × Kind) :=
  match w.toList with
  | 'u' :: r => (String.ofList r).toNat?.map fun i => (i, Kind.ult)
  | 'e' :: r => (String.ofList r).toNat?.map fun i => (i, Kind.ext)
  | 't' :: r => (String.ofList r).toNat?.map fun i => (i, Kind.tasklet)
  | _ => none

def pcName (p : Pc) : String := (toString (repr p)).replace "ArgoVerif.Model.RWLock.Pc." ""

def note (d : D) (key : String) : List String := if d.seen.contains key then d.seen else key :: d.seen

def describe (s : St) (a : Option Nat) : String :=
  let pa := match a with | some x => pcName (s.pc x) | none => "-"
  s!"pc={pa} mholder={s.mholder} reader_count={s.readerCount} write_flag={s.writeFlag} q={s.q} readers={s.readers} writer={s.writer}"

/-- is the actor at a point where the silent `update` comes next if it does not sleep? -/
def atTest (p : Pc) : Bool := p == .rTest || p == .wTest || p == .uUpd

def step (d : D) (ws : List String) : D × String :=
  if d.dead then (d, "") else
  match ws with
  | "init" :: ks =>
    let kl := ks.filterMap parseKind
    if kl.length ≠ ks.length then ({ d with dead := true }, s!"REJECT 0 bad-op {ws}") else
    let kind : Nat → Kind := fun a => match kl.find? (·.1 == a) with | some (_, k) => k | none => .ext
    ({ d with s := init kind, known := kl.map (·.1), n := 0 }, "")
  | ["end"] => (d, s!"END accepted={d.n} transitions={d.seen.length} {d.seen}")
  | _ =>
    match parseEv ws with
    | none => ({ d with dead := true }, s!"REJECT {d.n} bad-op {ws}")
    | some (e, a) =>
      match a with
      | some x =>
        if ¬ d.known.contains x then ({ d with dead := true }, s!"REJECT {d.n} unknown-actor {ws}") else
        -- silent update before wake / mutexUnlock by an actor still at its test
        let needsUpd := atTest (d.s.pc x) && (match e with | .wake _ _ => true | .mutexUnlock _ => true | _ => false)
        let pre : Option (St × List String) :=
          if needsUpd then
            match ArgoVerif.Model.RWLock.step d.s (.update x) with
            | some s1 =>
              let br := if d.s.pc x == .uUpd then (if d.s.writeFlag then "/writer" else "/reader") else ""
              some (s1, note d s!"update@{pcName (d.s.pc x)}{br}")
            | none => none
          else some (d.s, d.seen)
        match pre with
        | none =>
          ({ d with dead := true },
            s!"REJECT {d.n} {ws} | the caller went on without waiting but its loop predicate is true in the model (update not enabled) | {describe d.s a}")
        | some (s1, seen1) =>
          match ArgoVerif.Model.RWLock.step s1 e with
          | some s' =>
            let tag := match e with
              | .call _ op => s!".{(toString (repr op)).replace "ArgoVerif.Model.RWLock.Op." ""}" ++ (if s1.kind x = Kind.tasklet then ".tasklet" else "")
              | _ => ""
            let key := s!"{ws.head!}{tag}@{pcName (s1.pc x)}"
            let seen := if seen1.contains key then seen1 else key :: seen1
            ({ d with s := s', n := d.n + 1, seen := seen }, "")
          | none => ({ d with dead := true }, s!"REJECT {d.n} {ws} | {describe s1 a}")
      | none =>
        match ArgoVerif.Model.RWLock.step d.s e with
        | some s' => ({ d with s := s', n := d.n + 1, seen := note d "snap" }, "")
        | none => ({ d with dead := true }, s!"REJECT {d.n} {ws} | {describe d.s a}")

def main : IO Unit :=
  Driver.runModel ({ s := init (fun _ => .ext), known := [], n := 0, dead := false, seen := [] } : D) step
end Driver.RWLock
