import ArgoVerif.Model.UnitMapLock
import Driver.Util
/- `driver unitmaplock`: validates projected bucket-lock events against Model.UnitMapLock.
   events: acquire a b | spin a b | release a b -/
namespace Driver.UnitMapLock
open ArgoVerif.Model.UnitMapLock

structure D where
  s : St
  n : Nat
  dead : Bool
  seen : List String

def parseEv (ws : List String) : Option Ev :=
  match ws with
  | ["acquire", a, b] => do let a ← a.toNat?; let b ← b.toNat?; pure (.acquire a b)
  | ["spin", a, b] => do let a ← a.toNat?; let b ← b.toNat?; pure (.spin a b)
  | ["release", a, b] => do let a ← a.toNat?; let b ← b.toNat?; pure (.release a b)
  | _ => none

def actorOf : Ev → Nat
  | .acquire a _ | .spin a _ | .release a _ => a

def step (d : D) (ws : List String) : D × String :=
  if d.dead then (d, "") else
  match ws with
  | ["init"] => ({ d with s := init, n := 0 }, "")
  | ["end"] => (d, s!"END accepted={d.n} transitions={d.seen.length} {d.seen}")
  | _ =>
    match parseEv ws with
    | none => ({ d with dead := true }, s!"REJECT {d.n} not-an-event-of-the-model {ws}")
    | some e =>
      match exec d.s e with
      | some s' =>
        let key := s!"{ws.head!}@{if (d.s.held (actorOf e)).isSome then "holding" else "free"}"
        ({ d with s := s', n := d.n + 1, seen := if d.seen.contains key then d.seen else key :: d.seen }, "")
      | none =>
        ({ d with dead := true },
          s!"REJECT {d.n} {ws} | actor holds bucket lock {d.s.held (actorOf e)}; " ++
          (match e with
           | .acquire _ b | .spin _ b | .release _ b => s!"lock of bucket {b} held by {d.s.lock b}"))

def main : IO Unit := Driver.runModel ({ s := init, n := 0, dead := false, seen := [] } : D) step
end Driver.UnitMapLock
