import ArgoVerif.Model.StackGeom
import Driver.Util
/-
Line-protocol driver for Model.StackGeom (C15), same protocol as harness/wb_stack.c:

  env <NAME> <VALUE>            -> env
  init <thread_stacksize>       -> init <thread_stacksize>
  rt <size> <who>               runtime-allocated stack of <size> bytes
  us <size> <off8> <who>        user-supplied stack at (64-aligned buffer) + 8*<off8>
  fin                           -> fin live=0
<who> = ee | xe | ex : created on an execution stream / an external thread, freed on an
execution stream / an external thread.
Addresses are printed relative to the block obtained from the allocator, so the model runs
with that block at address 0 (64 for the user buffer, which must not be NULL).
-/
namespace Driver.StackGeom
open ArgoVerif.Model.StackGeom

structure DS where
  defS : Int

def typeName : MemType → String
  | .mempoolDescStack => "poolDS"
  | .mallocDescStack => "mallocDS"
  | .mempoolDesc => "poolD"
  | .mallocDesc => "mallocD"

def describe (y : Ythread) (src : Src) (userBase : Option Int) : String :=
  let rel := freeThread y
  let blk := match src with
    | .pool _ => "blk=pool off=-"
    | .malloc p size => s!"blk={mallocBytes size} off={y.desc - p}"
  let fr := match rel, src with
    | .poolFree q, .pool p => if q = p then "fr=pool" else "fr=pool-mismatch"
    | .free q, .malloc p _ => s!"fr={q - p}"
    | _, _ => "fr=wrong-allocator"
  let d := match userBase with
    | none => s!"d={y.stacktop - y.desc}"
    | some a => s!"d=u{y.stacktop - a}"
  let lost := y.stacktop - usableTop y.stacktop
  let base := y.stacktop - y.stacksize
  let rsp := initialRsp y.stacktop
  let inside := if base ≤ rsp ∧ rsp + 8 ≤ y.stacktop then 1 else 0
  s!"t={typeName y.type} recS={y.stacksize} {d} dm={y.desc % 64} lost={lost} rspin={inside} {blk} | run in=1 gap=1 lo=1 hi=1 | {fr}"

def step (d : DS) (ws : List String) : DS × String :=
  match ws with
  | ["env", _, _] => (d, "env")
  | ["init", n] => match n.toInt? with
    | some n => ({ d with defS := n }, s!"init {n}")
    | none => (d, "bad-op")
  | ["fin"] => (d, "fin live=0")
  | ["rt", n, who] =>
    match n.toInt?, (who == "ee" || who == "ex"), (who == "xe") with
    | some S, onES, ext =>
      if !(onES || ext) || S ≤ 0 then (d, "bad-op") else
      let (y, src) := create (some (0, S)) d.defS onES 0
      (d, s!"rt {S} " ++ describe y src none)
    | _, _, _ => (d, "bad-op")
  | ["us", n, off, who] =>
    match n.toInt?, off.toInt?, (who == "ee" || who == "ex"), (who == "xe") with
    | some S, some off, onES, ext =>
      if !(onES || ext) || S ≤ 0 || off < 0 then (d, "bad-op") else
      let a : Int := 64 + 8 * off
      let (y, src) := create (some (a, S)) d.defS onES 0
      (d, s!"us {S} {off} " ++ describe y src (some a))
    | _, _, _, _ => (d, "bad-op")
  | _ => (d, "bad-op")

def main : IO Unit := Driver.runModel (⟨16384⟩ : DS) step
end Driver.StackGeom
