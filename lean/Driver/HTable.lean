import ArgoVerif.Model.HTable
import Driver.Util
namespace Driver.HTable
open ArgoVerif.Model.HTable

def dumpB (h : HT) (k : Int) : String :=
  let i := idx h.n k
  s!" | b{i}: {(h.b i).dump}"

def step (h : HT) (ws : List String) : HT × String :=
  match ws with
  | ["new", n] => match n.toNat? with
    | some n => (create n, "ok")
    | none => (h, "bad-op")
  | ["set", k, v] => match k.toInt?, v.toNat? with
    | some k, some v => let (h', o) := set h k v; (h', s!"set {if o then 1 else 0}" ++ dumpB h' k)
    | _, _ => (h, "bad-op")
  | ["get", k] => match k.toInt? with
    | some k => (h, match get h k with | some v => s!"get {v}" | none => "get none")
    | none => (h, "bad-op")
  | ["del", k] => match k.toInt? with
    | some k =>
      let (h', d) := delete h k
      let r := match d with | some true => "1" | some false => "0" | none => "untouched"
      (h', s!"del {r}" ++ dumpB h' k)
    | none => (h, "bad-op")
  | _ => (h, "bad-op")

def main : IO Unit := Driver.runModel (create 1) step
end Driver.HTable
