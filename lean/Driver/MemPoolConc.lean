import ArgoVerif.Model.MemPoolConc
import ArgoVerif.Gen.Consts
import Driver.Util
/- `driver mempoolconc`: validates a projected vsched trace of harness/sc_mempool.c against Model.MemPoolConc.
   first line:  init <per_bucket> <slots per page>        (maxLocal = ABT_MEM_POOL_MAX_LOCAL_BUCKETS from Gen.Consts)
   then one event per line (headers are `page.slot`, `-` is NULL / none); snapshot lines compare the real structure
   with the model state and are not model events:
     checkLoc <a> <bucket> ... | <cur>      local pool of actor a: full buckets then the current one (`nil` = no pool)
     checkPart <hdrs|->                     partial_bucket at the lock release
     checkPageLifo <pages|->                mem_page_lifo, top first
     checkBucketLifo <first headers|->      bucket_lifo, top first
   prints nothing for accepted lines, `REJECT <n> <line> | ...` for the first rejected one (later lines are ignored),
   `END accepted=<n> transitions=<k> [...] maxPageLifo=<m>` at `end`. -/
namespace Driver.MemPoolConc
open ArgoVerif ArgoVerif.Model.MemPoolConc
open ArgoVerif.Gen

structure D where
  P : Params
  s : St
  n : Nat
  dead : Bool
  seen : List String
  maxLifo : Nat

def pcName : Pc → String
  | .idle => "idle" | .take _ => "take" | .carving _ _ => "carving" | .needPage _ _ => "needPage"
  | .havePage _ _ _ => "havePage" | .got _ _ => "got" | .takeFailed _ => "takeFailed" | .retPart _ _ => "retPart"
  | .partPush _ _ => "partPush" | .partUnlock _ => "partUnlock" | .freeRet _ => "freeRet"
  | .destroying _ _ => "destroying" | .doneAlloc _ => "doneAlloc" | .doneFree => "doneFree" | .doneDestroy => "doneDestroy"

def b (s : String) : Option Bool := match s with | "1" => some true | "0" => some false | _ => none

def hdr (s : String) : Option Hdr :=
  match s.splitOn "." with
  | [p, i] => do let p ← p.toNat?; let i ← i.toNat?; pure (p, i)
  | _ => none

def ohdr (s : String) : Option (Option Hdr) := if s = "-" then some none else (hdr s).map some
def onat (s : String) : Option (Option Nat) := if s = "-" then some none else s.toNat?.map some

def hdrs (s : String) : Option (List Hdr) :=
  if s = "-" then some [] else (s.splitOn ",").mapM hdr

def nats (s : String) : Option (List Nat) :=
  if s = "-" then some [] else (s.splitOn ",").mapM (·.toNat?)

def showH (h : Hdr) : String := s!"{h.1}.{h.2}"
def showB (l : List Hdr) : String := if l.isEmpty then "-" else ",".intercalate (l.map showH)
def showN (l : List Nat) : String := if l.isEmpty then "-" else ",".intercalate (l.map toString)

def parseEv (ws : List String) : Option (Ev × Option Nat) :=
  match ws with
  | ["callInit", a] => do let a ← a.toNat?; pure (.callInit a, some a)
  | ["callAlloc", a] => do let a ← a.toNat?; pure (.callAlloc a, some a)
  | ["callFree", a, h] => do let a ← a.toNat?; let h ← hdr h; pure (.callFree a h, some a)
  | ["callDestroy", a] => do let a ← a.toNat?; pure (.callDestroy a, some a)
  | ["popBucket", a, r] => do let a ← a.toNat?; let r ← ohdr r; pure (.popBucket a r, some a)
  | ["popPage", a, r] => do let a ← a.toNat?; let r ← onat r; pure (.popPage a r, some a)
  | ["allocPage", a, ok] => do let a ← a.toNat?; let ok ← b ok; pure (.allocPage a ok, some a)
  | ["pushPage", a, p] => do let a ← a.toNat?; let p ← p.toNat?; pure (.pushPage a p, some a)
  | ["pushEmpty", a, p] => do let a ← a.toNat?; let p ← p.toNat?; pure (.pushEmpty a p, some a)
  | ["lockPart", a] => do let a ← a.toNat?; pure (.lockPart a, some a)
  | ["unlockPart", a] => do let a ← a.toNat?; pure (.unlockPart a, some a)
  | ["pushBucket", a, h] => do let a ← a.toNat?; let h ← ohdr h; pure (.pushBucket a h, some a)
  | ["retInit", a, ok] => do let a ← a.toNat?; let ok ← b ok; pure (.retInit a ok, some a)
  | ["retAlloc", a, r] => do let a ← a.toNat?; let r ← ohdr r; pure (.retAlloc a r, some a)
  | ["retFree", a] => do let a ← a.toNat?; pure (.retFree a, some a)
  | ["retDestroy", a] => do let a ← a.toNat?; pure (.retDestroy a, some a)
  | ["destroyStart"] => some (.destroyStart, none)
  | ["relLifo", p] => do let p ← p.toNat?; pure (.relLifo p, none)
  | ["lifoEmpty"] => some (.lifoEmpty, none)
  | ["relEmpty", p] => do let p ← p.toNat?; pure (.relEmpty p, none)
  | ["destroyEnd"] => some (.destroyEnd, none)
  | _ => none

def phaseName : Phase → String
  | .live => "live" | .drain => "drain" | .walk => "walk" | .dead => "dead"

def dumpSt (s : St) (a : Option Nat) : String :=
  let pcs := match a with
    | some a => s!" pc[{a}]={pcName (s.pc a)} held={showB (heldHdrs (s.pc a))} page={heldPage (s.pc a)} loc={match s.loc a with
        | none => "nil" | some l => " ".intercalate (l.full.map showB) ++ " | " ++ showB l.cur}"
    | none => ""
  s!"phase={phaseName s.phase} npages={s.npages} bucketLifo=[{" ".intercalate (s.bucketLifo.map showB)}] pageLifo={showN s.pageLifo} " ++
  s!"empty={showN s.emptyPages} part={showB s.part} lock={s.partLock} released={showN s.released} out={s.out.length}" ++ pcs

/-- local-pool snapshot: tokens `<bucket> ... | <cur>` or `nil` -/
def parseLoc (ws : List String) : Option (Option LPool) :=
  match ws with
  | ["nil"] => some none
  | _ =>
    let (fs, rest) := ws.span (· ≠ "|")
    match rest with
    | ["|", c] => do
      let f ← fs.mapM hdrs
      let c ← hdrs c
      pure (some ⟨f, c⟩)
    | _ => none

def step (d : D) (ws : List String) : D × String :=
  if d.dead then (d, "") else
  match ws with
  | ["init", per, slots] =>
    match per.toNat?, slots.toNat? with
    | some per, some slots =>
      ({ d with P := ⟨per, slots, Consts.memPoolMaxLocalBuckets.toNat⟩, s := init, n := 0 }, "")
    | _, _ => ({ d with dead := true }, s!"REJECT {d.n} bad-op {ws}")
  | ["end"] => (d, s!"END accepted={d.n} transitions={d.seen.length} {d.seen} maxPageLifo={d.maxLifo}")
  | ["dump"] => (d, "DUMP " ++ dumpSt d.s none)
  | "checkLoc" :: a :: rest =>
    match a.toNat?, parseLoc rest with
    | some a, some l =>
      if d.s.loc a = l then ({ d with n := d.n + 1 }, "")
      else ({ d with dead := true }, s!"REJECT {d.n} {ws} | local pool of actor {a} differs from the model: {dumpSt d.s (some a)}")
    | _, _ => ({ d with dead := true }, s!"REJECT {d.n} bad-op {ws}")
  | ["checkPart", l] =>
    match hdrs l with
    | some l =>
      if d.s.part = l then ({ d with n := d.n + 1 }, "")
      else ({ d with dead := true }, s!"REJECT {d.n} {ws} | partial_bucket differs from the model: {dumpSt d.s none}")
    | none => ({ d with dead := true }, s!"REJECT {d.n} bad-op {ws}")
  | ["checkPageLifo", l] =>
    match nats l with
    | some l =>
      if d.s.pageLifo = l then ({ d with n := d.n + 1 }, "")
      else ({ d with dead := true }, s!"REJECT {d.n} {ws} | mem_page_lifo differs from the model: {dumpSt d.s none}")
    | none => ({ d with dead := true }, s!"REJECT {d.n} bad-op {ws}")
  | ["checkBucketLifo", l] =>
    match hdrs l with
    | some l =>
      if d.s.bucketLifo.map (·.head?) = l.map some then ({ d with n := d.n + 1 }, "")
      else ({ d with dead := true }, s!"REJECT {d.n} {ws} | bucket_lifo differs from the model: {dumpSt d.s none}")
    | none => ({ d with dead := true }, s!"REJECT {d.n} bad-op {ws}")
  | _ =>
    match parseEv ws with
    | none => ({ d with dead := true }, s!"REJECT {d.n} bad-op {ws}")
    | some (e, a) =>
      match exec d.P d.s e with
      | some s' =>
        let key := match a with
          | some a => s!"{ws.head!}@{pcName (d.s.pc a)}>{pcName (s'.pc a)}"
          | none => s!"{ws.head!}"
        let key := if s'.pageLifo.length ≥ 2 ∧ (ws.head! = "pushPage") then key ++ "+lifo>=2" else key
        let seen := if d.seen.contains key then d.seen else key :: d.seen
        ({ d with s := s', n := d.n + 1, seen := seen, maxLifo := max d.maxLifo s'.pageLifo.length }, "")
      | none => ({ d with dead := true }, s!"REJECT {d.n} {ws} | {dumpSt d.s a}")

def main : IO Unit :=
  Driver.runModel ({ P := ⟨1, 1, 2⟩, s := init, n := 0, dead := false, seen := [], maxLifo := 0 } : D) step
end Driver.MemPoolConc
