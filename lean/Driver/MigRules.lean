import ArgoVerif.Model.MigRules
import Driver.Util
/- `driver migrules`: `req p|s <unit pool> <migratable 0|1> <k> <pool>...` -> the answer of harness/api_migrules.c -/
namespace Driver.MigRules
open ArgoVerif.Model.MigRules

def rcName : Rc → String
  | .ok => "ok" | .invThread => "inv_thread" | .migrationTarget => "migration_target" | .migrationNa => "migration_na"

def step (x : Unit) (ws : List String) : Unit × String :=
  match ws with
  | "req" :: kind :: u :: m :: k :: ps =>
    match u.toNat?, m.toNat?, k.toNat?, ps.mapM (fun s => s.toNat?) with
    | some u, some m, some k, some ps =>
      if (kind == "p" || kind == "s") && u < 4 && m < 2 && 1 ≤ k && k ≤ 4 && ps.length == k && ps.all (· < 4) && ps.Nodup
          && (kind != "p" || k == 1) then
        let unit : WUnit := { pool := u, migratable := m == 1, mainSched := false }
        let t : Target := if kind == "p" then .pool (ps.headD 0) else .sched ps
        match request unit t with
        | .ok => (x, s!"ok {(chosen t).getD 99} cb=1")
        | rc => (x, s!"{rcName rc} stay=1 cb=0")
      else (x, "bad-op")
    | _, _, _, _ => (x, "bad-op")
  | _ => (x, "bad-op")

def main : IO Unit := Driver.runModel () step
end Driver.MigRules
