import ArgoVerif.Model.KeyId
import Driver.Util
/- `driver keyid`: validates a projected trace against Model.KeyId.
   first line: init <start>; events: call a | fetchAdd a old | ret a id; anything else is rejected. -/
namespace Driver.KeyId
open ArgoVerif.Model.KeyId

structure D where
  s : St
  n : Nat
  dead : Bool
  seen : List String

def pcName : Pc → String
  | .idle => "idle" | .alloc => "alloc" | .got _ => "got"

def parseEv (ws : List String) : Option (Ev × Nat) :=
  match ws with
  | ["call", a] => do let a ← a.toNat?; pure (.call a, a)
  | ["fetchAdd", a, o] => do let a ← a.toNat?; let o ← o.toNat?; pure (.fetchAdd a o, a)
  | ["ret", a, i] => do let a ← a.toNat?; let i ← i.toNat?; pure (.ret a i, a)
  | _ => none

def step (d : D) (ws : List String) : D × String :=
  if d.dead then (d, "") else
  match ws with
  | ["init", st] => ({ d with s := init (st.toNat?.getD 0), n := 0 }, "")
  | ["end"] => (d, s!"END accepted={d.n} transitions={d.seen.length} {d.seen}")
  | _ =>
    match parseEv ws with
    | none => ({ d with dead := true }, s!"REJECT {d.n} not-an-event-of-the-model {ws} | counter={d.s.g}")
    | some (e, a) =>
      match exec d.s e with
      | some s' =>
        let key := s!"{ws.head!}@{pcName (d.s.pc a)}"
        ({ d with s := s', n := d.n + 1, seen := if d.seen.contains key then d.seen else key :: d.seen }, "")
      | none => ({ d with dead := true }, s!"REJECT {d.n} {ws} | pc={repr (d.s.pc a)} counter={d.s.g} returned={d.s.returned}")

def main : IO Unit := Driver.runModel ({ s := init 0, n := 0, dead := false, seen := [] } : D) step
end Driver.KeyId
