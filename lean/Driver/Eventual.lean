import ArgoVerif.Model.Eventual
import Driver.Util
/- `driver eventual`: validates a projected trace against Model.Eventual.
     first line:  init <nbytes> <initial buffer hex|-> <id>:<u|t|e> ...   (unlisted actors are ULTs)
     events: call a op v | ret a op rc ready v | acq a old | enq a | wake a n | rel a ready empty | obsLock v
     values are hex strings (the buffer bytes) or `-` (no buffer / not applicable = 0).
   Nothing is printed for accepted events, `REJECT <n> <line> | state` for the first rejected one, `END ...` at `end`. -/
namespace Driver.Eventual
open ArgoVerif.Model.Eventual

structure D where
  s : St
  n : Nat
  dead : Bool
  seen : List String

def b (s : String) : Option Bool := match s with | "1" => some true | "0" => some false | _ => none

def hexDigit (c : Char) : Option Nat :=
  if '0' ≤ c ∧ c ≤ '9' then some (c.toNat - '0'.toNat)
  else if 'a' ≤ c ∧ c ≤ 'f' then some (c.toNat - 'a'.toNat + 10)
  else if 'A' ≤ c ∧ c ≤ 'F' then some (c.toNat - 'A'.toNat + 10)
  else none

def hex (s : String) : Option Nat :=
  if s == "-" then some 0
  else if s.isEmpty then none
  else s.toList.foldlM (fun acc c => (hexDigit c).map (acc * 16 + ·)) 0

def parseRc : String → Option Rc
  | "ok" => some .ok | "ERR_EVENTUAL" => some .errEventual | "ERR_INV_EVENTUAL" => some .errInvEventual | _ => none

def parseOp : String → Option Op
  | "set" => some .set | "setbig" => some .setbig | "wait" => some .wait | "test" => some .test | "reset" => some .reset
  | "free" => some .free
  | _ => none

def parseKinds (ws : List String) : List (Nat × Kind) :=
  ws.filterMap fun w =>
    match w.splitOn ":" with
    | [i, "u"] => i.toNat?.map (·, Kind.ult)
    | [i, "t"] => i.toNat?.map (·, Kind.task)
    | [i, "e"] => i.toNat?.map (·, Kind.ext)
    | _ => none

def parseEv (ws : List String) : Option (Ev × Nat) :=
  match ws with
  | ["call", a, op, v] => do let a ← a.toNat?; let op ← parseOp op; let v ← hex v; pure (.call a op v, a)
  | ["ret", a, op, rc, r, v] => do
      let a ← a.toNat?; let op ← parseOp op; let rc ← parseRc rc; let r ← b r; let v ← hex v
      pure (.ret a op rc r v, a)
  | ["acq", a, o] => do let a ← a.toNat?; let o ← b o; pure (.acq a o, a)
  | ["enq", a] => do let a ← a.toNat?; pure (.enq a, a)
  | ["wake", a, n] => do let a ← a.toNat?; let n ← n.toNat?; pure (.wake a n, a)
  | ["rel", a, r, e] => do let a ← a.toNat?; let r ← b r; let e ← b e; pure (.rel a r e, a)
  | ["obsLock", v] => do let v ← b v; pure (.obsLock v, 0)
  | ["obs", r] => do let r ← b r; pure (.obs r, 0)
  | _ => none

def step (d : D) (ws : List String) : D × String :=
  if d.dead then (d, "") else
  match ws with
  | "init" :: nb :: v0 :: kinds =>
    let ks := parseKinds kinds
    let kind := fun a => match ks.lookup a with | some k => k | none => Kind.ult
    match nb.toNat?, hex v0 with
    | some nb, some v0 => ({ d with s := init kind nb v0, n := 0 }, "")
    | _, _ => ({ d with dead := true }, s!"REJECT {d.n} bad-op {ws}")
  | ["end"] => (d, s!"END accepted={d.n} transitions={d.seen.length} {d.seen}")
  | _ =>
    match parseEv ws with
    | none => ({ d with dead := true }, s!"REJECT {d.n} bad-op {ws}")
    | some (e, a) =>
      match ArgoVerif.Model.Eventual.step d.s e with
      | some s' =>
        let key := if ws.head! == "obsLock" || ws.head! == "obs" then ws.head! else
          s!"{ws.head!}{if ws.head! == "acq" then ws.getLast! else ""}@{repr (d.s.pc a)}"
        let seen := if d.seen.contains key then d.seen else key :: d.seen
        ({ d with s := s', n := d.n + 1, seen := seen }, "")
      | none =>
        ({ d with dead := true },
          s!"REJECT {d.n} {ws} | pc={repr (d.s.pc a)} ready={d.s.ready} value={d.s.value} lock={d.s.lock} q={d.s.q} epoch={d.s.epoch}")

def main : IO Unit :=
  Driver.runModel ({ s := init (fun _ => .ult) 0 0, n := 0, dead := false, seen := [] } : D) step

end Driver.Eventual
