import ArgoVerif.Model.FutexGen
import Driver.Util
/- `driver futexgen`: `w|t|r <bits> <v0> <k>` -> `sleep` | `wake`: the waiter sampled v0, k broadcasts follow, the kernel compares. -/
namespace Driver.FutexGen
open ArgoVerif.Model.FutexGen

def step (u : Unit) (ws : List String) : Unit × String :=
  match ws with
  | [m, b, v, k] =>
    if m ≠ "w" ∧ m ≠ "t" ∧ m ≠ "r" then (u, "bad-op") else
    match b.toNat?, v.toNat?, k.toNat? with
    | some b, some v, some k =>
      if v < 2 ^ b then (u, if lostWake b v k then "sleep" else "wake") else (u, "bad-op")
    | _, _, _ => (u, "bad-op")
  | _ => (u, "bad-op")

def main : IO Unit := Driver.runModel () step
end Driver.FutexGen
