import ArgoVerif.Model.Future
import Driver.Eventual
/- `driver future`: validates a projected trace against Model.Future.
     first line:  init <num_compartments> <has callback 0|1> <id>:<u|t|e> ...
     events: call a op v | ret a op rc ready | acq a old | ldCnt a v | cbBegin a | cb a v0 v1 .. | stCnt a v | enq a | wake a n
             | rel a counter n empty | tload a v | obsCnt v | obsLock v | arr v0 v1 ..
     set values / array contents are hex; counters decimal. -/
namespace Driver.Future
open ArgoVerif.Model.Future

structure D where
  s : St
  n : Nat
  dead : Bool
  seen : List String

def b := Driver.Eventual.b
def hex := Driver.Eventual.hex

def parseRc : String → Option Rc
  | "ok" => some .ok | "ERR_FUTURE" => some .errFuture | _ => none

def parseOp : String → Option Op
  | "set" => some .set | "wait" => some .wait | "test" => some .test | "reset" => some .reset | "free" => some .free
  | _ => none

def parseKinds (ws : List String) : List (Nat × Kind) :=
  ws.filterMap fun w =>
    match w.splitOn ":" with
    | [i, "u"] => i.toNat?.map (·, Kind.ult)
    | [i, "t"] => i.toNat?.map (·, Kind.task)
    | [i, "e"] => i.toNat?.map (·, Kind.ext)
    | _ => none

def parseEv (ws : List String) : Option (Ev × Nat) :=
  match ws with
  | ["call", a, op, v] => do let a ← a.toNat?; let op ← parseOp op; let v ← hex v; pure (.call a op v, a)
  | ["ret", a, op, rc, r] => do
      let a ← a.toNat?; let op ← parseOp op; let rc ← parseRc rc; let r ← b r; pure (.ret a op rc r, a)
  | ["acq", a, o] => do let a ← a.toNat?; let o ← b o; pure (.acq a o, a)
  | ["ldCnt", a, v] => do let a ← a.toNat?; let v ← v.toNat?; pure (.ldCnt a v, a)
  | ["cbBegin", a] => do let a ← a.toNat?; pure (.cbBegin a, a)
  | "cb" :: a :: vs => do let a ← a.toNat?; let vs ← vs.mapM hex; pure (.cb a vs, a)
  | ["stCnt", a, v] => do let a ← a.toNat?; let v ← v.toNat?; pure (.stCnt a v, a)
  | ["enq", a] => do let a ← a.toNat?; pure (.enq a, a)
  | ["wake", a, n] => do let a ← a.toNat?; let n ← n.toNat?; pure (.wake a n, a)
  | ["rel", a, c, n, e] => do let a ← a.toNat?; let c ← c.toNat?; let n ← n.toNat?; let e ← b e; pure (.rel a c n e, a)
  | ["tload", a, v] => do let a ← a.toNat?; let v ← v.toNat?; pure (.tload a v, a)
  | ["obsCnt", v] => do let v ← v.toNat?; pure (.obsCnt v, 0)
  | ["obsLock", v] => do let v ← b v; pure (.obsLock v, 0)
  | "arr" :: vs => do let vs ← vs.mapM hex; pure (.arr vs, 0)
  | _ => none

def noActor (ws : List String) : Bool := ws.head! == "obsCnt" || ws.head! == "obsLock" || ws.head! == "arr"

def step (d : D) (ws : List String) : D × String :=
  if d.dead then (d, "") else
  match ws with
  | "init" :: n :: c :: kinds =>
    let ks := parseKinds kinds
    let kind := fun a => match ks.lookup a with | some k => k | none => Kind.ult
    match n.toNat?, b c with
    | some n, some c => ({ d with s := init kind n c, n := 0 }, "")
    | _, _ => ({ d with dead := true }, s!"REJECT {d.n} bad-op {ws}")
  | ["end"] => (d, s!"END accepted={d.n} transitions={d.seen.length} {d.seen}")
  | _ =>
    match parseEv ws with
    | none => ({ d with dead := true }, s!"REJECT {d.n} bad-op {ws}")
    | some (e, a) =>
      match ArgoVerif.Model.Future.step d.s e with
      | some s' =>
        let key := if noActor ws then ws.head! else
          s!"{ws.head!}{if ws.head! == "acq" then ws.getLast! else ""}@{repr (d.s.pc a)}"
        let seen := if d.seen.contains key then d.seen else key :: d.seen
        ({ d with s := s', n := d.n + 1, seen := seen }, "")
      | none =>
        ({ d with dead := true },
          s!"REJECT {d.n} {ws} | pc={repr (d.s.pc a)} counter={d.s.counter} n={d.s.n} lock={d.s.lock} q={d.s.q} loc={d.s.loc a} arr={(List.range d.s.n).map d.s.arr} epoch={d.s.epoch}")

def main : IO Unit :=
  Driver.runModel ({ s := init (fun _ => .ult) 0 false, n := 0, dead := false, seen := [] } : D) step

end Driver.Future
