import ArgoVerif.Model.TQ
import ArgoVerif.Gen.PoolEnds
import Driver.Util
/-
`driver tq`          white-box protocol of harness/wb_tq.c   (thread_queue_* on NQ queues over NU units)
`driver pool <kind>` API protocol of harness/wb_poolapi.c    (ABT_pool_* on one pool per access mode)
-/
namespace Driver.TQ
open ArgoVerif.Model.TQ ArgoVerif.Model.Pool

def NQ : Nat := 4
def NU : Nat := 16

structure DS where
  w : World
  cur : Nat

def joinNat (xs : List Nat) : String := String.join (xs.map fun u => s!" {u}")

/-- ` | f: <head→next…> | b: <tail→prev…> | n=.. e=.. h=.. t=..` and the touched unit's fields -/
def dump (w : World) (i : Nat) (touched : Nat) : String :=
  let s := w.get i
  let base := s!" | f:{joinNat (members s)} | b:{joinNat (membersBack s)} | n={s.num} e={s.isEmpty} h={s.head} t={s.tail}"
  if touched = 0 then base
  else base ++ s!" | u{touched}: p={s.prev touched} n={s.next touched} in={s.inPool touched}"

def unitArg (t : String) : Option Nat :=
  match t.toNat? with
  | some u => if u ≤ NU then some u else none
  | none => none

def stepTQ (d : DS) (ws : List String) : DS × String :=
  let i := d.cur
  match ws with
  | ["sel", q] => match q.toNat? with
    | some q => if q < NQ then ({ d with cur := q }, "ok") else (d, "bad-op")
    | none => (d, "bad-op")
  | ["init"] =>
    let w := d.w.init i
    ({ d with w := w }, "init" ++ dump w i 0)
  | ["push_head", u] => match unitArg u with
    | some u => match d.w.step i (.pushHead u) with
      | some (w, _) => ({ d with w := w }, "push ok" ++ dump w i u)
      | none => (d, "undefined")
    | none => (d, "bad-op")
  | ["push_tail", u] => match unitArg u with
    | some u => match d.w.step i (.pushTail u) with
      | some (w, _) => ({ d with w := w }, "push ok" ++ dump w i u)
      | none => (d, "undefined")
    | none => (d, "bad-op")
  | ["pop_head"] => match d.w.step i .popHead with
    | some (w, .popped u) => ({ d with w := w }, (if u = 0 then "pop null" else s!"pop {u}") ++ dump w i u)
    | _ => (d, "undefined")
  | ["pop_tail"] => match d.w.step i .popTail with
    | some (w, .popped u) => ({ d with w := w }, (if u = 0 then "pop null" else s!"pop {u}") ++ dump w i u)
    | _ => (d, "undefined")
  | ["remove", u] => match unitArg u with
    | some u => match d.w.step i (.remove u) with
      | some (w, .rc .success) => ({ d with w := w }, "remove ok" ++ dump w i u)
      | some (w, .rc .errPool) => ({ d with w := w }, "remove err_pool" ++ dump w i u)
      | _ => (d, "undefined")
    | none => (d, "bad-op")
  | ["size"] => (d, s!"size {getSize (d.w.get i)}")
  | ["is_empty"] => (d, s!"empty {if isEmptyQ (d.w.get i) then 1 else 0}")
  | _ => (d, "bad-op")

def mainTQ : IO Unit := Driver.runModel ({ w := World.fresh, cur := 0 } : DS) stepTQ

/-! ### pool API -/

def kindOf : String → Option Kind
  | "fifo" => some .fifo
  | "fifo_wait" => some .fifoWait
  | "randws" => some .randws
  | _ => none

def accessOf : Nat → Option Access
  | 0 => some .priv
  | 1 => some .spsc
  | 2 => some .mpsc
  | 3 => some .spmc
  | 4 => some .mpmc
  | _ => none

def tbl := ArgoVerif.Gen.PoolEnds.table

def tail2 (w : World) (i : Nat) : String :=
  let s := w.get i
  s!" | n={getSize s} e={if isEmptyQ s then 1 else 0}"

def popStr (u : Nat) : String := if u = 0 then "pop null" else s!"pop {u}"

def unitsArg (ts : List String) : Option (List Nat) :=
  ts.mapM fun t => match t.toNat? with
    | some u => if 1 ≤ u ∧ u ≤ NU then some u else none
    | none => none

def stepPool (k : Kind) (d : DS) (ws : List String) : DS × String :=
  let i := d.cur
  match accessOf i with
  | none => (d, "bad-op")
  | some a =>
  let s := d.w.get i
  let fin (r : Option St) (ok : String) : DS × String :=
    match r with
    | some s' => let w := d.w.put i s'; ({ d with w := w }, ok ++ tail2 w i)
    | none => (d, "undefined")
  let finPop (r : Option (St × Nat)) : DS × String :=
    match r with
    | some (s', u) => let w := d.w.put i s'; ({ d with w := w }, popStr u ++ tail2 w i)
    | none => (d, "undefined")
  match ws with
  | ["sel", q] => match q.toNat? with
    | some q => if q < 5 then ({ d with cur := q }, "ok") else (d, "bad-op")
    | none => (d, "bad-op")
  | ["push", u, ctx] => match unitsArg [u], ctx.toNat? with
    | some [u], some ctx => fin (poolPush tbl k a s u ctx) "push ok"
    | _, _ => (d, "bad-op")
  | "push_many" :: ctx :: us => match ctx.toNat?, unitsArg us with
    | some ctx, some us =>
      -- pool_push_threads_ex: nothing is called when num == 0
      if us.isEmpty then (d, "push_many ok" ++ tail2 d.w i) else fin (poolPushMany tbl k a s us ctx) "push_many ok"
    | _, _ => (d, "bad-op")
  | ["pop", ctx] => match ctx.toNat? with
    | some ctx => finPop (poolPop tbl k a .pop s ctx)
    | none => (d, "bad-op")
  | ["pop_wait", ctx] => match ctx.toNat? with
    | some ctx => finPop (poolPop tbl k a .popWait s ctx)
    | none => (d, "bad-op")
  | ["pop_timedwait"] => finPop (poolPop tbl k a .popTimedwait s 0)
  | ["pop_many", ctx, n] => match ctx.toNat?, n.toNat? with
    | some ctx, some n =>
      -- pool_pop_threads_ex: `if (len > 0) … else *num = 0` (the else branch is the repair of finding F12)
      if n = 0 then (d, "pop_many 0:" ++ tail2 d.w i)
      else match poolPopMany tbl k a s n ctx with
        | some (s', us) =>
          let w := d.w.put i s'
          ({ d with w := w }, s!"pop_many {us.length}:" ++ String.join (us.map fun u => s!" {u}") ++ tail2 w i)
        | none => (d, "undefined")
    | _, _ => (d, "bad-op")
  | ["remove", u] => match unitsArg [u] with
    | some [u] => match poolRemove tbl k a s u with
      | some (s', .success) => let w := d.w.put i s'; ({ d with w := w }, "remove ok" ++ tail2 w i)
      | some (s', .errPool) => let w := d.w.put i s'; ({ d with w := w }, "remove err_pool" ++ tail2 w i)
      | none => (d, "undefined")
    | _ => (d, "bad-op")
  | ["size"] => (d, s!"size {getSize s}")
  | ["is_empty"] => (d, s!"empty {if isEmptyQ s then 1 else 0}")
  | _ => (d, "bad-op")

/-- every pool is created (`pool_init` → `thread_queue_init`) before the first line -/
def initWorld : World := (List.range 5).foldl (fun w i => w.init i) World.fresh

def mainPool (kind : String) : IO UInt32 := do
  match kindOf kind with
  | some k => Driver.runModel ({ w := initWorld, cur := 0 } : DS) (stepPool k); return 0
  | none => IO.eprintln "driver pool <fifo|fifo_wait|randws>"; return 2

end Driver.TQ
