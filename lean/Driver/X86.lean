import ArgoVerif.Model.X86
import ArgoVerif.Gen.Fcontext
import Driver.Util
/-
`driver x86` — runs a generated fcontext routine in the machine model on a given initial
state and prints the canonical final state; harness/fctx_native prints the same for the CPU.

line:   <routine> tok tok ...      tokens (all integers decimal):
   <reg>=<v>          rax rbx rcx rdx rsi rdi rbp rsp r8..r15   (default 0)
   mxcsr=<v> fpucw=<v>
   win=<base>,<nwords>   a window of 8-byte words that is part of the state (may repeat)
   m<addr>=<v>        64-bit word at 8-aligned address inside a window (default 0)
   watch=<addr>       64-bit word whose value at every external call is reported
output: pc=<v|none> <reg>=<v>.. mxcsr=<v> fpucw=<v> calls=<n> c=<target>,<arg>,<sp>,<watch>.. d<addr>=<v>..
   d-entries: window words whose final value differs from the initial one, ascending.
The external function is `trashEnv` (what fctx_cb in harness/fctx_tramp.S does).
-/
namespace Driver.X86
open ArgoVerif.Model.X86

def regNames : List (String × Reg) :=
  [("rax", .rax), ("rbx", .rbx), ("rcx", .rcx), ("rdx", .rdx), ("rsi", .rsi), ("rdi", .rdi),
   ("rbp", .rbp), ("rsp", .rsp), ("r8", .r8), ("r9", .r9), ("r10", .r10), ("r11", .r11),
   ("r12", .r12), ("r13", .r13), ("r14", .r14), ("r15", .r15)]

structure Input where
  regs : List (Reg × Int) := []
  mxcsr : Int := 0
  fpucw : Int := 0
  wins : List (Int × Nat) := []
  words : List (Int × Int) := []
  watch : Int := 0

def two64 : Int := 18446744073709551616

def lookupI (xs : List (Int × Int)) (a : Int) : Int :=
  match xs.find? (·.1 = a) with
  | some p => p.2
  | none => 0

/-- the 64-bit word containing byte address `a`, from the initial word list -/
def word0 (inp : Input) (a : Int) : Int := lookupI inp.words (a - a % 8)

def init32 (inp : Input) (a : Int) : Int := (word0 inp a / (2 ^ ((a % 8).toNat * 8))) % 4294967296
def init16 (inp : Input) (a : Int) : Int := (word0 inp a / (2 ^ ((a % 8).toNat * 8))) % 65536

def mkSt (inp : Input) : St where
  reg := fun r => match inp.regs.find? (·.1 = r) with | some p => p.2 | none => 0
  mem := fun a => lookupI inp.words a
  mem32 := init32 inp
  mem16 := init16 inp
  mxcsr := inp.mxcsr
  fpucw := inp.fpucw
  pc := none
  calls := []

def parseTok (inp : Input) (tok : String) : Option Input :=
  match tok.splitOn "=" with
  | [k, v] =>
    if k = "win" then
      match v.splitOn "," with
      | [b, n] => match b.toInt?, n.toNat? with
        | some b, some n => some { inp with wins := inp.wins ++ [(b, n)] }
        | _, _ => none
      | _ => none
    else match v.toInt? with
      | none => none
      | some v =>
        if k = "mxcsr" then some { inp with mxcsr := v }
        else if k = "fpucw" then some { inp with fpucw := v }
        else if k = "watch" then some { inp with watch := v }
        else match regNames.lookup k with
          | some r => some { inp with regs := (r, v) :: inp.regs }
          | none =>
            if k.startsWith "m" then
              match (k.drop 1).toInt? with
              | some a => some { inp with words := (a, v) :: inp.words }
              | none => none
            else none
  | _ => none

def parse (toks : List String) : Option Input :=
  toks.foldlM parseTok {}

/-- final value of the aligned 64-bit word at `a`, reassembled from the three views: a view
counts where it differs from its initial value (sound because no generated routine mixes
widths on one location — `fctx_wellformed`) -/
def finalWord (inp : Input) (s : St) (a : Int) : Int :=
  let w0 := lookupI inp.words a
  if s.mem a ≠ w0 then s.mem a % two64 else
  let half (h : Int) : Int :=
    let v := s.mem32 (a + h)
    if v ≠ init32 inp (a + h) then v % 4294967296 else
      (s.mem16 (a + h) % 65536) + 65536 * (s.mem16 (a + h + 2) % 65536)
  half 0 + 4294967296 * half 4

def render (inp : Input) (s : St) : String := Id.run do
  let mut out := match s.pc with
    | some a => s!"pc={a % two64}"
    | none => "pc=none"
  for (n, r) in regNames do
    out := out ++ s!" {n}={s.reg r % two64}"
  out := out ++ s!" mxcsr={s.mxcsr} fpucw={s.fpucw} calls={s.calls.length}"
  for c in s.calls.reverse do
    out := out ++ s!" c={c.target % two64},{c.arg % two64},{c.sp % two64},{c.mem inp.watch % two64}"
  for (b, n) in inp.wins do
    for i in [0:n] do
      let a := b + 8 * (i : Int)
      let v := finalWord inp s a
      if v ≠ lookupI inp.words a then out := out ++ s!" d{a}={v}"
  return out

def step (_ : Unit) (ws : List String) : Unit × String :=
  match ws with
  | [] => ((), "bad-op")
  | name :: toks =>
    match ArgoVerif.Gen.Fcontext.routines.lookup name, parse toks with
    | some prog, some inp => ((), render inp (run trashEnv (mkSt inp) prog))
    | _, _ => ((), "bad-op")

def main : IO Unit := Driver.runModel () step
end Driver.X86
