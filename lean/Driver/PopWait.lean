import ArgoVerif.Model.PopWait
import Driver.Util
/- `driver popwait`: validate the projected trace of one pool against Model.PopWait.
     init poll|fwait
     call a push u | call a pop tl | call a popWait t tl | call a popTimedwait abs     (times in ns)
     ret a none|u
     advance v | clock a v | sleepDone a
     tas a 0|1 | loadLock a 0|1 | loadEmpty a 0|1 | clear a | link a | take a none|u
     mlock a | munlock a | condWait a dl | signal a none|w | timeout a
     end -/
namespace Driver.PopWait
open ArgoVerif.Model ArgoVerif.Model.PopWait

def b (s : String) : Option Bool := match s with | "1" => some true | "0" => some false | _ => none
def on (s : String) : Option (Option Nat) := if s = "none" then some none else s.toNat?.map some

def parseEv (ws : List String) : Option (Ev × Nat) :=
  match ws with
  | ["call", a, "push", u] => do let a ← a.toNat?; let u ← u.toNat?; pure (.call a (.push u), a)
  | ["call", a, "pop", tl] => do let a ← a.toNat?; let tl ← b tl; pure (.call a (.pop tl), a)
  | ["call", a, "popWait", t, tl] => do let a ← a.toNat?; let t ← t.toNat?; let tl ← b tl; pure (.call a (.popWait t tl), a)
  | ["call", a, "popTimedwait", t] => do let a ← a.toNat?; let t ← t.toNat?; pure (.call a (.popTimedwait t), a)
  | ["ret", a, r] => do let a ← a.toNat?; let r ← on r; pure (.ret a r, a)
  | ["advance", v] => do let v ← v.toNat?; pure (.advance v, 0)
  | ["tas", a, o] => do let a ← a.toNat?; let o ← b o; pure (.tas a o, a)
  | ["loadLock", a, v] => do let a ← a.toNat?; let v ← b v; pure (.loadLock a v, a)
  | ["loadEmpty", a, v] => do let a ← a.toNat?; let v ← b v; pure (.loadEmpty a v, a)
  | ["clear", a] => do let a ← a.toNat?; pure (.clear a, a)
  | ["link", a] => do let a ← a.toNat?; pure (.link a, a)
  | ["take", a, r] => do let a ← a.toNat?; let r ← on r; pure (.take a r, a)
  | ["clock", a, v] => do let a ← a.toNat?; let v ← v.toNat?; pure (.clock a v, a)
  | ["sleepDone", a] => do let a ← a.toNat?; pure (.sleepDone a, a)
  | ["mlock", a] => do let a ← a.toNat?; pure (.mlock a, a)
  | ["munlock", a] => do let a ← a.toNat?; pure (.munlock a, a)
  | ["condWait", a, d] => do let a ← a.toNat?; let d ← d.toNat?; pure (.condWait a d, a)
  | ["signal", a, w] => do let a ← a.toNat?; let w ← on w; pure (.signal a w, a)
  | ["timeout", a] => do let a ← a.toNat?; pure (.timeout a, a)
  | _ => none

structure D where
  k : Kind
  s : St
  n : Nat
  dead : Bool
  seen : List String

def dstep (d : D) (ws : List String) : D × String :=
  if d.dead then (d, "") else
  match ws with
  | ["init", "poll"] => ({ d with k := .poll, s := init, n := 0 }, "")
  | ["init", "fwait"] => ({ d with k := .fwait, s := init, n := 0 }, "")
  | ["end"] => (d, s!"END accepted={d.n} transitions={d.seen.length} {d.seen}")
  | _ =>
    match parseEv ws with
    | none => ({ d with dead := true }, s!"REJECT {d.n} bad-op {ws}")
    | some (e, a) =>
      match step d.k d.s e with
      | some s' =>
        let key := match e with
          | .advance _ => "advance"
          | .ret _ r =>
            let c := match d.s.cur a with | .push _ => "push" | .pop _ => "pop" | .popWait _ _ => "popWait" | .popTimedwait _ => "popTimedwait"
            s!"ret:{if r.isSome then "unit" else "none"}@{c}"
          | .take _ r => s!"take:{if r.isSome then "unit" else "none"}@{repr (d.s.pc a)}"
          | .signal _ w => s!"signal:{if w.isSome then "wake" else "nobody"}"
          | _ => s!"{ws.head!}@{repr (d.s.pc a)}"
        let seen := if d.seen.contains key then d.seen else key :: d.seen
        ({ d with s := s', n := d.n + 1, seen := seen }, "")
      | none =>
        ({ d with dead := true },
          s!"REJECT {d.n} {ws} | pc={repr (d.s.pc a)} cur={repr (d.s.cur a)} q={d.s.q} flag={d.s.flag} lock={d.s.lock} owner={d.s.owner} now={d.s.now} wake={d.s.wake a} start={d.s.start a} got={d.s.got a} reads={d.s.reads a} waiters={d.s.waiters} woken={d.s.woken}")

def main : IO Unit :=
  Driver.runModel ({ k := .poll, s := init, n := 0, dead := false, seen := [] } : D) dstep
end Driver.PopWait
