import ArgoVerif.Model.MemPool
import Driver.Util
/-
Line-protocol driver for Model.MemPool (C15), same protocol as harness/wb_mempool.c:

  new <per_bucket> <header_size> <page_size> <header_offset>   -> ok
  init <i> | alloc <i> | free <i> <k> | destroy <i> | budget <n>

`free i k` frees the k-th live block (in order of allocation).  After every operation the
result and a canonical dump: pages renamed in first-seen order, header = page.slot.
-/
namespace Driver.MemPool
open ArgoVerif.Model.MemPool ArgoVerif

def nLocal : Nat := 4

structure DS where
  P : Params
  s : St
  live : List Hdr
  ren : List Nat        -- page rename table (first seen first)

def pageStructC : Nat := Gen.Consts.sizeofMemPoolPage.toNat
def maxLocalC : Nat := Gen.Consts.memPoolMaxLocalBuckets.toNat

def DS.init : DS :=
  { P := ⟨1, 1, 1 + pageStructC, pageStructC, maxLocalC⟩, s := ArgoVerif.Model.MemPool.init 1000000000,
    live := [], ren := [] }

def renPage (ren : List Nat) (p : Nat) : List Nat × Nat :=
  match ren.idxOf? p with
  | some k => (ren, k)
  | none => (ren ++ [p], ren.length)

def showHdr (P : Params) (ren : List Nat) (h : Hdr) : List Nat × String :=
  let (ren, k) := renPage ren h.1
  if h.2 % P.headerSize = 0 then (ren, s!"{k}.{h.2 / P.headerSize}") else (ren, s!"{k}.!{h.2}")

def showChain (P : Params) (ren : List Nat) (hs : List Hdr) : List Nat × String :=
  hs.foldl (fun (acc : List Nat × String) h =>
    let (ren, t) := showHdr P acc.1 h
    (ren, if acc.2.isEmpty then t else acc.2 ++ " " ++ t)) (ren, "")

/-- is the chain NULL-terminated after `n` headers?  `0` yes, `x` no, `?` chain too short -/
def endMark (s : St) (b : Hdr) (n : Nat) : String :=
  let c := walk s.next n (some b)
  if c.length < n then "?" else
  match c.getLast? with
  | none => "?"
  | some l => if s.next l = none then "0" else "x"

def dump (d : DS) : List Nat × String :=
  let P := d.P
  let s := d.s
  -- local pools
  let (ren, out) := (List.range nLocal).foldl (fun (acc : List Nat × String) i =>
    match s.lp i with
    | none => acc
    | some lp =>
      let (ren, t) := (List.range (lp.bidx + 1)).foldl (fun (a : List Nat × String) j =>
        let b := lp.buckets j
        let (ren, c) := showChain P a.1 (bucketChain s b)
        (ren, a.2 ++ s!" [{s.cnt b}:{c};{endMark s b (s.cnt b)}]")) (acc.1, "")
      (ren, acc.2 ++ s!" L{i}:idx={lp.bidx}" ++ t)) (d.ren, "")
  -- partial bucket
  let (ren, out) := match s.part with
    | none => (ren, out ++ " P:-")
    | some p =>
      let (ren, c) := showChain P ren (bucketChain s p)
      (ren, out ++ s!" P:[{s.cnt p}:{c};{endMark s p (s.cnt p)}]")
  -- global LIFO of full buckets, top first
  let (ren, out) := s.lifo.foldl (fun (acc : List Nat × String) b =>
    let (ren, c) := showChain P acc.1 (walk s.next P.perBucket (some b))
    (ren, acc.2 ++ " {" ++ c ++ s!";{endMark s b P.perBucket}" ++ "}")) (ren, out ++ s!" G:{s.lifo.length}")
  -- pages with room, top first; empty pages, newest first
  let (ren, out) := s.pageLifo.foldl (fun (acc : List Nat × String) p =>
    let (ren, k) := renPage acc.1 p
    (ren, acc.2 ++ s!" {k}@{(s.pages p).extraOff}+{(s.pages p).extraSize}")) (ren, out ++ " ML:")
  let (ren, out) := (s.emptyPages.take 4).foldl (fun (acc : List Nat × String) p =>
    let (ren, k) := renPage acc.1 p
    (ren, acc.2 ++ s!" {k}@{(s.pages p).extraOff}+{(s.pages p).extraSize}")) (ren, out ++ s!" E:{s.emptyPages.length}")
  (ren, out)

def finish (d : DS) (res : String) : DS × String :=
  let (ren, t) := dump d
  ({ d with ren := ren }, res ++ " |" ++ t)

def step (d : DS) (ws : List String) : DS × String :=
  match ws with
  | ["new", a, b, c, _ho] =>
    match a.toNat?, b.toNat?, c.toNat? with
    | some pb, some hs, some ps =>
      let P : Params := ⟨pb, hs, ps, pageStructC, maxLocalC⟩
      if decide P.OK then ({ DS.init with P := P }, "ok") else (d, "bad-params")
    | _, _, _ => (d, "bad-op")
  | ["budget", n] =>
    match n.toNat? with
    | some n => match stepO d.P d.s (.budget n) with
      | some (s', _) => finish { d with s := s' } "budget"
      | none => (d, "precondition")
    | none => (d, "bad-op")
  | ["init", i] =>
    match i.toNat? with
    | some i =>
      if i ≥ nLocal then (d, "bad-op") else
      match stepO d.P d.s (.initLocal i) with
      | some (s', .ok true) => finish { d with s := s' } "init ok"
      | some (s', _) => finish { d with s := s' } "init err"
      | none => (d, "precondition")
    | none => (d, "bad-op")
  | ["alloc", i] =>
    match i.toNat? with
    | some i =>
      if i ≥ nLocal then (d, "bad-op") else
      match stepO d.P d.s (.alloc i) with
      | some (s', .mem (some h)) =>
        let (ren, t) := showHdr d.P d.ren h
        finish { d with s := s', live := d.live ++ [h], ren := ren } s!"alloc {t}"
      | some (s', _) => finish { d with s := s' } "alloc err"
      | none => (d, "precondition")
    | none => (d, "bad-op")
  | ["free", i, k] =>
    match i.toNat?, k.toNat? with
    | some i, some k =>
      if i ≥ nLocal then (d, "bad-op") else
      match d.live[k]? with
      | none => (d, "bad-op")
      | some h =>
        match stepO d.P d.s (.free i h) with
        | some (s', _) =>
          let (ren, t) := showHdr d.P d.ren h
          finish { d with s := s', live := d.live.eraseIdx k, ren := ren } s!"free {t}"
        | none => (d, "precondition")
    | _, _ => (d, "bad-op")
  | ["destroy", i] =>
    match i.toNat? with
    | some i =>
      if i ≥ nLocal then (d, "bad-op") else
      match stepO d.P d.s (.destroyLocal i) with
      | some (s', _) => finish { d with s := s' } "destroy"
      | none => (d, "precondition")
    | none => (d, "bad-op")
  | _ => (d, "bad-op")

def main : IO Unit := Driver.runModel DS.init step
end Driver.MemPool
