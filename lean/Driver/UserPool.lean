import ArgoVerif.Model.Assoc
import ArgoVerif.Gen.Consts
import Driver.Util
/- line-protocol driver for Model.Assoc at API level; mirrors harness/api_userpool.c.
   The driver adds what the harness itself implements (pool contents, arena slots, pop choice);
   every create_unit / free_unit / table effect comes from Model.Assoc / Model.UnitMap. -/
namespace Driver.UserPool
open ArgoVerif.Model
open ArgoVerif.Model.Assoc
open ArgoVerif.Gen

def exp : Nat := Consts.unitHashTableSizeExp.toNat
def nul : UInt64 := UInt64.ofNat Consts.unitNull.toNat
def npools : Nat := 7
def nslots : Nat := 48
def ntwin : Nat := 512   -- twin slot nslots+k belongs to work unit k (pools 5 and 6 share it)
def unitSize : Nat := 16   -- sizeof(uunit) of the harness

def isBuiltinPool (p : Nat) : Bool := p < 2

/-- arena slot offsets: ascending offsets from 64 (step 8) whose hash index is 1 or 2 and that
do not overlap the previous slot -/
def slotOffsets : Array Nat := Id.run do
  let mut out : Array Nat := #[]
  let mut off := 64
  let mut fuel := 200000
  while out.size < nslots + ntwin && fuel > 0 do
    fuel := fuel - 1
    let hv := UnitMap.hashIndex exp (UInt64.ofNat off)
    if (hv == 1 || hv == 2) && (out.isEmpty || off ≥ out.back! + unitSize) then
      out := out.push off
    off := off + 8
  return out

def slotOf (u : UInt64) : Int :=
  match slotOffsets.toList.idxOf? u.toNat with
  | some i => i
  | none => -1

structure TS where
  st : Nat := 0          -- 0 free 1 in pool 2 in hand 3 terminated
  kind : Nat := 0        -- 0 ult 1 task
  entered : Nat := 0
  finished : Nat := 0
  started : Bool := false
  pending : Option Nat := none

structure DS where
  a : St := St.init exp nul isBuiltinPool
  ts : Array TS := #[]
  q : Array (List Nat) := Array.replicate npools []
  used : Array Bool := Array.replicate nslots false
  failNext : Array Bool := Array.replicate npools false
  printed : Nat := 0

def evStr (e : Ev) : String :=
  match e with
  | .create p t u m => if u == nul then s!" | create p{p} t{t} null" else s!" | create p{p} t{t} u{slotOf u} m{m}"
  | .free p u n => s!" | free p{p} u{slotOf u} m{n}"
  | .use p u => s!" | push p{p} u{slotOf u}"

/-- print and account the events logged since the last call -/
def flushEvents (d : DS) : DS × String :=
  let n := d.a.log.length - d.printed
  let evs := (d.a.log.take n).reverse
  let used := evs.foldl (fun (u : Array Bool) e =>
    match e with
    | .create _ _ x _ => if x == nul then u else u.setIfInBounds (slotOf x).toNat true
    | .free _ x _ => u.setIfInBounds (slotOf x).toNat false
    | _ => u) d.used
  ({ d with printed := d.a.log.length, used := used }, String.join (evs.map evStr))

/-- what the harness's create_unit of pool `p` would return now -/
def nextUnit (d : DS) (p : Nat) (t : Nat) : UInt64 :=
  if d.failNext.getD p false then nul
  else if p ≥ 5 then (if t < ntwin then UInt64.ofNat (slotOffsets.getD (nslots + t) 0) else nul)
  else match d.used.toList.idxOf? false with
    | some i => UInt64.ofNat (slotOffsets.getD i 0)
    | none => nul

/-- create_unit was called iff a `create` event for pool p was logged: then the fail flag is consumed -/
def consumeFail (d : DS) (before : Nat) (p : Nat) : DS :=
  let n := d.a.log.length - before
  if (d.a.log.take n).any (fun e => match e with | .create p' _ _ _ => p' == p | _ => false) then
    { d with failNext := d.failNext.setIfInBounds p false }
  else d

def rcCode : Rc → Int
  | .ok => Consts.errSuccess
  | .other => Consts.errOther
  | .mem => Consts.errMem

def getT (d : DS) (t : Nat) : TS := d.ts.getD t {}
def setT (d : DS) (t : Nat) (x : TS) : DS := { d with ts := d.ts.setIfInBounds t x }
def enq (d : DS) (p t : Nat) : DS := { d with q := d.q.setIfInBounds p (d.q.getD p [] ++ [t]) }

/-- push thread `t` to its associated pool (`ABTI_pool_push(p_pool, p_thread->unit)`) -/
def pushAssoc (d : DS) (t : Nat) : DS :=
  match (d.a.thr t).pool with
  | some p => enq { d with a := poolUse d.a t } p t
  | none => d

/-- `ABT_pool_pop_threads(pool, buf, m, &n)` on a built-in pool (pop_many from the head) or on the legacy pool 4
(the adapter calls the user's `p_pop` until the buffer is full or the pool reports empty, and translates every unit with the
runtime's table): the queue effect and the number of `p_pop` calls are `Model.Assoc.popManyLoop`
(Props/C14 `batch.pop_many_conserves`, `pop_many_calls`); returns the threads taken in order and the callback events -/
def popMany (d : DS) (p : Nat) (m : Nat) : DS × List Nat × String :=
  let (got, left, calls) := popManyLoop (d.q.getD p []) m
  let d1 := { d with q := d.q.setIfInBounds p left }
  let d2 := got.foldl (fun dd t => setT dd t { getT dd t with st := 2 }) d1
  let evs := got.map fun t =>
    match (d.a.thr t).unit with
    | .user u =>
      let chk := if p == 4 && unitThread d.a (.user u) != some t then "!lookup-mismatch" else ""
      s!" | pop p{p} u{slotOf u}" ++ chk
    | _ => ""
  let tailEv := if !isBuiltinPool p && calls > got.length then s!" | pop p{p} none" else ""
  (d2, got, String.join evs ++ tailEv)

/-- `ABT_pool_push_threads(pool, ts, n)` into a built-in pool: every thread is re-associated first (the unit a
user-defined pool made for it is released), then all are pushed in order -/
def pushMany (d : DS) (p : Nat) (ts : List Nat) : Option DS :=
  let r := ts.foldl (fun (acc : Option DS) t =>
    match acc with
    | none => none
    | some d =>
      match setAssoc d.a t p (nextUnit d p t) true with
      | some (a', .ok) => some { d with a := a' }
      | _ => none) (some d)
  match r with
  | none => none
  | some d1 => some (ts.foldl (fun d t => setT (pushAssoc d t) t { getT d t with st := 1 }) d1)

def validT (d : DS) (t st : Nat) : Bool := t < d.ts.size && (getT d t).st == st

def step (d : DS) (ws : List String) : DS × String :=
  match ws with
  | ["create", k, p] =>
    match p.toNat? with
    | some p =>
      if p < npools && (k == "ult" || k == "task") then
        let t := d.ts.size
        let before := d.a.log.length
        let (a', rc) := initPool d.a t p (nextUnit d p t) true
        let d1 := consumeFail { d with a := a' } before p
        if rc == .ok then
          let d2 := { d1 with ts := d1.ts.push { st := 1, kind := if k == "task" then 1 else 0 } }
          let d3 := pushAssoc d2 t
          let (d4, ev) := flushEvents d3
          (d4, s!"create {rcCode rc} t{t}" ++ ev)
        else
          let (d4, ev) := flushEvents d1
          (d4, s!"create {rcCode rc}" ++ ev)
      else (d, "bad-op")
    | none => (d, "bad-op")
  | ["pop", p, i] =>
    match p.toNat?, i.toNat? with
    | some p, some i =>
      if p < npools then
        let l := d.q.getD p []
        if l.isEmpty then
          (d, "pop 0 none" ++ (if isBuiltinPool p then "" else s!" | pop p{p} none"))
        else
          let idx := if isBuiltinPool p then 0 else i % l.length
          let t := l.getD idx 0
          let d1 := { d with q := d.q.setIfInBounds p (l.eraseIdx idx) }
          let d2 := setT d1 t { getT d1 t with st := 2 }
          let ev := match (d.a.thr t).unit with
            | .user u =>
              -- the legacy pool hands back a unit; the runtime translates it with its table
              let chk := if p == 4 && unitThread d.a (.user u) != some t then "!lookup-mismatch" else ""
              s!" | pop p{p} u{slotOf u}" ++ chk
            | _ => ""
          (d2, s!"pop 0 t{t}" ++ ev)
      else (d, "bad-op")
    | _, _ => (d, "bad-op")
  | ["popn", p, m] =>
    match p.toNat?, m.toNat? with
    | some p, some m =>
      if (p < 2 || p == 4) && 1 ≤ m && m ≤ 8 then
        let (d1, ts, ev) := popMany d p m
        (d1, s!"popn 0 {ts.length}" ++ String.join (ts.map fun t => s!" t{t}") ++ ev)
      else (d, "bad-op")
    | _, _ => (d, "bad-op")
  | "pushn" :: p :: tl =>
    match p.toNat?, tl.mapM (fun x => x.toNat?) with
    | some p, some ts =>
      if p < 2 && 1 ≤ ts.length && ts.length ≤ 4 && ts.Nodup && ts.all (fun t => validT d t 2) then
        match pushMany d p ts with
        | none => (d, "pushn abort")
        | some d1 =>
          let (d2, ev) := flushEvents d1
          (d2, "pushn 0" ++ ev)
      else (d, "bad-op")
    | _, _ => (d, "bad-op")
  | "run" :: t :: act :: rest =>
    match t.toNat? with
    | some t =>
      let tgt : Option Nat := match rest with
        | [p] => p.toNat?
        | _ => none
      let okAct := act == "f" || act == "y" || (act == "m" && (match tgt with | some p => p < npools | none => false))
      if validT d t 2 && okAct && (rest.length ≤ 1) then
        -- ABTI_ythread_schedule: a pending migration request is handled first; if it succeeds the
        -- work unit is pushed to its new pool instead of being run
        let x0 := getT d t
        let (dS, migrated) := match x0.pending with
          | none => (d, false)
          | some p =>
            let before := d.a.log.length
            match setAssoc d.a t p (nextUnit d p t) true with
            | none => (d, false)
            | some (a', rc) =>
              let dd := consumeFail { d with a := a' } before p
              if rc == Rc.ok then (setT dd t { x0 with pending := none }, true) else (dd, false)
        if migrated then
          let d2 := setT (pushAssoc dS t) t { getT dS t with st := 1 }
          let (d3, ev) := flushEvents d2
          (d3, "run 0 migrated" ++ ev)
        else
        let d := dS
        let x := getT d t
        let x := if x.started then x else { x with started := true, entered := x.entered + 1 }
        if act == "f" || x.kind == 1 then
          let (d1, ev) := flushEvents (setT d t { x with st := 3, finished := x.finished + 1 })
          (d1, "run 0 term" ++ ev)
        else
          -- optional migration request, then yield: pending request handled, pushed to its pool
          let (x, pre) :=
            if act == "m" then
              let p := tgt.getD 0
              if (d.a.thr t).pool == some p then (x, s!" migrate={Consts.errMigrationTarget}")
              else ({ x with pending := some p }, s!" migrate={Consts.errSuccess}")
            else (x, "")
          let d0 := setT d t x
          let (evPre) := (flushEvents d0)
          let d0 := evPre.1
          let (d1, x1) := match x.pending with
            | none => (d0, x)
            | some p =>
              let before := d0.a.log.length
              match setAssoc d0.a t p (nextUnit d0 p t) true with
              | none => (d0, x)
              | some (a', rc) =>
                let dd := consumeFail { d0 with a := a' } before p
                (dd, if rc == Rc.ok then { x with pending := none } else x)
          let d2 := setT (pushAssoc d1 t) t { x1 with st := 1 }
          let (d3, ev) := flushEvents d2
          (d3, "run 0 yield" ++ evPre.2 ++ pre ++ ev)
      else (d, "bad-op")
    | none => (d, "bad-op")
  | [op, t, p] =>
    match t.toNat?, p.toNat? with
    | some t, some p =>
      if (op == "push" || op == "pushu" || op == "setpool") && validT d t 2 && p < npools then
        let before := d.a.log.length
        let r := if op == "pushu" then unitSetAssoc d.a (d.a.thr t).unit p (nextUnit d p t) true
                 else setAssoc d.a t p (nextUnit d p t) true
        match r with
        | none => (d, s!"{op} abort")
        | some (a', rc) =>
          let d1 := consumeFail { d with a := a' } before p
          let d2 := if rc == .ok && op != "setpool" then setT (pushAssoc d1 t) t { getT d1 t with st := 1 } else d1
          let (d3, ev) := flushEvents d2
          (d3, s!"{op} {rcCode rc}" ++ ev)
      else if op == "revive" && validT d t 3 && p < npools then
        let before := d.a.log.length
        match setAssoc d.a t p (nextUnit d p t) true with
        | none => (d, "revive abort")
        | some (a', rc) =>
          let d1 := consumeFail { d with a := a' } before p
          let d2 := if rc == .ok then
              setT (pushAssoc d1 t) t { getT d1 t with st := 1, started := false, pending := none }
            else d1
          let (d3, ev) := flushEvents d2
          (d3, s!"revive {rcCode rc}" ++ ev)
      else (d, "bad-op")
    | _, _ => (d, "bad-op")
  | ["free", t] =>
    match t.toNat? with
    | some t =>
      if validT d t 3 then
        match unsetAssoc d.a t with
        | none => (d, "free abort")
        | some a' =>
          let d1 := setT { d with a := a' } t { getT d t with st := 0 }
          let (d2, ev) := flushEvents d1
          (d2, "free 0" ++ ev)
      else (d, "bad-op")
    | none => (d, "bad-op")
  | ["fail", p] =>
    match p.toNat? with
    | some p => if 2 ≤ p && p < npools then ({ d with failNext := d.failNext.setIfInBounds p true }, "fail") else (d, "bad-op")
    | none => (d, "bad-op")
  | ["xlat", t] =>
    match t.toNat? with
    | some t =>
      if t < d.ts.size && (getT d t).st != 0 then
        let u := (d.a.thr t).unit
        let back := match unitThread d.a u with
          | some b => s!"t{b}"
          | none => "abort"
        match u with
        | .user x => (d, s!"xlat 0 u{slotOf x} {back}")
        | _ => (d, s!"xlat 0 builtin {back}")
      else (d, "bad-op")
    | none => (d, "bad-op")
  | ["stat"] =>
    let m := d.a.map
    let parts := (List.range (2 ^ exp)).filterMap fun i =>
      let c := m.b i
      if c.isEmpty then none
      else some (s!" | b{i}:" ++ String.join (c.map fun e =>
        if e.unit == m.nul then " -" else s!" u{slotOf e.unit}>t{e.thr}"))
    (d, "stat" ++ String.join parts)
  | ["fin"] =>
    (d, "fin" ++ String.join (d.ts.toList.map fun x => s!" {x.entered}/{x.finished}"))
  | _ => (d, "bad-op")

def main : IO Unit := Driver.runModel ({} : DS) step
end Driver.UserPool
