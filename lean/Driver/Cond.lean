import ArgoVerif.Model.Cond
import Driver.Util
/- `driver cond` / `driver waitlist`: validate projected traces against Model.Cond / Model.WaitList.
   first line:  init <ult actor ids...>;  then one event per line; `end` prints the summary. -/
namespace Driver.Cond
open ArgoVerif.Model

def b (s : String) : Option Bool := match s with | "1" => some true | "0" => some false | _ => none

def parseWl (ws : List String) : Option (WaitList.Ev × Nat) :=
  match ws with
  | ["begin", a] => do let a ← a.toNat?; pure (.begin a, a)
  | ["tasL", a, o] => do let a ← a.toNat?; let o ← b o; pure (.tasL a o, a)
  | ["clearL", a] => do let a ← a.toNat?; pure (.clearL a, a)
  | ["obsL", v] => do let v ← b v; pure (.obsL v, 0)
  | ["enq", a, t] => do let a ← a.toNat?; let t ← b t; pure (.enq a t, a)
  | ["storeBlocked", a] => do let a ← a.toNat?; pure (.storeBlocked a, a)
  | ["loadState", a, r] => do let a ← a.toNat?; let r ← b r; pure (.loadState a r, a)
  | ["deq", a, n] => do let a ← a.toNat?; let n ← n.toNat?; pure (.deq a n, a)
  | ["storeReady", a, n] => do let a ← a.toNat?; let n ← n.toNat?; pure (.storeReady a n, a)
  | ["timeCheck", a, e] => do let a ← a.toNat?; let e ← b e; pure (.timeCheck a e, a)
  | ["rm", a] => do let a ← a.toNat?; pure (.rm a, a)
  | _ => none

def parseEv (ws : List String) : Option (Cond.Ev × Nat) :=
  match ws with
  | ["call", a, "wait", m] => do let a ← a.toNat?; let m ← m.toNat?; pure (.call a (.wait m), a)
  | ["call", a, "timedwait", m] => do let a ← a.toNat?; let m ← m.toNat?; pure (.call a (.timedwait m), a)
  | ["call", a, "signal"] => do let a ← a.toNat?; pure (.call a .signal, a)
  | ["call", a, "broadcast"] => do let a ← a.toNat?; pure (.call a .broadcast, a)
  | ["ret", a, "ok"] => do let a ← a.toNat?; pure (.ret a .ok, a)
  | ["ret", a, "timedout"] => do let a ← a.toNat?; pure (.ret a .timedout, a)
  | ["ret", a, "invMutex"] => do let a ← a.toNat?; pure (.ret a .invMutex, a)
  | ["mutexUnlock", a, m] => do let a ← a.toNat?; let m ← m.toNat?; pure (.mutexUnlock a m, a)
  | ["mutexLock", a, m] => do let a ← a.toNat?; let m ← m.toNat?; pure (.mutexLock a m, a)
  | _ => (parseWl ws).map fun (e, a) => (.wl e, a)

structure D (σ : Type) where
  s : σ
  n : Nat
  dead : Bool
  seen : List String

def condStep (d : D Cond.St) (ws : List String) : D Cond.St × String :=
  if d.dead then (d, "") else
  match ws with
  | "init" :: ults =>
    let us := ults.filterMap (·.toNat?)
    ({ d with s := Cond.init (fun a => us.contains a), n := 0 }, "")
  | ["end"] => (d, s!"END accepted={d.n} transitions={d.seen.length} {d.seen}")
  | "checkQ" :: ns =>
    -- the real pointer list walked at the lock release must be the model's wait-list
    let l := ns.filterMap (·.toNat?)
    if l == d.s.wl.q ∧ l.length == ns.length then ({ d with n := d.n + 1 }, "")
    else ({ d with dead := true }, s!"REJECT {d.n} checkQ real={ns} model={d.s.wl.q}")
  | _ =>
    match parseEv ws with
    | none => ({ d with dead := true }, s!"REJECT {d.n} bad-op {ws}")
    | some (e, a) =>
      match Cond.step d.s e with
      | some s' =>
        let key := s!"{ws.head!}@{repr (d.s.cpc a)}/{repr (d.s.wl.pc a)}"
        let seen := if d.seen.contains key then d.seen else key :: d.seen
        ({ d with s := s', n := d.n + 1, seen := seen }, "")
      | none =>
        ({ d with dead := true },
          s!"REJECT {d.n} {ws} | cpc={repr (d.s.cpc a)} wlpc={repr (d.s.wl.pc a)} l={d.s.wl.l} q={d.s.wl.q} pending={d.s.wl.pending} ready={d.s.wl.ready a} waiterMutex={d.s.waiterMutex} sigDone={d.s.sigDone a}")

def wlStep (d : D WaitList.St) (ws : List String) : D WaitList.St × String :=
  if d.dead then (d, "") else
  match ws with
  | "init" :: ults =>
    let us := ults.filterMap (·.toNat?)
    ({ d with s := WaitList.init (fun a => us.contains a), n := 0 }, "")
  | ["end"] => (d, s!"END accepted={d.n} transitions={d.seen.length} {d.seen}")
  | "checkQ" :: ns =>
    let l := ns.filterMap (·.toNat?)
    if l == d.s.q ∧ l.length == ns.length then ({ d with n := d.n + 1 }, "")
    else ({ d with dead := true }, s!"REJECT {d.n} checkQ real={ns} model={d.s.q}")
  | _ =>
    match parseWl ws with
    | none => ({ d with dead := true }, s!"REJECT {d.n} bad-op {ws}")
    | some (e, a) =>
      match WaitList.step d.s e with
      | some s' =>
        let key := s!"{ws.head!}@{repr (d.s.pc a)}"
        let seen := if d.seen.contains key then d.seen else key :: d.seen
        ({ d with s := s', n := d.n + 1, seen := seen }, "")
      | none =>
        ({ d with dead := true },
          s!"REJECT {d.n} {ws} | pc={repr (d.s.pc a)} l={d.s.l} q={d.s.q} pending={d.s.pending} ready={d.s.ready a}")

def mainCond : IO Unit :=
  Driver.runModel ({ s := Cond.init (fun _ => true), n := 0, dead := false, seen := [] } : D Cond.St) condStep
def mainWl : IO Unit :=
  Driver.runModel ({ s := WaitList.init (fun _ => true), n := 0, dead := false, seen := [] } : D WaitList.St) wlStep
end Driver.Cond
