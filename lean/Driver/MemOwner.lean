import ArgoVerif.Model.MemOwner
import Driver.Util
/- `driver memowner`: validates projected local-memory-pool use events against Model.MemOwner. -/
namespace Driver.MemOwner
open ArgoVerif.Model.MemOwner

def b (s : String) : Option Bool := match s with | "1" => some true | "0" => some false | _ => none
def es (s : String) : Option (Option Nat) := if s = "-" then some none else s.toNat?.map some

def parseEv (ws : List String) : Option Ev :=
  match ws with
  | ["use", x, y, a] => do
      let x ← x.toNat?
      let y ← es y
      let a ← b a
      pure (.use x y a)
  | ["useExt", l] => (b l).map .useExt
  | _ => none

structure D where
  s : St
  n : Nat
  dead : Bool
  foreign : Nat

def step (d : D) (ws : List String) : D × String :=
  if d.dead then (d, "") else
  match ws with
  | "init" :: _ => ({ d with s := init, n := 0 }, "")
  | ["end"] => (d, s!"END accepted={d.n} foreign={d.foreign} ext={d.s.ext}")
  | _ =>
    match parseEv ws with
    | none => ({ d with dead := true }, s!"REJECT {d.n} bad-op {ws}")
    | some e =>
      match ArgoVerif.Model.MemOwner.step d.s e with
      | some s' =>
        let f := match e with | .use x y _ => if y = some x then 0 else 1 | _ => 0
        ({ d with s := s', n := d.n + 1, foreign := d.foreign + f }, "")
      | none => ({ d with dead := true }, s!"REJECT {d.n} {ws} | a local memory pool is used by a thread that does not run as its stream while that stream's own thread is alive (or an external pool without its lock)")

def main : IO Unit := Driver.runModel ({ s := init, n := 0, dead := false, foreign := 0 } : D) step
end Driver.MemOwner
