import ArgoVerif.Model.Sched
import Driver.Util
/- `driver sched`: validates a projected trace against Model.Sched. -/
namespace Driver.Sched
open ArgoVerif.Model.Sched

def parseSt : String → Option USt
  | "0" => some .ready | "1" => some .running | "2" => some .blocked | "3" => some .terminated | _ => none
def parseReq : String → Option Req
  | "join" => some .join | "cancel" => some .cancel | "migrate" => some .migrate | _ => none
def parseCb : String → Option CbKind
  | "yield" => some .yield | "suspend" => some .suspend | "exit" => some .exit | "orphan" => some .orphan | _ => none

def parseEv (ws : List String) : Option (Ev × Nat) :=
  match ws with
  | ["create", u, p] => do let u ← u.toNat?; let p ← p.toNat?; pure (.create u p, u)
  | ["push", p, u] => do let u ← u.toNat?; let p ← p.toNat?; pure (.push p u, u)
  | ["pop", e, p, u] => do let e ← e.toNat?; let u ← u.toNat?; let p ← p.toNat?; pure (.pop e p u, u)
  | ["setSt", u, v] => do let u ← u.toNat?; let v ← parseSt v; pure (.setSt u v, u)
  | ["run", e, u] => do let e ← e.toNat?; let u ← u.toNat?; pure (.run e u, u)
  | ["userStart", u] => do let u ← u.toNat?; pure (.userStart u, u)
  | ["userEnd", u] => do let u ← u.toNat?; pure (.userEnd u, u)
  | ["cb", e, u, k] => do let e ← e.toNat?; let u ← u.toNat?; let k ← parseCb k; pure (.cb e u k, u)
  | ["incB", u, p] => do let u ← u.toNat?; let p ← p.toNat?; pure (.incB u p, u)
  | ["decB", u, p] => do let u ← u.toNat?; let p ← p.toNat?; pure (.decB u p, u)
  | ["xferB", f, t] => do let f ← f.toNat?; let t ← t.toNat?; pure (.xferB f t, t)
  | ["resume", u] => do let u ← u.toNat?; pure (.resume u, u)
  | ["finish", e, u] => do let e ← e.toNat?; let u ← u.toNat?; pure (.finish e u, u)
  | ["terminate", u] => do let u ← u.toNat?; pure (.terminate u, u)
  | ["free", u] => do let u ← u.toNat?; pure (.free u, u)
  | ["reqSet", u, r] => do let u ← u.toNat?; let r ← parseReq r; pure (.reqSet u r, u)
  | ["reqClr", u, r] => do let u ← u.toNat?; let r ← parseReq r; pure (.reqClr u r, u)
  | ["migrate", u, p] => do let u ← u.toNat?; let p ← p.toNat?; pure (.migrate u p, u)
  | ["joinRet", j, u] => do let j ← j.toNat?; let u ← u.toNat?; pure (.joinRet j u, u)
  | _ => none

structure D where
  s : St
  n : Nat
  dead : Bool
  seen : List String

def step (d : D) (ws : List String) : D × String :=
  if d.dead then (d, "") else
  match ws with
  | "init" :: _ => ({ d with s := init, n := 0 }, "")
  | ["end"] => (d, s!"END accepted={d.n} transitions={d.seen.length} {d.seen}")
  | ["checkNb", p, v] =>
    -- value of num_blocked observed by the implementation (a fetch_add/fetch_sub reports the old value)
    match p.toNat?, v.toInt? with
    | some p, some v => if d.s.nb p = v then (d, "") else ({ d with dead := true }, s!"REJECT {d.n} checkNb pool={p} real={v} model={d.s.nb p}")
    | _, _ => ({ d with dead := true }, s!"REJECT {d.n} bad-op {ws}")
  | _ =>
    match parseEv ws with
    | none => ({ d with dead := true }, s!"REJECT {d.n} bad-op {ws}")
    | some (e, u) =>
      match ArgoVerif.Model.Sched.step d.s e with
      | some s' =>
        let key := ((s!"{ws.head!}@{repr (d.s.loc u)}".splitOn " ").head!)
        let key := if ws.head! == "setSt" || ws.head! == "cb" then s!"{key}:{ws.getLast!}" else key
        let seen := if d.seen.contains key then d.seen else key :: d.seen
        ({ d with s := s', n := d.n + 1, seen := seen }, "")
      | none =>
        ({ d with dead := true },
          s!"REJECT {d.n} {ws} | loc={repr (d.s.loc u)} st={repr (d.s.st u)} pool={d.s.pool u} owedL={d.s.owedL} resumed={d.s.resumed u} cbk={repr (d.s.cbk u)} reqCancel={d.s.reqCancel u} reqMig={d.s.reqMig u} starts={d.s.starts u} ends={d.s.ends u}")

def main : IO Unit := Driver.runModel ({ s := init, n := 0, dead := false, seen := [] } : D) step
end Driver.Sched
