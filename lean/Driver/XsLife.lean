import ArgoVerif.Model.XsLife
import Driver.Util
/- `driver xslife`: validates the projected trace of one secondary execution stream (vlib/t3_xslife.py, real library
   under the controlled scheduler) against Model.XsLife.  One observed operation per line:

     init                                   a new life: the stream was just created
     call join|revive|free      ret join|revive|free
     jFin | jLoadM 0|1 | jSetJ | jPub 0|1
     rLoadM 0|1 | rReset | rReady | rClear | rPush | rPub
     cancel | getState 0|1 | push
     nRoot <cancelled 0|1> | nLoadReq <j> <c> | nSetFin | nSetExit | nRun | nRunExit | nFinish | nMTerm | nPubTerm
     lock T|C <st> | relock T|C <st> | wait T|C <st> | unlock T|C <st> | signal T|C T|C|none <st> | pjoin
       (<st> = the context state word as read by the thread that performed the pthread operation)

   Steps of the model that leave no line in a trace are inserted here, and only these:
     * the plain tests and stores inside a critical section of abtd_stream.c (`ctx tau`, `ctx store`): taken eagerly
       for the acting thread; the state word observed at the next pthread operation must equal the model's;
     * the entry into a context function (`ctx call`, before the caller's `lock`) and the return of thread_f (`ctx ret`,
       before the native thread's `lock`);
     * the native thread's start-up assertion (`ctx tau T` at start; a plain read): inserted before the first
       scheduler-level line (the projection places an `nRoot 0` that happened before the stream had a name in the
       trace directly after `init`);
     * `nFinish` (the main scheduler's function returned) stands for ABTI_sched_has_to_stop answering yes and
       thread_main_sched_func's re-test: `nStop` (if still in the loop) and `nMsf true`.
   Prints nothing for accepted lines, `REJECT <n> <line> | ...` for the first rejected one (later lines are ignored),
   `END accepted=<n> transitions=<k> [...]` at `end`. -/
namespace Driver.XsLife
open ArgoVerif ArgoVerif.Model.XsLife
open ArgoVerif.Model.XsCtx (Actor CS allCS)

structure D where
  s : St
  n : Nat
  dead : Bool
  live : Bool
  seen : List String

def b (s : String) : Option Bool := match s with | "1" => some true | "0" => some false | _ => none

def parseActor : String → Option Actor
  | "T" => some .T | "C" => some .C | _ => none

def parseCS : String → Option CS
  | "RUNNING" => some .running | "WAITING" => some .waiting | "REQ_JOIN" => some .reqJoin
  | "REQ_TERMINATE" => some .reqTerminate | _ => none

def csName : CS → String
  | .running => "RUNNING" | .reqJoin => "REQ_JOIN" | .waiting => "WAITING" | .reqTerminate => "REQ_TERMINATE"

def parseOp : String → Option Op
  | "join" => some .join | "revive" => some .revive | "free" => some .free | _ => none

def last (s : String) : String := (s.splitOn ".").getLast!

def describe (s : St) : String :=
  s!"lpc={last (toString (repr s.lpc))} npc={last (toString (repr s.npc))} pub={if s.pub then "TERMINATED" else "RUNNING"} " ++
  s!"sched.request(FINISH,EXIT)=({s.fin},{s.ext}) thread.request(JOIN,CANCEL)=({s.jreq},{s.creq}) main-sched-terminated={s.mterm} " ++
  s!"in-root-pool={s.rootq} pending={s.pending} ctx={csName s.x.st} owner={repr s.x.owner} tpc={last (toString (repr s.x.tpc))} " ++
  s!"cpc={last (toString (repr s.x.cpc))} cause={s.cause} fault={s.fault || s.x.fault}"

/-- plain tests / stores of actor `a` inside its critical section -/
def settle1 (s : St) (a : Actor) : Option St :=
  if a = .T ∧ s.x.tpc = .start then none
  else
    match step s (.ctx (.tau a)) with
    | some s' => some s'
    | none => allCS.findSome? fun v => step s (.ctx (.store a v))

def settle (s : St) (a : Actor) : Nat → St
  | 0 => s
  | n + 1 => match settle1 s a with
    | some s' => settle s' a n
    | none => s

/-- before a scheduler-level line: the start-up assertion of a new native thread leaves no line -/
def nEnter (s : St) (_wantRoot : Bool) : St :=
  if s.npc = .out ∧ s.x.tpc = .start then (step s (.ctx (.tau .T))).getD s else s

/-- before the caller's `lock`: it has entered the context function stream.c calls next -/
def cEnter (s : St) : St :=
  match s.lpc, s.x.cpc with
  | .jCtx, .idle _ => (step s (.ctx (.call .join))).getD s
  | .rCtx, .idle true => (step s (.ctx (.call .revive))).getD s
  | .fCtx, .idle true => (step s (.ctx (.call .free))).getD s
  | _, _ => s

def tEnter (s : St) : St := if s.npc = .fin then (step s (.ctx .ret)).getD s else s

inductive R where
  | ok (s : St)
  | bad (why : String)

def one (s : St) (e : Model.XsLife.Ev) : R :=
  match step s e with
  | some s' => .ok s'
  | none => .bad "not a step of the model here"

def obs (s : St) (st : CS) (k : St → R) : R :=
  if s.x.st = st then k s
  else .bad s!"the context state word read by the thread is {csName st}, the model's is {csName s.x.st}"

def handle (s : St) (ws : List String) : Option R :=
  match ws with
  | ["call", op] => do let op ← parseOp op; pure (one s (.call op))
  | ["ret", op] => do let op ← parseOp op; pure (one s (.ret op))
  | ["jFin"] => some (one s .jFin)
  | ["jLoadM", t] => do let t ← b t; pure (one s (.jLoadM t))
  | ["jSetJ"] => some (one s .jSetJ)
  | ["jPub", t] => do
      let t ← b t
      pure (if t = s.pub then one s .jPub
            else .bad s!"xstream_join's final load of the public state read {if t then "TERMINATED" else "RUNNING"}")
  | ["rLoadM", t] => do let t ← b t; pure (one s (.rLoadM t))
  | ["rReset"] => some (one s .rReset)
  | ["rReady"] => some (one s .rReady)
  | ["rClear"] => some (one s .rClear)
  | ["rPush"] => some (one s .rPush)
  | ["rPub"] => some (one s .rPub)
  | ["cancel"] => some (one s .cancel)
  | ["getState", t] => do let t ← b t; pure (one s (.getState t))
  | ["push"] => some (one s .push)
  | ["nRoot", c] => do let c ← b c; pure (one (nEnter s false) (.nRoot c))
  | ["nLoadReq", j, c] => do let j ← b j; let c ← b c; pure (one (nEnter s true) (.nLoadReq j c))
  | ["nSetFin"] => some (one (nEnter s true) .nSetFin)
  | ["nSetExit"] => some (one (nEnter s true) .nSetExit)
  | ["nRun"] => some (one (nEnter s true) .nRun)
  | ["nRunExit"] => some (one (nEnter s true) .nRunExit)
  | ["nFinish"] =>
    let s0 := nEnter s true
    let r1 : R := if s0.npc = .sched then
        (match step s0 .nStop with
         | some s1 => .ok s1
         | none => .bad ("the main scheduler's run function returned although ABTI_sched_has_to_stop has no reason to say " ++
                         "yes: no EXIT request, and not (FINISH request and empty pools)"))
      else .ok s0
    some (match r1 with
      | .ok s1 =>
        (match step s1 (.nMsf true) with
         | some s2 => .ok s2
         | none => .bad ("the main scheduler finished although thread_main_sched_func has no reason to break: no CANCEL " ++
                         "request, and not (FINISH request and empty pools)"))
      | .bad w => .bad w)
  | ["nMTerm"] => some (one s .nMTerm)
  | ["nPubTerm"] => some (one s .nPubTerm)
  | ["lock", a, st] => do
      let a ← parseActor a; let st ← parseCS st
      let s0 := if a = .T then tEnter s else cEnter s
      pure (obs s0 st fun s0 =>
        match step s0 (.ctx (.lock a)) with
        | some s1 => .ok (settle s1 a 6)
        | none => .bad "not a step of the model here")
  | ["relock", a, st] => do
      let a ← parseActor a; let st ← parseCS st
      pure (obs s st fun s =>
        match step s (.ctx (.relock a)) with
        | some s1 => .ok (settle s1 a 6)
        | none => .bad "not a step of the model here")
  | ["wait", a, st] => do
      let a ← parseActor a; let st ← parseCS st
      pure (obs (settle s a 6) st fun s0 => one s0 (.ctx (.wait a)))
  | ["unlock", a, st] => do
      let a ← parseActor a; let st ← parseCS st
      pure (obs (settle s a 6) st fun s0 => one s0 (.ctx (.unlock a)))
  | ["signal", a, w, st] => do
      let a ← parseActor a; let st ← parseCS st
      let w ← (match w with | "none" => some none | "T" => some (some Actor.T) | "C" => some (some Actor.C) | _ => none)
      pure (obs (settle s a 6) st fun s0 =>
        match step s0 (.ctx (.signal a w)) with
        | some s1 => .ok (settle s1 a 6)
        | none => .bad "not a step of the model here (who sleeps on state_cond, and is a signal due?)")
  | ["pjoin"] => some (one s (.ctx .pjoin))
  | _ => none

def stepLine (d : D) (ws : List String) : D × String :=
  if d.dead then (d, "") else
  match ws with
  | ["end"] => (d, s!"END accepted={d.n} transitions={d.seen.length} {d.seen}")
  | ["init"] => ({ d with s := Model.XsLife.init, live := true, n := d.n + 1 }, "")
  | _ =>
    if !d.live then ({ d with dead := true }, s!"REJECT {d.n} {ws} | no stream life has started") else
    match handle d.s ws with
    | none => ({ d with dead := true }, s!"REJECT {d.n} bad-op {ws}")
    | some (.bad why) =>
      ({ d with dead := true }, s!"REJECT {d.n} {ws} | {why} | {describe d.s}")
    | some (.ok s') =>
      if s'.fault || s'.x.fault then
        ({ d with dead := true }, s!"REJECT {d.n} {ws} | MODEL-FAULT: an assertion of stream.c / abtd_stream.c fails in the model here | {describe d.s}")
      else
        let arg := match ws with | _ :: rest => String.join (rest.filter fun w => w.length ≤ 1) | [] => ""
        let key := s!"{ws.head!}{arg}@{last (toString (repr d.s.lpc))}/{last (toString (repr d.s.npc))}"
        let seen := if d.seen.contains key then d.seen else key :: d.seen
        ({ d with s := s', n := d.n + 1, seen := seen }, "")

def main : IO Unit :=
  Driver.runModel ({ s := Model.XsLife.init, n := 0, dead := false, live := false, seen := [] } : D) stepLine
end Driver.XsLife
