import ArgoVerif.Model.Affinity
import Driver.Atoi
/- `driver affinity`: lines
     int <hex>        consume_int at index 0     -> `ok <val> <index>` | `fail`
     pint <hex>       consume_pint
     sym <code> <hex> consume_symbol(code)       -> `ok <index>` | `fail`
     parse <hex>      ABTD_affinity_list_create  -> `ok n=<lists> total=<ids> h=<hash> [..] [..]` | `err <code>` -/
namespace Driver.Affinity
open ArgoVerif.Model.Affinity ArgoVerif.Gen.EnvTable

def hashLists (ls : List (List Int)) : Nat :=
  ls.foldl (fun h l => l.foldl (fun h x => (h * 31 + (x % 4294967296).toNat) % 4294967296)
    ((h * 31 + 0x9e3779b9) % 4294967296)) 7

def showLists (ls : List (List Int)) : String :=
  let total := ls.foldl (fun a l => a + l.length) 0
  let head := s!"ok n={ls.length} total={total} h={hashLists ls}"
  if total ≤ 256 ∧ ls.length ≤ 256 then
    head ++ String.join (ls.map fun l => " [" ++ " ".intercalate (l.map toString) ++ "]")
  else head

def showR {α : Type} (len : Nat) (f : α → String) : R α → String
  | .ok v rest => s!"ok{f v} {len - rest.length}"
  | .fail => "fail"
  | .oob => "oob"
  | .ub => "ub"
  | .fuel => "fuel"

def step (_ : Unit) (ws : List String) : Unit × String :=
  match ws with
  | ["int", h] => match Driver.Atoi.cbuf h with
    | some b => ((), showR b.length (fun v => s!" {v}") (consumeInt b))
    | none => ((), "bad-op")
  | ["pint", h] => match Driver.Atoi.cbuf h with
    | some b => ((), showR b.length (fun v => s!" {v}") (consumePint b))
    | none => ((), "bad-op")
  | ["sym", c, h] => match c.toNat?, Driver.Atoi.cbuf h with
    | some c, some b => ((), showR b.length (fun _ => "") (consumeSymbol (UInt8.ofNat c) b))
    | _, _ => ((), "bad-op")
  | ["parse", h] => match Driver.Atoi.cbuf h with
    | some b => ((), match parseList b with
        | .ok ls _ => showLists ls
        | .fail => s!"err {errOther}"
        | .oob => "oob" | .ub => "ub" | .fuel => "fuel")
    | none => ((), "bad-op")
  | _ => ((), "bad-op")

def main : IO Unit := Driver.runModel () step
end Driver.Affinity
