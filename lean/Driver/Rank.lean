import ArgoVerif.Model.Rank
import Driver.Util
/- line-protocol driver for Model.Rank; same protocol as harness/api_ranks.c (line mode) -/
namespace Driver.Rank
open ArgoVerif.Model.Rank

structure D where
  s : St
  slots : Nat → Ptr      -- 0 = empty slot (ABT_XSTREAM_NULL)
  fresh : Ptr            -- next descriptor address handed out by "malloc"

def nslot : Nat := 16

def D.init : D := { s := ArgoVerif.Model.Rank.init, slots := fun _ => 0, fresh := 2 }

/-- slot index: -1 = primary stream -/
def handle (d : D) (i : Int) : Option Ptr :=
  if i = -1 then some primaryId
  else if 0 ≤ i ∧ i < nslot then some (d.slots i.toNat) else none

def rc : Out → String
  | .ok => "ABT_SUCCESS"
  | .okRank r => s!"ABT_SUCCESS rank={r}"
  | .okNum n => s!"ABT_SUCCESS num={n}"
  | .errXstream => "ABT_ERR_INV_XSTREAM"
  | .errRank => "ABT_ERR_INV_XSTREAM_RANK"

def apply (d : D) (name : String) (op : Op) (onOk : D → D := id) : D × String :=
  match ArgoVerif.Model.Rank.step d.s op with
  | none => (d, "model-fault")
  | some (s', o) =>
    let d' := { d with s := s' }
    let d' := match o with
      | .errXstream => d'
      | .errRank => d'
      | _ => onOk d'
    (d', s!"{name} {rc o}" ++ dump s')

def step (d : D) (ws : List String) : D × String :=
  match ws with
  | ["create", i] => match i.toNat? with
    | some i =>
      if i < nslot ∧ d.slots i = 0 then
        let p := d.fresh
        apply { d with fresh := p + 1 } "create" (.create p)
          (fun d => { d with slots := fun j => if j = i then p else d.slots j })
      else (d, "bad-op")
    | none => (d, "bad-op")
  | ["createw", i, r] => match i.toNat?, r.toInt? with
    | some i, some r =>
      if i < nslot ∧ d.slots i = 0 then
        let p := d.fresh
        apply { d with fresh := p + 1 } "createw" (.createWithRank p r)
          (fun d => { d with slots := fun j => if j = i then p else d.slots j })
      else (d, "bad-op")
    | _, _ => (d, "bad-op")
  | ["setrank", i, r] => match i.toInt?, r.toInt? with
    | some i, some r => match handle d i with
      | some p => apply d "setrank" (.setRank p r)
      | none => (d, "bad-op")
    | _, _ => (d, "bad-op")
  | ["join", i] => match i.toInt? with
    | some i => match handle d i with
      | some p => apply d "join" (.join p)
      | none => (d, "bad-op")
    | none => (d, "bad-op")
  | ["revive", i] => match i.toInt? with
    | some i => match handle d i with
      | some p => apply d "revive" (.revive p)
      | none => (d, "bad-op")
    | none => (d, "bad-op")
  | ["free", i] => match i.toInt? with
    | some i => match handle d i with
      | some p => apply d "free" (.free p)
          (fun d => if i ≥ 0 then { d with slots := fun j => if j = i.toNat then 0 else d.slots j } else d)
      | none => (d, "bad-op")
    | none => (d, "bad-op")
  | ["getrank", i] => match i.toInt? with
    | some i => match handle d i with
      | some p => apply d "getrank" (.getRank p)
      | none => (d, "bad-op")
    | none => (d, "bad-op")
  | ["getnum"] => apply d "getnum" .getNum
  | ["selfrank"] => (d, s!"selfrank ABT_SUCCESS rank={d.s.rank primaryId}" ++ dump d.s)
  | ["work", i] => match i.toNat? with
    | some i =>
      if i < nslot then
        let p := d.slots i
        if p = 0 then (d, "work ABT_ERR_INV_XSTREAM" ++ dump d.s)
        else if d.s.term p then (d, "work TIMEOUT" ++ dump d.s)   -- a joined stream runs nothing
        else (d, s!"work ABT_SUCCESS ran-on={d.s.rank p}" ++ dump d.s)
      else (d, "bad-op")
    | none => (d, "bad-op")
  | _ => (d, "bad-op")

def main : IO Unit := Driver.runModel D.init step
end Driver.Rank
