import Driver.HTable

def main (args : List String) : IO UInt32 := do
  match args with
  | ["htable"] => Driver.HTable.main; return 0
  | _ => IO.eprintln "usage: driver <model>  (htable)"; return 2
