import Driver.HTable
import Driver.Mutex
import Driver.Join
import Driver.Sched
import Driver.Cond
import Driver.Ledger
import Driver.TQ
import Driver.Atoi
import Driver.Env
import Driver.Affinity
import Driver.Config
import Driver.Rank
import Driver.RankConc
import Driver.XsCtx
import Driver.XsLife
import Driver.X86
import Driver.MemPool
import Driver.MemOwner
import Driver.StackGeom
import Driver.KTable
import Driver.UnitMap
import Driver.UserPool
import Driver.Barrier
import Driver.Eventual
import Driver.Future
import Driver.WLPtr
import Driver.PopWait
import Driver.PoolConc
import Driver.RWLock
import Driver.KTableConc
import Driver.Stop
import Driver.MemPoolConc
import Driver.KeyId
import Driver.FutexGen
import Driver.MigRules
import Driver.UnitMapLock

def main (args : List String) : IO UInt32 := do
  match args with
  | ["htable"] => Driver.HTable.main; return 0
  | ["mutex"] => Driver.Mutex.main; return 0
  | ["join"] => Driver.Join.main; return 0
  | ["memowner"] => Driver.MemOwner.main; return 0
  | ["sched"] => Driver.Sched.main; return 0
  | ["cond"] => Driver.Cond.mainCond; return 0
  | ["waitlist"] => Driver.Cond.mainWl; return 0
  | ["wlptr"] => Driver.WLPtr.main; return 0
  | ["popwait"] => Driver.PopWait.main; return 0
  | ["poolconc"] => Driver.PoolConc.main; return 0
  | ["ledger"] => Driver.Ledger.main; return 0
  | ["tq"] => Driver.TQ.mainTQ; return 0
  | ["pool", kind] => Driver.TQ.mainPool kind
  | ["atoi"] => Driver.Atoi.main; return 0
  | ["env"] => Driver.Env.main; return 0
  | ["affinity"] => Driver.Affinity.main; return 0
  | ["config"] => Driver.Config.main; return 0
  | ["rank"] => Driver.Rank.main; return 0
  | ["rankconc"] => Driver.RankConc.main; return 0
  | ["xsctx"] => Driver.XsCtx.main; return 0
  | ["xslife"] => Driver.XsLife.main; return 0
  | ["x86"] => Driver.X86.main; return 0
  | ["mempool"] => Driver.MemPool.main; return 0
  | ["stackgeom"] => Driver.StackGeom.main; return 0
  | ["ktable"] => Driver.KTable.main; return 0
  | ["unitmap"] => Driver.UnitMap.main; return 0
  | ["userpool"] => Driver.UserPool.main; return 0
  | ["barrier"] => Driver.Barrier.main; return 0
  | ["xbarrier"] => Driver.Barrier.xmain; return 0
  | ["eventual"] => Driver.Eventual.main; return 0
  | ["future"] => Driver.Future.main; return 0
  | ["rwlock"] => Driver.RWLock.main; return 0
  | ["ktableconc"] => Driver.KTableConc.main; return 0
  | ["stop"] => Driver.Stop.main; return 0
  | ["mempoolconc"] => Driver.MemPoolConc.main; return 0
  | ["keyid"] => Driver.KeyId.main; return 0
  | ["futexgen"] => Driver.FutexGen.main; return 0
  | ["migrules"] => Driver.MigRules.main; return 0
  | ["unitmaplock"] => Driver.UnitMapLock.main; return 0
  | _ => IO.eprintln "usage: driver <model>  (htable)"; return 2
