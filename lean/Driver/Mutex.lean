import ArgoVerif.Model.Mutex
import Driver.Util
/- `driver mutex`: validates a projected trace against Model.Mutex.
   first line:  init <recursive 0|1> <ult actor ids...>
   then one event per line; prints nothing for accepted events, `REJECT <n> <line> | pc=...` for the
   first rejected one (later lines are ignored), and `END accepted=<n> transitions=<k>` at EOF via `end`. -/
namespace Driver.Mutex
open ArgoVerif.Model.Mutex

structure D where
  s : St
  n : Nat
  dead : Bool
  seen : List String   -- transition kinds exercised (event constructor × pc), for coverage

def parseOp : String → Option Op
  | "lock" => some .lock | "trylock" => some .trylock | "spinlock" => some .spinlock | "unlock" => some .unlock
  | _ => none

def b (s : String) : Option Bool := match s with | "1" => some true | "0" => some false | _ => none

def parseEv (ws : List String) : Option (Ev × Nat) :=
  match ws with
  | ["call", a, op] => do let a ← a.toNat?; let op ← parseOp op; pure (.call a op, a)
  | ["ret", a, op, ok] => do let a ← a.toNat?; let op ← parseOp op; let ok ← b ok; pure (.ret a op ok, a)
  | ["tasLock", a, o] => do let a ← a.toNat?; let o ← b o; pure (.tasLock a o, a)
  | ["clearLock", a] => do let a ← a.toNat?; pure (.clearLock a, a)
  | ["tasW", a, o] => do let a ← a.toNat?; let o ← b o; pure (.tasW a o, a)
  | ["clearW", a] => do let a ← a.toNat?; pure (.clearW a, a)
  | ["enq", a] => do let a ← a.toNat?; pure (.enq a, a)
  | ["storeBlocked", a] => do let a ← a.toNat?; pure (.storeBlocked a, a)
  | ["loadState", a, r] => do let a ← a.toNat?; let r ← b r; pure (.loadState a r, a)
  | ["deq", a, n] => do let a ← a.toNat?; let n ← n.toNat?; pure (.deq a n, a)
  | ["storeReady", a, n] => do let a ← a.toNat?; let n ← n.toNat?; pure (.storeReady a n, a)
  | ["obsLock", v] => do let v ← b v; pure (.obsLock v, 0)
  | ["obsW", v] => do let v ← b v; pure (.obsW v, 0)
  | _ => none

def step (d : D) (ws : List String) : D × String :=
  if d.dead then (d, "") else
  match ws with
  | "init" :: r :: ults =>
    let us := ults.filterMap (·.toNat?)
    ({ d with s := init (r == "1") (fun a => us.contains a), n := 0 }, "")
  | ["end"] => (d, s!"END accepted={d.n} transitions={d.seen.length} {d.seen}")
  | _ =>
    match parseEv ws with
    | none => ({ d with dead := true }, s!"REJECT {d.n} bad-op {ws}")
    | some (e, a) =>
      match ArgoVerif.Model.Mutex.step d.s e with
      | some s' =>
        let key := s!"{ws.head!}@{repr (d.s.pc a)}"
        let seen := if d.seen.contains key then d.seen else key :: d.seen
        ({ d with s := s', n := d.n + 1, seen := seen }, "")
      | none =>
        ({ d with dead := true },
          s!"REJECT {d.n} {ws} | pc={repr (d.s.pc a)} lockW={d.s.lockW} wl={d.s.wl} q={d.s.q} pending={d.s.pending} ready={d.s.ready a}")

def main : IO Unit :=
  Driver.runModel ({ s := init false (fun _ => true), n := 0, dead := false, seen := [] } : D) step
end Driver.Mutex
