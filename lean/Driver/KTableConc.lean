import ArgoVerif.Model.KTableConc
import ArgoVerif.Gen.Consts
import Driver.Util
/- `driver ktableconc`: validates a projected vsched trace against Model.KTableConc.
   first line:  init <table size> <keyid:dtor ...>
   then one event per line; prints nothing for accepted events, `REJECT <n> <line> | ...` for the first
   rejected one (later lines are ignored), `END accepted=<n> transitions=<k> [...]` at `end`. -/
namespace Driver.KTableConc
open ArgoVerif ArgoVerif.Model.KTable ArgoVerif.Model.KTableConc
open ArgoVerif.Gen

def geom : Geom :=
  { descSize := Consts.ktableDescSize.toNat, hdr := Consts.ktableHdrSize.toNat,
    slot := Consts.ktableSlotSize.toNat, align := Consts.maxAlignment.toNat, elem := Consts.ktelemSize.toNat }

structure D where
  c : Cfg
  s : St
  n : Nat
  dead : Bool
  seen : List String

def pcName : ArgoVerif.Model.KTableConc.Pc → String
  | .idle => "idle" | .walk _ _ sf _ => if sf then "walk" else "walkU" | .found _ _ _ => "found" | .acq _ _ _ => "acq"
  | .lwalk _ _ sf _ => if sf then "lwalk" else "lwalkU" | .lfound _ _ _ => "lfound"
  | .pub _ _ sf _ _ => if sf then "pub" else "pubU" | .unlock => "unlock" | .failRel => "failRel"
  | .setDone _ => "setDone" | .gwalk _ _ _ => "gwalk" | .gread _ _ _ => "gread" | .gret _ _ _ _ => "gret"

def b (s : String) : Option Bool := match s with | "1" => some true | "0" => some false | _ => none

def parseEv (ws : List String) : Option (Ev × Nat) :=
  match ws with
  | ["startSet", a, kid, dt, v, sf] => do
    let a ← a.toNat?; let kid ← kid.toNat?; let dt ← dt.toNat?; let v ← v.toNat?; let sf ← b sf
    pure (.startSet a ⟨kid, dt⟩ v sf, a)
  | ["load", a, bk, j, nn] => do
    let a ← a.toNat?; let bk ← bk.toNat?; let j ← j.toNat?; let nn ← b nn; pure (.load a bk j nn, a)
  | ["storeVal", a] => do let a ← a.toNat?; pure (.storeVal a, a)
  | ["acquire", a] => do let a ← a.toNat?; pure (.acquire a, a)
  | ["release", a] => do let a ← a.toNat?; pure (.release a, a)
  | ["allocFail", a] => do let a ← a.toNat?; pure (.allocFail a, a)
  | ["storeLink", a, bk, j] => do let a ← a.toNat?; let bk ← bk.toNat?; let j ← j.toNat?; pure (.storeLink a bk j, a)
  | ["endSet", a, ok] => do let a ← a.toNat?; let ok ← b ok; pure (.endSet a ok, a)
  | ["startGet", a, kid] => do let a ← a.toNat?; let kid ← kid.toNat?; pure (.startGet a kid, a)
  | ["readVal", a] => do let a ← a.toNat?; pure (.readVal a, a)
  | ["endGet", a, r] => do let a ← a.toNat?; let r ← r.toNat?; pure (.endGet a r, a)
  | ["free"] => some (.free, 0)
  | _ => none

def dumpTbl (c : Cfg) (s : St) : String :=
  String.join ((List.range c.size).map fun i => s!" b{i}:" ++ String.join ((s.tbl.b i).map fun e => s!" {e.keyId}={e.val}"))

def step (d : D) (ws : List String) : D × String :=
  if d.dead then (d, "") else
  match ws with
  | "init" :: sz :: kds =>
    let size := sz.toNat?.getD 1
    let pairs := kds.filterMap fun w => match w.splitOn ":" with
      | [k, dt] => match k.toNat?, dt.toNat? with | some k, some dt => some (k, dt) | _, _ => none
      | _ => none
    let c : Cfg := { g := geom, size := size, kd := fun k => (pairs.lookup k).getD 0 }
    ({ d with c := c, s := init c, n := 0 }, "")
  | ["end"] => (d, s!"END accepted={d.n} transitions={d.seen.length} {d.seen}")
  | ["dump"] => (d, "DUMP" ++ dumpTbl d.c d.s)
  | _ =>
    match parseEv ws with
    | none => ({ d with dead := true }, s!"REJECT {d.n} bad-op {ws}")
    | some (e, a) =>
      match exec d.c d.s e with
      | some s' =>
        let key := s!"{ws.head!}@{pcName (d.s.pc a)}"
        let seen := if d.seen.contains key then d.seen else key :: d.seen
        ({ d with s := s', n := d.n + 1, seen := seen }, "")
      | none =>
        ({ d with dead := true },
          s!"REJECT {d.n} {ws} | pc={repr (d.s.pc a)} lock={d.s.lock} priv={d.s.priv} live={d.s.live} table:{dumpTbl d.c d.s}")

def cfg0 : Cfg := { g := geom, size := 1, kd := fun _ => 0 }

def main : IO Unit :=
  Driver.runModel ({ c := cfg0, s := init cfg0, n := 0, dead := false, seen := [] } : D) step
end Driver.KTableConc
