import ArgoVerif.Gen.Ladders
import Driver.Util
/- `driver ledger`: line protocol over the generated ladders.
     paths <routine> <fuel> <bound>    every execution of Model.Ledger.runs: one line each, then `end <n>`
     list                              names of the translated routines -/
namespace Driver.Ledger
open ArgoVerif.Model.Ledger ArgoVerif.Gen.Ladders

def siteName (i : Nat) : String := (siteNames[i]?).getD s!"site{i}"
def kindName (i : Nat) : String := (kindNames[i]?).getD s!"kind{i}"

def evStr : Ev → String
  | .acqOk s => "+" ++ siteName s
  | .acqFail s => "!" ++ siteName s
  | .rel s => "-" ++ siteName s
  | .call s => "@" ++ siteName s

def retStr (o : Outcome) : String :=
  if o.timeout then "timeout" else if o.isSuccess then "ok" else if o.isError then "err" else "other"

def faultStr : Option Fault → String
  | none => "none"
  | some (.doubleRelease s) => "double-release:" ++ siteName s
  | some (.releaseUnassigned s) => "release-unassigned:" ++ siteName s
  | some (.badPc n) => s!"bad-pc:{n}"

def outStr (p : Prog) (o : Outcome) : String :=
  let tr := " ".intercalate (o.st.trace.reverse.map evStr)
  let live := ",".intercalate ((sortK (kindsOf o.newLive)).map kindName)
  let chk := s!"fb={failBalanced o} ho={handleOk p o} pu={preUntouched p o} pe={preUntouchedOnError p o} sr={stateRolledBack p o}"
  s!"run inj={o.st.injected} ret={retStr o} fault={faultStr o.st.fault} relpre={o.st.relPre} {chk} live=[{live}] trace=[{tr}]"

def find (n : String) : Option Prog := (all.find? (fun t => t.1.name == n)).map (·.1)

def step (_ : Unit) (ws : List String) : Unit × String :=
  match ws with
  | ["list"] => ((), " ".intercalate (all.map (·.1.name)))
  | ["paths", n, f, b] =>
    match find n, f.toNat?, b.toNat? with
    | some p, some f, some b =>
      let rs := runs p f b
      ((), "\n".intercalate (rs.map (outStr p)) ++ s!"\nend {rs.length}")
    | _, _, _ => ((), "bad-op")
  | _ => ((), "bad-op")

def main : IO Unit := Driver.runModel () step
end Driver.Ledger
