import ArgoVerif.Model.PoolConc
import Driver.Util
/- `driver poolconc`: validate the projected trace of one built-in pool against Model.PoolConc.
     cfg spin|mutex <shared 0|1>
     call a push u h | call a pushMany h u1 u2 .. | call a pop t | call a popMany max t | call a popWait t | call a remove u
     ret a unit | ret a popped u1 u2 .. | ret a rc 0|1 | cbPushMany a n
     tas a 0|1 | loadLock a 0|1 | loadEmpty a 0|1 | loadIn a u 0|1 | clear a | mlock a | munlock a
     link a u h | take a r h | unlink a u | rmFail a | storeEmpty a 0|1 | storeIn a u 0|1
     signal a | condWait a | wake a
     end
   Nothing is printed for an accepted event; `REJECT <n> <line> | state` for the first rejected one. -/
namespace Driver.PoolConc
open ArgoVerif.Model ArgoVerif.Model.PoolConc

def b (s : String) : Option Bool := match s with | "1" => some true | "0" => some false | _ => none

def nats (ws : List String) : Option (List Nat) := ws.mapM (·.toNat?)

def parseEv (ws : List String) : Option (Ev × Nat) :=
  match ws with
  | ["call", a, "push", u, h] => do let a ← a.toNat?; let u ← u.toNat?; let h ← b h; pure (.call a (.push u h), a)
  | "call" :: a :: "pushMany" :: h :: us => do let a ← a.toNat?; let h ← b h; let us ← nats us; pure (.call a (.pushMany us h), a)
  | ["call", a, "pop", t] => do let a ← a.toNat?; let t ← b t; pure (.call a (.pop t), a)
  | ["call", a, "popMany", m, t] => do let a ← a.toNat?; let m ← m.toNat?; let t ← b t; pure (.call a (.popMany m t), a)
  | ["call", a, "popWait", t] => do let a ← a.toNat?; let t ← b t; pure (.call a (.popWait t), a)
  | ["call", a, "remove", u] => do let a ← a.toNat?; let u ← u.toNat?; pure (.call a (.remove u), a)
  | ["cbPushMany", a, n] => do let a ← a.toNat?; let n ← n.toNat?; pure (.cbPushMany a n, a)
  | ["ret", a, "unit"] => do let a ← a.toNat?; pure (.ret a .unit, a)
  | "ret" :: a :: "popped" :: us => do let a ← a.toNat?; let us ← nats us; pure (.ret a (.popped us), a)
  | ["ret", a, "rc", ok] => do let a ← a.toNat?; let ok ← b ok; pure (.ret a (.rc ok), a)
  | ["tas", a, o] => do let a ← a.toNat?; let o ← b o; pure (.tas a o, a)
  | ["loadLock", a, v] => do let a ← a.toNat?; let v ← b v; pure (.loadLock a v, a)
  | ["loadEmpty", a, v] => do let a ← a.toNat?; let v ← b v; pure (.loadEmpty a v, a)
  | ["loadIn", a, u, v] => do let a ← a.toNat?; let u ← u.toNat?; let v ← b v; pure (.loadIn a u v, a)
  | ["clear", a] => do let a ← a.toNat?; pure (.clear a, a)
  | ["mlock", a] => do let a ← a.toNat?; pure (.mlock a, a)
  | ["munlock", a] => do let a ← a.toNat?; pure (.munlock a, a)
  | ["link", a, u, h] => do let a ← a.toNat?; let u ← u.toNat?; let h ← b h; pure (.link a u h, a)
  | ["take", a, r, h] => do let a ← a.toNat?; let r ← r.toNat?; let h ← b h; pure (.take a r h, a)
  | ["unlink", a, u] => do let a ← a.toNat?; let u ← u.toNat?; pure (.unlink a u, a)
  | ["rmFail", a] => do let a ← a.toNat?; pure (.rmFail a, a)
  | ["storeEmpty", a, v] => do let a ← a.toNat?; let v ← b v; pure (.storeEmpty a v, a)
  | ["storeIn", a, u, v] => do let a ← a.toNat?; let u ← u.toNat?; let v ← b v; pure (.storeIn a u v, a)
  | ["signal", a] => do let a ← a.toNat?; pure (.signal a, a)
  | ["condWait", a] => do let a ← a.toNat?; pure (.condWait a, a)
  | ["wake", a] => do let a ← a.toNat?; pure (.wake a, a)
  | _ => none

structure D where
  cfg : Cfg
  s : St
  n : Nat
  dead : Bool
  seen : List String

def callName : Call → String
  | .push _ _ => "push" | .pushMany _ _ => "pushMany" | .pop _ => "pop" | .popMany _ _ => "popMany"
  | .popWait _ => "popWait" | .remove _ => "remove"

def dstep (d : D) (ws : List String) : D × String :=
  if d.dead then (d, "") else
  match ws with
  | ["cfg", "spin", sh] => ({ d with cfg := ⟨.spin, sh == "1"⟩, s := init, n := 0 }, "")
  | ["cfg", "mutex", sh] => ({ d with cfg := ⟨.mutex, sh == "1"⟩, s := init, n := 0 }, "")
  | ["end"] => (d, s!"END accepted={d.n} transitions={d.seen.length} {d.seen}")
  | _ =>
    match parseEv ws with
    | none => ({ d with dead := true }, s!"REJECT {d.n} bad-op {ws}")
    | some (e, a) =>
      match step d.cfg d.s e with
      | some s' =>
        let c := callName (d.s.cur a)
        let key := match e with
          | .call _ c' => s!"call:{callName c'}"
          | .ret _ r =>
            let k := match r with | .unit => "unit" | .popped us => (if us.isEmpty then "none" else "units") | .rc ok => (if ok then "ok" else "errPool")
            s!"ret:{k}@{c}/{repr (d.s.pc a)}"
          | .take _ r _ => s!"take:{if r = 0 then "null" else "unit"}@{c}"
          | .tas _ o => s!"tas:{o}@{repr (d.s.pc a)}"
          | .loadEmpty _ v => s!"loadEmpty:{v}@{repr (d.s.pc a)}"
          | .loadLock _ v => s!"loadLock:{v}@{repr (d.s.pc a)}"
          | .loadIn _ _ v => s!"loadIn:{v}"
          | _ => s!"{ws.head!}@{repr (d.s.pc a)}/{c}"
        let seen := if d.seen.contains key then d.seen else key :: d.seen
        ({ d with s := s', n := d.n + 1, seen := seen }, "")
      | none =>
        ({ d with dead := true },
          s!"REJECT {d.n} {ws} | pc={repr (d.s.pc a)} cur={repr (d.s.cur a)} q={d.s.q} flag={d.s.flag} lock={d.s.lock} owner={d.s.owner} todo={d.s.todo a} cnt={d.s.cnt a} pu={d.s.pu a} got={d.s.got a}")

def main : IO Unit :=
  Driver.runModel ({ cfg := ⟨.spin, true⟩, s := init, n := 0, dead := false, seen := [] } : D) dstep
end Driver.PoolConc
