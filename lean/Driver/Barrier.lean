import ArgoVerif.Model.Barrier
import Driver.Util
/- `driver barrier`: validates a projected trace against Model.Barrier.
     first line:  init <num_waiters> <id>:<u|t|e> ...      (actor kinds; unlisted actors are ULTs)
     then one event per line (call / ret / acq / enq / wake / rel / reinit / obsLock / obs / fsamp / fbump / obsF)
   `driver xbarrier`: the same for Model.XBarrier (init <num_waiters>; call a; ret a).
   Nothing is printed for accepted events, `REJECT <n> <line> | state` for the first rejected one (later
   lines are ignored), `END accepted=<n> transitions=<k> [...]` at `end`. -/
namespace Driver.Barrier
open ArgoVerif.Model.Barrier

structure D where
  s : St
  n : Nat
  dead : Bool
  seen : List String

def b (s : String) : Option Bool := match s with | "1" => some true | "0" => some false | _ => none

def parseRc : String → Option Rc
  | "ok" => some .ok | "ERR_BARRIER" => some .errBarrier | "ERR_INV_ARG" => some .errInvArg | _ => none

def parseKinds (ws : List String) : List (Nat × Kind) :=
  ws.filterMap fun w =>
    match w.splitOn ":" with
    | [i, "u"] => i.toNat?.map (·, Kind.ult)
    | [i, "t"] => i.toNat?.map (·, Kind.task)
    | [i, "e"] => i.toNat?.map (·, Kind.ext)
    | _ => none

def parseEv (ws : List String) : Option (Ev × Nat) :=
  match ws with
  | ["call", a] => do let a ← a.toNat?; pure (.call a, a)
  | ["ret", a, rc] => do let a ← a.toNat?; let rc ← parseRc rc; pure (.ret a rc, a)
  | ["acq", a, o] => do let a ← a.toNat?; let o ← b o; pure (.acq a o, a)
  | ["enq", a] => do let a ← a.toNat?; pure (.enq a, a)
  | ["wake", a, n] => do let a ← a.toNat?; let n ← n.toNat?; pure (.wake a n, a)
  | ["rel", a, c, nw, e] => do
      let a ← a.toNat?; let c ← c.toNat?; let nw ← nw.toNat?; let e ← b e; pure (.rel a c nw e, a)
  | ["reinit", n, rc] => do let n ← n.toNat?; let rc ← parseRc rc; pure (.reinit n rc, 0)
  | ["obsLock", v] => do let v ← b v; pure (.obsLock v, 0)
  | ["obs", c, nw] => do let c ← c.toNat?; let nw ← nw.toNat?; pure (.obs c nw, 0)
  | ["fsamp", a, v] => do let a ← a.toNat?; let v ← v.toNat?; pure (.fsamp a v, a)
  | ["fbump", a, v] => do let a ← a.toNat?; let v ← v.toNat?; pure (.fbump a v, a)
  | ["obsF", v] => do let v ← v.toNat?; pure (.obsF v, 0)
  | _ => none

def noActor (ws : List String) : Bool :=
  ws.head! == "reinit" || ws.head! == "obsLock" || ws.head! == "obs" || ws.head! == "obsF"

def step (d : D) (ws : List String) : D × String :=
  if d.dead then (d, "") else
  match ws with
  | "init" :: nw :: kinds =>
    let ks := parseKinds kinds
    let kind := fun a => match ks.lookup a with | some k => k | none => Kind.ult
    match nw.toNat? with
    | some n => ({ d with s := init kind n, n := 0 }, "")
    | none => ({ d with dead := true }, s!"REJECT {d.n} bad-op {ws}")
  | ["end"] => (d, s!"END accepted={d.n} transitions={d.seen.length} {d.seen}")
  | _ =>
    match parseEv ws with
    | none => ({ d with dead := true }, s!"REJECT {d.n} bad-op {ws}")
    | some (e, a) =>
      match ArgoVerif.Model.Barrier.step d.s e with
      | some s' =>
        let key := if noActor ws then ws.head! else
          s!"{ws.head!}{if ws.head! == "acq" then ws.getLast! else ""}@{repr (d.s.pc a)}"
        let seen := if d.seen.contains key then d.seen else key :: d.seen
        ({ d with s := s', n := d.n + 1, seen := seen }, "")
      | none =>
        ({ d with dead := true },
          s!"REJECT {d.n} {ws} | pc={repr (d.s.pc a)} counter={d.s.counter} nw={d.s.nw} lock={d.s.lock} q={d.s.q} round={d.s.round} fval={d.s.fval} samp={d.s.samp a} wny={d.s.wny}")

def main : IO Unit :=
  Driver.runModel ({ s := init (fun _ => .ult) 1, n := 0, dead := false, seen := [] } : D) step

/-! xstream barrier -/
structure XD where
  s : ArgoVerif.Model.XBarrier.St
  n : Nat
  dead : Bool
  seen : List String

def xstep (d : XD) (ws : List String) : XD × String :=
  if d.dead then (d, "") else
  match ws with
  | ["init", nw] =>
    match nw.toNat? with
    | some n => ({ d with s := ArgoVerif.Model.XBarrier.init n, n := 0 }, "")
    | none => ({ d with dead := true }, s!"REJECT {d.n} bad-op {ws}")
  | ["end"] => (d, s!"END accepted={d.n} transitions={d.seen.length} {d.seen}")
  | [op, a] =>
    match a.toNat?, (if op == "call" then some true else if op == "ret" then some false else none) with
    | some a, some isCall =>
      let e : ArgoVerif.Model.XBarrier.Ev := if isCall then .call a else .ret a
      match ArgoVerif.Model.XBarrier.step d.s e with
      | some s' =>
        let key := s!"x{op}@{repr (d.s.pc a)}" ++ (if isCall then s!"->{repr (s'.pc a)}" else "")
        let seen := if d.seen.contains key then d.seen else key :: d.seen
        ({ d with s := s', n := d.n + 1, seen := seen }, "")
      | none =>
        ({ d with dead := true }, s!"REJECT {d.n} {ws} | pc={repr (d.s.pc a)} nw={d.s.nw} arrived={d.s.arrived} round={d.s.round}")
    | _, _ => ({ d with dead := true }, s!"REJECT {d.n} bad-op {ws}")
  | _ => ({ d with dead := true }, s!"REJECT {d.n} bad-op {ws}")

def xmain : IO Unit :=
  Driver.runModel ({ s := ArgoVerif.Model.XBarrier.init 1, n := 0, dead := false, seen := [] } : XD) xstep

end Driver.Barrier
