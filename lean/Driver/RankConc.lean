import ArgoVerif.Model.RankConc
import Driver.Util
/- `driver rankconc`: validates a projected trace against Model.RankConc.
   one event per line:
     call <a> create <p> | call <a> createw <p> <r> | call <a> setrank <p> <r> | call <a> free <p> | call <a> getnum
     pre <a> | joined <a> (free: the target stream stopped and its thread is parked) | tas <a> <old 0|1> | spin <a> <v 0|1> | check <a> | insert <a> | move <a> | remove <a>
     clear <a> [<num> <p>:<rank> ...]      (observed list at the release; compared with the model's list)
     ret <a> ok | okrank <r> | oknum <n> | errx | errrank
   prints nothing for accepted events, `REJECT <n> <line> | ...` for the first rejected one (later lines are
   ignored), and `END accepted=<n> transitions=<k> [...]` at `end`. -/
namespace Driver.RankConc
open ArgoVerif.Model.RankConc
open ArgoVerif.Model.Rank (Op Out live ranks)

structure D where
  s : St
  n : Nat
  dead : Bool
  seen : List String

def b (s : String) : Option Bool := match s with | "1" => some true | "0" => some false | _ => none

def parseOp : List String → Option Op
  | ["create", p] => do let p ← p.toNat?; pure (.create p)
  | ["createw", p, r] => do let p ← p.toNat?; let r ← r.toInt?; pure (.createWithRank p r)
  | ["setrank", p, r] => do let p ← p.toNat?; let r ← r.toInt?; pure (.setRank p r)
  | ["free", p] => do let p ← p.toNat?; pure (.free p)
  | ["getnum"] => some .getNum
  | _ => none

def parseOut : List String → Option Out
  | ["ok"] => some .ok
  | ["okrank", r] => do let r ← r.toInt?; pure (.okRank r)
  | ["oknum", n] => do let n ← n.toInt?; pure (.okNum n)
  | ["errx"] => some .errXstream
  | ["errrank"] => some .errRank
  | _ => none

def parsePair (w : String) : Option (Nat × Int) :=
  match w.splitOn ":" with
  | [p, r] => do let p ← p.toNat?; let r ← r.toInt?; pure (p, r)
  | _ => none

/-- event, actor, observed snapshot (for `clear`) -/
def parseEv (ws : List String) : Option (Ev × Nat × Option (Int × List (Nat × Int))) :=
  match ws with
  | "call" :: a :: rest => do let a ← a.toNat?; let op ← parseOp rest; pure (.call a op, a, none)
  | ["pre", a] => do let a ← a.toNat?; pure (.pre a, a, none)
  | ["joined", a] => do let a ← a.toNat?; pure (.joined a, a, none)
  | ["tas", a, o] => do let a ← a.toNat?; let o ← b o; pure (.tas a o, a, none)
  | ["spin", a, v] => do let a ← a.toNat?; let v ← b v; pure (.spinLoad a v, a, none)
  | ["check", a] => do let a ← a.toNat?; pure (.check a, a, none)
  | ["insert", a] => do let a ← a.toNat?; pure (.insert a, a, none)
  | ["move", a] => do let a ← a.toNat?; pure (.move a, a, none)
  | ["remove", a] => do let a ← a.toNat?; pure (.remove a, a, none)
  | ["clear", a] => do let a ← a.toNat?; pure (.clear a, a, none)
  | "clear" :: a :: num :: nodes => do
      let a ← a.toNat?; let num ← num.toInt?; let ns ← nodes.mapM parsePair
      pure (.clear a, a, some (num, ns))
  | "ret" :: a :: rest => do let a ← a.toNat?; let o ← parseOut rest; pure (.ret a o, a, none)
  | _ => none

def opName : Op → String
  | .create _ => "create" | .createWithRank _ _ => "createw" | .setRank _ _ => "setrank" | .free _ => "free"
  | .getNum => "getnum" | _ => "other"

def modelList (s : St) : List (Nat × Int) := (live s.g).map fun p => (p, s.g.rank p)

def describe (s : St) (a : Nat) : String :=
  let why := if s.pc a == .joining then " (the free has not completed its join: the target stream has not stopped)" else ""
  s!"pc={repr (s.pc a)}{why} op={repr (s.op a)} loc={s.loc a} res={repr (s.res a)} lock={s.lock} list={modelList s} num={s.g.num}"

def step (d : D) (ws : List String) : D × String :=
  if d.dead then (d, "") else
  match ws with
  | ["end"] => (d, s!"END accepted={d.n} transitions={d.seen.length} {d.seen}")
  | _ =>
    match parseEv ws with
    | none => ({ d with dead := true }, s!"REJECT {d.n} bad-op {ws}")
    | some (e, a, snap) =>
      match ArgoVerif.Model.RankConc.step d.s e with
      | some s' =>
        let opn := match e with | .call _ op => opName op | _ => opName (d.s.op a)
        let arg := match e with | .tas _ o => (if o then "1" else "0") | .spinLoad _ v => (if v then "1" else "0") | _ => ""
        let pcn := ((toString (repr (d.s.pc a))).splitOn ".").getLast!
        let key := s!"{ws.head!}{arg}@{pcn}/{opn}"
        let seen := if d.seen.contains key then d.seen else key :: d.seen
        let d' := { d with s := s', n := d.n + 1, seen := seen }
        match snap with
        | none => (d', "")
        | some (num, ns) =>
          if num = s'.g.num ∧ ns = modelList s' then (d', "")
          else ({ d' with dead := true },
            s!"REJECT {d.n} {ws} | snapshot-differs: the list at this lock release is {ns} num={num}, the model's is {modelList s'} num={s'.g.num}")
      | none => ({ d with dead := true }, s!"REJECT {d.n} {ws} | {describe d.s a}")

def main : IO Unit :=
  Driver.runModel ({ s := ArgoVerif.Model.RankConc.init, n := 0, dead := false, seen := [] } : D) step
end Driver.RankConc
