import ArgoVerif.Model.Join
import Driver.Util
/- `driver join`: validates the projected hand-shake events of ONE joiner/target pair against Model.Join.
   `new` starts a fresh pair. -/
namespace Driver.Join
open ArgoVerif.Model.Join

def b (s : String) : Option Bool := match s with | "1" => some true | "0" => some false | _ => none

def parseEv (ws : List String) : Option Ev :=
  match ws with
  | ["jCall", u] => (b u).map .jCall
  | ["jLoadState", t] => (b t).map .jLoadState
  | ["jFetchOr", o] => (b o).map .jFetchOr
  | ["jStoreBlocked"] => some .jStoreBlocked
  | ["jStoreLink"] => some .jStoreLink
  | ["jRet"] => some .jRet
  | ["tExit"] => some .tExit
  | ["tLoadLink", v] => (b v).map .tLoadLink
  | ["tFetchOr", o] => (b o).map .tFetchOr
  | ["tResume"] => some .tResume
  | ["tStoreTerminated"] => some .tStoreTerminated
  | _ => none

structure D where
  s : St
  n : Nat
  dead : Bool
  seen : List String

def step (d : D) (ws : List String) : D × String :=
  if d.dead then (d, "") else
  match ws with
  | "init" :: _ => ({ d with s := init, n := 0 }, "")
  | ["new"] => ({ d with s := init }, "")
  | ["end"] => (d, s!"END accepted={d.n} transitions={d.seen.length} {d.seen}")
  | _ =>
    match parseEv ws with
    | none => ({ d with dead := true }, s!"REJECT {d.n} bad-op {ws}")
    | some e =>
      match ArgoVerif.Model.Join.step d.s e with
      | some s' =>
        let key := s!"{ws.head!}@{repr d.s.jpc}/{repr d.s.tpc}"
        let seen := if d.seen.contains key then d.seen else key :: d.seen
        ({ d with s := s', n := d.n + 1, seen := seen }, "")
      | none =>
        ({ d with dead := true },
          s!"REJECT {d.n} {ws} | jpc={repr d.s.jpc} tpc={repr d.s.tpc} reqJoin={d.s.reqJoin} link={d.s.link} term={d.s.term} jBlocked={d.s.jBlocked} resumes={d.s.resumes}")

def main : IO Unit := Driver.runModel ({ s := init, n := 0, dead := false, seen := [] } : D) step
end Driver.Join
