import ArgoVerif.Model.Atoi
import Driver.Util
/- `driver atoi`: lines `atoi <int|u32|u64|sz|impl> <hex of the string, "-" = empty>`;
the model sees the bytes followed by the terminating NUL. -/
namespace Driver.Atoi
open ArgoVerif.Model.Atoi

def hexVal (c : Char) : Option Nat :=
  if '0' ≤ c ∧ c ≤ '9' then some (c.toNat - 48)
  else if 'a' ≤ c ∧ c ≤ 'f' then some (c.toNat - 87)
  else none

def hexList : List Char → Option (List UInt8)
  | [] => some []
  | a :: b :: r => do
    let x ← hexVal a; let y ← hexVal b; let t ← hexList r
    pure (UInt8.ofNat (16 * x + y) :: t)
  | _ => none

/-- decode the hex field into a NUL-terminated buffer -/
def cbuf (h : String) : Option (List UInt8) :=
  if h == "-" then some [0] else (hexList h.toList).map (· ++ [0])

def showRes : Res → String
  | .err c => s!"err {c}"
  | .ok v o => s!"ok {v} {if o then 1 else 0}"
  | .oob => "oob"

def step (_ : Unit) (ws : List String) : Unit × String :=
  match ws with
  | ["atoi", kind, h] =>
    match cbuf h with
    | none => ((), "bad-op")
    | some b =>
      match kind with
      | "int" => ((), showRes (abtuAtoi b))
      | "u32" => ((), showRes (abtuAtoui32 b))
      | "u64" => ((), showRes (abtuAtoui64 b))
      | "sz" => ((), showRes (abtuAtosz b))
      | _ => ((), "bad-op")
  | _ => ((), "bad-op")

def main : IO Unit := Driver.runModel () step
end Driver.Atoi
