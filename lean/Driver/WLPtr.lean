import ArgoVerif.Model.WLPtr
import Driver.Util
/- `driver wlptr`: replay the wait-list operations of one object on Model.WLPtr and compare the model heap with
   the real pointer structure dumped at every release of the object's lock.
     enqU n | enqT n | pop n | bcast n1 n2 .. | rm n      one wait-list operation (n = node id, 0 = NULL)
     snap head tail n1:next:prev n2:next:prev ..            the real list walked from p_head at the lock release
     end
   compared at a snap: p_head, p_tail, the sequence of nodes, every listed node's p_next, and p_prev of every
   *timed non-head* node (the other p_prev are unspecified: garbage for untimed nodes, stale for the head). -/
namespace Driver.WLPtr
open ArgoVerif.Model ArgoVerif.Model.WLPtr

structure D where
  m : M
  n : Nat
  dead : Bool
  seen : List String

def nats (ws : List String) : Option (List Nat) := ws.mapM (·.toNat?)

def triple (w : String) : Option (Nat × Nat × Nat) :=
  match w.splitOn ":" with
  | [a, b, c] => do pure (← a.toNat?, ← b.toNat?, ← c.toNat?)
  | _ => none

def tu (m : M) (n : Nat) : String := if m.s.timed n then "T" else "U"

/-- where the node stands and what its neighbours are (coverage key of a removal) -/
def rmKey (m : M) (n : Nat) : String :=
  let rec go : List Nat → Option Nat → String
    | [], _ => "absent"
    | x :: r, p =>
      if x = n then
        let pk := match p with | none => "head" | some q => "p" ++ tu m q
        let nk := match r with | [] => "tail" | y :: _ => "n" ++ tu m y
        pk ++ ":" ++ nk
      else go r (some x)
  "rm:" ++ go m.xs none

def apply (d : D) (ws : List String) (op : Op) (key : String) : D × String :=
  match step d.m op with
  | some m' =>
    let seen := if d.seen.contains key then d.seen else key :: d.seen
    ({ d with m := m', n := d.n + 1, seen := seen }, "")
  | none =>
    ({ d with dead := true }, s!"REJECT {d.n} {ws} precondition fails | xs={d.m.xs} head={d.m.s.head} tail={d.m.s.tail}")

def dstep (d : D) (ws : List String) : D × String :=
  if d.dead then (d, "") else
  match ws with
  | ["end"] => (d, s!"END accepted={d.n} transitions={d.seen.length} {d.seen}")
  | ["enqU", n] =>
    match n.toNat? with
    | some n => apply d ws (.enqUntimed n) (if d.m.xs.isEmpty then "enqU:empty" else "enqU:after" ++ tu d.m (lastD 0 d.m.xs))
    | none => ({ d with dead := true }, s!"REJECT {d.n} bad-op {ws}")
  | ["enqT", n] =>
    match n.toNat? with
    | some n => apply d ws (.enqTimed n) (if d.m.xs.isEmpty then "enqT:empty" else "enqT:after" ++ tu d.m (lastD 0 d.m.xs))
    | none => ({ d with dead := true }, s!"REJECT {d.n} bad-op {ws}")
  | ["pop", n] =>
    match n.toNat? with
    | some n =>
      if d.m.xs.head? = some n then apply d ws .popHead (if d.m.xs.length = 1 then "pop:last" else "pop:more")
      else ({ d with dead := true }, s!"REJECT {d.n} {ws} signal dequeued a node that is not the model's head | xs={d.m.xs}")
    | none => ({ d with dead := true }, s!"REJECT {d.n} bad-op {ws}")
  | "bcast" :: ns =>
    match nats ns with
    | some l =>
      if l = d.m.xs ∧ l ≠ [] then apply d ws .broadcast (if l.length = 1 then "bcast:1" else if l.length = 2 then "bcast:2" else "bcast:3+")
      else ({ d with dead := true }, s!"REJECT {d.n} {ws} broadcast dequeued other nodes than the model's list | xs={d.m.xs}")
    | none => ({ d with dead := true }, s!"REJECT {d.n} bad-op {ws}")
  | ["rm", n] =>
    match n.toNat? with
    | some n => apply d ws (.removeTimed n) (rmKey d.m n)
    | none => ({ d with dead := true }, s!"REJECT {d.n} bad-op {ws}")
  | "snap" :: h :: t :: nodes =>
    match h.toNat?, t.toNat?, nodes.mapM triple with
    | some h, some t, some l =>
      let s := d.m.s
      let names := l.map (·.1)
      let badNext := l.filter (fun (x, nx, _) => s.next x ≠ nx)
      let badPrev := (l.drop 1).filter (fun (x, _, pv) => s.timed x ∧ s.prev x ≠ pv)
      if h ≠ s.head then ({ d with dead := true }, s!"REJECT {d.n} snap p_head real={h} model={s.head} | xs={d.m.xs}")
      else if t ≠ s.tail then ({ d with dead := true }, s!"REJECT {d.n} snap p_tail real={t} model={s.tail} | xs={d.m.xs}")
      else if names ≠ d.m.xs then ({ d with dead := true }, s!"REJECT {d.n} snap list real={names} model={d.m.xs}")
      else if badNext ≠ [] then ({ d with dead := true }, s!"REJECT {d.n} snap p_next differs at {badNext.map (·.1)} | real={nodes} xs={d.m.xs}")
      else if badPrev ≠ [] then
        ({ d with dead := true }, s!"REJECT {d.n} snap p_prev of a timed non-head node differs at {badPrev.map (·.1)} model={badPrev.map (fun (x, _, _) => s.prev x)} | real={nodes} xs={d.m.xs}")
      else ({ d with n := d.n + 1 }, "")
    | _, _, _ => ({ d with dead := true }, s!"REJECT {d.n} bad-op {ws}")
  | _ => ({ d with dead := true }, s!"REJECT {d.n} bad-op {ws}")

def main : IO Unit :=
  Driver.runModel ({ m := machine.init, n := 0, dead := false, seen := [] } : D) dstep
end Driver.WLPtr
