import ArgoVerif.Model.KTable
import ArgoVerif.Gen.Consts
import Driver.Util
/- line-protocol driver for Model.KTable; mirrors harness/api_keys.c -/
namespace Driver.KTable
open ArgoVerif.Model.KTable
open ArgoVerif.Gen

def geom : Geom :=
  { descSize := Consts.ktableDescSize.toNat, hdr := Consts.ktableHdrSize.toNat,
    slot := Consts.ktableSlotSize.toNat, align := Consts.maxAlignment.toNat, elem := Consts.ktelemSize.toNat }

def keyIdEnd : Nat := Consts.keyIdEnd.toNat
/-- destructor id the driver gives the runtime's own migration-data destructor (never logged) -/
def migDtor : Nat := 99

structure UnitS where
  st : Nat := 0        -- 0 free, 1 ready, 2 terminated
  kind : Nat := 0      -- 0 ult 1 task 2 unnamed ult 3 unnamed task
  slot : Slot := none

structure DS where
  inited : Bool := false
  size : Nat := 0
  nextKey : Nat := keyIdEnd
  keys : Array (Nat × Nat × Bool) := #[]     -- id, destructor, alive
  units : Array UnitS := #[{}]

def dumpChainS (i : Nat) (c : List Elem) : String :=
  s!"b{i}:" ++ String.join (c.map fun e => if e.keyId < keyIdEnd then s!" {e.keyId}=*" else s!" {e.keyId}={e.val}")

def dumpBlocksS (t : Table) : String := s!" | blk={dumpBlocks t} extra={t.extra}"

def dumpAfterSet (s : Slot) (kid : Nat) : String :=
  match s with
  | none => " | null"
  | some t => let i := idx t.size kid; " | " ++ dumpChainS i (t.b i) ++ dumpBlocksS t

def dtorLog (calls : List DCall) : String :=
  let cs := calls.filter fun d => d.dtor == 1 || d.dtor == 2
  if cs.isEmpty then "" else " | dtor" ++ String.join (cs.map fun d => s!" d{d.dtor}:{d.val}")

def getUnit (d : DS) (w : Nat) : UnitS := d.units.getD w {}
def setUnit (d : DS) (w : Nat) (u : UnitS) : DS := { d with units := d.units.setIfInBounds w u }

def keyOf (d : DS) (i : Nat) : Option Key :=
  match d.keys[i]? with
  | some (id, dt, true) => some { id := id, dtor := dt }
  | _ => none

def doSet (d : DS) (w : Nat) (k : Key) (v : Nat) : DS × String :=
  let u := getUnit d w
  let (s', ok) := slotSet geom d.size u.slot k v true true
  (setUnit d w { u with slot := s' }, s!" set {if ok then 0 else 2}" ++ dumpAfterSet s' k.id)

/-- one sub-operation executed by work unit `self`; returns (state, output, exit requested) -/
def subOp (d : DS) (self : Nat) (ws : List String) : DS × String × Bool :=
  match ws with
  | ["exit"] => (d, " exit", true)
  | [op, a, b] =>
    if op == "sset" || op == "sset2" then
      match a.toNat?.bind (keyOf d), b.toNat? with
      | some k, some v => let (d', o) := doSet d self k v; (d', o, false)
      | _, _ => (d, " bad-op", false)
    else if op == "oget" then
      match a.toNat?, b.toNat?.bind (keyOf d) with
      | some w, some k =>
        if w < d.units.size && (getUnit d w).st != 0 then (d, s!" get 0 {slotGet (getUnit d w).slot k.id}", false)
        else (d, " bad-op", false)
      | _, _ => (d, " bad-op", false)
    else (d, " bad-op", false)
  | [op, a] =>
    if op == "sget" || op == "sget2" then
      match a.toNat?.bind (keyOf d) with
      | some k => (d, s!" get 0 {slotGet (getUnit d self).slot k.id}", false)
      | none => (d, " bad-op", false)
    else (d, " bad-op", false)
  | ["oset", a, b, c] =>
    match a.toNat?, b.toNat?.bind (keyOf d), c.toNat? with
    | some w, some k, some v =>
      if w < d.units.size && (getUnit d w).st != 0 then let (d', o) := doSet d w k v; (d', o, false)
      else (d, " bad-op", false)
    | _, _, _ => (d, " bad-op", false)
  | _ => (d, " bad-op", false)

def splitSubs (ws : List String) : List (List String) :=
  let rec go (cur : List String) (acc : List (List String)) : List String → List (List String)
    | [] => (acc ++ [cur])
    | w :: r => if w == ";" then go [] (acc ++ [cur]) r else go (cur ++ [w]) acc r
  (go [] [] ws).filter (· ≠ [])

def runSubs (d : DS) (self : Nat) (subs : List (List String)) : DS × String × Bool :=
  let rec go (d : DS) (out : String) (ex : Bool) (first : Bool) : List (List String) → DS × String × Bool
    | [] => (d, out, ex)
    | s :: r =>
      let (d', o, e) := subOp d self s
      go d' (out ++ (if first then "" else " ;") ++ o) (ex || e) false r
  go d "" false true subs

/-- free the key table of unit `w` (thread_free): destructor log -/
def freeUnit (d : DS) (w : Nat) : DS × String :=
  let u := getUnit d w
  let (calls, _) := slotFree u.slot
  (setUnit d w { u with st := 0, slot := none }, dtorLog calls)

/-- the harness separates sub-operations with `;` possibly glued to a word; normalise -/
def tokens (ws : List String) : List String :=
  ws.flatMap fun w =>
    let parts := w.splitOn ";"
    let rec weave : List String → List String
      | [] => []
      | [x] => if x.isEmpty then [] else [x]
      | x :: r => (if x.isEmpty then [] else [x]) ++ [";"] ++ weave r
    weave parts

def step (d : DS) (ws : List String) : DS × String :=
  match ws with
  | ["init", n] =>
    match n.toNat? with
    | some n =>
      if d.inited then (d, "bad-op") else
      let sz := loaderSize n
      ({ d with inited := true, size := sz, units := d.units.setIfInBounds 0 { st := 1, kind := 0, slot := none } },
       s!"init size={sz}")
    | none => (d, "bad-op")
  | ["fin"] =>
    if !d.inited then (d, "bad-op") else
    if (d.units.toList.drop 1).any (fun u => u.st != 0) then (d, "bad-op") else
    let (d', log) := freeUnit d 0
    ({ d' with inited := false }, "fin" ++ log)
  | _ =>
  if !d.inited then (d, "bad-op") else
  match ws with
  | ["key", a] =>
    match a.toNat? with
    | some a =>
      if a ≤ 2 then
        ({ d with keys := d.keys.push (d.nextKey, a, true), nextKey := d.nextKey + 1 }, s!"key 0 {d.nextKey}")
      else (d, "bad-op")
    | none => (d, "bad-op")
  | ["keyfree", a] =>
    match a.toNat? with
    | some i =>
      match d.keys[i]? with
      | some (id, dt, true) => ({ d with keys := d.keys.setIfInBounds i (id, dt, false) }, "keyfree 0")
      | _ => (d, "bad-op")
    | none => (d, "bad-op")
  | ["spawn", k] =>
    let kind : Option Nat := if k == "ult" then some 0 else if k == "task" then some 1
      else if k == "uult" then some 2 else if k == "utask" then some 3 else none
    match kind with
    | some kind =>
      let w := d.units.size
      ({ d with units := d.units.push { st := 1, kind := kind, slot := none } }, s!"spawn 0 {w}")
    | none => (d, "bad-op")
  | "in" :: a :: rest =>
    match a.toNat? with
    | some w =>
      if w < d.units.size && (getUnit d w).st == 1 then
        let (d1, o, ex) := runSubs d w (splitSubs (tokens rest))
        if w == 0 then (d1, s!"in {w}:" ++ o)
        else
          let u := getUnit d1 w
          if ex || u.kind == 1 || u.kind == 3 then
            if u.kind ≥ 2 then
              let (d2, log) := freeUnit d1 w
              (d2, s!"in {w}:" ++ o ++ " | term" ++ log)
            else (setUnit d1 w { u with st := 2 }, s!"in {w}:" ++ o ++ " | term")
          else (d1, s!"in {w}:" ++ o ++ " | yield")
      else (d, "bad-op")
    | none => (d, "bad-op")
  | ["free", a] =>
    match a.toNat? with
    | some w =>
      if 1 ≤ w && w < d.units.size && (getUnit d w).st == 2 then
        let (d', log) := freeUnit d w
        (d', "free 0" ++ log)
      else (d, "bad-op")
    | none => (d, "bad-op")
  | ["revive", a] =>
    match a.toNat? with
    | some w =>
      if 1 ≤ w && w < d.units.size && (getUnit d w).st == 2 then
        let u := getUnit d w
        -- thread_revive: key table untouched (Model.KTable.step .revive)
        (setUnit d w { u with st := 1, slot := (ArgoVerif.Model.KTable.step geom d.size u.slot .revive).1 }, "revive 0")
      else (d, "bad-op")
    | none => (d, "bad-op")
  | ["mig", a] =>
    match a.toNat? with
    | some w =>
      if 1 ≤ w && w < d.units.size && (getUnit d w).st != 0 then
        let u := getUnit d w
        -- ABTI_thread_get_mig_data: set the predefined key once
        let s' := if slotGet u.slot 1 = 0 then (slotSet geom d.size u.slot { id := 1, dtor := migDtor } 1 true true).1
                  else u.slot
        let out := match s' with
          | none => ""
          | some t => let i := idx t.size 1; " | " ++ dumpChainS i (t.b i) ++ dumpBlocksS t
        (setUnit d w { u with slot := s' }, "mig 0" ++ out)
      else (d, "bad-op")
    | none => (d, "bad-op")
  | ["dump", a] =>
    match a.toNat? with
    | some w =>
      if w < d.units.size && (getUnit d w).st != 0 then
        match (getUnit d w).slot with
        | none => (d, "dump null")
        | some t =>
          (d, s!"dump size={t.size}" ++ String.join ((List.range t.size).map fun i => " | " ++ dumpChainS i (t.b i))
              ++ dumpBlocksS t)
      else (d, "bad-op")
    | none => (d, "bad-op")
  | _ => (d, "bad-op")

def main : IO Unit := Driver.runModel ({} : DS) step
end Driver.KTable
