import ArgoVerif.Model.Env
import Driver.Atoi
/- `driver env`: lines `env cores=<n> page=<n> NAME=<hex> ...` (the whole set of ABT_* variables);
output: every table setting in table order, then the stack-guard kind. -/
namespace Driver.Env
open ArgoVerif.Model.Env

def parseArgs : List String → Option (Int × Int × Environ)
  | c :: p :: vars => do
    let c ← (match c.splitOn "=" with | ["cores", v] => v.toInt? | _ => none)
    let p ← (match p.splitOn "=" with | ["page", v] => v.toInt? | _ => none)
    let E ← vars.mapM fun kv => match kv.splitOn "=" with
      | [k, h] => (Driver.Atoi.cbuf h).map fun b => (k, b)
      | _ => none
    pure (c, p, E)
  | _ => none

def step (_ : Unit) (ws : List String) : Unit × String :=
  match ws with
  | "env" :: rest =>
    match parseArgs rest with
    | some (c, p, E) =>
      let kvs := (envInit E c p).mergeSort (fun a b => !(b.1 < a.1))
      ((), " ".intercalate (kvs.map fun kv => s!"{kv.1}={kv.2}"))
    | none => ((), "bad-op")
  | _ => ((), "bad-op")

def main : IO Unit := Driver.runModel () step
end Driver.Env
