import ArgoVerif.Model.UnitMap
import ArgoVerif.Gen.Consts
import Driver.Util
/- line-protocol driver for the sequential part of Model.UnitMap; mirrors harness/wb_unitmap.c -/
namespace Driver.UnitMap
open ArgoVerif.Model.UnitMap
open ArgoVerif.Gen

def exp : Nat := Consts.unitHashTableSizeExp.toNat
def nul : UInt64 := UInt64.ofNat Consts.unitNull.toNat

def dumpB (m : UM) (u : UInt64) : String :=
  let i := hashIndex m.exp u
  s!" | b{i}:" ++ String.join ((m.b i).map fun e => " " ++ e.dump m.nul)

def okUnit (u : Nat) : Bool := u != 0 && u % 2 == 0 && u < 18446744073709551616 && UInt64.ofNat u != nul

def step (st : Option UM) (ws : List String) : Option UM × String :=
  match ws with
  | ["new"] => (some (empty exp nul), "ok")
  | _ =>
  match st with
  | none => (st, "bad-op")
  | some m =>
    match ws with
    | [op, u, t] =>
      match u.toNat?, t.toNat? with
      | some u, some t =>
        if (op == "map" || op == "mapf") && okUnit u then
          match mapThread m (UInt64.ofNat u) t (op == "map") with
          | some m' => (some m', s!"map {Consts.errSuccess}" ++ dumpB m' (UInt64.ofNat u))
          | none => (some m, s!"map {Consts.errMem}" ++ dumpB m (UInt64.ofNat u))
        else (st, "bad-op")
      | _, _ => (st, "bad-op")
    | ["unmap", u] =>
      match u.toNat? with
      | some u =>
        if okUnit u then
          match unmapThread m (UInt64.ofNat u) with
          | some m' => (some m', "unmap" ++ dumpB m' (UInt64.ofNat u))
          | none => (st, "abort")
        else (st, "bad-op")
      | none => (st, "bad-op")
    | ["get", u] =>
      match u.toNat? with
      | some u =>
        if okUnit u then
          match getThread m (UInt64.ofNat u) with
          | some t => (st, s!"get {t}")
          | none => (st, "abort")
        else (st, "bad-op")
      | none => (st, "bad-op")
    | ["stress", n, k, _] =>
      match n.toNat?, k.toNat? with
      | some n, some k =>
        -- Props.C14.unitmap_lockfree_get: every lookup of a stably mapped unit returns its work
        -- unit, whatever interleaves; afterwards all cells are tombstones.  Fresh table.
        if 1 ≤ n && n ≤ 16 && 1 ≤ k && k ≤ 64 then (some (empty exp nul), "stress ok") else (st, "bad-op")
      | _, _ => (st, "bad-op")
    | _ => (st, "bad-op")

def main : IO Unit := Driver.runModel (none : Option UM) step
end Driver.UnitMap
