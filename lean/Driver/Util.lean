/- line-protocol plumbing shared by all model drivers -/
namespace Driver

def words (line : String) : List String :=
  (line.trimAscii.toString.splitOn " ").filter (· ≠ "")

partial def loop {σ : Type} (h : IO.FS.Stream) (out : IO.FS.Stream) (s : σ)
    (step : σ → List String → σ × String) : IO σ := do
  let line ← h.getLine
  if line.isEmpty then
    out.flush
    return s
  let ws := words line
  if ws.isEmpty then loop h out s step
  else
    let (s', o) := step s ws
    if !o.isEmpty then out.putStrLn o
    loop h out s' step

def runModel {σ : Type} (init : σ) (step : σ → List String → σ × String) : IO Unit := do
  let stdin ← IO.getStdin
  let stdout ← IO.getStdout
  let _ ← loop stdin stdout init step
  return ()

end Driver
