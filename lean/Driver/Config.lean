import ArgoVerif.Model.Config
import Driver.Util
/- `driver config`: ABT_sched_config / ABT_pool_config through the typed-element model.
   screate <k> (<idx> <tag> <bits>){k}   -> ok | err 53      (pairs before ABT_sched_config_var_end)
   pcreate                               -> ok
   sset|pset <idx> <tag> <bits|null>     -> err <code>
   sget|pget <idx>                       -> got <tag> <hex16> | err 53
   sreadi|preadi <idx>                   -> readi <hex16> | err 53
   sread <n> <mask>                      -> read <hex16|-> …   (n ≤ 4 pointers, bit i of mask = non-NULL)
   Values are bit patterns (decimal); an 8-byte destination pre-filled with 0xAA is printed as 16 hex digits. -/
namespace Driver.Config
open ArgoVerif.Model.Config ArgoVerif.Gen.EnvTable

structure St where
  s : Config
  p : Config

def hexDigit (n : Nat) : Char := if n < 10 then Char.ofNat (48 + n) else Char.ofNat (87 + n)
def hex16 (v : Nat) : String := String.ofList ((List.range 16).reverse.map fun i => hexDigit ((v >>> (4 * i)) % 16))

def fillAA : Nat := 0xAAAAAAAAAAAAAAAA
/-- 8-byte buffer pre-filled with 0xAA after the element was stored through it -/
def stored : Option Elem → Nat
  | none => fillAA
  | some ⟨.int, b⟩ => 0xAAAAAAAA00000000 + b % 4294967296
  | some ⟨_, b⟩ => b % 18446744073709551616

def parsePairs : Nat → List String → Option (List (Int × Int × Nat))
  | 0, [] => some []
  | k + 1, i :: t :: b :: rest => do
    let i ← i.toInt?; let t ← t.toInt?; let b ← b.toNat?
    let r ← parsePairs k rest
    pure ((i, t, b) :: r)
  | _, _ => none

def doSet (c : Config) (idx tag val : String) : Option (Config × String) := do
  let i ← idx.toInt?; let t ← tag.toInt?
  let v ← (if val == "null" then some none else val.toNat?.map some)
  let (c', e) := set c i t v
  pure (c', s!"err {e}")

def doGet (c : Config) (idx : String) : String :=
  match idx.toInt? with
  | none => "bad-op"
  | some i => match get c i with
    | some e => s!"got {tagOf c.kind e.ty} {hex16 (stored (some e))}"
    | none => s!"err {errInvArg}"

def doReadi (c : Config) (idx : String) : String :=
  match idx.toInt? with
  | none => "bad-op"
  | some i => match get c i with
    | some e => s!"readi {hex16 (stored (some e))}"
    | none => s!"err {errInvArg}"

def step (st : St) (ws : List String) : St × String :=
  match ws with
  | "screate" :: k :: rest =>
    match k.toNat? with
    | some k => match parsePairs k rest with
      | some ps => match schedCreate (ps ++ [(schedConfigVarEndIdx, 0, 0)]) with
        | some c => ({ st with s := c }, "ok")
        | none => (st, s!"err {errInvArg}")
      | none => (st, "bad-op")
    | none => (st, "bad-op")
  | ["pcreate"] => ({ st with p := createEmpty .pool }, "ok")
  | ["sset", i, t, v] => match doSet st.s i t v with
    | some (c, o) => ({ st with s := c }, o) | none => (st, "bad-op")
  | ["pset", i, t, v] => match doSet st.p i t v with
    | some (c, o) => ({ st with p := c }, o) | none => (st, "bad-op")
  | ["sget", i] => (st, doGet st.s i)
  | ["pget", i] => (st, doGet st.p i)
  | ["sreadi", i] => (st, doReadi st.s i)
  | ["preadi", i] => (st, doReadi st.p i)
  | ["sread", n, mask] => match n.toNat?, mask.toNat? with
    | some n, some mask =>
      if n ≤ 4 then
        let ptrs := (List.range n).map fun i => (mask >>> i) % 2 == 1
        let r := read st.s ptrs
        (st, "read" ++ String.join ((ptrs.zip r).map fun (nn, e) => if nn then " " ++ hex16 (stored e) else " -"))
      else (st, "bad-op")
    | _, _ => (st, "bad-op")
  | _ => (st, "bad-op")

def main : IO Unit := Driver.runModel (⟨createEmpty .sched, createEmpty .pool⟩ : St) step
end Driver.Config
