import ArgoVerif.Model.Stop
import ArgoVerif.Gen.Consts
import Driver.Util
/- `driver stop`: line protocol of harness/wb_stop.c.

  pure decisions (one real call per line)
    hu N {acc kind size nb ns}*N                         ABTI_sched_has_unit                  -> `hu 0|1`
    hs used r0 r1 N {acc kind s1 nb1 ns1 s2 nb2 ns2}*N   ABT_sched_has_to_stop (two snapshots) -> `hs 0|1`
    ce ult run main|same                            ABTI_xstream_check_events             -> `ce run' main'`
    fin r / exit r                                  ABT_sched_finish / ABT_sched_exit     -> `fin r'` / `exit r'`
  request words are the raw uint32 values, decoded with the generated constants (Gen.Consts).

  pool-consumer accounting (API histories; after every call the num_scheds of every live pool and the `used` field
  and request word of every live scheduler are dumped: ` | pools P=num_scheds.. | scheds K:used:request..`)
    init | pool P auto acc kind | poolfree P | sched K predef auto slots.. | schedu K auto slots.. | schedfree K
    xs X K | xs X nK nP | xsb X K predef slots.. | join X | revive X | xfree X
    setmain X K | setmain X nK nP | setmainb X K predef slots..
  a slot is the number of an existing pool or `n<P>`: a NULL entry, the pool the runtime creates for it gets number P;
  a leading `noarr` = no pool array is passed at all (the runtime chooses number and kind of the pools). -/
namespace Driver.Stop
open ArgoVerif ArgoVerif.Model.Stop ArgoVerif.Gen.Consts

def bitOf (w c : Int) : Bool := c > 0 && (w / c) % 2 == 1

def decSched (w : Int) : SchedReq :=
  { finish := bitOf w schedReqFinish, exit := bitOf w schedReqExit, replace := bitOf w schedReqReplace }
def encSched (r : SchedReq) : Int :=
  (if r.finish then schedReqFinish else 0) + (if r.exit then schedReqExit else 0) +
  (if r.replace then schedReqReplace else 0)
def decThread (w : Int) : ThreadReq := { join := bitOf w threadReqJoin, cancel := bitOf w threadReqCancel }

def parseAcc : String → Option Access
  | "priv" => some .priv | "spsc" => some .spsc | "mpsc" => some .mpsc | "spmc" => some .spmc
  | "mpmc" => some .mpmc | "inv" => some .invalid | _ => none
def parseUsed : String → Option Used
  | "notused" => some .notUsed | "main" => some .main | "inpool" => some .inPool | _ => none
def usedName : Used → String
  | .notUsed => "notused" | .main => "main" | .inPool => "inpool"
def parseBool : String → Option Bool
  | "0" => some false | "1" => some true | _ => none
def knownPredef (s : String) : Bool := ["default", "basic", "basic_wait", "prio", "randws"].contains s
def knownKind (s : String) : Bool := ["fifo", "fifo_wait", "randws"].contains s

/-- `{acc kind size nb ns}*` (the pool kind only selects the implementation's is_empty) -/
def parseViews1 : List String → Option (List PoolView)
  | [] => some []
  | a :: kind :: sz :: nb :: ns :: rest => do
    let a ← parseAcc a; let sz ← sz.toNat?; let nb ← nb.toInt?; let ns ← ns.toInt?
    let r ← parseViews1 rest
    if knownKind kind then pure (⟨sz, nb, a, ns⟩ :: r) else none
  | _ => none

/-- `{acc kind s1 nb1 ns1 s2 nb2 ns2}*` -/
def parseViews2 : List String → Option (List PoolView × List PoolView)
  | [] => some ([], [])
  | a :: kind :: s1 :: nb1 :: ns1 :: s2 :: nb2 :: ns2 :: rest => do
    let a ← parseAcc a
    if !knownKind kind then none
    let s1 ← s1.toNat?; let nb1 ← nb1.toInt?; let ns1 ← ns1.toInt?
    let s2 ← s2.toNat?; let nb2 ← nb2.toInt?; let ns2 ← ns2.toInt?
    let (r1, r2) ← parseViews2 rest
    pure (⟨s1, nb1, a, ns1⟩ :: r1, ⟨s2, nb2, a, ns2⟩ :: r2)
  | _ => none

/-- slots: existing pools and `n<P>` NULL entries (new automatic pools, in order) -/
def parseSlots : List String → Option (List PoolId × List PoolId)
  | [] => some ([], [])
  | "noarr" :: rest => parseSlots rest
  | t :: rest => do
    let (ps, news) ← parseSlots rest
    if t.startsWith "n" then
      let p ← (t.drop 1).toNat?
      pure (p :: ps, p :: news)
    else
      let p ← t.toNat?
      pure (p :: ps, news)

def newId (t : String) : Option Nat := if t.startsWith "n" then (t.drop 1).toNat? else none

def insSorted (k : Nat) (v : String) : List (Nat × String) → List (Nat × String)
  | [] => [(k, v)]
  | (k', v') :: r => if k ≤ k' then (k, v) :: (k', v') :: r else (k', v') :: insSorted k v r

def dump (s : Acc) : String :=
  let ps := s.pools.foldl (fun acc q => insSorted q.1 s!"{q.1}={s.ns q.1}" acc) []
  let ks := s.scheds.foldl (fun acc r => insSorted r.id s!"{r.id}:{usedName r.used}:{encSched (s.req r.id)}" acc) []
  " | pools" ++ String.join (ps.map (fun x => " " ++ x.2)) ++ " | scheds" ++ String.join (ks.map (fun x => " " ++ x.2))

def runEvs (s : Acc) : List AEv → Option Acc
  | [] => some s
  | e :: es => match astep s e with
    | some s' => runEvs s' es
    | none => none

def acct (s : Acc) (evs : Option (List AEv)) : Acc × String :=
  match evs with
  | none => (s, "bad-op")
  | some evs =>
    match runEvs s evs with
    | some s' => (s', "ok" ++ dump s')
    | none => (s, "err" ++ dump s)

def newPools (news : List PoolId) : List AEv := news.map (fun p => .poolCreate p true)

def step (s : Acc) (ws : List String) : Acc × String :=
  match ws with
  | "hu" :: n :: rest =>
    match n.toNat?, parseViews1 rest with
    | some n, some vs => if vs.length == n then (s, s!"hu {if hasUnit vs then 1 else 0}") else (s, "bad-op")
    | _, _ => (s, "bad-op")
  | "hs" :: u :: r0 :: r1 :: n :: rest =>
    match parseUsed u, r0.toInt?, r1.toInt?, n.toNat?, parseViews2 rest with
    | some u, some r0, some r1, some n, some (v1, v2) =>
      if v1.length == n then
        (s, s!"hs {if hasToStop (decSched r0) v1 (decSched r1) v2 u then 1 else 0}")
      else (s, "bad-op")
    | _, _, _, _, _ => (s, "bad-op")
  | ["ce", ult, run, mn] =>
    match ult.toInt?, run.toInt? with
    | some ult, some run =>
      let run' := encSched (checkEvents (decThread ult) (decSched run))
      if mn == "same" then (s, s!"ce {run'} same")
      else match mn.toInt? with
        | some m => (s, s!"ce {run'} {encSched (decSched m)}")
        | none => (s, "bad-op")
    | _, _ => (s, "bad-op")
  | ["fin", r] => match r.toInt? with
    | some r => (s, s!"fin {encSched (schedFinish (decSched r))}")
    | none => (s, "bad-op")
  | ["exit", r] => match r.toInt? with
    | some r => (s, s!"exit {encSched (schedExit (decSched r))}")
    | none => (s, "bad-op")
  | ["init"] => acct s (some [.poolCreate 0 true, .schedCreate 0 [0] true, .streamCreate 0 0])
  | ["pool", p, a, acc, kind] =>
    acct s (do
      let p ← p.toNat?; let a ← parseBool a; let ac ← parseAcc acc
      if ac == .invalid || !knownKind kind then none else pure [.poolCreate p a])
  | ["poolfree", p] => acct s (do let p ← p.toNat?; pure [.poolFree p])
  | "sched" :: k :: predef :: a :: slots =>
    acct s (do
      let k ← k.toNat?; let a ← parseBool a; let (ps, news) ← parseSlots slots
      if !knownPredef predef then none else pure (newPools news ++ [.schedCreate k ps a]))
  | "schedu" :: k :: a :: slots =>
    acct s (do
      let k ← k.toNat?; let a ← parseBool a; let (ps, news) ← parseSlots slots
      pure (newPools news ++ [.schedCreate k ps a]))
  | ["schedfree", k] => acct s (do let k ← k.toNat?; pure [.schedFree k])
  | ["xs", x, k] => acct s (do let x ← x.toNat?; let k ← k.toNat?; pure [.streamCreate x k])
  | ["xs", x, nk, np] =>
    acct s (do
      let x ← x.toNat?; let k ← newId nk; let p ← newId np
      pure [.poolCreate p true, .schedCreate k [p] true, .streamCreate x k])
  | "xsb" :: x :: k :: predef :: slots =>
    acct s (do
      let x ← x.toNat?; let k ← k.toNat?; let (ps, news) ← parseSlots slots
      if !knownPredef predef then none else pure (newPools news ++ [.schedCreate k ps true, .streamCreate x k]))
  | ["join", x] => acct s (do let x ← x.toNat?; pure [.join x])
  | ["revive", x] => acct s (do let x ← x.toNat?; pure [.revive x])
  | ["xfree", x] => acct s (do let x ← x.toNat?; pure [.streamFree x])
  | ["setmain", x, k] => acct s (do let x ← x.toNat?; let k ← k.toNat?; pure [.replace x k])
  | ["setmain", x, nk, np] =>
    acct s (do
      let x ← x.toNat?; let k ← newId nk; let p ← newId np
      pure [.poolCreate p true, .schedCreate k [p] true, .replace x k])
  | "setmainb" :: x :: k :: predef :: slots =>
    acct s (do
      let x ← x.toNat?; let k ← k.toNat?; let (ps, news) ← parseSlots slots
      if !knownPredef predef then none else pure (newPools news ++ [.schedCreate k ps true, .replace x k]))
  | _ => (s, "bad-op")

def main : IO Unit := Driver.runModel ainit step
end Driver.Stop
