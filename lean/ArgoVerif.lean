import ArgoVerif.Core.LTS
