#!/usr/bin/env python3
"""Entry point:  check.py Cxx [--tier quick|thorough] [--replay file]

For the property: regenerate the Lean sources tied to /repo (T0/T1), build the
property's theorems, audit axioms, run the property's correspondence checks
against the library built from /repo's working tree, search for a failing input
when anything breaks, write evidence, exit 0/1."""
import argparse, importlib, json, os, re, sys, time, traceback

sys.path.insert(0, os.path.dirname(os.path.abspath(__file__)))
from vlib import common as C
from vlib import gen as G


def enclosing_theorems(prop, out):
    """Map Lean error positions in Props/<prop>.lean to theorem names."""
    pf = os.path.join(C.LEAN, "ArgoVerif", "Props", prop + ".lean")
    names = []
    try:
        src = open(pf).read().split("\n")
    except OSError:
        return names
    for m in re.finditer(r"ArgoVerif/Props/%s\.lean:(\d+):\d+" % prop, out):
        ln = int(m.group(1))
        for i in range(min(ln, len(src)) - 1, -1, -1):
            mm = re.match(r"\s*(?:theorem|example|def|instance)\s+(\S+)?", src[i])
            if mm:
                names.append(mm.group(1) or "example@%d" % (i + 1))
                break
    seen = []
    for n in names:
        if n not in seen:
            seen.append(n)
    return seen


def main():
    ap = argparse.ArgumentParser()
    ap.add_argument("prop")
    ap.add_argument("--tier", default=os.environ.get("VERIF_TIER", "quick"), choices=["quick", "thorough"])
    ap.add_argument("--replay")
    a = ap.parse_args()
    prop = a.prop
    seed = int(os.environ.get("VERIF_SEED", "1"))
    res = C.Result(prop, a.tier, seed)
    mod = importlib.import_module("checks." + prop.lower())
    res.assumptions = list(getattr(mod, "ASSUMPTIONS", []))
    broken = []      # proof obligations / ties that no longer check (strings)
    try:
        if a.replay:
            rc = mod.replay(res, a.replay)
            sys.exit(rc)
        # 1+2 run under one lock: Gen/ files and the lake build are shared state
        pipeline = C.Lock("pipeline")
        pipeline.__enter__()
        # 1. translators: regenerate Lean from the current source
        gen_info = G.generate_all()
        for e in gen_info.pop("errors", []):
            broken.append({"kind": "translator", "translator": e["translator"], "error": e["error"],
                           "note": "the current source is outside the subset this translator understands; its previous "
                                   "output (generated from an earlier tree) was left in place for the build"})
        res.add_cov(generated=gen_info)
        # 2. proofs
        ok, out = C.lake_build(["ArgoVerif.Props." + prop, "driver"])
        if not ok:
            ths = enclosing_theorems(prop, out)
            errs = [l for l in out.split("\n") if "error" in l][:20]
            broken.append({"kind": "lean-build", "theorems": ths, "errors": errs})
        bad = C.grep_forbidden(prop)
        if bad:
            broken.append({"kind": "forbidden-construct", "hits": bad})
        names, axioms, problems = ([], {}, [])
        if ok:
            names, axioms, problems = C.audit(prop)
            if problems:
                broken.append({"kind": "axiom-audit", "problems": problems})
        res.add_cov(obligations=len(names), discharged=len(names) if ok and not problems else 0,
                    checker_cmd="lake build ArgoVerif.Props.%s && lake env lean build/audit/%s.lean (#print axioms)" % (prop, prop),
                    trusted_base=["Lean 4.33.0 kernel", "axioms: " + ",".join(sorted({x for v in axioms.values() for x in v}) or ["none"]),
                                  "translators tools/*.py + clang-14 AST + gcc -E", "correspondence harness (harness/*.c, vlib/*.py)"],
                    theorems=names)
        if a.tier == "thorough" and ok:
            rc, lo = C.sh(["lake", "env", "leanchecker", "ArgoVerif.Props." + prop], cwd=C.LEAN, timeout=1800)
            res.add_cov(leanchecker="ok" if rc == 0 else "FAILED")
            if rc != 0:
                broken.append({"kind": "leanchecker", "out": lo[-1500:]})
        if ok:
            C.snapshot_driver()
        pipeline.__exit__()
        # 3. correspondence (and, if something is broken, the failing-input search)
        mod.run(res, a.tier, broken)
        C.run_open_finding_programs(res)
        # 4. anything broken that the search did not turn into a concrete violation
        if broken and not any(not ni for (_, ni, _) in res.violations):
            res.violation("proof obligation / correspondence no longer checks", {"broken": broken}, no_input=True)
    except Exception as ex:
        traceback.print_exc()
        res.violation("check machinery failed: %r" % (ex,), {"exception": traceback.format_exc()}, no_input=True)
    res.write_evidence("proof")
    sys.exit(1 if res.violations else 0)


if __name__ == "__main__":
    main()
