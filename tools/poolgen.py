#!/usr/bin/env python3
"""T0 (pool ends): from the clang-14 AST of src/pool/{fifo,fifo_wait,randws}.c emit, for every
built-in pool kind x access mode x definition slot (push, pop, pop_wait, push_many, pop_many,
remove, pop_timedwait), which thread_queue_* call the installed C function makes under which
`context & MASK` condition -> lean/ArgoVerif/Gen/PoolEnds.lean.

Steps per source file
  1. AST of ABTI_pool_get_<kind>_def: every `p_*_def-><slot> = <function>` assignment, with the
     `case ABT_POOL_ACCESS_*:` labels it sits under (none = all access modes).
  2. AST of each installed function: every call to thread_queue_*, the stack of enclosing
     if-conditions that test the `context` parameter (mask evaluated from the macro-expanded constant
     expression in the AST), whether it is lexically inside a loop, and whether the pool's lock is held at the call:
     a flow walk in source order in which ABTD_spinlock_acquire / pthread_mutex_lock take it, ABTD_spinlock_release /
     pthread_mutex_unlock drop it, and the branch of an `if` guarded by
     `thread_queue_acquire_spinlock_if_not_empty(..) == 0` holds it (after an if: held only if held on both paths).
  3. the #define'd masks local to the file are also compiled (constgen style: a C program that
     #includes the .c file and prints them) and cross-checked against the AST-evaluated masks.
Anything not understood (a use of `context` that is not a recognised test, an unknown slot function, a
condition form not handled) is a hard failure: the table would no longer describe the code."""
import json, os, re, sys
sys.path.insert(0, os.path.dirname(os.path.dirname(os.path.abspath(__file__))))
from vlib import common as C

KINDS = [("fifo", "fifo.c", "ABTI_pool_get_fifo_def"),
         ("fifoWait", "fifo_wait.c", "ABTI_pool_get_fifo_wait_def"),
         ("randws", "randws.c", "ABTI_pool_get_randws_def")]
ACCESS = [("priv", "ABT_POOL_ACCESS_PRIV"), ("spsc", "ABT_POOL_ACCESS_SPSC"), ("mpsc", "ABT_POOL_ACCESS_MPSC"),
          ("spmc", "ABT_POOL_ACCESS_SPMC"), ("mpmc", "ABT_POOL_ACCESS_MPMC")]
SLOTS = [("push", "p_push"), ("pop", "p_pop"), ("popWait", "p_pop_wait"), ("pushMany", "p_push_many"),
         ("popMany", "p_pop_many"), ("remove", "p_remove"), ("popTimedwait", "p_pop_timedwait")]
CALLS = {"thread_queue_push_head": "pushHead", "thread_queue_push_tail": "pushTail",
         "thread_queue_pop_head": "popHead", "thread_queue_pop_tail": "popTail",
         "thread_queue_remove": "remove"}
LOCK_ACQ = {"ABTD_spinlock_acquire", "pthread_mutex_lock"}
LOCK_REL = {"ABTD_spinlock_release", "pthread_mutex_unlock"}
LOCK_TRY = "thread_queue_acquire_spinlock_if_not_empty"     # returns 0 iff the lock was taken


class Unsupported(Exception):
    pass


def ast_docs(path, flt):
    cmd = ["clang-14", "-fsyntax-only", "-DHAVE_CONFIG_H", "-I%s/include" % C.SRC, "-I%s" % C.SRC,
           "-Xclang", "-ast-dump=json", "-Xclang", "-ast-dump-filter=" + flt, path]
    import subprocess
    p = subprocess.run(cmd, stdout=subprocess.PIPE, stderr=subprocess.PIPE)
    if p.returncode != 0:
        raise Unsupported("clang failed on %s: %s" % (path, p.stderr.decode()[-1500:]))
    txt = p.stdout.decode()
    dec = json.JSONDecoder()
    i, docs = 0, []
    while i < len(txt):
        while i < len(txt) and txt[i].isspace():
            i += 1
        if i >= len(txt):
            break
        o, i = dec.raw_decode(txt, i)
        docs.append(o)
    return docs


def body_of(d):
    for c in d.get("inner", []):
        if c.get("kind") == "CompoundStmt":
            return c
    return None


def functions(docs):
    fns = {}
    for d in docs:
        if d.get("kind") == "FunctionDecl" and body_of(d) is not None:
            fns[d["name"]] = d
    return fns


def strip(n):
    """drop parens / implicit casts / ConstantExpr wrappers"""
    while n.get("kind") in ("ParenExpr", "ImplicitCastExpr", "ConstantExpr", "CStyleCastExpr") and n.get("inner"):
        if n["kind"] == "CStyleCastExpr" and n.get("castKind") == "ToVoid":
            break
        n = n["inner"][-1]
    return n


def refname(n):
    n = strip(n)
    if n.get("kind") == "DeclRefExpr":
        return n.get("referencedDecl", {}).get("name")
    return None


def mentions(n, name):
    if n.get("kind") == "DeclRefExpr" and n.get("referencedDecl", {}).get("name") == name:
        return True
    return any(mentions(c, name) for c in n.get("inner", []))


def const_eval(n):
    """integer constant expression as expanded by the preprocessor"""
    n = strip(n)
    k = n.get("kind")
    if k == "IntegerLiteral":
        return int(n["value"])
    if k == "DeclRefExpr" and n.get("referencedDecl", {}).get("kind") == "EnumConstantDecl":
        raise Unsupported("enum constant in mask (not expected): %s" % n["referencedDecl"].get("name"))
    if k == "BinaryOperator":
        a, b = const_eval(n["inner"][0]), const_eval(n["inner"][1])
        op = n["opcode"]
        if op == "|":
            return a | b
        if op == "&":
            return a & b
        if op == "^":
            return a ^ b
        if op == "+":
            return a + b
        if op == "<<":
            return a << b
        raise Unsupported("operator %s in mask" % op)
    if k == "UnaryOperator" and n.get("opcode") == "~":
        return (~const_eval(n["inner"][0])) & 0xFFFFFFFFFFFFFFFF
    raise Unsupported("mask expression node %s" % k)


def ctx_test(n, ctxname):
    """(mask, polarity) for a condition testing the context word; raises when the form is unknown"""
    n = strip(n)
    k = n.get("kind")
    if k == "UnaryOperator" and n.get("opcode") == "!":
        m, pol = ctx_test(n["inner"][0], ctxname)
        return m, not pol
    if k == "BinaryOperator" and n.get("opcode") == "&":
        a, b = n["inner"]
        if refname(a) == ctxname and not mentions(b, ctxname):
            return const_eval(b), True
        if refname(b) == ctxname and not mentions(a, ctxname):
            return const_eval(a), True
    if k == "BinaryOperator" and n.get("opcode") in ("!=", "=="):
        a, b = n["inner"]
        for x, y in ((a, b), (b, a)):
            ys = strip(y)
            if ys.get("kind") == "IntegerLiteral" and int(ys["value"]) == 0 and mentions(x, ctxname):
                m, pol = ctx_test(x, ctxname)
                return m, (pol if n["opcode"] == "!=" else not pol)
    raise Unsupported("condition on `%s` of an unrecognised form (%s %s)" % (ctxname, k, n.get("opcode", "")))


def calls_fn(n, name):
    if n.get("kind") == "CallExpr" and n.get("inner") and refname(n["inner"][0]) == name:
        return True
    return any(calls_fn(c, name) for c in n.get("inner", []) if c)


def try_polarity(cond, fname):
    """the condition of an if contains a call of LOCK_TRY: True = the then-branch runs with the lock held,
    False = the else-branch does.  Recognised: `try == 0`, `0 == try`, `try != 0`, `try`, `!try`, and `A && <that>`."""
    n = strip(cond)
    k = n.get("kind")
    if k == "BinaryOperator" and n.get("opcode") == "&&":
        a, b = n["inner"]
        if calls_fn(a, LOCK_TRY) and not calls_fn(b, LOCK_TRY):
            a, b = b, a
        if calls_fn(a, LOCK_TRY):
            raise Unsupported("lock fast path on both sides of && in " + fname)
        if try_polarity(b, fname) is not True:
            raise Unsupported("`A && (lock not taken)` in " + fname)
        return True
    if k == "BinaryOperator" and n.get("opcode") in ("==", "!="):
        a, b = n["inner"]
        for x, y in ((a, b), (b, a)):
            ys = strip(y)
            if ys.get("kind") == "IntegerLiteral" and int(ys["value"]) == 0 and strip(x).get("kind") == "CallExpr":
                return n["opcode"] == "=="
    if k == "UnaryOperator" and n.get("opcode") == "!" and strip(n["inner"][0]).get("kind") == "CallExpr":
        return True
    if k == "CallExpr":
        return False
    raise Unsupported("condition around %s of an unrecognised form in %s" % (LOCK_TRY, fname))


def analyse(fn):
    """-> (sites, guards) of one pool function; a site is (conds, call, in_loop, lock_held)"""
    ctxname = None
    for p in fn.get("inner", []):
        if p.get("kind") == "ParmVarDecl" and "ABT_pool_context" in p.get("type", {}).get("qualType", ""):
            ctxname = p.get("name")
    sites, guards = [], []
    st = {"held": False}

    def walk(n, conds, loop):
        k = n.get("kind")
        inner = n.get("inner", [])
        if k in ("IfStmt", "ConditionalOperator"):
            if k == "IfStmt" and (n.get("hasInit") or n.get("hasVar")):
                raise Unsupported("if with init/var in " + fn["name"])
            cond, rest = inner[0], inner[1:]
            tconds, econds = conds, conds
            if ctxname and mentions(cond, ctxname):
                m, pol = ctx_test(cond, ctxname)
                tconds, econds = conds + [(m, pol)], conds + [(m, not pol)]
            else:
                walk(cond, conds, loop)
            pre = st["held"]
            t_held = e_held = pre
            if calls_fn(cond, LOCK_TRY):
                if k != "IfStmt":
                    raise Unsupported("lock fast path inside ?: in " + fn["name"])
                if try_polarity(cond, fn["name"]):
                    t_held = True
                else:
                    e_held = True
            st["held"] = t_held
            walk(rest[0], tconds, loop)
            t_end = st["held"]
            st["held"] = e_held
            if len(rest) > 1:
                walk(rest[1], econds, loop)
            e_end = st["held"]
            st["held"] = t_end and e_end
            return
        if k in ("ForStmt", "WhileStmt", "DoStmt"):
            for c in inner:
                if c:
                    walk(c, conds, True)
            return
        if k == "CStyleCastExpr" and n.get("castKind") == "ToVoid":
            return                      # `(void)context;`
        if k == "CallExpr":
            callee = refname(inner[0])
            for a in inner[1:]:
                if ctxname and mentions(a, ctxname):
                    raise Unsupported("`%s` passed on to %s in %s" % (ctxname, callee, fn["name"]))
                walk(a, conds, loop)
            if callee and callee.startswith("thread_queue_"):
                if callee in CALLS:
                    sites.append((list(conds), CALLS[callee], loop, st["held"]))
                else:
                    guards.append(callee)
            if callee in LOCK_ACQ:
                st["held"] = True
            elif callee in LOCK_REL:
                st["held"] = False
            return
        if k == "DeclRefExpr" and ctxname and n.get("referencedDecl", {}).get("name") == ctxname:
            raise Unsupported("use of `%s` outside a recognised test in %s" % (ctxname, fn["name"]))
        for c in inner:
            if c:
                walk(c, conds, loop)

    walk(body_of(fn), [], False)
    return sites, guards


def slot_assignments(getdef):
    """[(access label or None, slot field, function name)] in source order"""
    out = []

    def case_labels(n):
        """labels of a (nested) CaseStmt chain and the first body statement"""
        labels = []
        while n.get("kind") == "CaseStmt":
            lab = n["inner"][0]
            nm = None

            def find(x):
                nonlocal nm
                if x.get("kind") == "DeclRefExpr":
                    nm = x.get("referencedDecl", {}).get("name")
                for c in x.get("inner", []):
                    find(c)
            find(lab)
            labels.append(nm)
            n = n["inner"][-1]
        return labels, n

    def assign(n, labels):
        if n.get("kind") == "BinaryOperator" and n.get("opcode") == "=":
            lhs, rhs = n["inner"]
            lhs = strip(lhs)
            if lhs.get("kind") == "MemberExpr":
                f = refname(rhs)
                if f:
                    for lab in (labels or [None]):
                        out.append((lab, lhs.get("name"), f))
                    return
        for c in n.get("inner", []):
            if c:
                visit(c, labels)

    def visit(n, labels):
        k = n.get("kind")
        if k == "SwitchStmt":
            body = n["inner"][-1]
            cur = None
            for st in body.get("inner", []):
                if st.get("kind") == "CaseStmt":
                    cur, first = case_labels(st)
                    assign(first, cur)
                elif st.get("kind") == "DefaultStmt":
                    cur = ["<default>"]
                elif st.get("kind") == "BreakStmt":
                    cur = None
                else:
                    if cur != ["<default>"]:
                        assign(st, cur)
            return
        assign(n, labels)

    visit(body_of(getdef), None)
    return out


def local_macros(cfile):
    """compile `#include "<file>.c"` + printf of its own object-like POOL_CONTEXT_* macros"""
    src = open(cfile).read()
    names = re.findall(r"^#define\s+(POOL_CONTEXT_\w+)\b", src, re.M)
    if not names:
        return {}
    d = os.path.join(C.BUILD, "poolgen")
    os.makedirs(d, exist_ok=True)
    base = os.path.basename(cfile)[:-2]
    prog = os.path.join(d, base + "_macros.c")
    with open(prog, "w") as f:
        f.write('#include "%s"\n#include <stdio.h>\nint main(void){\n' % cfile)
        for nm in names:
            f.write('  printf("%s %%llu\\n", (unsigned long long)(%s));\n' % (nm, nm))
        f.write("  return 0;}\n")
    exe = os.path.join(d, base + "_macros")
    if os.path.exists(exe):
        os.unlink(exe)
    rc1, _ = C.sh("gcc -O0 -w -ffunction-sections -Wl,--gc-sections %s -I%s %s -o %s -lpthread -lm" %
                  (C.INC, C.SRC, prog, exe))
    if rc1 != 0 or not os.path.exists(exe):
        # link failed (undefined runtime symbols): print the values via the preprocessor + constant folding instead
        prog2 = os.path.join(d, base + "_macros2.c")
        with open(prog2, "w") as f:
            f.write('#include "abti.h"\n')
            for line in re.findall(r"^#define\s+POOL_CONTEXT_\w+(?:.*\\\n)*.*\n", src, re.M):
                f.write(line)
            f.write('#include <stdio.h>\nint main(void){\n')
            for nm in names:
                f.write('  printf("%s %%llu\\n", (unsigned long long)(%s));\n' % (nm, nm))
            f.write("  return 0;}\n")
        C.sh("gcc -O0 -w -ffunction-sections -Wl,--gc-sections %s -I%s %s -o %s" % (C.INC, C.SRC, prog2, exe), check=True)
    rc, out = C.sh([exe], check=True)
    vals = {}
    for l in out.strip().split("\n"):
        k, v = l.split()
        vals[k] = int(v)
    return vals


def lean_site(s):
    conds, call, loop = s[:3]
    cs = ", ".join("⟨%d, %s⟩" % (m, "true" if pol else "false") for m, pol in conds)
    return "⟨[%s], .%s, %s⟩" % (cs, call, "true" if loop else "false")


def _generate():
    entries, macros_all, problems, unlocked = [], [], [], []
    nsites = 0
    for kind, fname, getdef_name in KINDS:
        path = os.path.join(C.SRC, "pool", fname)
        fns = functions(ast_docs(path, "pool_"))
        if getdef_name not in fns:
            raise Unsupported("%s not found in %s" % (getdef_name, fname))
        assigns = slot_assignments(fns[getdef_name])
        macros = local_macros(path)
        for k, v in sorted(macros.items()):
            macros_all.append(("%s_%s" % (kind, k), v))
        cache = {}
        for acc, acc_label in ACCESS:
            for slot, field in SLOTS:
                cands = [f for (lab, fld, f) in assigns if fld == field and (lab is None or lab == acc_label)]
                if len(cands) != 1:
                    raise Unsupported("%s: slot %s for %s is assigned %d times (%s)" % (fname, field, acc_label, len(cands), cands))
                f = cands[0]
                if f not in fns:
                    raise Unsupported("%s: function %s (slot %s) has no body in this file" % (fname, f, field))
                if f not in cache:
                    cache[f] = analyse(fns[f])
                sites, guards = cache[f]
                if any(not s[3] for s in sites) and (acc != "priv" or kind == "fifoWait" or slot in ("popWait", "popTimedwait")):
                    unlocked.append([kind, acc, slot, f])
                for conds, *_ in sites:
                    for m, _ in conds:
                        if macros and m not in macros.values():
                            problems.append("%s:%s tests mask %d which is none of the file's POOL_CONTEXT_* macros %s" % (fname, f, m, macros))
                nsites += len(sites)
                entries.append("  { kind := .%s, access := .%s, slot := .%s, fn := \"%s\",\n    sites := [%s],\n    guards := [%s],\n    locked := [%s] }" % (
                    kind, acc, slot, f, ", ".join(lean_site(s) for s in sites), ", ".join('"%s"' % g for g in guards),
                    ", ".join("true" if s[3] else "false" for s in sites)))
    if problems:
        raise Unsupported("; ".join(sorted(set(problems))))
    lines = ["/- GENERATED by tools/poolgen.py from /repo/src/pool/{fifo,fifo_wait,randws}.c (clang-14 AST) on every check run.",
             "   Do not edit. -/",
             "import ArgoVerif.Model.TQ",
             "namespace ArgoVerif.Gen.PoolEnds",
             "open ArgoVerif.Model.Pool", "",
             "/-- object-like POOL_CONTEXT_* macros defined inside the pool sources (compiled values) -/"]
    for k, v in macros_all:
        lines.append("def %s : Nat := %d" % (k, v))
    lines += ["", "def table : List Entry := [", ",\n".join(entries), "]", "", "end ArgoVerif.Gen.PoolEnds", ""]
    changed = C.write_if_changed(os.path.join(C.LEAN, "ArgoVerif", "Gen", "PoolEnds.lean"), "\n".join(lines))
    return {"entries": len(entries), "sites": nsites, "macros": dict(macros_all), "changed": changed, "unlocked_shared": unlocked}


def generate():
    """Never raises for a source shape it does not understand: that must break *C07's* theorem (empty table ->
    `table_shape` / `pool_kind_ends` fail -> failing-input search), not the translators of every other property."""
    try:
        return _generate()
    except Unsupported as ex:
        msg = str(ex).replace("\\", "/").replace('"', "'").replace("\n", " ")[:600]
        lines = ["/- GENERATED by tools/poolgen.py — THE TRANSLATOR COULD NOT READ THE POOL SOURCES. Do not edit. -/",
                 "import ArgoVerif.Model.TQ",
                 "namespace ArgoVerif.Gen.PoolEnds",
                 "open ArgoVerif.Model.Pool", "",
                 'def translatorError : String := "%s"' % msg, "",
                 "def table : List Entry := []", "", "end ArgoVerif.Gen.PoolEnds", ""]
        changed = C.write_if_changed(os.path.join(C.LEAN, "ArgoVerif", "Gen", "PoolEnds.lean"), "\n".join(lines))
        return {"entries": 0, "error": str(ex)[:600], "changed": changed}


if __name__ == "__main__":
    print(generate())
