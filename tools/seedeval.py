#!/usr/bin/env python3
"""Confirm seeded property-breaking changes and run the checks against them.
usage: seedeval.py <dir-with-seeded-mutants> [ids...]     (e.g. /tmp/seeded C04-1 C04-2)
For every <ID>-<k>/ (patch.diff, demo.c, run.sh, meta.json): scratch worktree, apply, build, run the repository's test
suite, run the demonstration on the unchanged and on the mutated library, run `check.py <ID>` with VERIF_REPO pointing
at the worktree, store the confirmed mutant under /verif/seeded/<ID>-<k>/ (meta.json extended) and remove the worktree."""
import json, os, re, shutil, subprocess, sys, time

V = os.path.dirname(os.path.dirname(os.path.abspath(__file__)))


def sh(cmd, cwd=None, timeout=900, env=None):
    e = dict(os.environ)
    if env:
        e.update(env)
    try:
        p = subprocess.run(cmd, shell=True, cwd=cwd, stdout=subprocess.PIPE, stderr=subprocess.STDOUT, timeout=timeout, env=e)
        return p.returncode, p.stdout.decode("utf-8", "replace")
    except subprocess.TimeoutExpired as ex:
        return -999, (ex.stdout or b"").decode("utf-8", "replace") + "\nTIMEOUT"


def run_check(out, pid, wt):
    t0 = time.time()
    rc, o = sh("python3 check.py %s" % pid, cwd=V, env={"VERIF_REPO": wt, "VERIF_SEED": "1"}, timeout=2400)
    out["check_rc"] = rc
    out["check_wall_s"] = round(time.time() - t0, 1)
    vl = [l for l in o.split("\n") if l.startswith("VIOLATION")]
    out["violation_lines"] = vl
    out["detected"] = rc == 1 and bool(vl)
    out["concrete_input"] = any("no-failing-input-found" not in l for l in vl)
    whats = []
    for l in vl:
        m = re.search(r"replay=(\S+)", l)
        if m and os.path.exists(m.group(1)):
            try:
                r = json.load(open(m.group(1)))
                whats.append(r.get("what", "")[:300])
                kinds = sorted({b.get("kind", "?") for b in r.get("broken", [])}) if isinstance(r.get("broken"), list) else []
                if kinds:
                    whats.append("broken: " + ",".join(kinds))
            except Exception:
                pass
    out["check_what"] = whats


def check_only(out, d, pid, wt, name, prev):
    out.update({k: prev.get(k) for k in ("tests_pass", "demo_ok")})
    run_check(out, pid, wt)
    mp = os.path.join(V, "seeded", name, "meta.json")
    meta = json.load(open(mp))
    meta["check_result"] = {k: out.get(k) for k in ("check_rc", "detected", "concrete_input", "violation_lines", "check_what", "check_wall_s")}
    json.dump(meta, open(mp, "w"), indent=1)
    return out


def evaluate(src, name):
    d = os.path.join(src, name)
    pid = name.split("-")[0]
    wt = "/tmp/wt-eval-%s" % name
    out = {"name": name, "property": pid}
    sh("git -C /repo worktree remove --force %s" % wt)
    shutil.rmtree(wt, ignore_errors=True)
    rc, o = sh("git -C /repo worktree add --detach %s HEAD" % wt)
    if rc != 0:
        out["error"] = "worktree: " + o[-300:]
        return out
    try:
        sh("rsync -a --ignore-existing --exclude .git --exclude '*.o' --exclude '*.lo' --exclude '.libs' --exclude '*.la' "
           "--exclude '*.log' --exclude '*.trs' /repo/ %s/" % wt)
        rc, o = sh("git -C %s apply %s/patch.diff" % (wt, d))
        out["patch_applies"] = rc == 0
        if rc != 0:
            out["error"] = "patch does not apply: " + o[-300:]
            return out
        prev = {}
        if os.environ.get("SEEDEVAL_CHECK_ONLY"):
            # re-run of the check only: the confirmation (test suite, demonstration) recorded earlier is kept
            try:
                prev = json.load(open(os.path.join(V, "seeded", name, "meta.json"))).get("confirmed_by_lead", {})
            except Exception:
                prev = {}
            if not (prev.get("tests_pass") and prev.get("demo_ok")):
                prev = {}
        if prev:
            return check_only(out, d, pid, wt, name, prev)
        rc, o = sh("make -j8 > /dev/null 2>&1; echo rc=$?", cwd=wt)
        out["builds"] = "rc=0" in o
        rc, o = sh("make check -j6 2>&1 | grep -E '^# (TOTAL|PASS|FAIL|ERROR|SKIP)'", cwd=os.path.join(wt, "test"), timeout=1500)
        nums = {k: sum(int(x) for x in re.findall(r"# %s:\s+(\d+)" % k, o)) for k in ("TOTAL", "PASS", "FAIL", "ERROR", "SKIP")}
        out["test_suite"] = nums
        out["tests_pass"] = nums["FAIL"] == 0 and nums["ERROR"] == 0 and nums["PASS"] >= 119
        # demonstration
        runsh = os.path.join(d, "run.sh")
        if os.path.exists(runsh):
            demo = "bash %s" % runsh
        else:
            demo = None
        if demo:
            r0, o0 = sh("%s /repo/src/.libs/libabt.a /repo/src/include" % demo, cwd=d, timeout=300)
            r1, o1 = sh("%s %s/src/.libs/libabt.a %s/src/include" % (demo, wt, wt), cwd=d, timeout=300)
            out["demo_unchanged_rc"] = r0
            out["demo_mutated_rc"] = r1
            out["demo_ok"] = (r0 == 0 and r1 != 0)
            out["demo_mutated_tail"] = o1[-300:]
        # our check
        t0 = time.time()
        rc, o = sh("python3 check.py %s" % pid, cwd=V, env={"VERIF_REPO": wt, "VERIF_SEED": "1"}, timeout=2400)
        out["check_rc"] = rc
        out["check_wall_s"] = round(time.time() - t0, 1)
        vl = [l for l in o.split("\n") if l.startswith("VIOLATION")]
        out["violation_lines"] = vl
        out["detected"] = rc == 1 and bool(vl)
        out["concrete_input"] = any("no-failing-input-found" not in l for l in vl)
        whats = []
        for l in vl:
            m = re.search(r"replay=(\S+)", l)
            if m and os.path.exists(m.group(1)):
                try:
                    r = json.load(open(m.group(1)))
                    whats.append(r.get("what", "")[:300])
                    kinds = sorted({b.get("kind", "?") for b in r.get("broken", [])}) if isinstance(r.get("broken"), list) else []
                    if kinds:
                        whats.append("broken: " + ",".join(kinds))
                except Exception:
                    pass
        out["check_what"] = whats
        # keep it
        dst = os.path.join(V, "seeded", name)
        os.makedirs(dst, exist_ok=True)
        for f in os.listdir(d):
            if os.path.isfile(os.path.join(d, f)) and os.path.getsize(os.path.join(d, f)) < 200000:
                shutil.copy2(os.path.join(d, f), os.path.join(dst, f))
        meta = {}
        try:
            meta = json.load(open(os.path.join(d, "meta.json")))
        except Exception:
            pass
        meta["property"] = pid
        meta["confirmed_by_lead"] = {k: out.get(k) for k in ("patch_applies", "builds", "test_suite", "tests_pass", "demo_unchanged_rc",
                                                               "demo_mutated_rc", "demo_ok")}
        meta["check_result"] = {k: out.get(k) for k in ("check_rc", "detected", "concrete_input", "violation_lines", "check_what", "check_wall_s")}
        meta["what_i_ran"] = ["git worktree add + rsync of configure output", "git apply patch.diff", "make -j8", "cd test && make check -j6",
                              "run.sh on /repo's library and on the mutated library", "VERIF_REPO=<worktree> python3 check.py %s" % pid]
        json.dump(meta, open(os.path.join(dst, "meta.json"), "w"), indent=1)
    finally:
        sh("git -C /repo worktree remove --force %s" % wt)
        shutil.rmtree(wt, ignore_errors=True)
    return out


if __name__ == "__main__":
    src = sys.argv[1]
    names = sys.argv[2:] or sorted(os.listdir(src))
    for n in names:
        if not os.path.isdir(os.path.join(src, n)):
            continue
        r = evaluate(src, n)
        print(json.dumps({k: r.get(k) for k in ("name", "tests_pass", "demo_ok", "detected", "concrete_input", "check_what", "error", "check_wall_s")}))
        sys.stdout.flush()
