#!/usr/bin/env python3
"""One-shot generator of the ABT_VERIF_HOOKS instrumentation in /repo (add-only).
Run once; the result is committed in /repo as separate small commits.  Kept for the record."""
import re, sys
SRC = "/repo/src"

KINDS = {"load": 1, "store": 2, "clear": 3, "tas": 4, "cas": 5, "fadd": 6, "fsub": 7, "for": 8, "fand": 9, "fxor": 10, "xchg": 11, "pause": 12, "fence": 13}
WIDTH = {"bool": 1, "int": 4, "int32": 4, "uint32": 4, "size": 8, "int64": 8, "uint64": 8, "ptr": 8, "ythread_context_ptr": 8, "tagged_ptr": 16}

PRELUDE = '''
/* Verification hooks (compiled in only with -DABT_VERIF_HOOKS; see /verif). */
#ifdef ABT_VERIF_HOOKS
#include <stdint.h>
void abt_verif_atomic(int kind, int width, const volatile void *addr,
                      uint64_t a, uint64_t b);
void abt_verif_event(int kind, const void *p1, const void *p2, long v);
#define ABTI_VERIF_ATOMIC(kind, width, addr, a, b)                             \\
    abt_verif_atomic(kind, width, (const volatile void *)(addr),               \\
                     (uint64_t)(uintptr_t)(a), (uint64_t)(uintptr_t)(b))
#define ABTI_VERIF_EVENT(kind, p1, p2, v)                                      \\
    abt_verif_event(kind, (const void *)(p1), (const void *)(p2), (long)(v))
#else
#define ABTI_VERIF_ATOMIC(kind, width, addr, a, b)
#define ABTI_VERIF_EVENT(kind, p1, p2, v)
#endif
'''


def classify(name):
    m = re.match(r"ABTD_atomic_(relaxed|acquire|release)_(load|store|clear)_(?:non_atomic_)?(\w+)$", name)
    if m:
        return m.group(2), m.group(3)
    m = re.match(r"ABTD_atomic_test_and_set_(\w+)$", name)
    if m:
        return "tas", m.group(1)
    m = re.match(r"ABTD_atomic_fetch_(add|sub|or|and|xor)_(\w+)$", name)
    if m:
        return {"add": "fadd", "sub": "fsub", "or": "for", "and": "fand", "xor": "fxor"}[m.group(1)], m.group(2)
    m = re.match(r"ABTD_atomic_(?:bool|val)_cas_(?:weak|strong)_(\w+)$", name)
    if m:
        return "cas", m.group(1)
    m = re.match(r"ABTD_atomic_exchange_(\w+)$", name)
    if m:
        return "xchg", m.group(1)
    if name == "ABTD_atomic_pause":
        return "pause", None
    if name == "ABTD_atomic_mem_barrier":
        return "fence", None
    return None, None


def atomics():
    p = SRC + "/include/abtd_atomic.h"
    s = open(p).read()
    assert "ABT_VERIF_HOOKS" not in s
    # prelude after the first #include block
    anchor = '#include <stdint.h>\n'
    assert anchor in s
    s = s.replace(anchor, anchor + PRELUDE, 1)
    pat = re.compile(r"(static inline [^;{}]*?\b(ABTD_atomic_\w+)\s*\(([^)]*)\)\s*\{\n)")
    n = 0

    def sub(m):
        nonlocal n
        name, params = m.group(2), m.group(3)
        kind, ty = classify(name)
        if kind is None:
            return m.group(1)
        names = [re.sub(r".*?(\w+)\s*$", r"\1", x.strip()) for x in params.split(",")] if params.strip() not in ("", "void") else []
        w = WIDTH.get(ty, 0) if ty else 0
        if ty and ty not in WIDTH:
            raise SystemExit("unknown type " + ty + " in " + name)
        addr = names[0] if names else "0"
        a = names[1] if len(names) > 1 else "0"
        b = names[2] if len(names) > 2 else "0"
        if kind == "load":
            a, b = "0", "0"
        if kind == "cas" and ty == "tagged_ptr":
            # (tagged_ptr, old_ptr, old_tag, new_ptr, new_tag): report old_tag/new_ptr
            a, b = names[1], names[3]
        n += 1
        return m.group(1) + "    ABTI_VERIF_ATOMIC(%d, %d, %s, %s, %s);\n" % (KINDS[kind], w, addr, a, b)
    s = pat.sub(sub, s)
    open(p, "w").write(s)
    print("atomics hooked:", n)


if __name__ == "__main__":
    atomics()
