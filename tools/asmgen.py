"""T0 (assembly): translate src/arch/fcontext/fcontext_x86_64_sysv_elf_gas.S of the tree
under check into Lean instruction lists (ArgoVerif/Gen/Fcontext.lean).

The file is preprocessed with the tree's own abt_config.h (so ABTD_FCONTEXT_PRESERVE_FPU
is what the library is built with), every global routine is parsed into a small
instruction AST (Instr of Model/X86.lean) and emitted as `def <routine> : List Instr`.
Anything the model gives no meaning to -- unknown directive, mnemonic, operand form,
local label, 32-bit register, scaled index, rip-relative operand, `andq` immediate that is
not -(2^k) -- raises AsmError: the model no longer covers the code, which check.py reports.

Every routine is also split at the store of %rsp into the old context and at the load of
%rsp from the new context:
    <r>_save     up to and including  movq %rsp, (%old)
    <r>_restore  from  movq (%new), %rsp  to the end
    <r>_init     what follows the save half when no context is loaded (fresh ULT)
    <r>_between  instructions between the two (none in the unchanged tree)
"""
import os, re, sys
sys.path.insert(0, os.path.dirname(os.path.dirname(os.path.abspath(__file__))))
from vlib import common as C


class AsmError(Exception):
    pass


REGS64 = ["rax", "rbx", "rcx", "rdx", "rsi", "rdi", "rbp", "rsp",
          "r8", "r9", "r10", "r11", "r12", "r13", "r14", "r15"]
# directives that do not emit bytes into the routine and do not change its meaning
DIRECTIVES_OK = {".text", ".globl", ".global", ".type", ".size", ".align", ".p2align", ".section", ".file",
                 ".ident", ".hidden"}


def preprocess(path=None):
    path = path or C.fcontext_asm()
    rc, out = C.sh("gcc -E %s %s" % (C.INC, path))
    if rc != 0:
        raise AsmError("gcc -E failed on %s:\n%s" % (path, out[-2000:]))
    return out


def parse_int(tok, what):
    m = re.fullmatch(r"([+-]?)(0[xX][0-9a-fA-F]+|[0-9]+)", tok)
    if not m:
        raise AsmError("unsupported integer %r in %s" % (tok, what))
    v = int(m.group(2), 0) if m.group(2).lower().startswith("0x") else int(m.group(2), 10)
    if m.group(2).startswith("0") and len(m.group(2)) > 1 and not m.group(2).lower().startswith("0x"):
        v = int(m.group(2), 8)     # gas reads a leading 0 as octal
    return -v if m.group(1) == "-" else v


def parse_operand(tok, line):
    """-> ('reg', r) | ('imm', n) | ('mem', disp, base) | ('ind', r)"""
    tok = tok.strip()
    m = re.fullmatch(r"%(\w+)", tok)
    if m:
        if m.group(1) not in REGS64:
            raise AsmError("unsupported register %r in `%s`" % (tok, line))
        return ("reg", m.group(1))
    m = re.fullmatch(r"\*%(\w+)", tok)
    if m:
        if m.group(1) not in REGS64:
            raise AsmError("unsupported register %r in `%s`" % (tok, line))
        return ("ind", m.group(1))
    m = re.fullmatch(r"\$(\S+)", tok)
    if m:
        return ("imm", parse_int(m.group(1), line))
    m = re.fullmatch(r"([^()\s]*)\(\s*%(\w+)\s*\)", tok)
    if m:
        if m.group(2) not in REGS64:
            raise AsmError("unsupported base register in `%s`" % line)
        disp = parse_int(m.group(1), line) if m.group(1) else 0
        return ("mem", disp, m.group(2))
    raise AsmError("unsupported operand form %r in `%s`" % (tok, line))


def split_operands(s):
    out, depth, cur = [], 0, ""
    for ch in s:
        if ch == "(":
            depth += 1
        elif ch == ")":
            depth -= 1
        if ch == "," and depth == 0:
            out.append(cur)
            cur = ""
        else:
            cur += ch
    if cur.strip():
        out.append(cur)
    return [o.strip() for o in out]


def parse_instr(line):
    """One instruction -> tuple whose first element is the Lean constructor name."""
    parts = line.split(None, 1)
    mn = parts[0]
    ops = [parse_operand(o, line) for o in split_operands(parts[1])] if len(parts) > 1 else []
    kinds = [o[0] for o in ops]

    def bad():
        raise AsmError("unsupported instruction / operand combination: `%s`" % line)

    if mn in ("pushq", "push"):
        if kinds != ["reg"]:
            bad()
        return ("push", ops[0][1])
    if mn in ("popq", "pop"):
        if kinds != ["reg"]:
            bad()
        return ("pop", ops[0][1])
    if mn in ("leaq", "lea"):
        if kinds != ["mem", "reg"]:
            bad()
        return ("lea", ops[0][1], ops[0][2], ops[1][1])
    if mn in ("movq", "mov"):
        if kinds == ["reg", "reg"]:
            return ("movRR", ops[0][1], ops[1][1])
        if kinds == ["reg", "mem"]:
            return ("movRM", ops[0][1], ops[1][1], ops[1][2])
        if kinds == ["mem", "reg"]:
            return ("movMR", ops[0][1], ops[0][2], ops[1][1])
        bad()
    if mn in ("andq", "and"):
        if kinds != ["imm", "reg"]:
            bad()
        imm = ops[0][1]
        if not (imm < 0 and (-imm) & (-imm - 1) == 0 and 2 <= -imm <= 4096):
            raise AsmError("andq immediate %d is not -(2^k), 1<=k<=12: `%s`" % (imm, line))
        return ("andI", imm, ops[1][1])
    if mn in ("stmxcsr", "ldmxcsr", "fnstcw", "fldcw"):
        if kinds != ["mem"]:
            bad()
        return (mn, ops[0][1], ops[0][2])
    if mn in ("callq", "call"):
        if kinds != ["ind"]:
            bad()
        return ("callInd", ops[0][1])
    if mn in ("jmpq", "jmp"):
        if kinds != ["ind"]:
            bad()
        return ("jmpInd", ops[0][1])
    if mn in ("ret", "retq"):
        if ops:
            bad()
        return ("ret",)
    raise AsmError("unknown mnemonic %r in `%s`" % (mn, line))


def parse(text):
    """-> ordered dict name -> [instr tuples]; raises AsmError on anything not understood."""
    globls, routines, cur = set(), {}, None
    sized = set()
    for raw in text.split("\n"):
        line = raw.strip()
        if not line or line.startswith("#"):
            continue
        for stmt in [s.strip() for s in line.split(";")]:
            if not stmt:
                continue
            m = re.fullmatch(r"([A-Za-z_.$][\w.$]*)\s*:\s*(.*)", stmt)
            if m:
                name = m.group(1)
                if name not in globls:
                    raise AsmError("label %r is not a declared global routine (local control flow is not modelled)" % name)
                if name in routines:
                    raise AsmError("label %r defined twice" % name)
                routines[name] = []
                cur = name
                stmt = m.group(2).strip()
                if not stmt:
                    continue
            if stmt.startswith("."):
                d = stmt.split()[0]
                if d not in DIRECTIVES_OK:
                    raise AsmError("unsupported directive `%s`" % stmt)
                if d in (".globl", ".global"):
                    globls.add(stmt.split()[1])
                if d == ".size":
                    nm = stmt.split(None, 1)[1].split(",")[0].strip()
                    if nm != cur:
                        raise AsmError(".size for %r while inside %r" % (nm, cur))
                    sized.add(nm)
                    cur = None
                if d in (".text", ".section") and cur is not None:
                    raise AsmError("section change inside routine %r" % cur)
                continue
            if cur is None:
                raise AsmError("instruction outside any routine: `%s`" % stmt)
            routines[cur].append(parse_instr(stmt))
    for g in globls:
        if g not in routines:
            raise AsmError("global %r declared but not defined" % g)
    for r, ins in routines.items():
        if not ins:
            raise AsmError("routine %r is empty" % r)
        if r not in sized:
            raise AsmError("routine %r has no .size (falls through into the next one?)" % r)
    return routines


def split(ins):
    """-> dict of halves (see module doc)."""
    st = next((i for i, x in enumerate(ins) if x[0] == "movRM" and x[1] == "rsp" and x[2] == 0 and x[3] != "rsp"), None)
    ld = next((i for i, x in enumerate(ins) if x[0] == "movMR" and x[1] == 0 and x[2] != "rsp" and x[3] == "rsp"), None)
    h = {}
    if st is not None and ld is not None and st < ld:
        h["save"], h["restore"] = ins[:st + 1], ins[ld:]
        if ins[st + 1:ld]:
            h["between"] = ins[st + 1:ld]
    elif st is not None and (ld is None or ld > st):
        h["save"], h["init"] = ins[:st + 1], ins[st + 1:]
    elif st is not None:                       # load precedes the store: not a shape the proofs know
        h["save"], h["init"] = ins[:st + 1], ins[st + 1:]
    elif ld == 0:
        h["restore"] = ins
    elif ld is None:
        h["init"] = ins
    return h


def lean_int(n):
    return "(%d)" % n if n < 0 else "%d" % n


def lean_instr(x):
    k = x[0]
    if k in ("push", "pop", "callInd", "jmpInd"):
        return ".%s .%s" % (k, x[1])
    if k == "lea":
        return ".lea %s .%s .%s" % (lean_int(x[1]), x[2], x[3])
    if k == "movRR":
        return ".movRR .%s .%s" % (x[1], x[2])
    if k == "movRM":
        return ".movRM .%s %s .%s" % (x[1], lean_int(x[2]), x[3])
    if k == "movMR":
        return ".movMR %s .%s .%s" % (lean_int(x[1]), x[2], x[3])
    if k == "andI":
        return ".andI %s .%s" % (lean_int(x[1]), x[2])
    if k in ("stmxcsr", "ldmxcsr", "fnstcw", "fldcw"):
        return ".%s %s .%s" % (k, lean_int(x[1]), x[2])
    if k == "ret":
        return ".ret"
    raise AsmError("internal: no Lean form for %r" % (x,))


def lean_list(name, ins):
    if not ins:
        return "def %s : List Instr := []\n" % name
    return "def %s : List Instr := [\n  %s]\n" % (name, ",\n  ".join(lean_instr(i) for i in ins))


def render(routines):
    out = ["/- GENERATED by tools/asmgen.py from src/arch/fcontext/fcontext_x86_64_sysv_elf_gas.S",
           "   (preprocessed with the tree's abt_config.h) on every check run.  Do not edit. -/",
           "import ArgoVerif.Model.X86",
           "namespace ArgoVerif.Gen.Fcontext",
           "open ArgoVerif.Model.X86", ""]
    shapes = {}
    for r, ins in routines.items():
        out.append(lean_list(r, ins))
        h = split(ins)
        shapes[r] = sorted(h)
        for part in ("save", "between", "restore", "init"):
            if part in h:
                out.append(lean_list("%s_%s" % (r, part), h[part]))
    out.append("/-- every global routine of the file, by symbol name (used by `driver x86`) -/")
    out.append("def routines : List (String × List Instr) := [\n  %s]\n" %
               ",\n  ".join('("%s", %s)' % (r, r) for r in routines))
    out.append("end ArgoVerif.Gen.Fcontext\n")
    return "\n".join(out), shapes


def generate():
    routines = parse(preprocess())
    text, shapes = render(routines)
    changed = C.write_if_changed(os.path.join(C.LEAN, "ArgoVerif", "Gen", "Fcontext.lean"), text)
    return {"routines": len(routines), "instrs": sum(len(v) for v in routines.values()),
            "shapes": shapes, "changed": changed}


if __name__ == "__main__":
    print(generate())
