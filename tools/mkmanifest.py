#!/usr/bin/env python3
"""Writes MANIFEST.json from the table below (kept in one place so it stays valid)."""
import json, os
V = os.path.dirname(os.path.dirname(os.path.abspath(__file__)))
props = [json.loads(l) for l in open(os.path.join(V, "properties.jsonl"))]

CLAIMED = {
    # id: (technique, level text, level note, design_ref)
    "C20": ("Lean 4 refinement proof (hashtable -> finite map, all op sequences) + T2 differential execution of the real ABTU_hashtable under ASan/UBSan against the model driver",
            "Theorem htable_refines_map: every set/get/delete sequence on every bucket count reports what a map reports; the model is tied to the code by running both on generated op sequences with canonical bucket dumps.",
            "Trusted: Lean kernel, propext/Quot.sound/Classical.choice, the differential harness; chain nodes modelled as lists. Parsers (atoi/env/affinity) are being added.",
            "DESIGN.md §5 C20"),
    "C04": ("Lean 4 inductive-invariant proof over an interleaving LTS of the mutex's atomic steps (any number of callers, all schedules) + T1 skeleton tie + T3 validation of controlled-scheduler traces of the real code against the model",
            "Theorems mutex_excl, mutex_trylock_iff_free, mutex_no_lost_wakeup_safety, mutex_broadcast_wakes_all, mutex_wake_only_suspended, mutex_recursive_release_at_zero hold for every reachable state of Model.Mutex; every explored execution of the hooked runtime under vsched (random/PCT schedules, ULT+tasklet+external callers, static/recursive mutexes) must be accepted by the model event by event, and monitors + deadlock detection look for concrete failures.",
            "Trusted: Lean kernel; sequential consistency of atomics; vsched/hook/projection machinery (vlib/t3.py); liveness only in safety form + explored schedules; futex wake counting not modelled.",
            "DESIGN.md §5 C04"),
}
NOT_YET = "machinery for this property is not built yet (work in progress; see DESIGN.md §10 build order)"

checks = []
for p in props:
    pid = p["id"]
    if pid in CLAIMED:
        tech, text, note, ref = CLAIMED[pid]
        checks.append({
            "property_id": pid,
            "quick_cmd": "python3 check.py %s --tier quick" % pid,
            "thorough_cmd": "python3 check.py %s --tier thorough" % pid,
            "evidence_file": "/verif/evidence/%s.json" % pid,
            "replay_cmd_template": "python3 check.py %s --replay {path}" % pid,
            "engine": "lean4+ties",
            "level_claimed": {"category": "proof", "text": text, "design_ref": ref},
            "level_note": note,
            "technique": tech,
        })
m = {
    "version": 1,
    "setup_cmd": "python3 setup.py",
    "hooks": {"guard": "ABT_VERIF_HOOKS", "enable": "checks compile /repo/src themselves with -DABT_VERIF_HOOKS (vlib/common.py build_lib('hooks'))",
              "baseline_off_cmd": "make -C /repo -j16 && make -C /repo/test check -j8", "source_commits": [], "add_only": True},
    "engines": [{"name": "lean4+ties", "path": "/verif/check.py", "serves_properties": sorted(CLAIMED),
                 "kind_free_text": "Lean 4 theorems over executable models; models tied to /repo by translators (tools/) and differential / trace correspondence (harness/)"}],
    "checks": checks,
    "not_applicable": [{"property_id": p["id"], "reason": NOT_YET} for p in props if p["id"] not in CLAIMED],
    "notes": "See DESIGN.md. Every check regenerates the Lean sources tied to /repo, rebuilds the theorems, audits axioms and runs the correspondence.",
}
hooks_file = os.path.join(V, "hooks_commits.txt")
if os.path.exists(hooks_file):
    m["hooks"]["source_commits"] = [l.strip() for l in open(hooks_file) if l.strip()]
json.dump(m, open(os.path.join(V, "MANIFEST.json"), "w"), indent=1)
print("claimed", sorted(CLAIMED))
