#!/usr/bin/env python3
"""Writes MANIFEST.json from the table below (kept in one place so it stays valid)."""
import json, os
V = os.path.dirname(os.path.dirname(os.path.abspath(__file__)))
props = [json.loads(l) for l in open(os.path.join(V, "properties.jsonl"))]

CLAIMED = {
    # id: (technique, level text, level note, design_ref)
    "C20": ("Lean 4 refinement proof (hashtable -> finite map, all op sequences) + T2 differential execution of the real ABTU_hashtable under ASan/UBSan against the model driver",
            "Theorem htable_refines_map: every set/get/delete sequence on every bucket count reports what a map reports; the model is tied to the code by running both on generated op sequences with canonical bucket dumps.",
            "Trusted: Lean kernel, propext/Quot.sound/Classical.choice, the differential harness; chain nodes modelled as lists. Parsers (atoi/env/affinity) are being added.",
            "DESIGN.md §5 C20"),
    "C04": ("Lean 4 inductive-invariant proof over an interleaving LTS of the mutex's atomic steps (any number of callers, all schedules) + T1 skeleton tie + T3 validation of controlled-scheduler traces of the real code against the model",
            "Theorems mutex_excl, mutex_trylock_iff_free, mutex_no_lost_wakeup_safety, mutex_broadcast_wakes_all, mutex_wake_only_suspended, mutex_recursive_release_at_zero hold for every reachable state of Model.Mutex; every explored execution of the hooked runtime under vsched (random/PCT schedules, ULT+tasklet+external callers, static/recursive mutexes) must be accepted by the model event by event, and monitors + deadlock detection look for concrete failures.",
            "Trusted: Lean kernel; sequential consistency of atomics; vsched/hook/projection machinery (vlib/t3.py); liveness only in safety form + explored schedules; futex wake counting not modelled.",
            "DESIGN.md §5 C04"),
    "C02": ("Lean 4 symbolic-execution proofs over instruction lists regenerated from fcontext_x86_64_sysv_elf_gas.S on every run (translator tools/asmgen.py) + native differential of the real routines against the Lean x86 interpreter",
            "45 theorems over the generated instruction lists: round trip of callee-saved registers / MXCSR / x87 CW / rsp / return address for every save x restore routine pair, save-before-callback, 16-byte alignment of fresh and saved stacks for every p_stacktop, peek; the instruction semantics and the translator are cross-checked against the CPU by running the tree's assembled routines on random machine states with model-independent canaries. The protocol half (single runner, publish-after-save) is covered by the mutex/wait-list/join models' 'woken only when suspended' theorems and is still being extended.",
            "Trusted: Lean kernel; x86-64 semantics of the ~25 instruction forms in Model/X86.lean (tested against the CPU); SysV ABI obligations of C callbacks as explicit hypotheses; asmgen.py. Not covered: caller-saved/vector state, ucontext and other architectures.",
            "DESIGN.md §5 C02"),
    "C15": ("Lean 4 invariant/refinement proofs (memory-pool partition for all op sequences, stack-geometry arithmetic for all sizes/addresses, tagged-pointer LIFO linearizability for all interleavings) + T2 differential execution of the real ABTI_mem_pool and ULT stack allocation (white-box, ASan; allocation ledger) against the model drivers",
            "Theorems mempool_partition / no_overlap / alloc_fresh / destroy_returns_all, stack_geom_size / free_inverse / disjoint / align, lifo_linearizable / lifo_no_aba; the models are tied to the code by differential runs with canonical chain dumps and by an allocation ledger on real ULT creation/free over every size residue mod 64 and every 8-byte user-stack offset; regression programs for the two repaired defects (F1, F4) run first.",
            "Trusted: Lean kernel; each mem-pool operation modelled as atomic (concurrency only in the LIFO model); OS effects of mmap/huge pages/mprotect exercised, not modelled; 64-bit tag wrap of the LIFO assumed not to occur.",
            "DESIGN.md §5 C15"),
}
NOT_YET = "machinery for this property is not built yet (work in progress; see DESIGN.md §10 build order)"

checks = []
for p in props:
    pid = p["id"]
    if pid in CLAIMED:
        tech, text, note, ref = CLAIMED[pid]
        checks.append({
            "property_id": pid,
            "quick_cmd": "python3 check.py %s --tier quick" % pid,
            "thorough_cmd": "python3 check.py %s --tier thorough" % pid,
            "evidence_file": "/verif/evidence/%s.json" % pid,
            "replay_cmd_template": "python3 check.py %s --replay {path}" % pid,
            "engine": "lean4+ties",
            "level_claimed": {"category": "proof", "text": text, "design_ref": ref},
            "level_note": note,
            "technique": tech,
        })
m = {
    "version": 1,
    "setup_cmd": "python3 setup.py",
    "hooks": {"guard": "ABT_VERIF_HOOKS", "enable": "checks compile /repo/src themselves with -DABT_VERIF_HOOKS (vlib/common.py build_lib('hooks'))",
              "baseline_off_cmd": "make -C /repo -j16 && make -C /repo/test check -j8", "source_commits": [], "add_only": True},
    "engines": [{"name": "lean4+ties", "path": "/verif/check.py", "serves_properties": sorted(CLAIMED),
                 "kind_free_text": "Lean 4 theorems over executable models; models tied to /repo by translators (tools/) and differential / trace correspondence (harness/)"}],
    "checks": checks,
    "not_applicable": [{"property_id": p["id"], "reason": NOT_YET} for p in props if p["id"] not in CLAIMED],
    "notes": "See DESIGN.md. Every check regenerates the Lean sources tied to /repo, rebuilds the theorems, audits axioms and runs the correspondence.",
}
hooks_file = os.path.join(V, "hooks_commits.txt")
if os.path.exists(hooks_file):
    m["hooks"]["source_commits"] = [l.strip() for l in open(hooks_file) if l.strip()]
json.dump(m, open(os.path.join(V, "MANIFEST.json"), "w"), indent=1)
print("claimed", sorted(CLAIMED))
