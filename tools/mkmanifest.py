#!/usr/bin/env python3
"""Writes MANIFEST.json from the table below (kept in one place so it stays valid)."""
import json, os
V = os.path.dirname(os.path.dirname(os.path.abspath(__file__)))
props = [json.loads(l) for l in open(os.path.join(V, "properties.jsonl"))]

CLAIMED = {
    # id: (technique, level text, level note, design_ref)
    "C20": ("Lean 4 refinement proof (hashtable -> finite map, all op sequences) + T2 differential execution of the real ABTU_hashtable under ASan/UBSan against the model driver",
            "Theorem htable_refines_map: every set/get/delete sequence on every bucket count reports what a map reports; the model is tied to the code by running both on generated op sequences with canonical bucket dumps.",
            "Trusted: Lean kernel, propext/Quot.sound/Classical.choice, the differential harness; chain nodes modelled as lists. Parsers (atoi/env/affinity) are being added.",
            "DESIGN.md §5 C20"),
    "C04": ("Lean 4 inductive-invariant proof over an interleaving LTS of the mutex's atomic steps (any number of callers, all schedules) + T1 skeleton tie + T3 validation of controlled-scheduler traces of the real code against the model",
            "Theorems mutex_excl, mutex_trylock_iff_free, mutex_no_lost_wakeup_safety, mutex_broadcast_wakes_all, mutex_wake_only_suspended, mutex_recursive_release_at_zero hold for every reachable state of Model.Mutex; every explored execution of the hooked runtime under vsched (random/PCT schedules, ULT+tasklet+external callers, static/recursive mutexes) must be accepted by the model event by event, and monitors + deadlock detection look for concrete failures.",
            "Trusted: Lean kernel; sequential consistency of atomics; vsched/hook/projection machinery (vlib/t3.py); liveness only in safety form + explored schedules; futex wake counting not modelled.",
            "DESIGN.md §5 C04"),
    "C02": ("Lean 4 symbolic-execution proofs over instruction lists regenerated from fcontext_x86_64_sysv_elf_gas.S on every run (translator tools/asmgen.py) + native differential of the real routines against the Lean x86 interpreter",
            "45 theorems over the generated instruction lists: round trip of callee-saved registers / MXCSR / x87 CW / rsp / return address for every save x restore routine pair, save-before-callback, 16-byte alignment of fresh and saved stacks for every p_stacktop, peek; the instruction semantics and the translator are cross-checked against the CPU by running the tree's assembled routines on random machine states with model-independent canaries. The protocol half (single runner, publish-after-save) is covered by the mutex/wait-list/join models' 'woken only when suspended' theorems and is still being extended.",
            "Trusted: Lean kernel; x86-64 semantics of the ~25 instruction forms in Model/X86.lean (tested against the CPU); SysV ABI obligations of C callbacks as explicit hypotheses; asmgen.py. Not covered: caller-saved/vector state, ucontext and other architectures.",
            "DESIGN.md §5 C02"),
    "C15": ("Lean 4 invariant/refinement proofs (memory-pool partition for all op sequences, stack-geometry arithmetic for all sizes/addresses, tagged-pointer LIFO linearizability for all interleavings) + T2 differential execution of the real ABTI_mem_pool and ULT stack allocation (white-box, ASan; allocation ledger) against the model drivers",
            "Theorems mempool_partition / no_overlap / alloc_fresh / destroy_returns_all, stack_geom_size / free_inverse / disjoint / align, lifo_linearizable / lifo_no_aba; the models are tied to the code by differential runs with canonical chain dumps and by an allocation ledger on real ULT creation/free over every size residue mod 64 and every 8-byte user-stack offset; regression programs for the two repaired defects (F1, F4) run first.",
            "Trusted: Lean kernel; each mem-pool operation modelled as atomic (concurrency only in the LIFO model); OS effects of mmap/huge pages/mprotect exercised, not modelled; 64-bit tag wrap of the LIFO assumed not to occur.",
            "DESIGN.md §5 C15"),
    "C07": ("Lean 4 refinement proof (pointer-level thread_queue ring -> deque, all op sequences; generated pool-end table for FIFO/FIFO_WAIT/RANDWS by translator tools/poolgen.py) + T2 differential execution of thread_queue.h and of the pool API (ASan/UBSan) against the model drivers",
            "Theorems tq_refines_deque, tq_each_pushed_popped_once, tq_fifo_order, tq_size_exact, tq_critical_section, pool_kind_ends (over the table regenerated from fifo.c/fifo_wait.c/randws.c), pool_push_many_order / pop_many_order. The concurrent half (linearizability of critical sections under the pool spinlock / pthread mutex) rests on tq_critical_section plus the lock-exclusion argument and is exercised under the controlled scheduler by the C01/C06 scenarios; a dedicated interleaving model of the lock fast path is future work (partial).",
            "Trusted: Lean kernel; poolgen.py (clang AST); differential harness. Sequential semantics for each critical section; spinlock / pthread mutex+cond exclusion assumed for the concurrent reading.",
            "DESIGN.md §5 C07"),
    "C14": ("Lean 4 refinement + interleaving proofs (unit map with the real hash, lock-free get under concurrent map/unmap; association create/free balance over all legal sequences) + T2 differential execution (white-box unit.c under ASan; API-level user pools with colliding units)",
            "Theorems unitmap_refines_map, unitmap_lockfree_get, assoc_create_free_balance, assoc_no_use_after_free, assoc_failure_rollback, assoc_unit_thread_translation. The last sentence of the property (work units execute exactly once under any user pop order) is checked dynamically here and proved in the C01 model for pools with arbitrary pop choice.",
            "Trusted: Lean kernel; differential harness; sequential consistency for the interleaving model.",
            "DESIGN.md §5 C14"),
    "C16": ("Lean 4 refinement proof (per-unit key table -> map, any size/number of keys, destructor-once, creation race for all interleavings) + T2 differential execution through the public key API with white-box dumps",
            "Theorems ktable_refines_map, ktable_units_independent, ktable_destructor_once, ktable_blocks_freed_once, ktable_revive_keeps_values, ktable_create_race (+ failure path, the repaired F9).",
            "Trusted: Lean kernel; differential harness; concurrent set/get linearizability beyond the creation race not modelled (partial).",
            "DESIGN.md §5 C16"),
    "C17": ("Lean 4 refinement + interleaving proofs (sorted rank list -> partial map for all op sequences; native-thread state machine of abtd_stream.c for all interleavings incl. spurious wake-ups) + T2 differential on the real stream API and controlled schedules of abtd_stream.c",
            "Theorems rank_sorted_distinct, rank_auto_is_mex, rank_request_iff_free, rank_change_iff_free, rank_reusable_after_free, num_eq_length, xs_join_only_waiting, xs_revive_exactly_once, xs_no_lost_wakeup, replace_keeps_caller_running_partial (non-overlapping replacements only: the overlapping case is the open known finding F7, with a decide'd counter-example).",
            "Trusted: Lean kernel; differential harness; pthread mutex/cond as ideal primitives. Known finding F7 (double main-scheduler replacement) is reported as KNOWN-FINDING.",
            "DESIGN.md §5 C17"),
    "C18": ("Lean 4 theorems over goto-programs regenerated from the C error ladders on every run (translator tools/laddergen.py, clang AST) — for every k the k-th acquisition failing leaves the resource ledger balanced — + exhaustive single-fault enumeration on the real code (link-time allocator/pthread interposer, every k of every scenario) with the acquire/release sequence compared to the model",
            "152 theorems ledger_fail_balanced / success_exact / handle_null_or_untouched / preexisting_untouched per translated routine (loops with <= 2 pools are _partial); 104 scenarios x every k enumerated on the real library incl. ABT_init; two defects found and repaired (F10, F11), F9 repaired.",
            "Trusted: Lean kernel; laddergen.py + clang AST; classification table of acquiring/releasing callees (cross-checked by the enumeration); single failures only.",
            "DESIGN.md §5 C18"),
    "C05": ("Lean 4 inductive-invariant proofs over interleaving LTSs (Model.WaitList: the spinlock + wait-list protocol incl. timed waits; Model.Cond on top of it) for any number of callers and all schedules + T1 skeleton tie + T3 validation of controlled-scheduler traces (virtual clock) against Model.Cond, the real pointer list compared with the model's list at every lock release",
            "Theorems cond_atomic_release_wait, cond_waiter_queued_until_woken, cond_no_spurious, cond_returns_holding_mutex, cond_signal_broadcast_exact, cond_signal_at_most_one, cond_wrong_mutex_rejected over every reachable state of Model.Cond; every explored execution of the hooked runtime (ULT + external waiters, timed and untimed, signal/broadcast inside and outside the mutex) must be accepted event by event; monitors (mutex ownership at return, no wake-up without an overlapping signal, deadline respected) and deadlock detection look for concrete failures.",
            "Trusted: Lean kernel; sequential consistency; vsched/hook/projection machinery; the user mutex is atomic in Model.Cond (its protocol is C04); futex wake counting not modelled.",
            "DESIGN.md §5 C05"),
    "C19": ("Lean 4 inductive-invariant proof over Model.WaitList (timed and untimed waiters, ULT and non-ULT, all interleavings, every outcome of each deadline comparison) + T1 skeleton tie (timed wait-list, futex, pool pop_wait/pop_timedwait, basic_wait) + T3 validation of virtual-clock traces, the real wait-list walked at every lock release",
            "Theorems wl_lock_excl, wl_ops_under_lock, timed_out_consumes_no_signal, ready_only_dequeued, timed_success_if_signalled_first, timed_timeout_only_after_deadline, timed_queue_intact, wl_wake_only_suspended. Blocking pool pops are covered by T1 and the pool scenarios; a Lean model of the poll loop and a pointer-level model of the removal code (stale p_prev) are in progress (partial).",
            "Trusted: Lean kernel; sequential consistency; virtual clock semantics of vsched; projection machinery.",
            "DESIGN.md §5 C19"),
    "C08": ("Lean 4 inductive-invariant proofs over an interleaving LTS of ABT_barrier (critical-section granularity with ghost rounds) and of the stream-barrier guard + T1 skeleton tie + T3 validation of controlled-scheduler traces with object snapshots at every lock release",
            "16 theorems incl. barrier_none_early, barrier_all_released, barrier_round_isolation, barrier_reinit, barrier_tasklet_rejected_nochange, xbarrier_guard for every reachable state, any number of callers and rounds; traces of the real barrier (ULT + external waiters, fast re-entry, reinit) must be accepted with the snapshot fields equal to the model state; per-round arrival monitors + deadlock detection.",
            "Trusted: Lean kernel; sequential consistency; pthread_barrier_wait (the build's stream barrier) as an ideal primitive; vsched/projection machinery.",
            "DESIGN.md §5 C08"),
    "C09": ("Lean 4 inductive-invariant proofs over interleaving LTSs of ABT_eventual and ABT_future (ghost epochs / value lists) + T1 skeleton tie + T3 validation of controlled-scheduler traces with object snapshots",
            "24 theorems incl. ev_ready_once, ev_second_set_err_nochange, ev_wait_returns_after_ready_with_value, ev_test_not_early, ev_reset, fut_ready_at_nth, fut_callback_once_before_any_return, fut_extra_set_err, fut_values_all_passed, fut_zero_compartments (documented behaviour: no callback for 0 compartments; see DESIGN).",
            "Trusted: Lean kernel; sequential consistency; vsched/projection machinery.",
            "DESIGN.md §5 C09"),
    "C10": ("Lean 4 inductive-invariant proofs over an interleaving LTS of ABT_rwlock (internal mutex critical sections, reader_count / write_flag, cond wait-list) + T1 skeleton tie of rwlock.c and the mutex / cond / wait-list functions it calls + T3 validation of controlled-scheduler traces (rwlock snapshots at every acquire/release of the internal mutex; embedded mutex and cond validated against Model.Mutex / Model.Cond)",
            "Theorems rw_writer_excl, rw_readers_share, rw_no_stuck_safety, rw_unlock_wakes_all, rw_deadlock_free, rw_blocked_has_cause, rw_tasklet_rejected_nochange for every reachable state and any number of lockers; holder-counter monitors in the scenario; model-independent oracle for every blocking reader/writer.",
            "Trusted: Lean kernel; sequential consistency; vsched/hook/projection machinery; abstraction of the embedded mutex/cond justified by C04/C05 theorems and re-validated on every trace.",
            "DESIGN.md §5 C10"),
    "C01": ('Lean 4 inductive-invariant proofs over Model.Sched (a specification automaton of the work-unit life cycle at the granularity of runtime events, pools as bags, any number of units/pools/streams, all interleavings) + T1 skeleton tie of the scheduling / context-switch / life-cycle functions + T3 validation of controlled-scheduler traces of generated work-unit programs against the model',
            'Theorems once_push_from_unreachable, once_pop_takes_out, once_run_exclusive, once_start_le_one, once_terminated_ran, once_join_after_end, once_units_independent; scenario monitors count starts/finishes/arguments per unit across FIFO/FIFO_WAIT/RANDWS pools, BASIC/BASIC_WAIT/PRIO/RANDWS schedulers, children, unnamed units, tasklets, migration, suspension, cancellation.',
            'Trusted: Lean kernel; sequential consistency; vsched/hook/projection machinery (vlib/t3_sched.py). The model is a specification automaton: its guards state what the scheduling code may do and T3 checks that every explored execution of the real code is accepted; liveness only as deadlock/livelock freedom on explored schedules.',
            'DESIGN.md §5 C01'),
    "C03": ('Lean 4 inductive-invariant proofs over Model.Sched (a specification automaton of the work-unit life cycle at the granularity of runtime events, pools as bags, any number of units/pools/streams, all interleavings) + T1 skeleton tie of the scheduling / context-switch / life-cycle functions + T3 validation of controlled-scheduler traces of generated work-unit programs against the model',
            'Theorems join_ret_after_term, term_store_is_last, join_sees_completed_target, free_once; every join/free in the scenarios is checked (state TERMINATED, function finished, handle reset) and a joiner that is never released is a detected deadlock. The atomic hand-shake on the request word / p_link is tied by T1 and explored dynamically; a dedicated atomic-level Lean model of it is future work (partial).',
            'Trusted: Lean kernel; sequential consistency; vsched/hook/projection machinery (vlib/t3_sched.py). The model is a specification automaton: its guards state what the scheduling code may do and T3 checks that every explored execution of the real code is accepted; liveness only as deadlock/livelock freedom on explored schedules.',
            'DESIGN.md §5 C03'),
    "C06": ('Lean 4 inductive-invariant proofs over Model.Sched (a specification automaton of the work-unit life cycle at the granularity of runtime events, pools as bags, any number of units/pools/streams, all interleavings) + T1 skeleton tie of the scheduling / context-switch / life-cycle functions + T3 validation of controlled-scheduler traces of generated work-unit programs against the model',
            'Theorems blocked_eq_owed, blocked_nonneg, blocked_zero_when_none, blocked_unit_counted, blocked_visible_after_count (incl. the lagging decrement of a resumer); every fetch_add/fetch_sub on num_blocked in the traces is compared with the model counter; ABT_xstream_join/free and ABT_finalize are exercised in every scenario with pool total sizes checked after the join. Defect F3 (suspend with pending migration) was found by this accounting and repaired.',
            'Trusted: Lean kernel; sequential consistency; vsched/hook/projection machinery (vlib/t3_sched.py). The model is a specification automaton: its guards state what the scheduling code may do and T3 checks that every explored execution of the real code is accepted; liveness only as deadlock/livelock freedom on explored schedules.',
            'DESIGN.md §5 C06'),
    "C11": ('Lean 4 inductive-invariant proofs over Model.Sched (a specification automaton of the work-unit life cycle at the granularity of runtime events, pools as bags, any number of units/pools/streams, all interleavings) + T1 skeleton tie of the scheduling / context-switch / life-cycle functions + T3 validation of controlled-scheduler traces of generated work-unit programs against the model',
            'Theorems suspend_not_run_until_resumed, resume_requires_blocked, resume_runs_exactly_once, resume_race_safe, resumed_is_blocked; an external resumer thread resumes units the moment BLOCKED is visible. The directed-switch primitives (yield_to, create_to, suspend_to, resume_yield_to, exit_to ...) are covered by T1 and by the direct blocked->running path of the model; dedicated scenarios for each primitive are future work (partial).',
            'Trusted: Lean kernel; sequential consistency; vsched/hook/projection machinery (vlib/t3_sched.py). The model is a specification automaton: its guards state what the scheduling code may do and T3 checks that every explored execution of the real code is accepted; liveness only as deadlock/livelock freedom on explored schedules.',
            'DESIGN.md §5 C11'),
    "C12": ('Lean 4 inductive-invariant proofs over Model.Sched (a specification automaton of the work-unit life cycle at the granularity of runtime events, pools as bags, any number of units/pools/streams, all interleavings) + T1 skeleton tie of the scheduling / context-switch / life-cycle functions + T3 validation of controlled-scheduler traces of generated work-unit programs against the model',
            'Theorems life_transitions (the exact edge set incl. RUNNING->READY on yield, BLOCKED->RUNNING on directed resume, READY->TERMINATED on cancellation), exit_or_cancel_terminates, cancel_only_at_sched_point, free_once, revive_runs_once_more, terminated_is_frozen.',
            'Trusted: Lean kernel; sequential consistency; vsched/hook/projection machinery (vlib/t3_sched.py). The model is a specification automaton: its guards state what the scheduling code may do and T3 checks that every explored execution of the real code is accepted; liveness only as deadlock/livelock freedom on explored schedules.',
            'DESIGN.md §5 C12'),
    "C13": ('Lean 4 inductive-invariant proofs over Model.Sched (a specification automaton of the work-unit life cycle at the granularity of runtime events, pools as bags, any number of units/pools/streams, all interleavings) + T1 skeleton tie of the scheduling / context-switch / life-cycle functions + T3 validation of controlled-scheduler traces of generated work-unit programs against the model',
            "Theorems mig_push_goes_to_associated, mig_pool_changes_only_by_migration, mig_only_when_requested, mig_still_once; scenario monitors: after a migration request the unit next runs from the target pool, callback exactly once, rejections for the own pool. ABT_thread_migrate's stream selection (defect F2, repaired) is tied by T1.",
            'Trusted: Lean kernel; sequential consistency; vsched/hook/projection machinery (vlib/t3_sched.py). The model is a specification automaton: its guards state what the scheduling code may do and T3 checks that every explored execution of the real code is accepted; liveness only as deadlock/livelock freedom on explored schedules.',
            'DESIGN.md §5 C13'),
}
NOT_YET = "machinery for this property is not built yet (work in progress; see DESIGN.md §10 build order)"

checks = []
for p in props:
    pid = p["id"]
    if pid in CLAIMED:
        tech, text, note, ref = CLAIMED[pid]
        checks.append({
            "property_id": pid,
            "quick_cmd": "python3 check.py %s --tier quick" % pid,
            "thorough_cmd": "python3 check.py %s --tier thorough" % pid,
            "evidence_file": "/verif/evidence/%s.json" % pid,
            "replay_cmd_template": "python3 check.py %s --replay {path}" % pid,
            "engine": "lean4+ties",
            "level_claimed": {"category": "proof", "text": text, "design_ref": ref},
            "level_note": note,
            "technique": tech,
        })
m = {
    "version": 1,
    "setup_cmd": "python3 setup.py",
    "hooks": {"guard": "ABT_VERIF_HOOKS", "enable": "checks compile /repo/src themselves with -DABT_VERIF_HOOKS (vlib/common.py build_lib('hooks'))",
              "baseline_off_cmd": "make -C /repo -j16 && make -C /repo/test check -j8", "source_commits": [], "add_only": True},
    "engines": [{"name": "lean4+ties", "path": "/verif/check.py", "serves_properties": sorted(CLAIMED),
                 "kind_free_text": "Lean 4 theorems over executable models; models tied to /repo by translators (tools/) and differential / trace correspondence (harness/)"}],
    "checks": checks,
    "not_applicable": [{"property_id": p["id"], "reason": NOT_YET} for p in props if p["id"] not in CLAIMED],
    "notes": "See DESIGN.md. Every check regenerates the Lean sources tied to /repo, rebuilds the theorems, audits axioms and runs the correspondence.",
}
hooks_file = os.path.join(V, "hooks_commits.txt")
if os.path.exists(hooks_file):
    m["hooks"]["source_commits"] = [l.strip() for l in open(hooks_file) if l.strip()]
json.dump(m, open(os.path.join(V, "MANIFEST.json"), "w"), indent=1)
print("claimed", sorted(CLAIMED))
