#!/usr/bin/env python3
"""Regenerate the per-property workload table of DESIGN.md §8 from the committed evidence files (quick tier, seed 1).
usage: costtable.py [--write] [thorough-summary-file]   (summary lines: `Cxx rc=0 wall=123s ...`)"""
import json, os, re, sys

V = os.path.dirname(os.path.dirname(os.path.abspath(__file__)))


def extras(pid, c):
    x = []
    if c.get("futex_generation_cases"):
        x.append("%d futex-generation cases (k up to %d)" % (c["futex_generation_cases"], c["futex_generation_max_k"]))
    if c.get("native_recursion_depth_max"):
        x.append("native nesting depth up to %d" % c["native_recursion_depth_max"])
    if c.get("native_read_holds_max"):
        x.append("native read holds up to %d" % c["native_read_holds_max"])
    if c.get("native_set_then_reset_runs"):
        x.append("%d native set-then-reset run(s)" % c["native_set_then_reset_runs"])
    if c.get("native_timed_runs"):
        x.append("%d native timed-wait programs" % c["native_timed_runs"])
    if c.get("faulted_migration_runs"):
        x.append("%d faulted-migration runs" % c["faulted_migration_runs"])
    if c.get("corpus_programs"):
        x.append("%d corpus runs" % c["corpus_programs"])
    if c.get("disagreements_checked"):
        x.append("%d T2 lines" % c["disagreements_checked"])
    for k in sorted(c):
        if k.startswith("open_finding_"):
            x.append("%s %s" % (k[len("open_finding_"):], c[k].split()[0]))
    return x


def rows(thorough):
    out = []
    for i in range(1, 21):
        pid = "C%02d" % i
        e = json.load(open(os.path.join(V, "evidence", pid + ".json")))
        c = e["coverage"]
        dyn = []
        if c.get("runs"):
            dyn.append("%s controlled-scheduler runs, %s traces validated, %s projected events, %s model transitions exercised" % (
                c.get("runs"), c.get("traces_validated_against_impl"), c.get("projected_events"), c.get("model_transitions_exercised")))
        dyn += extras(pid, c)
        out.append("| %s | %s | %s | %s | %.0f s | %s |" % (pid, c.get("obligations"), c.get("t1_functions", "–"), "; ".join(dyn) or "see evidence",
                                                           e.get("wall_s", 0), thorough.get(pid, "–")))
    return out


if __name__ == "__main__":
    th = {}
    for a in sys.argv[1:]:
        if a != "--write" and os.path.exists(a):
            for l in open(a):
                m = re.match(r"(C\d\d) rc=0 wall=(\d+)s", l)
                if m:
                    th[m.group(1)] = m.group(2) + " s"
    head = ["| | obligations (theorems audited) | T1 functions | quick: dynamic part as measured (seed 1) | quick wall | thorough wall (once) |",
            "|---|---|---|---|---|---|"]
    t = "\n".join(head + rows(th))
    if "--write" in sys.argv:
        p = os.path.join(V, "DESIGN.md")
        s = open(p).read()
        s2 = re.sub(r"<!-- COSTTABLE BEGIN -->.*?<!-- COSTTABLE END -->", "<!-- COSTTABLE BEGIN -->\n" + t + "\n<!-- COSTTABLE END -->", s, flags=re.S)
        open(p, "w").write(s2)
    else:
        print(t)
